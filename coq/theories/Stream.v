(* Stream.v — models of the stream front ends (streams.py: PandasStream, NumpyStream, NetcdfStream,
   XarrayStream; config.py: Call.run, QcConfig.run) and the specification "each configured test is
   called on exactly the rows of its context's window".

   The QC test itself is a Section variable: every theorem holds for ANY test function (pointwise,
   neighbour- or time-dependent alike).  `test tid kw rows = None` models a call that raises inside
   Call.run (try/except: no CallResult is produced). *)
From IoosQc Require Import Base.
From Coq Require Import String.
Local Notation length := List.length.

Record rows := {
  rw_inp : list obs;
  rw_tinp : option (list Z);
  rw_zinp : option (list obs);
  rw_lon : option (list obs);
  rw_lat : option (list obs)
}.

Record table := {
  t_n : nat;                                 (* number of rows *)
  t_time : option (list Z);                  (* ns since the epoch *)
  t_z : option (list obs);
  t_lon : option (list obs);
  t_lat : option (list obs);
  t_cols : list (string * list obs);         (* data variables by stream id *)
  t_index : list Z                           (* pandas row labels *)
}.

Section Stream.
  Variables TestId Kw : Type.
  Variable test : TestId -> Kw -> rows -> option (list flag).

  Record call := { cl_stream : string; cl_test : TestId; cl_kw : Kw }.
  Record context := { w_start : option Z; w_end : option Z; cx_calls : list call }.

  (* what a front end yields per (context, call) *)
  Record sres := {
    s_stream : string;
    s_flags : option (list flag);            (* None: the test could not run, no CallResult *)
    s_mask : list bool;                      (* subset_indexes over all input rows *)
    s_rows : rows                            (* what the test was called on *)
  }.

  Inductive srun := SList (l : list sres) | SRaises (e : exn).

  Fixpoint lookup (k : string) (l : list (string * list obs)) : option (list obs) :=
    match l with
    | [] => None
    | (k', v) :: r => if String.eqb k' k then Some v else lookup k r
    end.

  (* rows selected by a boolean mask, in original order *)
  Fixpoint restrict {A} (m : list bool) (l : list A) : list A :=
    match m, l with
    | b :: m', x :: l' => if b then x :: restrict m' l' else restrict m' l'
    | _, _ => []
    end.

  Definition rows_of (tbl : table) (m : list bool) (col : list obs) : rows :=
    {| rw_inp := restrict m col;
       rw_tinp := option_map (restrict m) (t_time tbl);
       rw_zinp := option_map (restrict m) (t_z tbl);
       rw_lon := option_map (restrict m) (t_lon tbl);
       rw_lat := option_map (restrict m) (t_lat tbl) |}.

  Definition run_call (tbl : table) (m : list bool) (c : call) : list sres :=
    match lookup (cl_stream c) (t_cols tbl) with
    | None => []                                        (* stream id absent from the data: skipped *)
    | Some col =>
        let rw := rows_of tbl m col in
        [ {| s_stream := cl_stream c; s_flags := test (cl_test c) (cl_kw c) rw; s_mask := m; s_rows := rw |} ]
    end.

  (* ---------------------------------------------------------------- specification *)

  (* starting <= t < ending, an absent bound being open *)
  Definition in_window (c : context) (t : Z) : bool :=
    (match w_start c with Some s => (s <=? t)%Z | None => true end &&
     match w_end c with Some e => (t <? e)%Z | None => true end)%bool.

  Definition window_mask (tbl : table) (c : context) : list bool :=
    match t_time tbl with
    | Some ts => map (in_window c) ts
    | None => tab (t_n tbl) (fun _ => true)            (* no time axis: window skipped (warning) *)
    end.

  Definition spec_run (cfg : list context) (tbl : table) : srun :=
    SList (flat_map (fun c => flat_map (run_call tbl (window_mask tbl c)) (cx_calls c)) cfg).

  (* ---------------------------------------------------------------- NumpyStream (and NetcdfStream,
     QcConfig.run which delegate to it) *)

  Definition numpy_run (cfg : list context) (tbl : table) : srun :=
    SList (flat_map (fun c => flat_map (run_call tbl (window_mask tbl c)) (cx_calls c)) cfg).

  (* ---------------------------------------------------------------- PandasStream
     the subset is taken by comparing the time column, keeping track of the POSITIONS of the rows kept *)

  Definition labels_selected (tbl : table) (m : list bool) : list Z := restrict m (t_index tbl).

  (* before the repair of F23 the mask was rebuilt from the subset's row LABELS
     (subset_indexes.loc[subset.index] = True): every row sharing a label with a selected row was marked *)
  Definition pandas_mask_by_label (tbl : table) (m : list bool) : list bool :=
    map (fun lab => existsb (Z.eqb lab) (labels_selected tbl m)) (t_index tbl).

  (* now: the positions of the rows kept by the window comparisons (subset_indexes.iloc[subset_rows] = True) *)
  Definition pandas_mask (tbl : table) (m : list bool) : list bool := m.

  Definition run_call_pandas (tbl : table) (m : list bool) (c : call) : list sres :=
    match lookup (cl_stream c) (t_cols tbl) with
    | None => []
    | Some col =>
        let rw := rows_of tbl m col in
        [ {| s_stream := cl_stream c; s_flags := test (cl_test c) (cl_kw c) rw;
             s_mask := pandas_mask tbl m; s_rows := rw |} ]
    end.

  Definition pandas_run (cfg : list context) (tbl : table) : srun :=
    SList (flat_map (fun c => flat_map (run_call_pandas tbl (window_mask tbl c)) (cx_calls c)) cfg).

  (* ---------------------------------------------------------------- XarrayStream
     a label slice on the time coordinate, applied only when BOTH bounds are given, and inclusive at
     both ends (xarray .sel(time=slice(a, b))) *)

  Definition in_window_x (c : context) (t : Z) : bool :=
    match w_start c, w_end c with
    | Some s, Some e => ((s <=? t)%Z && (t <=? e)%Z)%bool
    | _, _ => true
    end.

  Definition window_mask_x (tbl : table) (c : context) : list bool :=
    match t_time tbl with
    | Some ts => map (in_window_x c) ts
    | None => tab (t_n tbl) (fun _ => true)
    end.

  Definition xarray_run (cfg : list context) (tbl : table) : srun :=
    SList (flat_map (fun c => flat_map (run_call tbl (window_mask_x tbl c)) (cx_calls c)) cfg).

  (* ---------------------------------------------------------------- Config.contexts
     the front ends iterate `config.contexts`: the calls grouped by equal context (window and
     region), groups in first-seen order, calls in configuration order inside a group *)

  Definition obound_eqb (a b : option Z) : bool :=
    match a, b with Some x, Some y => Z.eqb x y | None, None => true | _, _ => false end.

  Definition win_eqb (a b : context) : bool :=
    (obound_eqb (w_start a) (w_start b) && obound_eqb (w_end a) (w_end b))%bool.

  Fixpoint add_group (c : context) (gs : list context) : list context :=
    match gs with
    | [] => [c]
    | g :: r =>
        if win_eqb g c
        then {| w_start := w_start g; w_end := w_end g; cx_calls := cx_calls g ++ cx_calls c |} :: r
        else g :: add_group c r
    end.

  Definition group_contexts (cfg : list context) : list context :=
    fold_left (fun gs c => add_group c gs) cfg [].

  (* ---------------------------------------------------------------- faults (C18) *)

  (* a call that yields no CallResult on this table with this window *)
  Definition no_result (tbl : table) (m : list bool) (c : call) : bool :=
    match lookup (cl_stream c) (t_cols tbl) with
    | None => true
    | Some col => is_none (test (cl_test c) (cl_kw c) (rows_of tbl m col))
    end.

  Definition produced (r : srun) : list sres :=
    match r with SList l => filter (fun s => is_some (s_flags s)) l | SRaises _ => [] end.

End Stream.

Arguments cl_stream {TestId Kw}.
Arguments cl_test {TestId Kw}.
Arguments cl_kw {TestId Kw}.
Arguments w_start {TestId Kw}.
Arguments w_end {TestId Kw}.
Arguments cx_calls {TestId Kw}.
