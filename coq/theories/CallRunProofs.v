(* CallRunProofs.v — what the test finally receives: for every name, the passed value if the stream
   passed one, else the configured one, and only names of its signature. *)
From IoosQc Require Import Base CallRun.
From Coq Require Import String.
Local Notation length := List.length.

Section Proofs.
  Variables V R : Type.
  Implicit Types kw configured passed : kwargs V.

  Lemma klookup_kset_same k v kw : klookup k (kset k v kw) = Some v.
  Proof.
    induction kw as [|[k' v'] r IH]; simpl.
    - rewrite String.eqb_refl. reflexivity.
    - destruct (String.eqb k' k) eqn:E; simpl; rewrite E; auto.
  Qed.

  Lemma klookup_kset_other k k' v kw : k' <> k -> klookup k' (kset k v kw) = klookup k' kw.
  Proof.
    intros N. induction kw as [|[k0 v0] r IH]; simpl.
    - destruct (String.eqb_spec k k'); [congruence|reflexivity].
    - destruct (String.eqb_spec k0 k); simpl.
      + subst. destruct (String.eqb_spec k k'); [congruence|reflexivity].
      + destruct (String.eqb k0 k'); auto.
  Qed.

  (* passed wins; otherwise the configured value; otherwise absent *)
  Theorem merge_lookup k configured passed :
    NoDup (map fst passed) ->
    klookup k (merge_kwargs configured passed) =
    match klookup k passed with Some v => Some v | None => klookup k configured end.
  Proof.
    unfold merge_kwargs. revert configured. induction passed as [|[k0 v0] r IH]; intros configured Hnd; simpl.
    - reflexivity.
    - inversion Hnd as [|? ? Hnotin Hnd']; subst. rewrite IH by exact Hnd'.
      destruct (String.eqb_spec k0 k) as [->|N].
      + assert (E : klookup k r = None).
        { clear - Hnotin. induction r as [|[k1 v1] r IH]; simpl; [reflexivity|].
          destruct (String.eqb_spec k1 k) as [->|N]; [exfalso; apply Hnotin; left; reflexivity|].
          apply IH. intros H. apply Hnotin. right. exact H. }
        rewrite E. apply klookup_kset_same.
      + destruct (klookup k r); [reflexivity|]. apply klookup_kset_other. congruence.
  Qed.

  Lemma filter_lookup k sig kw :
    klookup k (filter_sig sig kw) = if kmem k sig then klookup k kw else None.
  Proof.
    unfold filter_sig. induction kw as [|[k0 v0] r IH]; simpl.
    - destruct (kmem k sig); reflexivity.
    - destruct (kmem k0 sig) eqn:E0; simpl.
      + destruct (String.eqb_spec k0 k) as [->|N]; [rewrite E0; reflexivity|exact IH].
      + rewrite IH. destruct (String.eqb_spec k0 k) as [->|N]; [rewrite E0; reflexivity|reflexivity].
  Qed.

  (* names outside the signature never reach the test *)
  Lemma filter_names sig kw : Forall (fun p => kmem (fst p) sig = true) (filter_sig sig kw).
  Proof. unfold filter_sig. apply Forall_forall. intros p Hp. apply filter_In in Hp. tauto. Qed.

  Theorem call_run_receives k sig (f : kwargs V -> option R) configured passed :
    NoDup (map fst passed) ->
    klookup k (filter_sig sig (merge_kwargs configured passed)) =
    if kmem k sig
    then match klookup k passed with Some v => Some v | None => klookup k configured end
    else None.
  Proof. intros H. rewrite filter_lookup, merge_lookup by exact H. reflexivity. Qed.

  (* a raising test yields no result; a returning one exactly one *)
  Theorem call_run_results sig (f : kwargs V -> option R) configured passed :
    call_run sig f configured passed =
    match f (filter_sig sig (merge_kwargs configured passed)) with Some r => [r] | None => [] end.
  Proof. reflexivity. Qed.
End Proofs.
