(* Props_C20.v — C20: generated configs evaluate their limit expressions correctly and statelessly.
   Only statements, `exact <lemma>` and Print Assumptions.
   (statements written out by tools/mk_props.py from the lemmas they restate) *)
From IoosQc Require Import Base Generated Fx FxProofs.
From Coq Require Import String.

(* for ANY value type and arithmetic, EVERY prior stack contents s and every expression tree: evaluating the stack after the expression's postfix symbols were pushed yields the expression's ordinary value and leaves s unread (history independence core) *)
Theorem C20_compile :
  forall (V : Type) (vadd vsub vmul vdiv : V -> V -> V) (vneg : V -> V) 
           (of_lit : string -> V) (stats : stat -> V) (s : list tok) (e : expr),
         evaluate_stack V vadd vsub vmul vdiv vneg of_lit stats (s ++ compile e) =
         Some (denote V vadd vsub vmul vdiv vneg of_lit stats e, s).
Proof. exact (@eval_compile). Qed.
Print Assumptions C20_compile.

(* after any initial stack and any history of well-formed expressions and garbage (failed / rejected parses leaving symbols behind), eval_fx returns the ordinary value of the last expression *)
Theorem C20_history :
  forall (V : Type) (vadd vsub vmul vdiv : V -> V -> V) (vneg : V -> V) 
           (of_lit : string -> V) (stats : stat -> V) (s0 : stack) (h : list step) 
           (e : expr),
         eval_after_history V vadd vsub vmul vdiv vneg of_lit stats s0 h e =
         (Some (denote V vadd vsub vmul vdiv vneg of_lit stats e, after_history s0 h),
          after_history s0 h ++ compile e).
Proof. exact (@eval_history). Qed.
Print Assumptions C20_history.

Theorem C20_history_independent :
  forall (V : Type) (vadd vsub vmul vdiv : V -> V -> V) (vneg : V -> V) 
           (of_lit : string -> V) (stats : stat -> V) (s0 : stack) (h : list step) 
           (s1 : stack) (h' : list step) (e : expr),
         option_map fst (fst (eval_after_history V vadd vsub vmul vdiv vneg of_lit stats s0 h e)) =
         option_map fst (fst (eval_after_history V vadd vsub vmul vdiv vneg of_lit stats s1 h' e)).
Proof. exact (@eval_history_independent). Qed.
Print Assumptions C20_history_independent.

Theorem C20_stack_append_only :
  forall (h : list step) (s0 : stack),
         exists pushed : list tok, after_history s0 h = s0 ++ pushed.
Proof. exact (@after_history_app). Qed.
Print Assumptions C20_stack_append_only.

(* a failing evaluation is never an artefact of the model's fuel *)
Theorem C20_fuel_irrelevant :
  forall (V : Type) (vadd vsub vmul vdiv : V -> V -> V) (vneg : V -> V) 
           (of_lit : string -> V) (stats : stat -> V) (fuel : nat) (s : list tok) 
           (v : V) (r : list tok),
         eval_rev V vadd vsub vmul vdiv vneg of_lit stats fuel (rev s) = Some (v, r) ->
         evaluate_stack V vadd vsub vmul vdiv vneg of_lit stats s = Some (v, rev r).
Proof. exact (@evaluate_stack_complete). Qed.
Print Assumptions C20_fuel_irrelevant.

(* the recursive-descent model of the grammar parses the fully parenthesised printing of every expression tree to exactly its postfix code, for every prior stack *)
Theorem C20_parse_full :
  forall (e : expr) (fuel : nat) (s : stack),
         wf e -> (size e < fuel)%nat -> parse_model fuel (print_full e) s = Some (s ++ compile e, []).
Proof. exact (@parse_print_full). Qed.
Print Assumptions C20_parse_full.

(* the same for minimal parenthesisation: standard precedence, left associativity, unary minus *)
Theorem C20_parse_min :
  forall (e : expr) (fuel : nat) (s : stack),
         wf e -> (size e < fuel)%nat -> parse_model fuel (print_min e) s = Some (s ++ compile e, []).
Proof. exact (@parse_print_min). Qed.
Print Assumptions C20_parse_min.

(* parse then evaluate the printed text = the ordinary value *)
Theorem C20_eval_str :
  forall (V : Type) (vadd vsub vmul vdiv : V -> V -> V) (vneg : V -> V) 
           (of_lit : string -> V) (stats : stat -> V) (full : bool) (e : expr) 
           (fuel : nat) (s : stack),
         wf e ->
         (size e < fuel)%nat ->
         eval_fx_str V vadd vsub vmul vdiv vneg of_lit stats fuel s (print full 0 e) =
         Some (Some (denote V vadd vsub vmul vdiv vneg of_lit stats e, s), s ++ compile e).
Proof. exact (@eval_fx_str_print). Qed.
Print Assumptions C20_eval_str.

Theorem C20_full_min_agree :
  forall (V : Type) (vadd vsub vmul vdiv : V -> V -> V) (vneg : V -> V) 
           (of_lit : string -> V) (stats : stat -> V) (e : expr) (fuel : nat) 
           (s s' : stack),
         wf e ->
         (size e < fuel)%nat ->
         option_map (fun r : option (V * stack) * stack => option_map fst (fst r))
           (eval_fx_str V vadd vsub vmul vdiv vneg of_lit stats fuel s (print_full e)) =
         option_map (fun r : option (V * stack) * stack => option_map fst (fst r))
           (eval_fx_str V vadd vsub vmul vdiv vneg of_lit stats fuel s' (print_min e)).
Proof. exact (@eval_fx_str_full_min). Qed.
Print Assumptions C20_full_min_agree.

(* the instance used in the correspondence computes rational arithmetic; None = zero divisor *)
Theorem C20_Q_sound :
  forall (mn mx me sd : Q) (e : expr) (v : Q),
         wf e ->
         denote QV (olift2 Qplus) (olift2 Qminus) (olift2 Qmult) qv_div (option_map Qopp) lit_value
           (qv_stats mn mx me sd) e = Some v ->
         denote Q Qplus Qminus Qmult Qdiv Qopp q_lit (q_stats mn mx me sd) e = v.
Proof. exact (@qv_denote_sound). Qed.
Print Assumptions C20_Q_sound.

(* the validator accepts exactly the token lists whose tokens are numbers (oracle: Python float()) or in the allowed tables read from the source *)
Theorem C20_validate :
  forall (allowed : list string) (is_number : string -> bool) (spec : list string),
         validate_model allowed is_number spec = true <->
         Forall (fun t : string => is_number t = true \/ In t allowed) spec.
Proof. exact (@validate_iff). Qed.
Print Assumptions C20_validate.

Theorem C20_validate_reject :
  forall (allowed : list string) (is_number : string -> bool) (spec : list string),
         validate_model allowed is_number spec = false <->
         Exists (fun t : string => is_number t = false /\ ~ In t allowed) spec.
Proof. exact (@validate_reject_iff). Qed.
Print Assumptions C20_validate_reject.

(* the allowed tables are exactly the four statistics, the four operators and the two parentheses *)
Theorem C20_vocab :
  forall t : string,
         In t fx_allowed <->
         (exists st : stat, t = stat_name st) \/
         (exists o : binop, t = op_name o) \/ t = "(" \/ t = ")".
Proof. exact (@fx_allowed_vocab). Qed.
Print Assumptions C20_vocab.

Theorem C20_printed_accepted :
  forall (is_number : string -> bool) (full : bool) (e : expr) (p : nat),
         (forall s : string, is_num s = true -> is_number s = true) ->
         wf e -> validate_model fx_allowed is_number (print full p e) = true.
Proof. exact (@print_tokens_allowed). Qed.
Print Assumptions C20_printed_accepted.

(* split_spaces models str.split(' ') *)
Theorem C20_split_join :
  forall ts : list string,
         ts <> [] ->
         Forall (fun t : string => has_space t = false) ts -> split_spaces (join_spaces ts) = ts.
Proof. exact (@split_join). Qed.
Print Assumptions C20_split_join.

Theorem C20_join_split :
  forall s : string, join_spaces (split_spaces s) = s.
Proof. exact (@join_split). Qed.
Print Assumptions C20_join_split.

Theorem C20_tables_stats :
  map stat_name [SMin; SMax; SMean; SStd] = fx_allowed_stats.
Proof. exact (@stat_names_generated). Qed.
Print Assumptions C20_tables_stats.

Theorem C20_tables_ops :
  map op_name [Add; Sub; Mul; Div] = fx_allowed_operators.
Proof. exact (@op_names_generated). Qed.
Print Assumptions C20_tables_ops.

Theorem C20_tables_groupings :
  ["("; ")"] = fx_allowed_groupings.
Proof. exact (@groupings_generated). Qed.
Print Assumptions C20_tables_groupings.

(* the operator table of the evaluator maps each symbol to the right operator *)
Theorem C20_tables_opn :
  forall o : binop, In (op_name o, py_operator o) fx_opn.
Proof. exact (@opn_generated). Qed.
Print Assumptions C20_tables_opn.

