(* SkelP_rate.v — generated flag skeletons of rate_of_change_test and argo.speed_test = models *)
From IoosQc Require Import Base Skel SkelBase Generated Rate.
From Coq Require Import String.
Local Notation length := List.length.
Open Scope string_scope.

(* ------------------------------------------------------------------ rate_of_change_test *)

Definition env_roc (thr : Q) (xs : list obs) (ts : list Z) : env :=
  {| e_arr := bind_arr [("inp", xs); ("roc", roc_rates xs ts)];
     e_num := bind_num [("threshold", Some thr)];
     e_str := (fun _ => None); e_bool := (fun _ => None);
     e_size := length xs |}.

Theorem skel_roc thr xs ts :
  length xs = length ts ->
  roc_model thr xs ts =
  Flags (run_steps (env_roc thr xs ts) skel_rate_of_change_test (all_flags (length xs) GOOD)).
Proof.
  intros Hl. unfold roc_model. rewrite Hl, Nat.eqb_refl. cbn [negb]. rewrite <- Hl.
  (* model and generated skeleton are convertible: same masks, same flags, same order *)
  reflexivity.
Qed.

(* ------------------------------------------------------------------ argo.speed_test *)


Section Speed.
  Variable geod : Q -> Q -> Q -> Q -> Q.

  Definition speed_arr (lon lat : list obs) (ts : list Z) : list obs :=
    tab (length lon) (fun i => if Nat.eqb i 0 then Some 0
                               else option_map (fun d => qabs (d / dsecs ts i)) (getq (speed_dist geod lon lat) i)).

  Definition env_speed (st ft : Q) (lon lat : list obs) (ts : list Z) : env :=
    {| e_arr := bind_arr [("lon", lon); ("lat", lat); ("dist", speed_dist geod lon lat); ("speed", speed_arr lon lat ts)];
       e_num := bind_num [("suspect_threshold", Some st); ("fail_threshold", Some ft)];
       e_str := (fun _ => None); e_bool := (fun _ => None);
       e_size := length lon |}.

  Theorem skel_speed st ft lon lat ts :
    length lon = length lat -> length lon = length ts -> lon <> [] ->
    speed_model geod st ft lon lat ts =
    Flags (run_steps (env_speed st ft lon lat ts) skel_speed_test (all_flags (length lon) GOOD)).
  Proof.
    intros Hl Ht Hne. unfold speed_model. rewrite <- Hl, <- Ht, Nat.eqb_refl. cbn [andb negb].
    assert (Hn0 : Nat.eqb (length lon) 0 = false) by (destruct lon; [congruence|reflexivity]).
    rewrite Hn0.
    unfold skel_speed_test, all_flags. steps.
    change (SNum (2 # 1)) with (SNum (inject_Z (Z.of_nat 2))).
    unfold guards_hold, forallb. rewrite !eval_g_inv, !size_eq0_guard, !size_lt_guard, !andb_true_r.
    cbn [e_size env_speed]. rewrite Hn0. cbn [negb andb].
    assert (P0 : py_index (length lon) 0 = 0%nat) by reflexivity. rewrite P0.
    destruct (Nat.ltb (length lon) 2); cbn [negb]; [reflexivity|].
    f_equal.
  Qed.
End Speed.
