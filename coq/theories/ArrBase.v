(* ArrBase.v — stores and generic facts for the proofs that an array program GENERATED from the source (the
   prog_ definitions of Generated.v) computes exactly the intermediate arrays of a hand-written model. *)
From IoosQc Require Import Base Skel Arr SkelBase Rate.
From Coq Require Import String.
Local Notation length := List.length.
Open Scope string_scope.

Definition bind_store (l : list (string * list obs)) : store :=
  fun s => match find (fun p => String.eqb (fst p) s) l with Some p => Some (of_list (snd p)) | None => None end.

Definition bind_tim (l : list (string * list Z)) (s : string) : option (list Z) :=
  match find (fun p => String.eqb (fst p) s) l with Some p => Some (snd p) | None => None end.

Lemma to_of_list l : to_list (of_list l) = l.
Proof. unfold to_list, of_list, getq. cbn. apply tab_nth_self. Qed.

(* a name bound to a list and not overwritten reads back as that list: the goal is closed by computation *)
Ltac store_arr_of_list_tac := unfold store_arr, upd, bind_store; cbn -[to_list of_list]; rewrite ?to_of_list; reflexivity.

Definition steps_nonzero (ts : list Z) : Prop :=
  forall i, (0 < i < length ts)%nat -> Qeqb (dsecs ts i) 0 = false.

Lemma method_guard en method v :
  e_str en "method" = Some method -> eval_g en (SCmp "==" (SName "method") (SStr v)) = String.eqb method v.
Proof. intros H. cbn. rewrite H. reflexivity. Qed.
