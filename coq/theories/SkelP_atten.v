(* SkelP_atten.v — generated flag skeleton of attenuated_signal_test (range) = model *)
From IoosQc Require Import Base Skel SkelBase Generated Attenuated.
From Coq Require Import String.
Local Notation length := List.length.
Open Scope string_scope.

(* ------------------------------------------------------------------ attenuated_signal_test (range) *)

Definition env_atten (st ft : Q) (xs : list obs) (cv : list (option Q)) : env :=
  {| e_arr := bind_arr [("inp", xs); ("check_val", cv)];
     e_num := bind_num [("suspect_threshold", Some st); ("fail_threshold", Some ft)];
     e_str := (fun _ => None); e_bool := (fun _ => None);
     e_size := length xs |}.

Theorem skel_atten_range st ft xs cv :
  xs <> [] ->
  atten_flags Range st ft xs cv =
  run_steps (env_atten st ft xs cv) skel_attenuated_signal_test (all_flags (length xs) UNKNOWN).
Proof.
  intros Hne. unfold atten_flags, skel_attenuated_signal_test, all_flags. steps.
  unfold guards_hold, forallb. rewrite !eval_g_inv, !size_eq0_guard. cbn [e_size env_atten].
  assert (Hn : Nat.eqb (length xs) 0 = false) by (destruct xs; [congruence|reflexivity]).
  rewrite Hn. cbn [negb andb].
  rewrite !set_where_tab. apply tab_ext. intros i _.
  cbn. unfold missing_at, getq, below, obs in *. destruct (nth i xs None), (nth i cv None); cbn; try reflexivity;
    unfold Qleb, Qltb; repeat match goal with |- context [Qle_bool ?a ?b] => destruct (Qle_bool a b) end; reflexivity.
Qed.
