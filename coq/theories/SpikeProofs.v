(* SpikeProofs.v — spike_test: refinement to the pointwise specification and the laws used by
   C02 (missing), C09, C16 (monotone in thresholds), C17 (shift / negation / reversal / locality). *)
From IoosQc Require Import Base Spike.

Ltac tabs := unfold all_flags; repeat rewrite set_where_tab.

Lemma spike_refines method st ft xs : spike_model method st ft xs = spike_spec method st ft xs.
Proof.
  unfold spike_model, spike_spec. destruct (parse_method method) as [m|]; [|reflexivity].
  destruct xs as [|x0 xs']; [reflexivity|].
  remember (x0 :: xs') as xs eqn:Exs. remember (length xs) as n eqn:En.
  assert (Hn : Nat.eqb n 0 = false) by (subst; reflexivity). rewrite Hn.
  tabs. rewrite !set_at_tab, set_where_tab. f_equal. apply tab_ext. intros i Hi.
  unfold spike_pt. rewrite <- En.
  assert (Hd : getq (spike_diff m xs) i =
               match m with
               | Average =>
                   olift2 (fun x r => qabs (x - r)) (getq xs i)
                     (if (Nat.eqb i 0 || Nat.eqb i (n - 1))%bool then Some 0
                      else olift2 qavg (getq xs (i - 1)) (getq xs (i + 1)))
               | Differential =>
                   if (Nat.eqb i 0 || Nat.eqb i (n - 1))%bool then Some 0
                   else olift2 (fun a b => if Qleb 0 (a * b) then 0 else qmin (qabs a) (qabs b))
                          (olift2 Qminus (getq xs i) (getq xs (i - 1)))
                          (olift2 Qminus (getq xs (i + 1)) (getq xs i))
               end).
  { unfold spike_diff. rewrite <- En. destruct m; rewrite getq_tab by exact Hi; reflexivity. }
  rewrite Hd. clear Hd.
  rewrite (Nat.eqb_sym 0 i), (Nat.eqb_sym (n - 1) i).
  destruct (Nat.eqb i 0) eqn:E0; simpl orb.
  - (* first point *)
    destruct m; simpl.
    + destruct (getq xs i); simpl; [|reflexivity]. destruct (Nat.eqb i (n - 1)); reflexivity.
    + destruct (Nat.eqb i (n - 1)); reflexivity.
  - destruct (Nat.eqb i (n - 1)) eqn:E1.
    + destruct m; simpl; [destruct (getq xs i)|]; reflexivity.
    + destruct m; simpl;
        destruct (getq xs (i - 1)) as [p|], (getq xs i) as [x|], (getq xs (i + 1)) as [s|]; reflexivity.
Qed.

(* ---------------------------------------------------------------- decision list *)

Lemma decide3_fail st ft d : decide3 st ft d = FAIL <-> exists t, ft = Some t /\ t < d.
Proof.
  unfold decide3. destruct ft as [t|].
  - destruct (Qltb_spec t d).
    + split; [intros _; exists t; auto|reflexivity].
    + split.
      * destruct st as [u|]; [destruct (Qltb u d)|]; congruence.
      * intros [t' [E H]]. inversion E; subst. tauto.
  - split.
    + destruct st as [u|]; [destruct (Qltb u d)|]; congruence.
    + intros [t' [E _]]. congruence.
Qed.

Lemma decide3_suspect st ft d :
  decide3 st ft d = SUSPECT <->
  (forall t, ft = Some t -> d <= t) /\ exists u, st = Some u /\ u < d.
Proof.
  unfold decide3. destruct ft as [t|].
  - destruct (Qltb_spec t d).
    + split; [congruence|]. intros [H _]. specialize (H t eq_refl). lra.
    + destruct st as [u|].
      * destruct (Qltb_spec u d).
        -- split; [|reflexivity]. intros _. split; [intros ? E; inversion E; subst; lra|]. exists u; auto.
        -- split; [congruence|]. intros [_ [u' [E H]]]. inversion E; subst. tauto.
      * split; [congruence|]. intros [_ [u' [E _]]]. congruence.
  - destruct st as [u|].
    + destruct (Qltb_spec u d).
      * split; [|reflexivity]. intros _. split; [intros ? E; congruence|]. exists u; auto.
      * split; [congruence|]. intros [_ [u' [E H]]]. inversion E; subst. tauto.
    + split; [congruence|]. intros [_ [u' [E _]]]. congruence.
Qed.

Lemma decide3_good st ft d :
  decide3 st ft d = GOOD <-> (forall t, ft = Some t -> d <= t) /\ (forall u, st = Some u -> d <= u).
Proof.
  unfold decide3. destruct ft as [t|], st as [u|];
    repeat match goal with |- context [Qltb ?a ?b] => destruct (Qltb_spec a b) end;
    (split; [try congruence; intros _; split; intros ? E; inversion E; subst; lra
            | try reflexivity; intros [H1 H2];
              try (specialize (H1 _ eq_refl)); try (specialize (H2 _ eq_refl)); try lra ]).
Qed.

(* a magnitude exactly on a threshold is not a spike *)
Lemma decide3_eq_thr st ft d :
  (forall t, ft = Some t -> d <= t) -> (forall u, st = Some u -> d <= u) -> decide3 st ft d = GOOD.
Proof. intros. apply decide3_good. auto. Qed.

Lemma decide3_evaluated st ft d : not_evaluated (decide3 st ft d) = false.
Proof.
  unfold decide3. destruct (match ft with Some t => Qltb t d | None => false end); [reflexivity|].
  destruct (match st with Some t => Qltb t d | None => false end); reflexivity.
Qed.

Global Instance decide3_Proper st ft : Proper (Qeq ==> eq) (decide3 st ft).
Proof.
  intros a b H. unfold decide3. destruct ft as [t|], st as [u|]; rewrite ?H; reflexivity.
Qed.

(* C16: thresholds not larger (or a threshold added) never give a better flag *)
Lemma decide3_mono st ft st' ft' d :
  thr_le st' st -> thr_le ft' ft -> (sev (decide3 st ft d) <= sev (decide3 st' ft' d))%nat.
Proof.
  unfold thr_le, decide3. intros Hs Hf.
  destruct ft as [t|], ft' as [t'|], st as [u|], st' as [u'|]; try tauto;
    repeat match goal with |- context [Qltb ?a ?b] => destruct (Qltb_spec a b) end;
    simpl; try lia; exfalso; lra.
Qed.

(* ---------------------------------------------------------------- magnitude symmetries *)

Lemma magnitude_shift m c p x s : magnitude m (p + c) (x + c) (s + c) == magnitude m p x s.
Proof.
  destruct m; simpl.
  - apply qabs_Proper. field.
  - assert (E1 : x + c - (p + c) == x - p) by ring.
    assert (E2 : s + c - (x + c) == s - x) by ring.
    assert (Ec : Qleb 0 ((x + c - (p + c)) * (s + c - (x + c))) = Qleb 0 ((x - p) * (s - x)))
      by (rewrite E1, E2; reflexivity).
    rewrite Ec. destruct (Qleb 0 ((x - p) * (s - x))); [reflexivity|]. rewrite E1, E2. reflexivity.
Qed.

Lemma magnitude_neg m p x s : magnitude m (- p) (- x) (- s) == magnitude m p x s.
Proof.
  destruct m; simpl.
  - rewrite <- (qabs_opp (x - (p + s) / 2)). apply qabs_Proper. field.
  - assert (E1 : - x - - p == - (x - p)) by ring.
    assert (E2 : - s - - x == - (s - x)) by ring.
    assert (E3 : - (x - p) * - (s - x) == (x - p) * (s - x)) by ring.
    assert (Ec : Qleb 0 ((- x - - p) * (- s - - x)) = Qleb 0 ((x - p) * (s - x)))
      by (rewrite E1, E2, E3; reflexivity).
    rewrite Ec. destruct (Qleb 0 ((x - p) * (s - x))); [reflexivity|].
    rewrite E1, E2, !qabs_opp. reflexivity.
Qed.

Lemma qmin_comm a b : qmin a b == qmin b a.
Proof. destruct (qmin_case a b) as [[? ->]|[? ->]], (qmin_case b a) as [[? ->]|[? ->]]; lra. Qed.

Lemma magnitude_rev m p x s : magnitude m s x p == magnitude m p x s.
Proof.
  destruct m; simpl.
  - apply qabs_Proper. field.
  - assert (E1 : x - s == - (s - x)) by ring.
    assert (E2 : p - x == - (x - p)) by ring.
    assert (E3 : - (s - x) * - (x - p) == (x - p) * (s - x)) by ring.
    assert (Ec : Qleb 0 ((x - s) * (p - x)) = Qleb 0 ((x - p) * (s - x)))
      by (rewrite E1, E2, E3; reflexivity).
    rewrite Ec. destruct (Qleb 0 ((x - p) * (s - x))); [reflexivity|].
    rewrite E1, E2, !qabs_opp. apply qmin_comm.
Qed.

(* ---------------------------------------------------------------- C02: missing values *)

Definition endpoint (n i : nat) : bool := (Nat.eqb i 0 || Nat.eqb i (n - 1))%bool.

Lemma spike_pt_missing m st ft xs i :
  getq xs i = None ->
  spike_pt m st ft xs i = MISSING \/ (endpoint (length xs) i = true /\ spike_pt m st ft xs i = UNKNOWN).
Proof.
  intros H. unfold spike_pt, endpoint. rewrite H.
  destruct (Nat.eqb i 0 || Nat.eqb i (length xs - 1))%bool.
  - destruct m; auto.
  - left. destruct (getq xs (i - 1)); reflexivity.
Qed.

Lemma spike_pt_missing_only m st ft xs i x :
  getq xs i = Some x -> spike_pt m st ft xs i = MISSING ->
  endpoint (length xs) i = false /\ (getq xs (i - 1) = None \/ getq xs (i + 1) = None).
Proof.
  unfold spike_pt, endpoint. intros H. rewrite H.
  destruct (Nat.eqb i 0 || Nat.eqb i (length xs - 1))%bool.
  - destruct m; discriminate.
  - destruct (getq xs (i - 1)) as [p|]; [|auto].
    destruct (getq xs (i + 1)) as [s|]; [|auto].
    intros E. pose proof (decide3_evaluated st ft (magnitude m p x s)) as N. rewrite E in N. discriminate.
Qed.

(* ---------------------------------------------------------------- C16 *)

Lemma spike_pt_mono m st ft st' ft' xs i :
  thr_le st' st -> thr_le ft' ft ->
  (sev (spike_pt m st ft xs i) <= sev (spike_pt m st' ft' xs i))%nat /\
  not_evaluated (spike_pt m st ft xs i) = not_evaluated (spike_pt m st' ft' xs i).
Proof.
  intros Hs Hf. unfold spike_pt.
  destruct (Nat.eqb i 0 || Nat.eqb i (length xs - 1))%bool.
  - destruct m, (getq xs i); simpl; auto.
  - destruct (getq xs (i - 1)) as [p|], (getq xs i) as [x|], (getq xs (i + 1)) as [s|]; simpl; auto.
    split; [apply decide3_mono; assumption|]. rewrite !decide3_evaluated. reflexivity.
Qed.

(* ---------------------------------------------------------------- C17 *)

Lemma spike_pt_shift m st ft c xs i :
  spike_pt m st ft (map (option_map (fun v => v + c)) xs) i = spike_pt m st ft xs i.
Proof.
  unfold spike_pt, obs in *. rewrite map_length, !getq_map.
  destruct (Nat.eqb i 0 || Nat.eqb i (length xs - 1))%bool.
  - destruct m, (getq xs i); reflexivity.
  - destruct (getq xs (i - 1)) as [p|], (getq xs i) as [x|], (getq xs (i + 1)) as [s|]; simpl; try reflexivity.
    apply decide3_Proper, magnitude_shift.
Qed.

Lemma spike_pt_neg m st ft xs i :
  spike_pt m st ft (map (option_map Qopp) xs) i = spike_pt m st ft xs i.
Proof.
  unfold spike_pt, obs in *. rewrite map_length, !getq_map.
  destruct (Nat.eqb i 0 || Nat.eqb i (length xs - 1))%bool.
  - destruct m, (getq xs i); reflexivity.
  - destruct (getq xs (i - 1)) as [p|], (getq xs i) as [x|], (getq xs (i + 1)) as [s|]; simpl; try reflexivity.
    apply decide3_Proper, magnitude_neg.
Qed.

Lemma spike_pt_rev m st ft xs i :
  (i < length xs)%nat ->
  spike_pt m st ft (rev xs) i = spike_pt m st ft xs (length xs - 1 - i).
Proof.
  intros Hi. unfold spike_pt. rewrite rev_length.
  set (n := length xs) in *.
  assert (E : (Nat.eqb i 0 || Nat.eqb i (n - 1))%bool
              = (Nat.eqb (n - 1 - i) 0 || Nat.eqb (n - 1 - i) (n - 1))%bool).
  { destruct (Nat.eqb_spec i 0), (Nat.eqb_spec i (n - 1)),
             (Nat.eqb_spec (n - 1 - i) 0), (Nat.eqb_spec (n - 1 - i) (n - 1)); simpl; try reflexivity; lia. }
  rewrite <- E. destruct (Nat.eqb i 0 || Nat.eqb i (n - 1))%bool eqn:B.
  - rewrite getq_rev by exact Hi. reflexivity.
  - apply orb_false_iff in B. destruct B as [B0 B1].
    apply Nat.eqb_neq in B0. apply Nat.eqb_neq in B1.
    rewrite !getq_rev by (fold n; lia). fold n.
    replace (n - 1 - (i - 1))%nat with (n - 1 - i + 1)%nat by lia.
    replace (n - 1 - (i + 1))%nat with (n - 1 - i - 1)%nat by lia.
    destruct (getq xs (n - 1 - i - 1)) as [p|], (getq xs (n - 1 - i)) as [x|], (getq xs (n - 1 - i + 1)) as [s|];
      try reflexivity.
    apply decide3_Proper, magnitude_rev.
Qed.

Lemma spike_spec_rev method st ft xs :
  match spike_spec method st ft xs, spike_spec method st ft (rev xs) with
  | Flags a, Flags b => b = rev a
  | Raises e, Raises e' => e = e'
  | _, _ => False
  end.
Proof.
  unfold spike_spec. destruct (parse_method method) as [m|]; [|reflexivity].
  rewrite rev_length, rev_tab. apply tab_ext. intros i Hi. apply spike_pt_rev. exact Hi.
Qed.

(* locality: a change at position k can only alter the flags at k-1, k, k+1 *)
Lemma spike_pt_local m st ft xs ys k i :
  length xs = length ys ->
  (forall j, j <> k -> getq xs j = getq ys j) ->
  i <> k -> (i + 1 <> k)%nat -> (i <> k + 1)%nat ->
  spike_pt m st ft xs i = spike_pt m st ft ys i.
Proof.
  intros Hl Hag H0 H1 H2. unfold spike_pt. rewrite Hl.
  rewrite (Hag i) by exact H0.
  destruct (Nat.eqb i 0 || Nat.eqb i (length ys - 1))%bool eqn:B; [reflexivity|].
  apply orb_false_iff in B. destruct B as [B0 _]. apply Nat.eqb_neq in B0.
  rewrite (Hag (i - 1)%nat) by lia. rewrite (Hag (i + 1)%nat) by lia. reflexivity.
Qed.

Lemma spike_bad_method method st ft xs :
  parse_method method = None -> spike_model method st ft xs = Raises ValueError.
Proof. intros H. unfold spike_model. rewrite H. reflexivity. Qed.
