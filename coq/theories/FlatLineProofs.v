(* FlatLineProofs.v — flat_line_test: refinement of the operational model to the pointwise
   specification on regular whole-second time axes, and the laws used by C11 (characterisation),
   C02 (missing), C16 (monotone in durations / tolerance), C17 (shift / negation / time shift /
   locality). *)
From IoosQc Require Import Base FlatLine.
From Coq Require Import Qround.

Ltac tabs := unfold all_flags; repeat rewrite set_where_tab.

(* ---------------------------------------------------------------- general list facts *)

Lemma tab_const {A} n (c : A) : tab n (fun _ => c) = repeat c n.
Proof.
  induction n as [|n IH]; [reflexivity|]. rewrite tab_S. simpl. f_equal. exact IH.
Qed.

Lemma tab_app {A} n m (f : nat -> A) :
  tab (n + m) f = tab n f ++ tab m (fun j => f (n + j)%nat).
Proof.
  revert f. induction n as [|n IH]; intros f; [reflexivity|].
  simpl plus. rewrite !tab_S. simpl. f_equal. apply IH.
Qed.

Lemma nth_repeat_lt {A} (c d : A) m i : (i < m)%nat -> nth i (repeat c m) d = c.
Proof.
  revert i. induction m as [|m IH]; intros i H; [lia|].
  destruct i as [|i]; [reflexivity|]. simpl. apply IH. lia.
Qed.

Lemma getz_map (f : Z -> Z) ts i : (i < length ts)%nat -> getz (map f ts) i = f (getz ts i).
Proof.
  intros H. unfold getz. rewrite (nth_indep _ 0%Z (f 0%Z)) by (rewrite map_length; exact H).
  apply map_nth.
Qed.

(* ---------------------------------------------------------------- median step of a regular axis *)

Lemma zinsert_repeat c m : zinsert c (repeat c m) = c :: repeat c m.
Proof. destruct m as [|m]; [reflexivity|]. simpl. rewrite Z.leb_refl. reflexivity. Qed.

Lemma zsort_repeat c m : zsort (repeat c m) = repeat c m.
Proof.
  induction m as [|m IH]; [reflexivity|].
  change (zsort (repeat c (S m))) with (zinsert c (zsort (repeat c m))). rewrite IH.
  apply zinsert_repeat.
Qed.

Lemma zmedian_repeat c m : (1 <= m)%nat -> zmedian (repeat c m) = c.
Proof.
  intros Hm. unfold zmedian. rewrite zsort_repeat, repeat_length.
  assert (H2 : (m / 2 < m)%nat) by (apply Nat.div_lt; lia).
  destruct (Nat.even m).
  - rewrite !nth_repeat_lt by lia. replace (c + c)%Z with (c * 2)%Z by lia.
    apply Z.quot_mul. lia.
  - apply nth_repeat_lt. exact H2.
Qed.

Lemma zdiffs_regular d ts : regular_ns d ts -> zdiffs ts = repeat d (length ts - 1).
Proof.
  intros H. unfold zdiffs. rewrite <- tab_const. apply tab_ext. intros i Hi. apply H. lia.
Qed.

Lemma median_step_regular d ts :
  regular_ns d ts -> (2 <= length ts)%nat -> median_step ts = d.
Proof.
  intros H Hn. unfold median_step. rewrite (zdiffs_regular _ _ H).
  apply zmedian_repeat. lia.
Qed.

(* time-shift invariance of the step *)
Lemma zdiffs_shift c ts : zdiffs (map (Z.add c) ts) = zdiffs ts.
Proof.
  unfold zdiffs. rewrite map_length. apply tab_ext. intros i Hi.
  rewrite !getz_map by lia. lia.
Qed.

Lemma median_step_shift c ts : median_step (map (Z.add c) ts) = median_step ts.
Proof. unfold median_step. rewrite zdiffs_shift. reflexivity. Qed.

(* ---------------------------------------------------------------- thresholds -> counts *)

Lemma Qnum_nonneg x : 0 <= x -> (0 <= Qnum x)%Z.
Proof. destruct x as [p q]. unfold Qle. simpl. lia. Qed.

(* int(x) is floor(x) for x >= 0 *)
Lemma qtrunc_nonneg x : 0 <= x -> qtrunc x = Qfloor x.
Proof.
  intros H. apply Qnum_nonneg in H. destruct x as [p q]. unfold qtrunc, Qfloor. simpl in *.
  apply Z.quot_div_nonneg; lia.
Qed.

Lemma step_q_pos d : (0 < d)%Z -> 0 < step_q d.
Proof.
  intros H. unfold step_q. apply Qlt_shift_div_l; [reflexivity|]. rewrite Qmult_0_l.
  change 0 with (inject_Z 0). rewrite <- Zlt_Qlt. exact H.
Qed.

Lemma quot_nonneg thr D : 0 <= thr -> 0 < D -> 0 <= thr / D.
Proof.
  intros Ht HD. unfold Qdiv. apply Qmult_le_0_compat; [exact Ht|].
  apply Qlt_le_weak, Qinv_lt_0_compat, HD.
Qed.

(* the source's count is the property's k, for every positive step (whole seconds or not) *)
Lemma count_of_floor thr d :
  0 <= thr -> (0 < d)%Z -> count_of thr d = Qfloor (thr / step_q d).
Proof.
  intros Ht Hd. unfold count_of. apply qtrunc_nonneg. apply quot_nonneg; [exact Ht|apply step_q_pos; exact Hd].
Qed.

Lemma count_of_nonneg thr d : 0 <= thr -> (0 < d)%Z -> (0 <= count_of thr d)%Z.
Proof.
  intros Ht Hd. rewrite count_of_floor by assumption.
  rewrite <- (Qfloor_Z 0). apply Qfloor_resp_le. apply quot_nonneg; [exact Ht|apply step_q_pos; exact Hd].
Qed.

Lemma count_of_kof thr d : 0 <= thr -> (0 < d)%Z -> Z.to_nat (count_of thr d) = kof thr (step_q d).
Proof. intros Ht Hd. unfold kof. rewrite count_of_floor by assumption. reflexivity. Qed.

(* on whole-second steps, truncating the threshold to whole seconds first would not change the count
   (the code did that before F18 was repaired; kept as a fact about floors) *)
Lemma floor_floor thr D :
  (1 <= D)%Z -> Qfloor (inject_Z (Qfloor thr) / inject_Z D) = Qfloor (thr / inject_Z D).
Proof.
  intros HD. destruct D as [|d|d]; try lia. destruct thr as [p q].
  unfold Qdiv, Qmult, Qinv, inject_Z, Qfloor. simpl.
  rewrite !Z.mul_1_r, Pos2Z.inj_mul. simpl. apply Z.div_div; lia.
Qed.

(* shorter duration, not larger count *)
Lemma kof_mono thr thr' D : 0 < D -> thr' <= thr -> (kof thr' D <= kof thr D)%nat.
Proof.
  intros HD H. unfold kof.
  assert (E : thr' / D <= thr / D).
  { unfold Qdiv. apply Qmult_le_compat_r; [exact H|]. apply Qlt_le_weak, Qinv_lt_0_compat, HD. }
  apply Qfloor_resp_le in E. lia.
Qed.

(* ---------------------------------------------------------------- min / max over a window *)

Lemma fold_omax_none l : fold_right omax None l = None <-> forall v, ~ In (Some v) l.
Proof.
  induction l as [|a l IH]; simpl.
  - split; [intros _ v []|reflexivity].
  - destruct a as [x|]; simpl.
    + split.
      * destruct (fold_right omax None l); discriminate.
      * intros H. exfalso. apply (H x). left. reflexivity.
    + rewrite IH. split.
      * intros H v [E|E]; [discriminate|]. exact (H v E).
      * intros H v E. apply (H v). right. exact E.
Qed.

Lemma fold_omin_none l : fold_right omin None l = None <-> forall v, ~ In (Some v) l.
Proof.
  induction l as [|a l IH]; simpl.
  - split; [intros _ v []|reflexivity].
  - destruct a as [x|]; simpl.
    + split.
      * destruct (fold_right omin None l); discriminate.
      * intros H. exfalso. apply (H x). left. reflexivity.
    + rewrite IH. split.
      * intros H v [E|E]; [discriminate|]. exact (H v E).
      * intros H v E. apply (H v). right. exact E.
Qed.

(* the fold returns a greatest present element *)
Lemma fold_omax_some l M :
  fold_right omax None l = Some M -> In (Some M) l /\ forall v, In (Some v) l -> v <= M.
Proof.
  revert M. induction l as [|a l IH]; simpl; intros M H; [discriminate|].
  destruct a as [x|]; simpl in H.
  - destruct (fold_right omax None l) as [y|] eqn:E.
    + destruct (IH y eq_refl) as [Hin Hub]. inversion H; subst M. clear H.
      destruct (qmax_case x y) as [[Hc ->]|[Hc ->]].
      * split; [right; exact Hin|]. intros v [Ev|Ev]; [inversion Ev; subst; exact Hc|auto].
      * split; [left; reflexivity|]. intros v [Ev|Ev]; [inversion Ev; subst; lra|].
        specialize (Hub v Ev). lra.
    + inversion H; subst M. split; [left; reflexivity|].
      intros v [Ev|Ev]; [inversion Ev; subst; lra|].
      exfalso. exact (proj1 (fold_omax_none l) E v Ev).
  - destruct (IH M H) as [Hin Hub]. split; [right; exact Hin|].
    intros v [Ev|Ev]; [discriminate|auto].
Qed.

(* the fold returns a least present element *)
Lemma fold_omin_some l m :
  fold_right omin None l = Some m -> In (Some m) l /\ forall v, In (Some v) l -> m <= v.
Proof.
  revert m. induction l as [|a l IH]; simpl; intros m H; [discriminate|].
  destruct a as [x|]; simpl in H.
  - destruct (fold_right omin None l) as [y|] eqn:E.
    + destruct (IH y eq_refl) as [Hin Hlb]. inversion H; subst m. clear H.
      destruct (qmin_case x y) as [[Hc ->]|[Hc ->]].
      * split; [left; reflexivity|]. intros v [Ev|Ev]; [inversion Ev; subst; lra|].
        specialize (Hlb v Ev). lra.
      * split; [right; exact Hin|]. intros v [Ev|Ev]; [inversion Ev; subst; lra|auto].
    + inversion H; subst m. split; [left; reflexivity|].
      intros v [Ev|Ev]; [inversion Ev; subst; lra|].
      exfalso. exact (proj1 (fold_omin_none l) E v Ev).
  - destruct (IH m H) as [Hin Hlb]. split; [right; exact Hin|].
    intros v [Ev|Ev]; [discriminate|auto].
Qed.

Lemma in_window xs lo k (o : obs) :
  In o (window xs lo k) <-> exists j, (j <= k)%nat /\ getq xs (lo + j) = o.
Proof.
  unfold window, tab. rewrite in_map_iff. split.
  - intros [j [E Hj]]. apply in_seq in Hj. exists j. split; [lia|exact E].
  - intros [j [Hj E]]. exists j. split; [exact E|]. apply in_seq. lia.
Qed.

(* wmax is the largest present value of the window, wmin the smallest; None iff all missing *)
Lemma wmax_spec xs lo k M :
  wmax xs lo k = Some M ->
  (exists j, (j <= k)%nat /\ getq xs (lo + j) = Some M) /\
  (forall j v, (j <= k)%nat -> getq xs (lo + j) = Some v -> v <= M).
Proof.
  intros H. apply fold_omax_some in H. destruct H as [Hin Hub]. split.
  - apply in_window. exact Hin.
  - intros j v Hj E. apply Hub. apply in_window. exists j. auto.
Qed.

Lemma wmin_spec xs lo k m :
  wmin xs lo k = Some m ->
  (exists j, (j <= k)%nat /\ getq xs (lo + j) = Some m) /\
  (forall j v, (j <= k)%nat -> getq xs (lo + j) = Some v -> m <= v).
Proof.
  intros H. apply fold_omin_some in H. destruct H as [Hin Hlb]. split.
  - apply in_window. exact Hin.
  - intros j v Hj E. apply Hlb. apply in_window. exists j. auto.
Qed.

Lemma wmax_none xs lo k :
  wmax xs lo k = None <-> forall j, (j <= k)%nat -> getq xs (lo + j) = None.
Proof.
  unfold wmax. rewrite fold_omax_none. split.
  - intros H j Hj. destruct (getq xs (lo + j)) as [v|] eqn:E; [|reflexivity].
    exfalso. apply (H v). apply in_window. exists j. auto.
  - intros H v Hin. apply in_window in Hin. destruct Hin as [j [Hj E]]. rewrite (H j Hj) in E. discriminate.
Qed.

Lemma wmin_none xs lo k :
  wmin xs lo k = None <-> forall j, (j <= k)%nat -> getq xs (lo + j) = None.
Proof.
  unfold wmin. rewrite fold_omin_none. split.
  - intros H j Hj. destruct (getq xs (lo + j)) as [v|] eqn:E; [|reflexivity].
    exfalso. apply (H v). apply in_window. exists j. auto.
  - intros H v Hin. apply in_window in Hin. destruct Hin as [j [Hj E]]. rewrite (H j Hj) in E. discriminate.
Qed.

(* min and max are missing together *)
Lemma wmin_wmax_none xs lo k : wmin xs lo k = None <-> wmax xs lo k = None.
Proof. rewrite wmin_none, wmax_none. tauto. Qed.

(* |max - min| = max - min: the source's np.abs is the identity *)
Lemma wrange_wspan xs lo k : wrange xs lo k = wspan xs lo k.
Proof.
  unfold wrange, wspan.
  destruct (wmax xs lo k) as [M|] eqn:EM; [|reflexivity].
  destruct (wmin xs lo k) as [m|] eqn:Em; [|reflexivity]. simpl.
  destruct (wmin_spec _ _ _ _ Em) as [[j [Hj Ej]] _].
  destruct (wmax_spec _ _ _ _ EM) as [_ Hub]. specialize (Hub j m Hj Ej).
  unfold qabs. destruct (Qleb_spec 0 (M - m)); [reflexivity|]. exfalso. lra.
Qed.

(* ---------------------------------------------------------------- the flat-line predicate *)

(* j lies in the window of k+1 points ending at i *)
Definition in_win (k i j : nat) : Prop := (i - k <= j <= i)%nat.

(* i >= k, some value of the window is present, and any two present values of the window differ
   by less than the tolerance (equivalently: largest - smallest < tolerance, flat_hit_span) *)
Definition flatP (k : nat) (tol : Q) (xs : list obs) (i : nat) : Prop :=
  (k <= i)%nat /\
  (exists j v, in_win k i j /\ getq xs j = Some v) /\
  (forall j1 j2 u v, in_win k i j1 -> in_win k i j2 ->
                     getq xs j1 = Some u -> getq xs j2 = Some v -> u - v < tol).

Lemma flat_hit_iff k tol xs i : flat_hit k tol xs i = true <-> flatP k tol xs i.
Proof.
  unfold flat_hit, flatP, in_win. rewrite andb_true_iff, Nat.leb_le. split.
  - intros [Hk H]. split; [exact Hk|]. unfold flat_lt, wspan in H.
    destruct (wmax xs (i - k) k) as [M|] eqn:EM; [|discriminate].
    destruct (wmin xs (i - k) k) as [m|] eqn:Em; [|discriminate].
    simpl in H. apply Qltb_true in H.
    destruct (wmax_spec _ _ _ _ EM) as [[jM [HjM EjM]] Hub].
    destruct (wmin_spec _ _ _ _ Em) as [_ Hlb]. split.
    + exists (i - k + jM)%nat, M. split; [lia|exact EjM].
    + intros j1 j2 u v H1 H2 E1 E2.
      assert (Hu : u <= M).
      { apply (Hub (j1 - (i - k))%nat); [lia|]. replace (i - k + (j1 - (i - k)))%nat with j1 by lia. exact E1. }
      assert (Hv : m <= v).
      { apply (Hlb (j2 - (i - k))%nat); [lia|]. replace (i - k + (j2 - (i - k)))%nat with j2 by lia. exact E2. }
      lra.
  - intros [Hk [[j [v [Hj Ev]]] Hall]]. split; [exact Hk|]. unfold flat_lt, wspan.
    destruct (wmax xs (i - k) k) as [M|] eqn:EM.
    + destruct (wmin xs (i - k) k) as [m|] eqn:Em.
      * simpl. apply Qltb_true.
        destruct (wmax_spec _ _ _ _ EM) as [[jM [HjM EjM]] _].
        destruct (wmin_spec _ _ _ _ Em) as [[jm [Hjm Ejm]] _].
        apply (Hall (i - k + jM)%nat (i - k + jm)%nat); try lia; assumption.
      * exfalso. apply wmin_wmax_none in Em. congruence.
    + exfalso. pose proof (proj1 (wmax_none _ _ _) EM (j - (i - k))%nat) as E.
      replace (i - k + (j - (i - k)))%nat with j in E by lia. rewrite E in Ev by lia. discriminate.
Qed.

(* the same decision phrased with the largest and the smallest present value *)
Lemma flat_hit_span k tol xs i :
  flat_hit k tol xs i = true <->
  (k <= i)%nat /\ exists M m, wmax xs (i - k) k = Some M /\ wmin xs (i - k) k = Some m /\ M - m < tol.
Proof.
  unfold flat_hit, flat_lt, wspan. rewrite andb_true_iff, Nat.leb_le.
  destruct (wmax xs (i - k) k) as [M|], (wmin xs (i - k) k) as [m|]; simpl.
  - rewrite Qltb_true. split.
    + intros [H1 H2]. split; [exact H1|]. exists M, m. auto.
    + intros [H1 [M' [m' [E1 [E2 H]]]]]. inversion E1; inversion E2; subst. auto.
  - split; [intros [_ H]; discriminate|]. intros [_ [M' [m' [_ [E _]]]]]. discriminate.
  - split; [intros [_ H]; discriminate|]. intros [_ [M' [m' [E _]]]]. discriminate.
  - split; [intros [_ H]; discriminate|]. intros [_ [M' [m' [E _]]]]. discriminate.
Qed.

(* ---------------------------------------------------------------- run_test as an index comprehension *)

(* count > len: no windows, len leading False; count <= len: count leading False, then one
   entry per window, the window ending at i sitting at position i *)
Lemma run_test_tab tol xs c :
  run_test tol xs c = tab (length xs) (fun i => flat_hit c tol xs i).
Proof.
  unfold run_test, rolling_ranges. set (n := length xs).
  destruct (Nat.ltb_spec n c) as [H|H].
  - rewrite Nat.min_l by lia. simpl. rewrite app_nil_r, <- tab_const. apply tab_ext.
    intros i Hi. unfold flat_hit. destruct (Nat.leb_spec c i); [lia|reflexivity].
  - rewrite Nat.min_r by exact H. rewrite map_tab.
    transitivity (tab (c + (n - c)) (fun i => flat_hit c tol xs i)); [|f_equal; lia].
    rewrite tab_app. f_equal.
    + rewrite <- tab_const. apply tab_ext. intros i Hi. unfold flat_hit.
      destruct (Nat.leb_spec c i); [lia|reflexivity].
    + apply tab_ext. intros j Hj. unfold flat_hit.
      destruct (Nat.leb_spec c (c + j)); [|lia]. simpl.
      replace (c + j - c)%nat with j by lia. rewrite wrange_wspan. reflexivity.
Qed.

(* ---------------------------------------------------------------- refinement *)

(* fewer than three points: the test is not run; GOOD for present, MISSING for missing points,
   whatever the times and parameters *)
Lemma flat_short st ft tol xs ts :
  (length xs < 3)%nat ->
  flat_model st ft tol xs ts = Flags (tab (length xs) (fun i => if missing_at xs i then MISSING else GOOD)).
Proof.
  intros H. unfold flat_model. destruct (Nat.ltb_spec (length xs) 3); [|lia]. tabs. reflexivity.
Qed.

Lemma flat_short_no_flag st ft tol xs ts l :
  (length xs < 3)%nat -> flat_model st ft tol xs ts = Flags l -> ~ In SUSPECT l /\ ~ In FAIL l.
Proof.
  intros H E. rewrite flat_short in E by exact H. inversion E; subst l.
  unfold tab. split; intros Hin; apply in_map_iff in Hin; destruct Hin as [j [Hj _]];
    destruct (missing_at xs j); discriminate.
Qed.

(* C11 on its domain: regular axis with ANY positive step d (nanoseconds; D = d / 10^9 seconds, whole or
   fractional, sub-second included), non-negative durations, any length. *)
Theorem flat_refines d st ft tol xs ts :
  regular_ns d ts -> (0 < d)%Z -> length ts = length xs ->
  0 <= st -> 0 <= ft ->
  flat_model st ft tol xs ts = flat_spec (step_q d) st ft tol xs.
Proof.
  intros Hreg HD Hlen Hst Hft.
  destruct (Nat.ltb_spec (length xs) 3) as [Hn|Hn].
  - rewrite flat_short by exact Hn. unfold flat_spec. f_equal. apply tab_ext. intros i Hi.
    unfold flat_flag, short_pt, missing_at.
    destruct (Nat.ltb_spec (length xs) 3); [|lia]. destruct (getq xs i); reflexivity.
  - unfold flat_model, flat_spec.
    destruct (Nat.ltb_spec (length xs) 3) as [H|_]; [lia|].
    rewrite (median_step_regular d ts Hreg) by lia.
    destruct (Z.eqb_spec d 0) as [H|_]; [lia|].
    pose proof (count_of_nonneg st d Hst HD) as Hcs. pose proof (count_of_nonneg ft d Hft HD) as Hcf.
    destruct (Z.ltb_spec (count_of st d) 0) as [H|_]; [lia|].
    destruct (Z.ltb_spec (count_of ft d) 0) as [H|_]; [lia|]. simpl orb. cbv iota.
    rewrite !count_of_kof by assumption. rewrite !run_test_tab. tabs.
    f_equal. apply tab_ext. intros i Hi. unfold flat_flag, flat_pt, flat_ptk, missing_at.
    destruct (Nat.ltb_spec (length xs) 3); [lia|].
    destruct (getq xs i); reflexivity.
Qed.

(* whole seconds: the step in seconds is the integer *)
Lemma step_q_whole D : step_q (D * NS) == inject_Z D.
Proof.
  unfold step_q. rewrite inject_Z_mult. field. unfold NS. discriminate.
Qed.

(* the witnesses of the former deviation F18 (step floored to whole seconds): step 1.5 s, suspect duration 3 s:
   k = floor(3 / 1.5) = 2, and a sub-second step 0.25 s on which the code used to divide by zero *)
Example flat_fractional_ok :
  flat_model 3 100 (1 # 2) [Some 1; Some 1; Some 1; Some 1] [0; 1500000000; 3000000000; 4500000000]%Z
  = Flags [GOOD; GOOD; SUSPECT; SUSPECT].
Proof. vm_compute. reflexivity. Qed.

Example flat_subsecond_ok :
  flat_model (1 # 2) 1 (1 # 2) [Some 1; Some 1; Some 1; Some 1; Some 1] [0; 250000000; 500000000; 750000000; 1000000000]%Z
  = Flags [GOOD; GOOD; SUSPECT; SUSPECT; FAIL].
Proof. vm_compute. reflexivity. Qed.

(* ---------------------------------------------------------------- decision list (C11) *)

Lemma flat_pt_missing D st ft tol xs i : flat_pt D st ft tol xs i = MISSING <-> getq xs i = None.
Proof.
  unfold flat_pt, flat_ptk. destruct (getq xs i) as [x|]; [|tauto].
  destruct (flat_hit (kof ft D) tol xs i); [split; discriminate|].
  destruct (flat_hit (kof st D) tol xs i); split; discriminate.
Qed.

Lemma flat_pt_fail D st ft tol xs i :
  flat_pt D st ft tol xs i = FAIL <-> (exists x, getq xs i = Some x) /\ flatP (kof ft D) tol xs i.
Proof.
  rewrite <- flat_hit_iff. unfold flat_pt, flat_ptk. destruct (getq xs i) as [x|].
  - destruct (flat_hit (kof ft D) tol xs i).
    + split; [intros _; split; [exists x|]; reflexivity|reflexivity].
    + destruct (flat_hit (kof st D) tol xs i); (split; [discriminate|intros [_ H]; discriminate]).
  - split; [discriminate|]. intros [[x E] _]. discriminate.
Qed.

Lemma flat_pt_suspect D st ft tol xs i :
  flat_pt D st ft tol xs i = SUSPECT <->
  (exists x, getq xs i = Some x) /\ ~ flatP (kof ft D) tol xs i /\ flatP (kof st D) tol xs i.
Proof.
  rewrite <- !flat_hit_iff. unfold flat_pt, flat_ptk. destruct (getq xs i) as [x|].
  - destruct (flat_hit (kof ft D) tol xs i).
    + split; [discriminate|]. intros [_ [H _]]. exfalso. apply H. reflexivity.
    + destruct (flat_hit (kof st D) tol xs i).
      * split; [|reflexivity]. intros _. split; [exists x; reflexivity|]. split; [discriminate|reflexivity].
      * split; [discriminate|]. intros [_ [_ H]]. discriminate.
  - split; [discriminate|]. intros [[x E] _]. discriminate.
Qed.

Lemma flat_pt_good D st ft tol xs i :
  flat_pt D st ft tol xs i = GOOD <->
  (exists x, getq xs i = Some x) /\ ~ flatP (kof ft D) tol xs i /\ ~ flatP (kof st D) tol xs i.
Proof.
  rewrite <- !flat_hit_iff. unfold flat_pt, flat_ptk. destruct (getq xs i) as [x|].
  - destruct (flat_hit (kof ft D) tol xs i).
    + split; [discriminate|]. intros [_ [H _]]. exfalso. apply H. reflexivity.
    + destruct (flat_hit (kof st D) tol xs i).
      * split; [discriminate|]. intros [_ [_ H]]. exfalso. apply H. reflexivity.
      * split; [|reflexivity]. intros _. split; [exists x; reflexivity|]. split; discriminate.
  - split; [discriminate|]. intros [[x E] _]. discriminate.
Qed.

(* points before the first full window are never flagged *)
Lemma flatP_early k tol xs i : (i < k)%nat -> ~ flatP k tol xs i.
Proof. intros H [Hk _]. lia. Qed.

(* a window longer than the whole series never flags *)
Lemma flat_hit_long k tol xs i : (length xs <= k)%nat -> (i < length xs)%nat -> flat_hit k tol xs i = false.
Proof. intros H Hi. unfold flat_hit. destruct (Nat.leb_spec k i); [lia|reflexivity]. Qed.

(* duration shorter than one step (k = 0): the window is the point itself; flagged iff 0 < tol *)
Lemma flatP_zero tol xs i x : getq xs i = Some x -> (flatP 0 tol xs i <-> 0 < tol).
Proof.
  intros E. unfold flatP, in_win. split.
  - intros [_ [_ H]]. specialize (H i i x x). rewrite E in H.
    assert (x - x < tol) by (apply H; try reflexivity; lia). lra.
  - intros H. split; [lia|]. split.
    + exists i, x. split; [lia|exact E].
    + intros j1 j2 u v H1 H2 E1 E2. assert (j1 = i) by lia. assert (j2 = i) by lia. subst j1 j2.
      rewrite E in E1, E2. inversion E1; inversion E2; subst. lra.
Qed.

(* ---------------------------------------------------------------- C02: missing values *)

Lemma flat_pt_missing_point D st ft tol xs i : getq xs i = None -> flat_pt D st ft tol xs i = MISSING.
Proof. apply flat_pt_missing. Qed.

Lemma flat_pt_present D st ft tol xs i x : getq xs i = Some x -> flat_pt D st ft tol xs i <> MISSING.
Proof. intros E H. apply flat_pt_missing in H. congruence. Qed.

Lemma flat_pt_evaluated D st ft tol xs i :
  not_evaluated (flat_pt D st ft tol xs i) = is_none (getq xs i).
Proof.
  unfold flat_pt, flat_ptk. destruct (getq xs i); [|reflexivity].
  destruct (flat_hit (kof ft D) tol xs i); [reflexivity|].
  destruct (flat_hit (kof st D) tol xs i); reflexivity.
Qed.

(* ---------------------------------------------------------------- C16: monotonicity *)

(* min / max over window inclusion: a shorter trailing window has a smaller max, a larger min
   and hence a smaller span *)
Lemma wmax_incl xs i k k' M M' :
  (k' <= k)%nat -> (k <= i)%nat ->
  wmax xs (i - k') k' = Some M' -> wmax xs (i - k) k = Some M -> M' <= M.
Proof.
  intros Hk Hi E' E.
  destruct (wmax_spec _ _ _ _ E') as [[j [Hj Ej]] _].
  destruct (wmax_spec _ _ _ _ E) as [_ Hub].
  apply (Hub (i - k' + j - (i - k))%nat); [lia|].
  replace (i - k + (i - k' + j - (i - k)))%nat with (i - k' + j)%nat by lia. exact Ej.
Qed.

Lemma wmin_incl xs i k k' m m' :
  (k' <= k)%nat -> (k <= i)%nat ->
  wmin xs (i - k') k' = Some m' -> wmin xs (i - k) k = Some m -> m <= m'.
Proof.
  intros Hk Hi E' E.
  destruct (wmin_spec _ _ _ _ E') as [[j [Hj Ej]] _].
  destruct (wmin_spec _ _ _ _ E) as [_ Hlb].
  apply (Hlb (i - k' + j - (i - k))%nat); [lia|].
  replace (i - k + (i - k' + j - (i - k)))%nat with (i - k' + j)%nat by lia. exact Ej.
Qed.

Lemma wspan_incl xs i k k' r r' :
  (k' <= k)%nat -> (k <= i)%nat ->
  wspan xs (i - k') k' = Some r' -> wspan xs (i - k) k = Some r -> r' <= r.
Proof.
  intros Hk Hi. unfold wspan.
  destruct (wmax xs (i - k') k') as [M'|] eqn:EM'; [|discriminate].
  destruct (wmin xs (i - k') k') as [m'|] eqn:Em'; [|discriminate].
  destruct (wmax xs (i - k) k) as [M|] eqn:EM; [|discriminate].
  destruct (wmin xs (i - k) k) as [m|] eqn:Em; [|discriminate].
  simpl. intros E' E. inversion E'; inversion E; subst.
  pose proof (wmax_incl _ _ _ _ _ _ Hk Hi EM' EM). pose proof (wmin_incl _ _ _ _ _ _ Hk Hi Em' Em). lra.
Qed.

(* at a present point: a shorter window and a larger tolerance flag at least as much *)
Lemma flatP_mono k k' tol tol' xs i x :
  getq xs i = Some x -> (k' <= k)%nat -> tol <= tol' -> flatP k tol xs i -> flatP k' tol' xs i.
Proof.
  unfold flatP, in_win. intros E Hk Ht [Hi [_ Hall]]. split; [lia|]. split.
  - exists i, x. split; [lia|exact E].
  - intros j1 j2 u v H1 H2 E1 E2.
    assert (u - v < tol) by (apply (Hall j1 j2); try lia; assumption). lra.
Qed.

Lemma flat_pt_mono D st ft tol st' ft' tol' xs i :
  0 < D -> st' <= st -> ft' <= ft -> tol <= tol' ->
  (sev (flat_pt D st ft tol xs i) <= sev (flat_pt D st' ft' tol' xs i))%nat /\
  not_evaluated (flat_pt D st ft tol xs i) = not_evaluated (flat_pt D st' ft' tol' xs i).
Proof.
  intros HD Hs Hf Ht. split; [|rewrite !flat_pt_evaluated; reflexivity].
  pose proof (kof_mono st st' D HD Hs) as Ks. pose proof (kof_mono ft ft' D HD Hf) as Kf.
  unfold flat_pt, flat_ptk. destruct (getq xs i) as [x|] eqn:E; [|simpl; lia].
  destruct (flat_hit (kof ft D) tol xs i) eqn:F.
  - apply flat_hit_iff in F. apply (flatP_mono _ _ _ _ _ _ _ E Kf Ht) in F.
    apply flat_hit_iff in F. rewrite F. simpl. lia.
  - destruct (flat_hit (kof st D) tol xs i) eqn:S.
    + apply flat_hit_iff in S. apply (flatP_mono _ _ _ _ _ _ _ E Ks Ht) in S.
      apply flat_hit_iff in S. rewrite S.
      destruct (flat_hit (kof ft' D) tol' xs i); simpl; lia.
    + destruct (flat_hit (kof ft' D) tol' xs i); [simpl; lia|].
      destruct (flat_hit (kof st' D) tol' xs i); simpl; lia.
Qed.

(* ---------------------------------------------------------------- C17: symmetries, locality *)

(* the decision at i depends only on the values inside its window *)
Lemma flatP_ext k tol xs ys i :
  (forall j, in_win k i j -> getq xs j = getq ys j) -> flatP k tol xs i -> flatP k tol ys i.
Proof.
  intros Hag [Hi [[j [v [Hj Ev]]] Hall]]. split; [exact Hi|]. split.
  - exists j, v. split; [exact Hj|]. rewrite <- (Hag j Hj). exact Ev.
  - intros j1 j2 u w H1 H2 E1 E2. apply (Hall j1 j2); try assumption.
    + rewrite (Hag j1 H1). exact E1.
    + rewrite (Hag j2 H2). exact E2.
Qed.

Lemma flat_hit_ext k tol xs ys i :
  (forall j, in_win k i j -> getq xs j = getq ys j) -> flat_hit k tol xs i = flat_hit k tol ys i.
Proof.
  intros Hag. apply eq_true_iff_eq. rewrite !flat_hit_iff. split; apply flatP_ext.
  - exact Hag.
  - intros j Hj. symmetry. apply Hag. exact Hj.
Qed.

Lemma flat_pt_ext D st ft tol xs ys i :
  (forall j, (i - Nat.max (kof st D) (kof ft D) <= j <= i)%nat -> getq xs j = getq ys j) ->
  flat_pt D st ft tol xs i = flat_pt D st ft tol ys i.
Proof.
  intros Hag. unfold flat_pt, flat_ptk. rewrite <- (Hag i) by lia.
  rewrite (flat_hit_ext (kof ft D) tol xs ys i) by (unfold in_win; intros j Hj; apply Hag; lia).
  rewrite (flat_hit_ext (kof st D) tol xs ys i) by (unfold in_win; intros j Hj; apply Hag; lia).
  reflexivity.
Qed.

(* locality: changing the value at position c alone can only alter the flags at the positions
   whose (longer) trailing window contains c *)
Lemma flat_pt_local D st ft tol xs ys c i :
  (forall j, j <> c -> getq xs j = getq ys j) ->
  ~ (i - Nat.max (kof st D) (kof ft D) <= c <= i)%nat ->
  flat_pt D st ft tol xs i = flat_pt D st ft tol ys i.
Proof.
  intros Hag Hc. apply flat_pt_ext. intros j Hj. apply Hag. lia.
Qed.

Lemma flatP_map_iff (f : Q -> Q) k tol tol' xs i :
  (forall u v, f u - f v < tol' <-> u - v < tol) ->
  flatP k tol' (map (option_map f) xs) i <-> flatP k tol xs i.
Proof.
  intros Hf. unfold flatP. split; intros [Hi [[j [v [Hj Ev]]] Hall]]; (split; [exact Hi|]); split.
  - rewrite getq_map in Ev. destruct (getq xs j) as [w|] eqn:E; [|discriminate].
    exists j, w. auto.
  - intros j1 j2 u w H1 H2 E1 E2. apply Hf. apply (Hall j1 j2); try assumption;
      rewrite getq_map; [rewrite E1|rewrite E2]; reflexivity.
  - exists j, (f v). split; [exact Hj|]. rewrite getq_map, Ev. reflexivity.
  - intros j1 j2 u w H1 H2 E1 E2. rewrite getq_map in E1, E2.
    destruct (getq xs j1) as [u0|] eqn:F1; [|discriminate].
    destruct (getq xs j2) as [w0|] eqn:F2; [|discriminate].
    simpl in E1, E2. inversion E1; inversion E2; subst. apply Hf. apply (Hall j1 j2); assumption.
Qed.

(* adding a constant to every value *)
Lemma flat_pt_shift D st ft tol c xs i :
  flat_pt D st ft tol (map (option_map (fun v => v + c)) xs) i = flat_pt D st ft tol xs i.
Proof.
  assert (H : forall k, flat_hit k tol (map (option_map (fun v => v + c)) xs) i = flat_hit k tol xs i).
  { intros k. apply eq_true_iff_eq. rewrite !flat_hit_iff. apply flatP_map_iff.
    intros u v. split; intros; lra. }
  unfold flat_pt, flat_ptk. rewrite getq_map, !H. destruct (getq xs i); reflexivity.
Qed.

(* negating every value: the window range is symmetric *)
Lemma flatP_neg k tol xs i : flatP k tol (map (option_map Qopp) xs) i <-> flatP k tol xs i.
Proof.
  unfold flatP. split; intros [Hi [[j [v [Hj Ev]]] Hall]]; (split; [exact Hi|]); split.
  - rewrite getq_map in Ev. destruct (getq xs j) as [w|] eqn:E; [|discriminate]. exists j, w. auto.
  - intros j1 j2 u w H1 H2 E1 E2.
    assert (- w - - u < tol).
    { apply (Hall j2 j1); try assumption; rewrite getq_map; [rewrite E2|rewrite E1]; reflexivity. }
    lra.
  - exists j, (- v). split; [exact Hj|]. rewrite getq_map, Ev. reflexivity.
  - intros j1 j2 u w H1 H2 E1 E2. rewrite getq_map in E1, E2.
    destruct (getq xs j1) as [u0|] eqn:F1; [|discriminate].
    destruct (getq xs j2) as [w0|] eqn:F2; [|discriminate].
    simpl in E1, E2. inversion E1; inversion E2; subst.
    assert (w0 - u0 < tol) by (apply (Hall j2 j1); assumption). lra.
Qed.

Lemma flat_pt_neg D st ft tol xs i :
  flat_pt D st ft tol (map (option_map Qopp) xs) i = flat_pt D st ft tol xs i.
Proof.
  assert (H : forall k, flat_hit k tol (map (option_map Qopp) xs) i = flat_hit k tol xs i).
  { intros k. apply eq_true_iff_eq. rewrite !flat_hit_iff. apply flatP_neg. }
  unfold flat_pt, flat_ptk. rewrite getq_map, !H. destruct (getq xs i); reflexivity.
Qed.

(* scaling values and tolerance by a positive factor (change of unit) *)
Lemma flat_pt_scale D st ft tol a xs i :
  0 < a ->
  flat_pt D st ft (a * tol) (map (option_map (fun v => a * v)) xs) i = flat_pt D st ft tol xs i.
Proof.
  intros Ha.
  assert (H : forall k, flat_hit k (a * tol) (map (option_map (fun v => a * v)) xs) i = flat_hit k tol xs i).
  { intros k. apply eq_true_iff_eq. rewrite !flat_hit_iff. apply flatP_map_iff.
    intros u v. split; intros; nra. }
  unfold flat_pt, flat_ptk. rewrite getq_map, !H. destruct (getq xs i); reflexivity.
Qed.

(* shifting every time stamp leaves the whole result unchanged (model level: any axis) *)
Lemma flat_model_time_shift st ft tol xs ts c :
  flat_model st ft tol xs (map (Z.add c) ts) = flat_model st ft tol xs ts.
Proof. unfold flat_model. rewrite median_step_shift. reflexivity. Qed.

Lemma regular_ns_shift d ts c : regular_ns d ts -> regular_ns d (map (Z.add c) ts).
Proof.
  intros H i Hi. rewrite map_length in Hi. rewrite !getz_map by lia. specialize (H i Hi). lia.
Qed.

(* equal tolerances / thresholds up to == give equal flags *)
Lemma flat_pt_Proper D st ft tol tol' xs i :
  tol == tol' -> flat_pt D st ft tol xs i = flat_pt D st ft tol' xs i.
Proof.
  intros H.
  assert (E : forall k, flat_hit k tol xs i = flat_hit k tol' xs i).
  { intros k. unfold flat_hit, flat_lt. destruct (wspan xs (i - k) k); simpl; [|reflexivity].
    rewrite H. reflexivity. }
  unfold flat_pt, flat_ptk. rewrite !E. reflexivity.
Qed.

(* ---------------------------------------------------------------- the laws for any length *)

(* flat_flag n = the flag of the specification in a series of n points (n < 3: test not run) *)

Lemma short_pt_missing xs i : short_pt xs i = MISSING <-> getq xs i = None.
Proof. unfold short_pt. destruct (getq xs i); [split; discriminate|tauto]. Qed.

Lemma flat_flag_short n D st ft tol xs i : (n < 3)%nat -> flat_flag n D st ft tol xs i = short_pt xs i.
Proof. intros H. unfold flat_flag. destruct (Nat.ltb_spec n 3); [reflexivity|lia]. Qed.

Lemma flat_flag_long n D st ft tol xs i : (3 <= n)%nat -> flat_flag n D st ft tol xs i = flat_pt D st ft tol xs i.
Proof. intros H. unfold flat_flag. destruct (Nat.ltb_spec n 3); [lia|reflexivity]. Qed.

(* series shorter than three points are never flagged SUSPECT or FAIL *)
Lemma flat_flag_short_good n D st ft tol xs i x :
  (n < 3)%nat -> getq xs i = Some x -> flat_flag n D st ft tol xs i = GOOD.
Proof. intros H E. rewrite flat_flag_short by exact H. unfold short_pt. rewrite E. reflexivity. Qed.

(* C02 *)
Lemma flat_flag_missing n D st ft tol xs i : flat_flag n D st ft tol xs i = MISSING <-> getq xs i = None.
Proof.
  unfold flat_flag. destruct (n <? 3)%nat; [apply short_pt_missing|apply flat_pt_missing].
Qed.

Lemma flat_flag_evaluated n D st ft tol xs i :
  not_evaluated (flat_flag n D st ft tol xs i) = is_none (getq xs i).
Proof.
  unfold flat_flag. destruct (n <? 3)%nat; [|apply flat_pt_evaluated].
  unfold short_pt. destruct (getq xs i); reflexivity.
Qed.

(* C16 *)
Lemma flat_flag_mono n D st ft tol st' ft' tol' xs i :
  0 < D -> st' <= st -> ft' <= ft -> tol <= tol' ->
  (sev (flat_flag n D st ft tol xs i) <= sev (flat_flag n D st' ft' tol' xs i))%nat /\
  not_evaluated (flat_flag n D st ft tol xs i) = not_evaluated (flat_flag n D st' ft' tol' xs i).
Proof.
  intros HD Hs Hf Ht. unfold flat_flag. destruct (n <? 3)%nat; [split; [lia|reflexivity]|].
  apply flat_pt_mono; assumption.
Qed.

(* C17 *)
Lemma flat_flag_shift n D st ft tol c xs i :
  flat_flag n D st ft tol (map (option_map (fun v => v + c)) xs) i = flat_flag n D st ft tol xs i.
Proof.
  unfold flat_flag. destruct (n <? 3)%nat; [|apply flat_pt_shift].
  unfold short_pt. rewrite getq_map. destruct (getq xs i); reflexivity.
Qed.

Lemma flat_flag_neg n D st ft tol xs i :
  flat_flag n D st ft tol (map (option_map Qopp) xs) i = flat_flag n D st ft tol xs i.
Proof.
  unfold flat_flag. destruct (n <? 3)%nat; [|apply flat_pt_neg].
  unfold short_pt. rewrite getq_map. destruct (getq xs i); reflexivity.
Qed.

Lemma flat_flag_local n D st ft tol xs ys c i :
  (forall j, j <> c -> getq xs j = getq ys j) ->
  ~ (i - Nat.max (kof st D) (kof ft D) <= c <= i)%nat ->
  flat_flag n D st ft tol xs i = flat_flag n D st ft tol ys i.
Proof.
  intros Hag Hc. unfold flat_flag. destruct (n <? 3)%nat; [|apply (flat_pt_local _ _ _ _ _ _ c); assumption].
  unfold short_pt. rewrite (Hag i) by lia. reflexivity.
Qed.

(* the whole specification under value shift / negation *)
Lemma flat_spec_shift D st ft tol c xs :
  flat_spec D st ft tol (map (option_map (fun v => v + c)) xs) = flat_spec D st ft tol xs.
Proof.
  unfold flat_spec. rewrite map_length. f_equal. apply tab_ext. intros i _. apply flat_flag_shift.
Qed.

Lemma flat_spec_neg D st ft tol xs :
  flat_spec D st ft tol (map (option_map Qopp) xs) = flat_spec D st ft tol xs.
Proof.
  unfold flat_spec. rewrite map_length. f_equal. apply tab_ext. intros i _. apply flat_flag_neg.
Qed.

(* ---------------------------------------------------------------- any time axis (model level) *)

(* whatever the time axis: when the median step D (whole seconds) is not 0 and both counts are
   non-negative, the model is the pointwise decision with window lengths count_of thr D *)
Lemma flat_model_pointwise st ft tol xs ts :
  (3 <= length xs)%nat -> median_step ts <> 0%Z ->
  (0 <= count_of st (median_step ts))%Z -> (0 <= count_of ft (median_step ts))%Z ->
  flat_model st ft tol xs ts =
  Flags (tab (length xs)
           (flat_ptk (Z.to_nat (count_of st (median_step ts))) (Z.to_nat (count_of ft (median_step ts))) tol xs)).
Proof.
  intros Hn HD Hs Hf. unfold flat_model.
  destruct (Nat.ltb_spec (length xs) 3) as [H|_]; [lia|].
  destruct (Z.eqb_spec (median_step ts) 0) as [H|_]; [congruence|].
  destruct (Z.ltb_spec (count_of st (median_step ts)) 0) as [H|_]; [lia|].
  destruct (Z.ltb_spec (count_of ft (median_step ts)) 0) as [H|_]; [lia|]. simpl orb. cbv iota.
  rewrite !run_test_tab. tabs. f_equal. apply tab_ext. intros i Hi. unfold flat_ptk, missing_at.
  destruct (getq xs i); reflexivity.
Qed.

(* a negative count (negative duration, or decreasing time axis) is rejected *)
Lemma flat_model_negative st ft tol xs ts :
  (3 <= length xs)%nat -> median_step ts <> 0%Z ->
  (count_of st (median_step ts) < 0 \/ count_of ft (median_step ts) < 0)%Z ->
  flat_model st ft tol xs ts = Raises ValueError.
Proof.
  intros Hn HD Hc. unfold flat_model.
  destruct (Nat.ltb_spec (length xs) 3) as [H|_]; [lia|].
  destruct (Z.eqb_spec (median_step ts) 0) as [H|_]; [congruence|].
  destruct (Z.ltb_spec (count_of st (median_step ts)) 0) as [H|H]; [reflexivity|].
  destruct (Z.ltb_spec (count_of ft (median_step ts)) 0) as [H'|H']; [reflexivity|]. lia.
Qed.

(* C02 at model level, any time axis, any length: whenever flags are returned the MISSING ones
   are exactly the missing inputs *)
Lemma flat_model_missing st ft tol xs ts l i :
  flat_model st ft tol xs ts = Flags l -> (i < length xs)%nat ->
  (nth i l GOOD = MISSING <-> getq xs i = None).
Proof.
  intros E Hi. unfold flat_model in E.
  destruct (Nat.ltb_spec (length xs) 3) as [H|_].
  - revert E. tabs. intros E. inversion E; subst l. clear E.
    rewrite nth_tab by exact Hi. unfold missing_at.
    destruct (getq xs i) as [x|]; simpl; [split; discriminate|tauto].
  - destruct (median_step ts =? 0)%Z; [discriminate|].
    destruct ((count_of st (median_step ts) <? 0)%Z || (count_of ft (median_step ts) <? 0)%Z)%bool; [discriminate|].
    rewrite !run_test_tab in E. revert E. tabs. intros E. inversion E; subst l. clear E.
    rewrite nth_tab by exact Hi. unfold missing_at.
    destruct (getq xs i) as [x|]; simpl; [|tauto].
    destruct (flat_hit _ tol xs i); [split; discriminate|].
    destruct (flat_hit _ tol xs i); split; discriminate.
Qed.

(* the result has one flag per input point *)
Lemma flat_model_length st ft tol xs ts l :
  flat_model st ft tol xs ts = Flags l -> length l = length xs.
Proof.
  unfold flat_model. destruct (length xs <? 3)%nat.
  - intros E. inversion E. rewrite set_where_length. unfold all_flags. apply tab_length.
  - destruct (median_step ts =? 0)%Z; [discriminate|].
    destruct ((count_of st (median_step ts) <? 0)%Z || (count_of ft (median_step ts) <? 0)%Z)%bool; [discriminate|].
    intros E. inversion E. rewrite !set_where_length. unfold all_flags. apply tab_length.
Qed.

(* worked examples (checked against the implementation by the correspondence harness) *)
Example flat_ex1 :
  flat_model 2 4 (1 # 2) [Some 1; Some (5 # 4); Some (3 # 2); Some (3 # 2)]
             [0; 2000000000; 4000000000; 6000000000]%Z
  = Flags [GOOD; SUSPECT; SUSPECT; FAIL].
Proof. vm_compute. reflexivity. Qed.
Example flat_ex2 :
  flat_model 1 2 (1 # 2) [Some 1; None; Some 1; None; None]
             [0; 1000000000; 2000000000; 3000000000; 4000000000]%Z
  = Flags [GOOD; MISSING; FAIL; MISSING; MISSING].
Proof. vm_compute. reflexivity. Qed.
