(* Props_C17.v — C17: flags ignore value/time offsets and depend only on the local neighbourhood.
   Only statements, `exact <lemma>` and Print Assumptions.
   (statements written out by tools/mk_props.py from the lemmas they restate) *)
From IoosQc Require Import Base Generated Range RangeProofs Spike SpikeProofs Rate RateProofs Location LocationProofs Density DensityProofs FlatLine FlatLineProofs Attenuated AttenuatedProofs Calendar Climatology ClimatologyProofs.


(* adding a constant to all values: spike *)
Theorem C17_spike_shift :
  forall (m : spike_method) (st ft : option Q) (c : Q) (xs : list (option Q)) (i : nat),
         spike_pt m st ft (map (option_map (fun v : Q => v + c)) xs) i = spike_pt m st ft xs i.
Proof. exact (@spike_pt_shift). Qed.
Print Assumptions C17_spike_shift.

(* negating all values: spike *)
Theorem C17_spike_neg :
  forall (m : spike_method) (st ft : option Q) (xs : list (option Q)) (i : nat),
         spike_pt m st ft (map (option_map Qopp) xs) i = spike_pt m st ft xs i.
Proof. exact (@spike_pt_neg). Qed.
Print Assumptions C17_spike_neg.

(* reversing a series reverses the spike flags *)
Theorem C17_spike_rev :
  forall (method : String.string) (st ft : option Q) (xs : list obs),
         match spike_spec method st ft xs with
         | Flags a =>
             match spike_spec method st ft (rev xs) with
             | Flags b => b = rev a
             | Raises _ => False
             end
         | Raises e =>
             match spike_spec method st ft (rev xs) with
             | Flags _ => False
             | Raises e' => e = e'
             end
         end.
Proof. exact (@spike_spec_rev). Qed.
Print Assumptions C17_spike_rev.

(* changing observation k only affects spike flags k-1, k, k+1 *)
Theorem C17_spike_local :
  forall (m : spike_method) (st ft : option Q) (xs ys : list obs) (k i : nat),
         length xs = length ys ->
         (forall j : nat, j <> k -> getq xs j = getq ys j) ->
         i <> k ->
         (i + 1)%nat <> k -> i <> (k + 1)%nat -> spike_pt m st ft xs i = spike_pt m st ft ys i.
Proof. exact (@spike_pt_local). Qed.
Print Assumptions C17_spike_local.

(* rate of change: value shift *)
Theorem C17_roc_shift :
  forall (thr c : Q) (xs : list (option Q)) (ts : list Z) (i : nat),
         roc_pt thr (map (option_map (fun v : Q => v + c)) xs) ts i = roc_pt thr xs ts i.
Proof. exact (@roc_pt_shift). Qed.
Print Assumptions C17_roc_shift.

Theorem C17_roc_neg :
  forall (thr : Q) (xs : list (option Q)) (ts : list Z) (i : nat),
         roc_pt thr (map (option_map Qopp) xs) ts i = roc_pt thr xs ts i.
Proof. exact (@roc_pt_neg). Qed.
Print Assumptions C17_roc_neg.

(* rate of change: shifting all timestamps *)
Theorem C17_roc_tshift :
  forall (thr : Q) (c : Z) (xs : list obs) (ts : list Z) (i : nat),
         (i < length ts)%nat ->
         roc_pt thr xs (map (fun t : Z => (t + c)%Z) ts) i = roc_pt thr xs ts i.
Proof. exact (@roc_pt_tshift). Qed.
Print Assumptions C17_roc_tshift.

(* the point and its successor *)
Theorem C17_roc_local :
  forall (thr : Q) (xs ys : list obs) (ts : list Z) (k i : nat),
         (forall j : nat, j <> k -> getq xs j = getq ys j) ->
         i <> k -> i <> (k + 1)%nat -> roc_pt thr xs ts i = roc_pt thr ys ts i.
Proof. exact (@roc_pt_local). Qed.
Print Assumptions C17_roc_local.

(* flat line: value shift *)
Theorem C17_flat_shift :
  forall (n : nat) (D st ft tol c : Q) (xs : list (option Q)) (i : nat),
         flat_flag n D st ft tol (map (option_map (fun v : Q => v + c)) xs) i =
         flat_flag n D st ft tol xs i.
Proof. exact (@flat_flag_shift). Qed.
Print Assumptions C17_flat_shift.

Theorem C17_flat_neg :
  forall (n : nat) (D st ft tol : Q) (xs : list (option Q)) (i : nat),
         flat_flag n D st ft tol (map (option_map Qopp) xs) i = flat_flag n D st ft tol xs i.
Proof. exact (@flat_flag_neg). Qed.
Print Assumptions C17_flat_neg.

(* flat line: shifting all timestamps leaves the whole result unchanged (any axis) *)
Theorem C17_flat_tshift :
  forall (st ft tol : Q) (xs : list obs) (ts : list Z) (c : Z),
         flat_model st ft tol xs (map (Z.add c) ts) = flat_model st ft tol xs ts.
Proof. exact (@flat_model_time_shift). Qed.
Print Assumptions C17_flat_tshift.

(* flat line: only the points whose trailing window contains k *)
Theorem C17_flat_local :
  forall (n : nat) (D st ft tol : Q) (xs ys : list obs) (c i : nat),
         (forall j : nat, j <> c -> getq xs j = getq ys j) ->
         ~ (i - Nat.max (kof st D) (kof ft D) <= c <= i)%nat ->
         flat_flag n D st ft tol xs i = flat_flag n D st ft tol ys i.
Proof. exact (@flat_flag_local). Qed.
Print Assumptions C17_flat_local.

(* attenuated signal: value shift (variance and range are translation invariant) *)
Theorem C17_atten_shift :
  forall (ct : check_type) (st ft : Q) (period : option Z) (minp : Z) 
           (c : Q) (xs : list (option Q)) (ts : list Z) (i : nat),
         atten_pt ct st ft period minp (map (option_map (fun v : Q => v + c)) xs) ts i =
         atten_pt ct st ft period minp xs ts i.
Proof. exact (@atten_pt_shift). Qed.
Print Assumptions C17_atten_shift.

Theorem C17_atten_neg :
  forall (ct : check_type) (st ft : Q) (period : option Z) (minp : Z) 
           (xs : list (option Q)) (ts : list Z) (i : nat),
         atten_pt ct st ft period minp (map (option_map Qopp) xs) ts i =
         atten_pt ct st ft period minp xs ts i.
Proof. exact (@atten_pt_neg). Qed.
Print Assumptions C17_atten_neg.

Theorem C17_atten_tshift :
  forall (ct : check_type) (st ft : Q) (period : option Z) (minp c : Z) 
           (xs : list obs) (ts : list Z) (i : nat),
         (length xs <= length ts)%nat ->
         (i < length ts)%nat ->
         atten_pt ct st ft period minp xs (map (fun t : Z => (t + c)%Z) ts) i =
         atten_pt ct st ft period minp xs ts i.
Proof. exact (@atten_pt_time_shift). Qed.
Print Assumptions C17_atten_tshift.

(* windowed attenuated signal: only the points whose trailing window contains k *)
Theorem C17_atten_local :
  forall (ct : check_type) (st ft : Q) (p minp : Z) (xs ys : list obs) 
           (ts : list Z) (k i : nat),
         length xs = length ys ->
         (forall j : nat, j <> k -> getq xs j = getq ys j) ->
         i <> k ->
         (getz ts i < getz ts k)%Z \/ (getz ts k <= getz ts i - p * NS)%Z ->
         atten_pt ct st ft (Some p) minp xs ts i = atten_pt ct st ft (Some p) minp ys ts i.
Proof. exact (@atten_pt_local_time). Qed.
Print Assumptions C17_atten_local.

(* density inversion: adding a constant to all densities *)
Theorem C17_density_shift :
  forall (st ft : option Q) (c : Q) (rho : list (option Q)) (z : list obs) (i : nat),
         density_pt st ft (map (option_map (fun v : Q => v + c)) rho) z i = density_pt st ft rho z i.
Proof. exact (@density_pt_shift). Qed.
Print Assumptions C17_density_shift.

(* density inversion: the point and its two neighbours *)
Theorem C17_density_local :
  forall (st ft : option Q) (rho z rho' z' : list obs) (k i : nat),
         length rho = length rho' ->
         (forall j : nat, j <> k -> getq rho j = getq rho' j) ->
         (forall j : nat, j <> k -> getq z j = getq z' j) ->
         i <> k ->
         (i + 1)%nat <> k ->
         i <> (k + 1)%nat -> density_pt st ft rho z i = density_pt st ft rho' z' i.
Proof. exact (@density_pt_local). Qed.
Print Assumptions C17_density_local.

(* speed: shifting all timestamps *)
Theorem C17_speed_tshift :
  forall (geod : Q -> Q -> Q -> Q -> Q) (st ft : Q) (c : Z) (lon lat : list obs) 
           (ts : list Z) (i : nat),
         (i < length ts)%nat ->
         speed_pt geod st ft lon lat (map (fun t : Z => (t + c)%Z) ts) i =
         speed_pt geod st ft lon lat ts i.
Proof. exact (@speed_pt_tshift). Qed.
Print Assumptions C17_speed_tshift.

(* speed: the point and its successor *)
Theorem C17_speed_local :
  forall (geod : Q -> Q -> Q -> Q -> Q) (st ft : Q) (lon lat lon' lat' : list obs)
           (ts : list Z) (k i : nat),
         (forall j : nat, j <> k -> getq lon j = getq lon' j) ->
         (forall j : nat, j <> k -> getq lat j = getq lat' j) ->
         i <> k ->
         i <> (k + 1)%nat -> speed_pt geod st ft lon lat ts i = speed_pt geod st ft lon' lat' ts i.
Proof. exact (@speed_pt_local). Qed.
Print Assumptions C17_speed_local.

(* hop distance: the point and its successor *)
Theorem C17_location_local :
  forall (geod : Q -> Q -> Q -> Q -> Q) (minx miny maxx maxy : Q) 
           (rm : option Q) (lon lat lon' lat' : list obs) (k i : nat),
         (forall j : nat, j <> k -> getq lon j = getq lon' j) ->
         (forall j : nat, j <> k -> getq lat j = getq lat' j) ->
         i <> k ->
         i <> (k + 1)%nat ->
         location_pt geod minx miny maxx maxy rm lon lat i =
         location_pt geod minx miny maxx maxy rm lon' lat' i.
Proof. exact (@location_pt_local). Qed.
Print Assumptions C17_location_local.

(* bounding box: the point itself *)
Theorem C17_location_local_box :
  forall (geod : Q -> Q -> Q -> Q -> Q) (minx miny maxx maxy : Q)
           (lon lat lon' lat' : list obs) (i : nat),
         getq lon i = getq lon' i ->
         getq lat i = getq lat' i ->
         location_pt geod minx miny maxx maxy None lon lat i =
         location_pt geod minx miny maxx maxy None lon' lat' i.
Proof. exact (@location_pt_local_box). Qed.
Print Assumptions C17_location_local_box.

(* gross range: shifting data and spans together *)
Theorem C17_gross_joint_shift :
  forall (c flo fhi : Q) (s : option (Q * Q)) (x : option Q),
         gross_pt (flo + c) (fhi + c) (shift_span c s) (option_map (fun v : Q => v + c) x) =
         gross_pt flo fhi s x.
Proof. exact (@gross_pt_joint_shift). Qed.
Print Assumptions C17_gross_joint_shift.

(* gross range: the point itself *)
Theorem C17_gross_local :
  forall (fs : list Q) (ss : option (list Q)) (xs ys : list (option Q)) 
           (fl fl' : list flag) (i : nat),
         length xs = length ys ->
         nth i xs None = nth i ys None ->
         gross_spec fs ss xs = Flags fl ->
         gross_spec fs ss ys = Flags fl' -> nth i fl GOOD = nth i fl' GOOD.
Proof. exact (@gross_spec_local). Qed.
Print Assumptions C17_gross_local.

(* valid range (numbers or times): shifting data and span together *)
Theorem C17_valid_joint_shift :
  forall (c : Q) (lo hi : option Q) (si ei : bool) (x : option Q),
         valid_pt (option_map (fun a : Q => a + c) lo) (option_map (fun a : Q => a + c) hi) si ei
           (option_map (fun v : Q => v + c) x) = valid_pt lo hi si ei x.
Proof. exact (@valid_pt_joint_shift). Qed.
Print Assumptions C17_valid_joint_shift.

Theorem C17_valid_local :
  forall (lo hi : option Q) (si ei : bool) (xs ys : list (option Q)) (i : nat),
         length xs = length ys ->
         nth i xs None = nth i ys None ->
         nth i (map (valid_pt lo hi si ei) xs) GOOD = nth i (map (valid_pt lo hi si ei) ys) GOOD.
Proof. exact (@valid_spec_local). Qed.
Print Assumptions C17_valid_local.

(* climatology: shifting all timestamps and all absolute time spans together *)
Theorem C17_clim_shift :
  forall (c : Z) (config : list member) (xs : list obs) (ts : list Z) (zs : list obs),
         (forall m : member, In m config -> m_period m = None) ->
         length ts = length xs ->
         clim_model (map (shift_member c) config) xs (map (fun t : Z => (t + c)%Z) ts) zs =
         clim_model config xs ts zs.
Proof. exact (@clim_model_shift). Qed.
Print Assumptions C17_clim_shift.

(* climatology: the point itself *)
Theorem C17_clim_local :
  forall (config : list member) (xs : list obs) (ts : list Z) (zs xs' : list obs)
           (ts' : list Z) (zs' : list obs) (k i : nat),
         length xs = length xs' ->
         (forall j : nat,
          j <> k -> getq xs j = getq xs' j /\ getz ts j = getz ts' j /\ getq zs j = getq zs' j) ->
         i <> k ->
         (i < length xs)%nat ->
         nth i (flags_of (clim_model config xs ts zs)) UNKNOWN =
         nth i (flags_of (clim_model config xs' ts' zs')) UNKNOWN.
Proof. exact (@clim_model_local). Qed.
Print Assumptions C17_clim_local.

(* (for PERIODIC members a time shift does change flags, as it must: the property restricts the claim to absolute spans) *)
Theorem C17_clim_periodic_shift_refuted :
  let cfg :=
           [{|
              m_tspan := TPer PDayOfYear 61 61; m_fspan := None; m_vspan := (2, 8); m_zspan := None
            |}] in
         clim_spec cfg [Some 5] [T_MAR1] [None] = Flags [GOOD] /\
         clim_spec (map (shift_member DAY_NS) cfg) [Some 5] [(T_MAR1 + DAY_NS)%Z] [None] =
         Flags [UNKNOWN].
Proof. exact (@clim_shift_periodic_refuted). Qed.
Print Assumptions C17_clim_periodic_shift_refuted.

