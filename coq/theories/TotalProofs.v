(* TotalProofs.v — C01: on valid parameters and well-shaped inputs every QC-test model returns
   (never raises) exactly one flag per input element.  Corollaries of the refinement theorems. *)
From IoosQc Require Import Base Generated Range RangeProofs Spike SpikeProofs Rate RateProofs Location LocationProofs
  Density DensityProofs FlatLine FlatLineProofs Attenuated AttenuatedProofs Calendar Climatology ClimatologyProofs.

Definition total (o : outcome) (n : nat) : Prop := exists fl, o = Flags fl /\ length fl = n.

Lemma total_tab n f : total (Flags (tab n f)) n.
Proof. exists (tab n f). split; [reflexivity|apply tab_length]. Qed.

Lemma total_map {A} (f : A -> flag) l : total (Flags (map f l)) (length l).
Proof. exists (map f l). split; [reflexivity|apply map_length]. Qed.

(* gross_range_test: a 2-element fail span and no suspect span, or a contained one *)
Lemma gross_total a b ss xs :
  (ss = None \/ exists c d, ss = Some [c; d] /\
      fst (sort2 a b) <= fst (sort2 c d) /\ snd (sort2 c d) <= snd (sort2 a b)) ->
  total (gross_model [a; b] ss xs) (length xs).
Proof.
  intros [->|(c & d & -> & H1 & H2)].
  - rewrite gross_refines. unfold gross_spec. destruct (sort2 a b). apply total_map.
  - rewrite gross_refines, gross_accepts by assumption. apply total_map.
Qed.

Lemma valid_total lo hi si ei xs : total (valid_model lo hi si ei xs) (length xs).
Proof. rewrite valid_refines. apply total_map. Qed.

Lemma spike_total method m st ft xs :
  parse_method method = Some m -> total (spike_model method st ft xs) (length xs).
Proof. intros H. rewrite spike_refines. unfold spike_spec. rewrite H. apply total_tab. Qed.

Lemma roc_total thr xs ts :
  whole_increasing ts -> 0 <= thr -> length xs = length ts -> total (roc_model thr xs ts) (length xs).
Proof.
  intros Hw Ht Hl. rewrite roc_refines_domain by assumption. unfold roc_spec.
  rewrite Hl, Nat.eqb_refl. rewrite <- Hl. apply total_tab.
Qed.

Lemma speed_total geod st ft lon lat ts :
  whole_increasing ts -> length lon = length lat -> length lon = length ts ->
  total (speed_model geod st ft lon lat ts) (length lon).
Proof.
  intros Hw H1 H2. rewrite speed_refines_domain by assumption. unfold speed_spec.
  rewrite <- H1, <- H2, !Nat.eqb_refl. apply total_tab.
Qed.

Lemma location_total geod minx miny maxx maxy rm lon lat :
  loc_dom rm (length lon) -> length lon = length lat ->
  total (location_model geod [minx; miny; maxx; maxy] rm lon lat) (length lon).
Proof.
  intros Hd Hl. rewrite location_refines by assumption. unfold location_spec.
  rewrite Hl, Nat.eqb_refl. simpl negb. rewrite <- Hl. apply total_tab.
Qed.

Lemma density_total st ft rho z :
  length rho = length z -> total (density_model st ft rho z) (length rho).
Proof.
  intros Hl. rewrite density_refines. unfold density_spec. rewrite Hl, Nat.eqb_refl. simpl negb.
  rewrite <- Hl. apply total_tab.
Qed.

Lemma pressure_total ps : total (pressure_model ps) (length ps).
Proof. rewrite pressure_model_char. apply total_tab. Qed.

Lemma flat_total d st ft tol xs ts :
  regular_ns d ts -> (0 < d)%Z -> length ts = length xs -> 0 <= st -> 0 <= ft ->
  total (flat_model st ft tol xs ts) (length xs).
Proof. intros. rewrite (flat_refines d) by assumption. apply total_tab. Qed.

Lemma atten_total check ct st ft tp mo mp xs ts :
  parse_check_type check = Some ct ->
  (forall ct', parse_check_type check = Some ct' -> atten_dom ct' tp mo mp xs ts) ->
  total (atten_model check st ft tp mo mp xs ts) (length xs).
Proof.
  intros Hp Hd. rewrite atten_refines by exact Hd. unfold atten_spec. rewrite Hp. apply total_tab.
Qed.

Lemma clim_total config xs ts zs : total (clim_model config xs ts zs) (length xs).
Proof. rewrite clim_refines. unfold clim_spec. apply total_tab. Qed.

(* the abstract machine the call-history correspondence ties the implementation to has no state:
   the i-th answer of any history is the model's answer for the i-th call alone *)
Section History.
  Variables Op : Type.
  Variable run_model : Op -> outcome.
  Definition step (s : unit) (o : Op) : unit * outcome := (tt, run_model o).
  Fixpoint run (s : unit) (ops : list Op) : list outcome :=
    match ops with [] => [] | o :: r => snd (step s o) :: run (fst (step s o)) r end.
  Lemma history_stateless ops : run tt ops = map run_model ops.
  Proof. induction ops as [|o r IH]; simpl; [reflexivity|]. rewrite IH. reflexivity. Qed.
  Lemma history_perm_repeat ops1 o ops2 ops3 :
    nth (length ops1) (run tt (ops1 ++ o :: ops2)) (Raises OtherError) =
    nth (length (ops3)) (run tt (ops3 ++ [o])) (Raises OtherError).
  Proof.
    rewrite !history_stateless, !map_app. simpl.
    rewrite !app_nth2 by (rewrite map_length; lia). rewrite !map_length, !Nat.sub_diag. reflexivity.
  Qed.
End History.
