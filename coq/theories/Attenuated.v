(* Attenuated.v — model and pointwise specification of qartod.attenuated_signal_test (qartod.py).

   Numeric design: a standard deviation is never computed.  The spread of a window is carried in a
   comparison-ready form: the variance (check_type "std") or max - min (check_type "range"), and
   `std < thr` is decided as `0 < thr /\ var < thr^2` (`below`).  Whole-series mode uses the population
   variance (np.std, ddof = 0) of the unmasked values, the rolling mode the sample variance
   (pandas Rolling.std, ddof = 1) of the non-NaN values of the window.

   The model follows the source: check_type dispatch, empty input returned as is,
   `if test_period:` (None and 0 are falsy),
   min_periods (min_obs, else min_period / median sampling step, else None = 1), the pandas
   variable-window bounds for an offset window closed on the right, Rolling.std / Rolling.apply(np.ptp,
   raw=True) semantics, then the overwrites GOOD, SUSPECT, UNKNOWN (NaN), FAIL, MISSING in that order. *)
From IoosQc Require Import Base.
From Coq Require Import String.
Local Notation length := List.length.

Inductive check_type := Std | Range.

Definition parse_check_type (s : string) : option check_type :=
  if String.eqb s "std" then Some Std
  else if String.eqb s "range" then Some Range else None.

(* ---------------------------------------------------------------- statistics of a list of values *)

(* the observed (unmasked / non-NaN) values of a list of observations, in order *)
Fixpoint present (l : list obs) : list Q :=
  match l with
  | [] => []
  | Some v :: r => v :: present r
  | None :: r => present r
  end.

Fixpoint qsum (l : list Q) : Q := match l with [] => 0 | x :: r => x + qsum r end.
Definition qlen (l : list Q) : Q := inject_Z (Z.of_nat (length l)).
Definition qmean (l : list Q) : Q := qsum l / qlen l.

(* sum of squared deviations from m *)
Fixpoint devsq (m : Q) (l : list Q) : Q :=
  match l with [] => 0 | x :: r => (x - m) * (x - m) + devsq m r end.

Definition var_pop (l : list Q) : Q := devsq (qmean l) l / qlen l.          (* ddof = 0 *)
Definition var_samp (l : list Q) : Q := devsq (qmean l) l / (qlen l - 1).   (* ddof = 1 *)

Fixpoint qmaxl (l : list Q) : Q :=
  match l with [] => 0 | x :: r => match r with [] => x | _ => qmax x (qmaxl r) end end.
Fixpoint qminl (l : list Q) : Q :=
  match l with [] => 0 | x :: r => match r with [] => x | _ => qmin x (qminl r) end end.
Definition qrange (l : list Q) : Q := qmaxl l - qminl l.                    (* np.ptp *)

(* the spread statistic in comparison-ready form *)
Definition stat (ct : check_type) (sample : bool) (l : list Q) : Q :=
  match ct with
  | Std => if sample then var_samp l else var_pop l
  | Range => qrange l
  end.

(* "spread < thr":  std < thr  <->  0 < thr /\ var < thr^2 ;  range < thr *)
Definition below (ct : check_type) (thr s : Q) : bool :=
  match ct with
  | Std => Qltb 0 thr && Qltb s (thr * thr)
  | Range => Qltb s thr
  end.

(* ---------------------------------------------------------------- whole-series mode *)

(* check_func(series) on the masked flattened array: np.std / np.ptp ignore masked entries;
   no unmasked entry: nan (empty) or the masked constant -> None *)
Definition whole_spread (ct : check_type) (xs : list obs) : option Q :=
  let p := present xs in
  if Nat.eqb (length p) 0 then None else Some (stat ct false p).

(* ---------------------------------------------------------------- rolling mode *)

(* `if test_period:` *)
Definition period_of (test_period : option Z) : option Z :=
  match test_period with
  | Some p => if (p =? 0)%Z then None else Some p
  | None => None
  end.

Fixpoint insert_z (a : Z) (l : list Z) : list Z :=
  match l with
  | [] => [a]
  | b :: r => if (a <=? b)%Z then a :: l else b :: insert_z a r
  end.
Fixpoint sort_z (l : list Z) : list Z :=
  match l with [] => [] | a :: r => insert_z a (sort_z r) end.

(* np.diff(tinp) *)
Definition diffs (ts : list Z) : list Z :=
  tab (length ts - 1) (fun k => (getz ts (k + 1) - getz ts k)%Z).

(* np.median of timedelta64[ns]: middle element, or the (integer) mean of the two middle ones *)
Definition median_z (l : list Z) : Z :=
  let s := sort_z l in
  let k := length s in
  if Nat.even k then ((nth (k / 2 - 1) s 0 + nth (k / 2) s 0) / 2)%Z else nth (k / 2) s 0%Z.

(* the median sampling step, in nanoseconds: np.median(np.diff(tinp)) / np.timedelta64(1, "s") is this step in
   (fractional) seconds.  (Before the repair of F24 it was floored to whole seconds.) *)
Definition time_interval (ts : list Z) : Z := median_z (diffs ts).

(* min_periods handed to Series.rolling; None = the computation ends in ValueError
   (interval 0: min_period / 0. = inf or nan, .astype(int) = INT64_MIN, rejected by pandas).
   Fewer than two times: the median is NaT = -2^63 seconds, the quotient truncates to 0. *)
Definition min_periods (min_obs min_period : option Z) (ts : list Z) : option Z :=
  match min_obs with
  | Some m => Some m
  | None =>
      match min_period with
      | Some mp =>
          if (length ts <=? 1)%nat then Some 0%Z
          else let dt := time_interval ts in
               if (dt =? 0)%Z then None else Some (Z.quot (mp * NS) dt)
                                              (* min_period / (dt / 10^9 s): float division, astype(int) truncates *)
      | None => Some 1%Z                                           (* min_periods=None, offset window *)
      end
  end.

Definition mono_inc (ts : list Z) : bool :=
  forallb (fun k => (getz ts k <=? getz ts (k + 1))%Z) (seq 0 (length ts - 1)).
Definition mono_dec (ts : list Z) : bool :=
  forallb (fun k => (getz ts (k + 1) <=? getz ts k)%Z) (seq 0 (length ts - 1)).

(* pandas calculate_variable_window_bounds, closed = "right":
   index_growth_sign = -1 if index[n-1] < index[0] else 1;
   window of i = start[i] .. i with start[i] the first j with (index[j] - (index[i] - sign*P))*sign > 0,
   and start[i] = i when there is none *)
Definition growth_sign (ts : list Z) : Z :=
  if (getz ts (length ts - 1) <? getz ts 0)%Z then (-1)%Z else 1%Z.

Definition in_window_pd (sgn p : Z) (ts : list Z) (i j : nat) : bool :=
  (j <=? i)%nat && (Nat.eqb j i || (0 <? sgn * (getz ts j - getz ts i) + p * NS)%Z).

Definition window_pd (p : Z) (ts : list Z) (n i : nat) : list nat :=
  filter (in_window_pd (growth_sign ts) p ts i) (seq 0 n).

(* value of one window: Rolling.std() (sample std of the non-NaN values, NaN below two of them)
   resp. Rolling.apply(nanmax - nanmin, raw=True) (range of the non-NaN values, NaN when there is none;
   before the repair of F19 it was np.ptp of the raw window: NaN as soon as the window held a NaN);
   both NaN when fewer than min_periods non-NaN observations *)
Definition win_spread_pd (ct : check_type) (minp : Z) (w : list obs) : option Q :=
  let p := present w in
  if (Z.of_nat (length p) <? minp)%Z then None else
  match ct with
  | Std => if (length p <? 2)%nat then None else Some (stat Std true p)
  | Range => if (length p <? 1)%nat then None else Some (stat Range true p)
  end.

(* ---------------------------------------------------------------- the flag overwrites *)

Definition atten_flags (ct : check_type) (st ft : Q) (xs : list obs) (cv : list (option Q)) : list flag :=
  let n := length xs in
  let f0 := all_flags n UNKNOWN in
  (* flag_arr[check_val >= suspect_threshold] = GOOD *)
  let f1 := set_where (tab n (fun i => otest (fun s => negb (below ct st s)) (getq cv i))) GOOD f0 in
  (* flag_arr[check_val < suspect_threshold] = SUSPECT *)
  let f2 := set_where (tab n (fun i => otest (below ct st) (getq cv i))) SUSPECT f1 in
  (* flag_arr[np.isnan(check_val)] = UNKNOWN *)
  let f3 := set_where (tab n (fun i => is_none (getq cv i))) UNKNOWN f2 in
  (* flag_arr[check_val < fail_threshold] = FAIL *)
  let f4 := set_where (tab n (fun i => otest (below ct ft) (getq cv i))) FAIL f3 in
  (* flag_arr[inp.mask] = MISSING *)
  set_where (tab n (missing_at xs)) MISSING f4.

Definition atten_model (check : string) (st ft : Q) (test_period min_obs min_period : option Z)
    (xs : list obs) (ts : list Z) : outcome :=
  match parse_check_type check with
  | None => Raises ValueError
  | Some ct =>
      let n := length xs in
      (* if inp.size == 0: return flag_arr  -- before anything else is looked at *)
      if Nat.eqb n 0 then Flags [] else
      match period_of test_period with
      | Some p =>
          match min_periods min_obs min_period ts with
          | None => Raises ValueError                      (* min_periods = INT64_MIN *)
          | Some minp =>
              (* pd.Series(values, index): lengths must agree *)
              if negb (Nat.eqb (length ts) n) then Raises ValueError
              (* rolling on a datetime index: "index values must be monotonic" *)
              else if negb (mono_inc ts || mono_dec ts) then Raises ValueError
              (* "min_periods must be >= 0" *)
              else if (minp <? 0)%Z then Raises ValueError
              else
                let cv := tab n (fun i => win_spread_pd ct minp (map (getq xs) (window_pd p ts n i))) in
                Flags (atten_flags ct st ft xs cv)
          end
      | None =>
          let s := whole_spread ct xs in
          Flags (atten_flags ct st ft xs (tab n (fun _ => s)))
      end
  end.

(* ---------------------------------------------------------------- the property, per point *)

(* trailing time window (t_i - P, t_i] *)
Definition in_window (p : Z) (ts : list Z) (i j : nat) : bool :=
  (getz ts i - p * NS <? getz ts j)%Z && (getz ts j <=? getz ts i)%Z.

Definition window (p : Z) (ts : list Z) (n i : nat) : list nat :=
  filter (in_window p ts i) (seq 0 n).

(* spread of the observed values of a window; undefined below the required number of
   observations, below two observations (sample standard deviation), or without any (range) *)
Definition win_spread (ct : check_type) (minp : Z) (w : list obs) : option Q :=
  let p := present w in
  if (Z.of_nat (length p) <? minp)%Z then None else
  match ct with
  | Std => if (length p <? 2)%nat then None else Some (stat Std true p)
  | Range => if (length p <? 1)%nat then None else Some (stat Range true p)
  end.

(* required minimum number of observations *)
Definition minp_of (min_obs min_period : option Z) (ts : list Z) : Z :=
  match min_periods min_obs min_period ts with Some m => m | None => 0%Z end.

Definition atten_spread (ct : check_type) (period : option Z) (minp : Z)
    (xs : list obs) (ts : list Z) (i : nat) : option Q :=
  match period with
  | None => whole_spread ct xs
  | Some p => win_spread ct minp (map (getq xs) (window p ts (length xs) i))
  end.

(* FAIL below fail, else SUSPECT below suspect, else GOOD *)
Definition decide_att (ct : check_type) (st ft s : Q) : flag :=
  if below ct ft s then FAIL else if below ct st s then SUSPECT else GOOD.

Definition flag_of (ct : check_type) (st ft : Q) (x : obs) (s : option Q) : flag :=
  match x with
  | None => MISSING
  | Some _ => match s with None => UNKNOWN | Some v => decide_att ct st ft v end
  end.

Definition atten_pt (ct : check_type) (st ft : Q) (period : option Z) (minp : Z)
    (xs : list obs) (ts : list Z) (i : nat) : flag :=
  flag_of ct st ft (getq xs i) (atten_spread ct period minp xs ts i).

Definition atten_spec (check : string) (st ft : Q) (test_period min_obs min_period : option Z)
    (xs : list obs) (ts : list Z) : outcome :=
  match parse_check_type check with
  | None => Raises ValueError
  | Some ct =>
      Flags (tab (length xs)
               (atten_pt ct st ft (period_of test_period) (minp_of min_obs min_period ts) xs ts))
  end.
