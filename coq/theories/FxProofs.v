(* FxProofs.v — lemmas about the fx_parser / _validate_fx models of Fx.v.

   eval_compile      evaluating the stack after ANY prior contents s returns the arithmetic value of
                     the last expression and leaves exactly s (history independence)
   eval_history      the same after any history of good / garbage calls
   parse_print       the recursive-descent parser pushes  s ++ compile e  on the printed expression,
                     fully parenthesised (parse_print_full) and with minimal parentheses
                     (parse_print_min: standard precedence, left associativity, unary minus)
   eval_fx_str_print parse + evaluate of the printed text = arithmetic value, for any prior stack
   validate_iff      _validate_fx accepts iff every token is a number or in the allowed lists *)
From IoosQc Require Import Base Generated Fx.
From Coq Require Import String Ascii.
Local Notation length := List.length.
Open Scope string_scope.
Open Scope list_scope.

(* ================================================================ evaluation *)

Section Eval.
  Variable V : Type.
  Variables (vadd vsub vmul vdiv : V -> V -> V) (vneg : V -> V).
  Variable of_lit : string -> V.
  Variable stats : stat -> V.

  Notation denote := (denote V vadd vsub vmul vdiv vneg of_lit stats).
  Notation eval_rev := (eval_rev V vadd vsub vmul vdiv vneg of_lit stats).
  Notation evaluate_stack := (evaluate_stack V vadd vsub vmul vdiv vneg of_lit stats).
  Notation eval_fx_model := (eval_fx_model V vadd vsub vmul vdiv vneg of_lit stats).
  Notation eval_after_history := (eval_after_history V vadd vsub vmul vdiv vneg of_lit stats).
  Notation eval_fx_str := (eval_fx_str V vadd vsub vmul vdiv vneg of_lit stats).

  (* popping the symbols of e off the top yields its value and leaves everything below untouched *)
  Lemma eval_rev_compile e : forall fuel r,
    (length (compile e) <= fuel)%nat ->
    eval_rev fuel (rev (compile e) ++ r) = Some (denote e, r).
  Proof.
    induction e as [s|st|a IHa|o a IHa b IHb]; intros fuel r H; simpl in H.
    - destruct fuel; [lia|]. reflexivity.
    - destruct fuel; [lia|]. reflexivity.
    - rewrite app_length in H. simpl in H.
      destruct fuel; [lia|]. simpl compile. rewrite rev_app_distr. simpl.
      rewrite IHa by lia. reflexivity.
    - rewrite !app_length in H. simpl in H.
      destruct fuel; [lia|]. simpl compile. rewrite !rev_app_distr. simpl.
      rewrite <- app_assoc. rewrite IHb by lia. rewrite IHa by lia. reflexivity.
  Qed.

  (* C20, history independence: for EVERY prior stack s *)
  Theorem eval_compile : forall s e, evaluate_stack (s ++ compile e) = Some (denote e, s).
  Proof.
    intros s e. unfold Fx.evaluate_stack. rewrite rev_app_distr.
    rewrite eval_rev_compile by (rewrite app_length; lia).
    rewrite rev_involutive. reflexivity.
  Qed.

  Theorem eval_fx_model_value : forall s e,
    eval_fx_model s e = (Some (denote e, s), s ++ compile e).
  Proof. intros s e. unfold Fx.eval_fx_model. rewrite eval_compile. reflexivity. Qed.

  (* whatever was evaluated, rejected or abandoned before: same value; the symbols below are
     handed back unread *)
  Theorem eval_history : forall s0 h e,
    eval_after_history s0 h e
    = (Some (denote e, after_history s0 h), after_history s0 h ++ compile e).
  Proof. intros s0 h e. unfold Fx.eval_after_history. apply eval_fx_model_value. Qed.

  Corollary eval_history_independent : forall s0 h s1 h' e,
    option_map fst (fst (eval_after_history s0 h e))
    = option_map fst (fst (eval_after_history s1 h' e)).
  Proof. intros. rewrite !eval_history. reflexivity. Qed.

  (* the history only ever appends: nothing an earlier call pushed is modified *)
  Lemma after_history_app : forall h s0, exists pushed, after_history s0 h = s0 ++ pushed.
  Proof.
    induction h as [|st h IH]; intros s0.
    - exists []. simpl. rewrite app_nil_r. reflexivity.
    - destruct (IH (push_step s0 st)) as [p Hp].
      change (after_history s0 (st :: h)) with (after_history (push_step s0 st) h). rewrite Hp.
      destruct st as [e|g]; simpl; eexists; rewrite <- app_assoc; reflexivity.
  Qed.

  (* fuel: None is never an artefact of the fuel chosen by evaluate_stack *)
  Lemma eval_rev_shorter : forall fuel l v r,
    eval_rev fuel l = Some (v, r) -> (length r < length l)%nat.
  Proof.
    induction fuel as [|f IH]; intros l v r H; [discriminate|].
    destruct l as [|t l]; [discriminate|]. simpl in H.
    destruct t.
    - inversion H; subst. simpl. lia.
    - inversion H; subst. simpl. lia.
    - destruct (eval_rev f l) as [[v2 r2]|] eqn:E2; [|discriminate].
      destruct (eval_rev f r2) as [[v1 r1]|] eqn:E1; [|discriminate].
      inversion H; subst. apply IH in E2. apply IH in E1. simpl. lia.
    - destruct (eval_rev f l) as [[v1 r1]|] eqn:E1; [|discriminate].
      inversion H; subst. apply IH in E1. simpl. lia.
    - discriminate.
    - destruct (stat_of_name s); [|discriminate]. inversion H; subst. simpl. lia.
  Qed.

  Lemma eval_rev_fuel_enough : forall fuel l v r,
    eval_rev fuel l = Some (v, r) ->
    forall g, (length l <= g)%nat -> eval_rev g l = Some (v, r).
  Proof.
    induction fuel as [|f IH]; intros l v r H g Hg; [discriminate|].
    destruct l as [|t l]; [discriminate|]. simpl in Hg. destruct g as [|g]; [lia|].
    simpl in H. simpl. destruct t; try exact H.
    - destruct (eval_rev f l) as [[v2 r2]|] eqn:E2; [|discriminate].
      destruct (eval_rev f r2) as [[v1 r1]|] eqn:E1; [|discriminate].
      pose proof (eval_rev_shorter _ _ _ _ E2) as L2.
      rewrite (IH _ _ _ E2 g) by lia. rewrite (IH _ _ _ E1 g) by lia. exact H.
    - destruct (eval_rev f l) as [[v1 r1]|] eqn:E1; [|discriminate].
      rewrite (IH _ _ _ E1 g) by lia. exact H.
  Qed.

  Corollary evaluate_stack_complete : forall fuel s v r,
    eval_rev fuel (rev s) = Some (v, r) -> evaluate_stack s = Some (v, rev r).
  Proof.
    intros fuel s v r H. unfold Fx.evaluate_stack.
    rewrite (eval_rev_fuel_enough _ _ _ _ H) by (rewrite rev_length; lia). reflexivity.
  Qed.

End Eval.

(* ================================================================ lexical classes *)

Lemma classify_stat st : classify (stat_name st) = CStat st.
Proof. destruct st; reflexivity. Qed.

Lemma is_num_digit s : is_num s = true -> exists c r, s = String c r /\ is_digit c = true.
Proof.
  unfold is_num, lit_value. destruct s as [|c r]; [discriminate|].
  destruct (is_digit c) eqn:E; [|discriminate]. eauto.
Qed.

Lemma classify_num s : is_num s = true -> classify s = CNum.
Proof.
  intros H. destruct (is_num_digit s H) as (c & r & -> & D).
  unfold classify, stat_of_name.
  set (b := is_num (String c r)) in *. clearbody b. subst b.
  destruct c as [[] [] [] [] [] [] [] []]; try discriminate D; reflexivity.
Qed.

(* the vocabulary of the grammar and the tables of the source *)
Lemma stat_names_generated : map stat_name [SMin; SMax; SMean; SStd] = fx_allowed_stats.
Proof. reflexivity. Qed.
Lemma op_names_generated : map op_name [Add; Sub; Mul; Div] = fx_allowed_operators.
Proof. reflexivity. Qed.
Lemma groupings_generated : ["("; ")"] = fx_allowed_groupings.
Proof. reflexivity. Qed.
Lemma opn_generated : forall o, In (op_name o, py_operator o) fx_opn.
Proof. destruct o; simpl; tauto. Qed.

(* ================================================================ parser *)

Definition nomul (rest : list string) : Prop :=
  match rest with
  | [] => True
  | t :: _ => match classify t with CMul | CDiv => False | _ => True end
  end.

Section ParseLevel.
  Variable sub : parser.

  Lemma parse_atom_minus t s :
    parse_atom sub ("-" :: t) s
    = match parse_atom sub t s with
      | Some (s', r) => Some (s' ++ [TUnaryMinus], r)
      | None => None
      end.
  Proof.
    unfold parse_atom.
    change (strip_signs ("-" :: t)) with (let (sg, r) := strip_signs t in ("-" :: sg, r)).
    destruct (strip_signs t) as [sg r].
    change (leading_minus ("-" :: sg)) with (S (leading_minus sg)).
    set (k := leading_minus sg).
    assert (R : forall x, x ++ repeat TUnaryMinus (S k) = (x ++ repeat TUnaryMinus k) ++ [TUnaryMinus]).
    { intros x. rewrite <- app_assoc. simpl. rewrite <- repeat_cons. reflexivity. }
    assert (R2 : forall x a, x ++ a :: repeat TUnaryMinus (S k)
                             = (x ++ a :: repeat TUnaryMinus k) ++ [TUnaryMinus]).
    { intros x a. rewrite <- app_assoc. simpl. rewrite <- repeat_cons. reflexivity. }
    destruct r as [|t0 r']; [reflexivity|].
    destruct (classify t0); try reflexivity.
    - destruct (sub r' s) as [[s' [|t2 r'']]|]; try reflexivity.
      destruct (classify t2); try reflexivity. rewrite R. reflexivity.
    - rewrite R2. reflexivity.
    - rewrite R2. reflexivity.
  Qed.

  Lemma parse_atom_stat st r s : parse_atom sub (stat_name st :: r) s = Some (s ++ [TStat st], r).
  Proof. destruct st; reflexivity. Qed.

  Lemma parse_atom_num t r s : is_num t = true -> parse_atom sub (t :: r) s = Some (s ++ [TNum t], r).
  Proof.
    intros H. pose proof (classify_num t H) as C.
    unfold parse_atom. cbn [strip_signs]. rewrite C. cbn [leading_minus repeat]. rewrite C. reflexivity.
  Qed.

  Lemma parse_atom_paren r s s' r' :
    sub r s = Some (s', ")" :: r') -> parse_atom sub ("(" :: r) s = Some (s', r').
  Proof.
    intros H. unfold parse_atom.
    change (strip_signs ("(" :: r)) with (@nil string, "(" :: r).
    cbn [leading_minus repeat]. change (classify "(") with CLPar. cbv iota. rewrite H.
    change (classify ")") with CRPar. cbv iota. rewrite app_nil_r. reflexivity.
  Qed.

  Lemma mul_loop_stop n rest s : nomul rest -> mul_loop sub n rest s = Some (s, rest).
  Proof.
    destruct rest as [|t r]; [destruct n; reflexivity|].
    destruct n; simpl; destruct (classify t); tauto || reflexivity.
  Qed.

  Lemma add_loop_nil n s : add_loop sub n [] s = Some (s, []).
  Proof. destruct n; reflexivity. Qed.

  Lemma add_loop_rpar n r s : add_loop sub n (")" :: r) s = Some (s, ")" :: r).
  Proof. destruct n; reflexivity. Qed.

  Lemma mul_loop_op o n r s : lvl o = 1%nat ->
    mul_loop sub (S n) (op_name o :: r) s
    = match parse_atom sub r s with
      | Some (s', r') => mul_loop sub n r' (s' ++ [TOp o])
      | None => Some (s, op_name o :: r)
      end.
  Proof. destruct o; try discriminate; reflexivity. Qed.

  Lemma add_loop_op o n r s : lvl o = 0%nat ->
    add_loop sub (S n) (op_name o :: r) s
    = match parse_term sub n r s with
      | Some (s', r') => add_loop sub n r' (s' ++ [TOp o])
      | None => Some (s, op_name o :: r)
      end.
  Proof. destruct o; try discriminate; reflexivity. Qed.

  (* what it means for a token list `toks` to be read as the symbols `c` at each level *)
  Definition claimA (toks : list string) (c : list tok) : Prop :=
    forall s rest, parse_atom sub (toks ++ rest) s = Some (s ++ c, rest).

  Definition claimT (toks : list string) (c : list tok) : Prop :=
    forall s rest n, (length (toks ++ rest) <= n)%nat ->
      exists n', (length rest <= n')%nat /\
        parse_term sub n (toks ++ rest) s = mul_loop sub n' rest (s ++ c).

  Definition claimE (toks : list string) (c : list tok) : Prop :=
    forall s rest n, nomul rest -> (length (toks ++ rest) <= n)%nat ->
      exists n', (length rest <= n')%nat /\
        parse_expr_level sub n (toks ++ rest) s = add_loop sub n' rest (s ++ c).

  Lemma A_T toks c : claimA toks c -> claimT toks c.
  Proof.
    intros HA s rest n Hn. unfold parse_term. rewrite HA. exists n. split; [|reflexivity].
    rewrite app_length in Hn. lia.
  Qed.

  Lemma T_E toks c : claimT toks c -> claimE toks c.
  Proof.
    intros HT s rest n Hnm Hn. destruct (HT s rest n Hn) as (n1 & H1 & E).
    unfold parse_expr_level. rewrite E. rewrite mul_loop_stop by exact Hnm.
    exists n. split; [|reflexivity]. rewrite app_length in Hn. lia.
  Qed.

  Lemma A_neg toks c : claimA toks c -> claimA ("-" :: toks) (c ++ [TUnaryMinus]).
  Proof.
    intros HA s rest. rewrite <- app_comm_cons. rewrite parse_atom_minus. rewrite HA.
    rewrite <- app_assoc. reflexivity.
  Qed.

  (* term :: factor [ multop factor ]...   left associative *)
  Lemma T_mul o ta ca tb cb : lvl o = 1%nat ->
    claimT ta ca -> claimA tb cb -> claimT (ta ++ op_name o :: tb) (ca ++ cb ++ [TOp o]).
  Proof.
    intros L HT HA s rest n Hn. rewrite <- app_assoc, <- app_comm_cons in *.
    destruct (HT s (op_name o :: tb ++ rest) n Hn) as (n1 & Hn1 & E). rewrite E.
    simpl in Hn1. rewrite app_length in Hn1.
    destruct n1 as [|n1]; [lia|]. rewrite (mul_loop_op o) by exact L. rewrite HA.
    exists n1. split; [lia|]. rewrite <- !app_assoc. reflexivity.
  Qed.

  (* expr :: term [ addop term ]...   left associative, multop binds tighter *)
  Lemma E_add o ta ca tb cb : lvl o = 0%nat ->
    claimE ta ca -> claimT tb cb -> claimE (ta ++ op_name o :: tb) (ca ++ cb ++ [TOp o]).
  Proof.
    intros L HE HT s rest n Hnm Hn. rewrite <- app_assoc, <- app_comm_cons in *.
    assert (NM : nomul (op_name o :: tb ++ rest)) by (destruct o; try discriminate; exact I).
    destruct (HE s (op_name o :: tb ++ rest) n NM Hn) as (n1 & Hn1 & E). rewrite E.
    simpl in Hn1.
    destruct n1 as [|n1]; [lia|]. rewrite (add_loop_op o) by exact L.
    destruct (HT (s ++ ca) rest n1) as (n2 & Hn2 & E2); [lia|]. rewrite E2.
    rewrite mul_loop_stop by exact Hnm.
    exists n1. split; [rewrite app_length in Hn1; lia|]. rewrite <- !app_assoc. reflexivity.
  Qed.
End ParseLevel.

(* atom :: '(' expr ')' — the only place where the recursion (and the fuel) is used *)
Lemma E_paren g toks c :
  claimE (parse_expr g) toks c -> claimA (parse_expr (S g)) ("(" :: toks ++ [")"]) c.
Proof.
  intros HE s rest. rewrite <- app_comm_cons, <- app_assoc. simpl app.
  apply parse_atom_paren. cbn [parse_expr].
  destruct (HE s (")" :: rest) (length (toks ++ ")" :: rest)) I (le_n _)) as (n1 & _ & E).
  rewrite E. apply add_loop_rpar.
Qed.

Definition ok (g : nat) (full : bool) (e : expr) : Prop :=
  claimA (parse_expr g) (print full 2 e) (compile e) /\
  claimT (parse_expr g) (print full 1 e) (compile e) /\
  claimE (parse_expr g) (print full 0 e) (compile e).

Lemma ok_of_A g full e :
  print full 1 e = print full 2 e -> print full 0 e = print full 2 e ->
  claimA (parse_expr g) (print full 2 e) (compile e) -> ok g full e.
Proof.
  intros E1 E0 HA. unfold ok. rewrite E1, E0.
  split; [exact HA|]. split; [apply A_T; exact HA|apply T_E, A_T; exact HA].
Qed.

(* the body of a binary node read at the level of its operator *)
Lemma body_E g full o a b : ok g full a -> ok g full b ->
  claimE (parse_expr g) (print full (lvl o) a ++ op_name o :: print full (S (lvl o)) b)
         (compile (Bin o a b)).
Proof.
  intros (Aa & Ta & Ea) (Ab & Tb & Eb). simpl compile.
  destruct o; simpl lvl.
  - apply E_add; [reflexivity|exact Ea|exact Tb].
  - apply E_add; [reflexivity|exact Ea|exact Tb].
  - apply T_E, T_mul; [reflexivity|exact Ta|exact Ab].
  - apply T_E, T_mul; [reflexivity|exact Ta|exact Ab].
Qed.

Lemma body_T g full o a b : lvl o = 1%nat -> ok g full a -> ok g full b ->
  claimT (parse_expr g) (print full 1 a ++ op_name o :: print full 2 b) (compile (Bin o a b)).
Proof.
  intros L (Aa & Ta & Ea) (Ab & Tb & Eb). simpl compile. apply T_mul; assumption.
Qed.

Lemma parse_ok full : forall e g, wf e -> (size e <= g)%nat -> ok g full e.
Proof.
  induction e as [s|st|a IHa|o a IHa b IHb]; intros g W Hg; simpl in W, Hg.
  - apply ok_of_A; try reflexivity. intros s0 rest. simpl. apply parse_atom_num. exact W.
  - apply ok_of_A; try reflexivity. intros s0 rest. simpl. apply parse_atom_stat.
  - apply ok_of_A; try reflexivity. simpl. apply A_neg. apply (IHa g W). lia.
  - destruct W as [Wa Wb]. destruct g as [|g]; [lia|].
    (* in parentheses: the body is read by parse_expr g *)
    assert (P : claimA (parse_expr (S g))
                  ("(" :: (print full (lvl o) a ++ op_name o :: print full (S (lvl o)) b) ++ [")"])
                  (compile (Bin o a b))).
    { apply E_paren. apply body_E; [apply IHa|apply IHb]; assumption || lia. }
    assert (Oa : ok (S g) full a) by (apply IHa; [assumption|lia]).
    assert (Ob : ok (S g) full b) by (apply IHb; [assumption|lia]).
    destruct full.
    + (* fully parenthesised: the same token list at every level *)
      apply ok_of_A; try reflexivity. exact P.
    + unfold ok. split; [|split].
      * (* atom level: always in parentheses *)
        assert (E : print false 2 (Bin o a b) =
                    "(" :: (print false (lvl o) a ++ op_name o :: print false (S (lvl o)) b) ++ [")"])
          by (destruct o; reflexivity).
        rewrite E. exact P.
      * destruct o.
        -- apply A_T. exact P.
        -- apply A_T. exact P.
        -- apply (body_T (S g) false Mul a b); auto.
        -- apply (body_T (S g) false Div a b); auto.
      * destruct o.
        -- apply (body_E (S g) false Add a b); assumption.
        -- apply (body_E (S g) false Sub a b); assumption.
        -- apply (body_E (S g) false Mul a b); assumption.
        -- apply (body_E (S g) false Div a b); assumption.
Qed.

(* C20, parsing: the printed expression is read back as exactly its postfix symbols, appended
   to whatever the stack held; nothing is left of the input (parseAll=True succeeds) *)
Theorem parse_print : forall full e fuel s, wf e -> (size e < fuel)%nat ->
  parse_model fuel (print full 0 e) s = Some (s ++ compile e, []).
Proof.
  intros full e fuel s W H. destruct fuel as [|g]; [lia|].
  destruct (parse_ok full e g W) as (_ & _ & HE); [lia|].
  unfold parse_model. cbn [parse_expr].
  destruct (HE s [] (length (print full 0 e ++ [])) I (le_n _)) as (n1 & _ & E).
  rewrite app_nil_r in E. rewrite E. apply add_loop_nil.
Qed.

Theorem parse_print_full : forall e fuel s, wf e -> (size e < fuel)%nat ->
  parse_model fuel (print_full e) s = Some (s ++ compile e, []).
Proof. intros. apply parse_print; assumption. Qed.

(* minimal parentheses: standard precedence, left associativity, unary minus on atoms *)
Theorem parse_print_min : forall e fuel s, wf e -> (size e < fuel)%nat ->
  parse_model fuel (print_min e) s = Some (s ++ compile e, []).
Proof. intros. apply parse_print; assumption. Qed.

Lemma size_le_print full : forall e p, (size e <= length (print full p e))%nat.
Proof.
  induction e as [s|st|a IHa|o a IHa b IHb]; intros p; simpl.
  - lia.
  - lia.
  - specialize (IHa 2%nat). lia.
  - specialize (IHa (lvl o)). specialize (IHb (S (lvl o))).
    destruct (full || (lvl o <? p)%nat)%bool; simpl; rewrite ?app_length; simpl;
      rewrite ?app_length; simpl; lia.
Qed.

(* ================================================================ parse + evaluate *)

Section Str.
  Variable V : Type.
  Variables (vadd vsub vmul vdiv : V -> V -> V) (vneg : V -> V).
  Variable of_lit : string -> V.
  Variable stats : stat -> V.

  Notation denote := (denote V vadd vsub vmul vdiv vneg of_lit stats).
  Notation eval_fx_str := (eval_fx_str V vadd vsub vmul vdiv vneg of_lit stats).

  (* eval_fx on the text of e, whatever exprStack holds: the arithmetic value; the stack grows by
     the symbols of e and nothing below them is read *)
  Theorem eval_fx_str_print : forall full e fuel s, wf e -> (size e < fuel)%nat ->
    eval_fx_str fuel s (print full 0 e) = Some (Some (denote e, s), s ++ compile e).
  Proof.
    intros full e fuel s W H. unfold Fx.eval_fx_str. rewrite parse_print by assumption.
    rewrite eval_compile. reflexivity.
  Qed.

  (* the two printings of one tree have the same value, on any two prior stacks: parentheses
     beyond those precedence requires are irrelevant *)
  Corollary eval_fx_str_full_min : forall e fuel s s', wf e -> (size e < fuel)%nat ->
    option_map (fun r => option_map fst (fst r)) (eval_fx_str fuel s (print_full e))
    = option_map (fun r => option_map fst (fst r)) (eval_fx_str fuel s' (print_min e)).
  Proof.
    intros e fuel s s' W H. unfold print_full, print_min.
    rewrite !eval_fx_str_print by assumption. reflexivity.
  Qed.
End Str.

(* the harness instance: fuel chosen by fx_run suffices *)
Theorem fx_run_print : forall full mn mx me sd s e, wf e ->
  fx_run mn mx me sd s (print full 0 e)
  = match denote QV (olift2 Qplus) (olift2 Qminus) (olift2 Qmult) qv_div (option_map Qopp)
                 lit_value (qv_stats mn mx me sd) e with
    | Some v => FxVal v (s ++ compile e)
    | None => FxZeroDiv (s ++ compile e)
    end.
Proof.
  intros full mn mx me sd s e W. unfold fx_run.
  rewrite parse_print by (try assumption; pose proof (size_le_print full e 0); lia).
  unfold qv_evaluate. rewrite eval_compile.
  destruct (denote _ _ _ _ _ _ _ _ e); reflexivity.
Qed.

(* the instance used by the harness computes ordinary rational arithmetic whenever it returns a
   value (None = some divisor was zero) *)
Definition q_lit (s : string) : Q := match lit_value s with Some x => x | None => 0 end.
Definition q_stats (mn mx me sd : Q) (st : stat) : Q :=
  match st with SMin => mn | SMax => mx | SMean => me | SStd => sd end.

Lemma qv_denote_sound mn mx me sd : forall e v, wf e ->
  denote QV (olift2 Qplus) (olift2 Qminus) (olift2 Qmult) qv_div (option_map Qopp)
         lit_value (qv_stats mn mx me sd) e = Some v ->
  denote Q Qplus Qminus Qmult Qdiv Qopp q_lit (q_stats mn mx me sd) e = v.
Proof.
  induction e as [s|st|a IHa|o a IHa b IHb]; intros v W H; simpl in *.
  - unfold q_lit. rewrite H. reflexivity.
  - unfold qv_stats in H. inversion H. destruct st; reflexivity.
  - destruct (denote QV _ _ _ _ _ _ _ a) as [x|]; [|discriminate].
    simpl in H. inversion H. rewrite (IHa x W eq_refl). reflexivity.
  - destruct W as [Wa Wb].
    destruct (denote QV _ _ _ _ _ _ _ a) as [x|]; [|destruct o; discriminate].
    destruct (denote QV _ _ _ _ _ _ _ b) as [y|]; [|destruct o; discriminate].
    rewrite (IHa x Wa eq_refl), (IHb y Wb eq_refl).
    destruct o; simpl in H; try (inversion H; reflexivity).
    destruct (Qeq_bool y 0); [discriminate|]. inversion H. reflexivity.
Qed.

(* worked examples (the first two: standard precedence and left associativity; the third: a
   prior stack full of leftovers) *)
Example fx_ex_precedence :
  fx_run 1 8 4 2 [] ["min"; "+"; "max"; "*"; "mean"; "-"; "std"; "/"; "0.5"]
  = FxVal (145 # 5) [TStat SMin; TStat SMax; TStat SMean; TOp Mul; TOp Add; TStat SStd; TNum "0.5"; TOp Div; TOp Sub].
Proof. vm_compute. reflexivity. Qed.
Example fx_ex_left_assoc :
  fx_run 1 8 4 2 [] ["2"; "-"; "3"; "-"; "4"] = FxVal (-5) [TNum "2"; TNum "3"; TOp Sub; TNum "4"; TOp Sub].
Proof. vm_compute. reflexivity. Qed.
Example fx_ex_leftovers :
  fx_run 1 8 4 2 [TNum "2"; TIdent "foo"; TNum "1"; TOp Add; TNum "1"; TFn "max" 1] ["-"; "("; "2"; "+"; "3"; ")"; "*"; "2"]
  = FxVal (-10) [TNum "2"; TIdent "foo"; TNum "1"; TOp Add; TNum "1"; TFn "max" 1;
                 TNum "2"; TNum "3"; TOp Add; TUnaryMinus; TNum "2"; TOp Mul].
Proof. vm_compute. reflexivity. Qed.

(* outside the property's grammar, kept faithful to the code: a unary plus stops
   push_unary_minus, so the minus signs after it are dropped ("+ - 2" evaluates to 2) *)
Example fx_unary_plus_drops_minus :
  fx_run 1 8 4 2 [] ["+"; "-"; "2"] = FxVal 2 [TNum "2"]
  /\ fx_run 1 8 4 2 [] ["2"; "-"; "+"; "-"; "min"] = FxVal 1 [TNum "2"; TStat SMin; TOp Sub].
Proof. split; vm_compute; reflexivity. Qed.

(* ================================================================ _validate_fx *)

Theorem validate_iff : forall allowed is_number spec,
  validate_model allowed is_number spec = true
  <-> Forall (fun t => is_number t = true \/ In t allowed) spec.
Proof.
  intros allowed isn spec. unfold validate_model. rewrite forallb_forall, Forall_forall.
  split; intros H t Ht; specialize (H t Ht); unfold allowed_token in *.
  - apply orb_true_iff in H. destruct H as [H|H]; [left; exact H|right].
    apply existsb_exists in H. destruct H as (x & Hx & E). apply String.eqb_eq in E. subst. exact Hx.
  - apply orb_true_iff. destruct H as [H|H]; [left; exact H|right].
    apply existsb_exists. exists t. split; [exact H|apply String.eqb_refl].
Qed.

Theorem validate_reject_iff : forall allowed is_number spec,
  validate_model allowed is_number spec = false
  <-> Exists (fun t => is_number t = false /\ ~ In t allowed) spec.
Proof.
  intros allowed isn spec. unfold validate_model.
  induction spec as [|t r IH]; simpl.
  - split; [discriminate|intros H; inversion H].
  - rewrite andb_false_iff, Exists_cons, IH.
    assert (A : allowed_token allowed isn t = false <-> isn t = false /\ ~ In t allowed).
    { unfold allowed_token. rewrite orb_false_iff. split; intros [A B]; split; auto.
      - intros HI. assert (E : existsb (String.eqb t) allowed = true).
        { apply existsb_exists. exists t. split; [exact HI|apply String.eqb_refl]. }
        congruence.
      - apply not_true_iff_false. intros E. apply existsb_exists in E.
        destruct E as (x & Hx & E). apply String.eqb_eq in E. subst. contradiction. }
    rewrite A. tauto.
Qed.

(* the allowed lists are exactly the vocabulary of the grammar *)
Lemma fx_allowed_vocab : forall t,
  In t fx_allowed <->
  (exists st, t = stat_name st) \/ (exists o, t = op_name o) \/ t = "(" \/ t = ")".
Proof.
  intros t. unfold fx_allowed, fx_allowed_stats, fx_allowed_operators, fx_allowed_groupings.
  simpl. split.
  - intros H. repeat (destruct H as [H|H]; [subst t|]); try contradiction.
    + left; exists SMin; reflexivity.
    + left; exists SMax; reflexivity.
    + left; exists SMean; reflexivity.
    + left; exists SStd; reflexivity.
    + right; left; exists Add; reflexivity.
    + right; left; exists Sub; reflexivity.
    + right; left; exists Mul; reflexivity.
    + right; left; exists Div; reflexivity.
    + right; right; left; reflexivity.
    + right; right; right; reflexivity.
  - intros [[st ->]|[[o ->]|[->| ->]]]; [destruct st|destruct o| |]; simpl; tauto.
Qed.

(* every token of a printed expression passes the validator when its numbers do *)
Lemma print_tokens_allowed is_number full : forall e p,
  (forall s, is_num s = true -> is_number s = true) -> wf e ->
  validate_model fx_allowed is_number (print full p e) = true.
Proof.
  intros e p HN. revert p. unfold validate_model.
  induction e as [s|st|a IHa|o a IHa b IHb]; intros p W; simpl in W; simpl print.
  - simpl. unfold allowed_token. rewrite (HN s W). reflexivity.
  - simpl. unfold allowed_token. replace (existsb (String.eqb (stat_name st)) fx_allowed) with true
      by (destruct st; reflexivity). rewrite orb_true_r. reflexivity.
  - simpl forallb. rewrite IHa by exact W. unfold allowed_token.
    replace (existsb (String.eqb "-") fx_allowed) with true by reflexivity.
    rewrite orb_true_r. reflexivity.
  - destruct W as [Wa Wb].
    assert (B : forallb (allowed_token fx_allowed is_number)
                  (print full (lvl o) a ++ op_name o :: print full (S (lvl o)) b) = true).
    { rewrite forallb_app. rewrite IHa by exact Wa. simpl forallb. rewrite IHb by exact Wb.
      unfold allowed_token. replace (existsb (String.eqb (op_name o)) fx_allowed) with true
        by (destruct o; reflexivity). rewrite orb_true_r. reflexivity. }
    destruct (full || (lvl o <? p)%nat)%bool; [|exact B].
    simpl forallb. rewrite forallb_app, B. simpl. unfold allowed_token.
    replace (existsb (String.eqb "(") fx_allowed) with true by reflexivity.
    replace (existsb (String.eqb ")") fx_allowed) with true by reflexivity.
    rewrite !orb_true_r. reflexivity.
Qed.

(* str.split(" ") *)
Lemma split_spaces_nonempty s : split_spaces s <> [].
Proof.
  destruct s as [|c r]; simpl; [discriminate|].
  destruct (Ascii.eqb c " "); [discriminate|]. destruct (split_spaces r); discriminate.
Qed.

Lemma join_split s : join_spaces (split_spaces s) = s.
Proof.
  induction s as [|c r IH]; [reflexivity|]. simpl.
  destruct (Ascii.eqb c " ") eqn:E.
  - apply Ascii.eqb_eq in E. subst c.
    pose proof (split_spaces_nonempty r) as NE.
    destruct (split_spaces r) as [|t ts]; [contradiction|].
    change (join_spaces ("" :: t :: ts)) with (String " " (join_spaces (t :: ts))).
    rewrite IH. reflexivity.
  - pose proof (split_spaces_nonempty r) as NE.
    destruct (split_spaces r) as [|t ts]; [contradiction|].
    destruct ts as [|t' ts]; simpl in *; rewrite <- IH; reflexivity.
Qed.

Lemma split_no_space s : Forall (fun t => has_space t = false) (split_spaces s).
Proof.
  induction s as [|c r IH]; simpl.
  - constructor; [reflexivity|constructor].
  - destruct (Ascii.eqb c " ") eqn:E.
    + constructor; [reflexivity|exact IH].
    + destruct (split_spaces r) as [|t ts]; [constructor; [simpl; rewrite E; reflexivity|constructor]|].
      inversion IH; subst. constructor; [simpl; rewrite E; assumption|assumption].
Qed.

Lemma split_nospace t : has_space t = false -> split_spaces t = [t].
Proof.
  induction t as [|c r IHr]; intros Ht; [reflexivity|].
  simpl in Ht. apply orb_false_iff in Ht. destruct Ht as [Hc Hr].
  simpl. rewrite Hc. rewrite (IHr Hr). reflexivity.
Qed.

Lemma split_app_space t rest : has_space t = false ->
  split_spaces (t ++ String " " rest)%string = t :: split_spaces rest.
Proof.
  induction t as [|c r IHr]; intros Ht; [reflexivity|].
  simpl in Ht. apply orb_false_iff in Ht. destruct Ht as [Hc Hr].
  simpl. rewrite Hc. rewrite (IHr Hr). reflexivity.
Qed.

Lemma split_join ts : ts <> [] -> Forall (fun t => has_space t = false) ts ->
  split_spaces (join_spaces ts) = ts.
Proof.
  induction ts as [|t ts IH]; intros NE F; [contradiction|].
  inversion F as [|? ? Ht Fts]; subst.
  destruct ts as [|t' ts].
  - apply split_nospace. exact Ht.
  - change (join_spaces (t :: t' :: ts)) with (t ++ String " " (join_spaces (t' :: ts)))%string.
    rewrite split_app_space by exact Ht. rewrite IH; [reflexivity|discriminate|exact Fts].
Qed.

(* ================================================================ create_config (specification) *)

Lemma in_bbox_inclusive xmin ymin xmax ymax lon lat v :
  in_bbox (xmin, ymin, xmax, ymax) (lon, lat, v) = true
  <-> xmin <= lon /\ lon <= xmax /\ ymin <= lat /\ lat <= ymax.
Proof.
  unfold in_bbox. rewrite !andb_true_iff, !Qleb_true. tauto.
Qed.

Lemma qlist_min_le x l : qlist_min x l <= x /\ Forall (fun y => qlist_min x l <= y) l.
Proof.
  induction l as [|a l [IH1 IH2]]; simpl.
  - split; [lra|constructor].
  - destruct (qmin_case a (qlist_min x l)) as [[H ->]|[H ->]].
    + split; [lra|]. constructor; [lra|]. eapply Forall_impl; [|exact IH2]. simpl. intros; lra.
    + split; [lra|]. constructor; [lra|]. exact IH2.
Qed.

Lemma qlist_max_ge x l : x <= qlist_max x l /\ Forall (fun y => y <= qlist_max x l) l.
Proof.
  induction l as [|a l [IH1 IH2]]; simpl.
  - split; [lra|constructor].
  - destruct (qmax_case a (qlist_max x l)) as [[H ->]|[H ->]].
    + split; [lra|]. constructor; [lra|]. exact IH2.
    + split; [lra|]. constructor; [lra|]. eapply Forall_impl; [|exact IH2]. simpl. intros; lra.
Qed.
