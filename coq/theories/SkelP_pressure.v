(* SkelP_pressure.v — generated flag skeleton of argo.pressure_increasing_test = model.
   The source writes  flags[np.where(delta <= 0)[0] + 1] = SUSPECT : the translator reads the index array
   `np.where(c)[0] + 1` as the view flags[1:][c].  `delta` is the (possibly sign-flipped) difference array of
   the model. *)
From IoosQc Require Import Base Skel SkelBase Generated Density.
From Coq Require Import String.
Local Notation length := List.length.
Open Scope string_scope.

(* the model's delta after `if sign < 0: delta = sign * delta` *)
Definition pressure_delta (ps : list obs) : list obs :=
  let delta := odiff ps in
  match option_map qsign (omean delta) with
  | Some s => if Qltb s 0 then map (option_map (Qmult s)) delta else delta
  | None => delta
  end.

Definition env_pressure (ps : list obs) : env :=
  {| e_arr := bind_arr [("delta", pressure_delta ps)];
     e_num := (fun _ => None); e_str := (fun _ => None); e_bool := (fun _ => None);
     e_size := length ps |}.

Theorem skel_pressure ps :
  pressure_model ps =
  Flags (run_steps (env_pressure ps) skel_pressure_increasing_test (all_flags (length ps) GOOD)).
Proof.
  unfold pressure_model, skel_pressure_increasing_test, all_flags. steps.
  unfold guards_hold, forallb. reflexivity.
Qed.
