(* Props_C13.v — C13: profile tests flag both points of an inverted pair, in either cast direction.
   Only statements, `exact <lemma>` and Print Assumptions.
   (statements written out by tools/mk_props.py from the lemmas they restate) *)
From IoosQc Require Import Base Generated Density DensityProofs Skel SkelBase SkelP_density Arr Gen ArrBase ArrP_density GenBase GenP_density SkelP_pressure.


(* density_inversion_test: for ALL profiles, lengths, missing placements in density and depth and all threshold options the operational model equals the per-point specification (no hypothesis) *)
Theorem C13_density_refines :
  forall (st ft : option Q) (rho z : list obs),
         density_model st ft rho z = density_spec st ft rho z.
Proof. exact (@density_refines). Qed.
Print Assumptions C13_density_refines.

Theorem C13_density_mismatch :
  forall (st ft : option Q) (rho z : list obs),
         length rho <> length z -> density_model st ft rho z = Raises ValueError.
Proof. exact (@density_shape_mismatch). Qed.
Print Assumptions C13_density_mismatch.

Theorem C13_density_empty :
  forall st ft : option Q, density_model st ft [] [] = Flags [].
Proof. exact (@density_empty). Qed.
Print Assumptions C13_density_empty.

(* a single point is UNKNOWN *)
Theorem C13_density_single :
  forall (st ft : option Q) (r d : obs), density_model st ft [r] [d] = Flags [UNKNOWN].
Proof. exact (@density_single). Qed.
Print Assumptions C13_density_single.

(* the density change is taken in the direction of increasing depth *)
Theorem C13_pair_change_down :
  forall (rho z : list obs) (j : nat) (r0 r1 z0 z1 : Q),
         getq rho j = Some r0 ->
         getq rho (j + 1) = Some r1 ->
         getq z j = Some z0 ->
         getq z (j + 1) = Some z1 -> z0 < z1 -> oeq (pair_delta rho z j) (Some (r1 - r0)).
Proof. exact (@pair_delta_down). Qed.
Print Assumptions C13_pair_change_down.

Theorem C13_pair_change_up :
  forall (rho z : list obs) (j : nat) (r0 r1 z0 z1 : Q),
         getq rho j = Some r0 ->
         getq rho (j + 1) = Some r1 ->
         getq z j = Some z0 ->
         getq z (j + 1) = Some z1 -> z1 < z0 -> oeq (pair_delta rho z j) (Some (r0 - r1)).
Proof. exact (@pair_delta_up). Qed.
Print Assumptions C13_pair_change_up.

(* and is zero for a pair at constant depth *)
Theorem C13_const_depth :
  forall (st ft : option Q) (rho z : list obs) (j : nat) (r0 r1 z0 z1 : Q),
         getq rho j = Some r0 ->
         getq rho (j + 1) = Some r1 ->
         getq z j = Some z0 ->
         getq z (j + 1) = Some z1 -> z1 == z0 -> pair_flag st ft rho z j = dens_decide st ft 0.
Proof. exact (@density_const_depth). Qed.
Print Assumptions C13_const_depth.

(* FAIL below the fail threshold, else SUSPECT below the suspect threshold, else GOOD; a change exactly on a threshold is not flagged *)
Theorem C13_decide_fail :
  forall (st ft : option Q) (d : Q),
         dens_decide st ft d = FAIL <-> (exists t : Q, ft = Some t /\ d < t).
Proof. exact (@dens_decide_fail). Qed.
Print Assumptions C13_decide_fail.

Theorem C13_decide_suspect :
  forall (st ft : option Q) (d : Q),
         dens_decide st ft d = SUSPECT <->
         (forall t : Q, ft = Some t -> t <= d) /\ (exists u : Q, st = Some u /\ d < u).
Proof. exact (@dens_decide_suspect). Qed.
Print Assumptions C13_decide_suspect.

Theorem C13_decide_good :
  forall (st ft : option Q) (d : Q),
         dens_decide st ft d = GOOD <->
         (forall t : Q, ft = Some t -> t <= d) /\ (forall u : Q, st = Some u -> u <= d).
Proof. exact (@dens_decide_good). Qed.
Print Assumptions C13_decide_good.

Theorem C13_decide_on_thr :
  forall (st ft : option Q) (d : Q),
         (forall t : Q, ft = Some t -> t <= d) ->
         (forall u : Q, st = Some u -> u <= d) -> dens_decide st ft d = GOOD.
Proof. exact (@dens_decide_on_thr). Qed.
Print Assumptions C13_decide_on_thr.

(* per point: the worse of its (at most two) adjacent pairs *)
Theorem C13_pt_fail :
  forall (st ft : option Q) (rho z : list obs) (i : nat),
         density_pt st ft rho z i = FAIL <->
         judged rho z i /\ (exists j : nat, adjacent i j /\ pair_flag st ft rho z j = FAIL).
Proof. exact (@density_pt_fail). Qed.
Print Assumptions C13_pt_fail.

Theorem C13_pt_suspect :
  forall (st ft : option Q) (rho z : list obs) (i : nat),
         density_pt st ft rho z i = SUSPECT <->
         judged rho z i /\
         (forall j : nat, adjacent i j -> pair_flag st ft rho z j <> FAIL) /\
         (exists j : nat, adjacent i j /\ pair_flag st ft rho z j = SUSPECT).
Proof. exact (@density_pt_suspect). Qed.
Print Assumptions C13_pt_suspect.

Theorem C13_pt_good :
  forall (st ft : option Q) (rho z : list obs) (i : nat),
         density_pt st ft rho z i = GOOD <->
         judged rho z i /\ (forall j : nat, adjacent i j -> pair_flag st ft rho z j = GOOD).
Proof. exact (@density_pt_good). Qed.
Print Assumptions C13_pt_good.

(* a missing density or depth makes that point and the next one MISSING *)
Theorem C13_pt_missing :
  forall (st ft : option Q) (rho z : list obs) (i : nat),
         density_pt st ft rho z i = MISSING <->
         length rho <> 1%nat /\
         (rec_missing rho z i = true \/ i <> 0%nat /\ rec_missing rho z (i - 1) = true).
Proof. exact (@density_pt_missing_iff). Qed.
Print Assumptions C13_pt_missing.

Theorem C13_pt_unknown :
  forall (st ft : option Q) (rho z : list obs) (i : nat),
         density_pt st ft rho z i = UNKNOWN <-> length rho = 1%nat.
Proof. exact (@density_pt_unknown). Qed.
Print Assumptions C13_pt_unknown.

(* both points of an inverted pair are flagged *)
Theorem C13_pair_fail_both :
  forall (st ft : option Q) (rho z : list obs) (j : nat),
         pair_flag st ft rho z j = FAIL ->
         density_pt st ft rho z (j + 1) = FAIL /\
         (density_pt st ft rho z j = FAIL \/
          j <> 0%nat /\ rec_missing rho z (j - 1) = true /\ density_pt st ft rho z j = MISSING).
Proof. exact (@density_pair_fail_both). Qed.
Print Assumptions C13_pair_fail_both.

Theorem C13_pair_suspect_both :
  forall (st ft : option Q) (rho z : list obs) (j : nat),
         pair_flag st ft rho z j = SUSPECT ->
         (density_pt st ft rho z (j + 1) = SUSPECT \/ density_pt st ft rho z (j + 1) = FAIL) /\
         (density_pt st ft rho z j = SUSPECT \/
          density_pt st ft rho z j = FAIL \/
          j <> 0%nat /\ rec_missing rho z (j - 1) = true /\ density_pt st ft rho z j = MISSING).
Proof. exact (@density_pair_suspect_both). Qed.
Print Assumptions C13_pair_suspect_both.

(* a profile and the same profile in reverse order receive mirrored flags when nothing is missing *)
Theorem C13_reverse :
  forall (st ft : option Q) (rho z : list obs),
         (forall k : nat, (k < length rho)%nat -> rec_missing rho z k = false) ->
         density_spec st ft (rev rho) (rev z) =
         match density_spec st ft rho z with
         | Flags l => Flags (rev l)
         | Raises e => Raises e
         end.
Proof. exact (@density_reverse). Qed.
Print Assumptions C13_reverse.

Theorem C13_model_reverse :
  forall (st ft : option Q) (rho z : list obs),
         (forall k : nat, (k < length rho)%nat -> rec_missing rho z k = false) ->
         density_model st ft (rev rho) (rev z) =
         match density_model st ft rho z with
         | Flags l => Flags (rev l)
         | Raises e => Raises e
         end.
Proof. exact (@density_model_reverse). Qed.
Print Assumptions C13_model_reverse.

(* (the 'nothing missing' hypothesis is needed) *)
Theorem C13_reverse_needs_present :
  exists (st ft : option Q) (rho z : list obs),
           density_spec st ft (rev rho) (rev z) <>
           match density_spec st ft rho z with
           | Flags l => Flags (rev l)
           | Raises e => Raises e
           end.
Proof. exact (@density_reverse_needs_present). Qed.
Print Assumptions C13_reverse_needs_present.

(* pressure_increasing_test, for EVERY input (NaN included): the profile counts as descending iff all values are present and last < first (the sign of the mean step, see C13_mean_sign; a zero mean counts as ascending, as the code's `if sign < 0` does); a later point is SUSPECT iff it does not move strictly in that direction relative to its predecessor *)
Theorem C13_pressure_char :
  forall ps : list obs, pressure_model ps = Flags (tab (length ps) (pressure_code_pt ps)).
Proof. exact (@pressure_model_char). Qed.
Print Assumptions C13_pressure_char.

(* the sign of the mean step is the sign of last - first (telescoping) *)
Theorem C13_mean_sign :
  forall (ps : list (option Q)) (f l : Q),
         forallb is_some ps = true ->
         (2 <= length ps)%nat ->
         getq ps 0 = Some f ->
         getq ps (length ps - 1) = Some l ->
         option_map qsign (omean (odiff ps)) = Some (qsign (l - f)).
Proof. exact (@pressure_mean_sign). Qed.
Print Assumptions C13_mean_sign.

Theorem C13_sum_telescopes :
  forall (ps : list (option Q)) (f l : Q),
         forallb is_some ps = true ->
         getq ps 0 = Some f ->
         getq ps (length ps - 1) = Some l -> exists s : Q, osum (odiff ps) = Some s /\ s == l - f.
Proof. exact (@pressure_sum_telescopes). Qed.
Print Assumptions C13_sum_telescopes.

(* for profiles with a non-zero net change the literal reading (direction = sign of mean step) coincides *)
Theorem C13_pressure_refines_strict :
  forall ps : list (option Q),
         forallb is_some ps = true ->
         (forall f l : Q,
          (2 <= length ps)%nat -> getq ps 0 = Some f -> getq ps (length ps - 1) = Some l -> ~ l == f) ->
         pressure_model ps = pressure_spec ps.
Proof. exact (@pressure_refines). Qed.
Print Assumptions C13_pressure_refines_strict.

(* with zero net change the LITERAL reading (no point moves strictly in direction 0) differs from the code, which treats the profile as ascending; the theorem C13_pressure_char states the reading that is claimed *)
Theorem C13_pressure_zero_net_literal_refuted :
  exists ps : list (option Q),
           forallb is_some ps = true /\ pressure_model ps <> pressure_spec ps.
Proof. exact (@pressure_refuted). Qed.
Print Assumptions C13_pressure_zero_net_literal_refuted.

(* TRANSLATOR TIE: the flag-assignment skeleton generated from the CURRENT source of density_inversion_test (Generated.skel_density_inversion_test: the sliced views flag_arr[:-1] / flag_arr[1:], the comparison operator, `any(...)` guards, flag constants, the order SUSPECT pair / FAIL pair / MISSING record / MISSING successor, the size guards), run in the model's environment, yields exactly the model's flags *)
Theorem C13_source_skeleton :
  forall (st ft : option Q) (rho z : list obs),
         length rho = length z ->
         rho <> [] ->
         density_model st ft rho z =
         Flags
           (run_steps (env_density st ft rho z) skel_density_inversion_test
              (all_flags (length rho) GOOD)).
Proof. exact (@skel_density). Qed.
Print Assumptions C13_source_skeleton.

(* TRANSLATOR TIE, whole function: the array program (delta = sign(diff(zinp)) * diff(inp)) AND the flag skeleton, both generated from the CURRENT source of density_inversion_test, compute exactly the model's flags (profiles of two or more records) *)
Theorem C13_source_program :
  forall (st ft : option Q) (rho z : list obs),
         length rho = length z ->
         (2 <= length rho)%nat ->
         exists fl : list flag,
           gen_flags (length rho) (fun _ : String.string => None)
             (bind_num
                [(String.String (Ascii.Ascii true true false false true true true false)
                    (String.String (Ascii.Ascii true false true false true true true false)
                       (String.String (Ascii.Ascii true true false false true true true false)
                          (String.String (Ascii.Ascii false false false false true true true false)
                             (String.String (Ascii.Ascii true false true false false true true false)
                                (String.String
                                   (Ascii.Ascii true true false false false true true false)
                                   (String.String
                                      (Ascii.Ascii false false true false true true true false)
                                      (String.String
                                         (Ascii.Ascii true true true true true false true false)
                                         (String.String
                                            (Ascii.Ascii false false true false true true true false)
                                            (String.String
                                               (Ascii.Ascii false false false true false true true
                                                  false)
                                               (String.String
                                                  (Ascii.Ascii false true false false true true true
                                                     false)
                                                  (String.String
                                                     (Ascii.Ascii true false true false false true
                                                        true false)
                                                     (String.String
                                                        (Ascii.Ascii true true false false true true
                                                           true false)
                                                        (String.String
                                                           (Ascii.Ascii false false false true false
                                                              true true false)
                                                           (String.String
                                                              (Ascii.Ascii true true true true false
                                                                 true true false)
                                                              (String.String
                                                                 (Ascii.Ascii false false true true
                                                                    false true true false)
                                                                 (String.String
                                                                    (Ascii.Ascii false false true
                                                                       false false true true false)
                                                                    String.EmptyString)))))))))))))))),
                  st);
                 (String.String (Ascii.Ascii false true true false false true true false)
                    (String.String (Ascii.Ascii true false false false false true true false)
                       (String.String (Ascii.Ascii true false false true false true true false)
                          (String.String (Ascii.Ascii false false true true false true true false)
                             (String.String (Ascii.Ascii true true true true true false true false)
                                (String.String
                                   (Ascii.Ascii false false true false true true true false)
                                   (String.String
                                      (Ascii.Ascii false false false true false true true false)
                                      (String.String
                                         (Ascii.Ascii false true false false true true true false)
                                         (String.String
                                            (Ascii.Ascii true false true false false true true false)
                                            (String.String
                                               (Ascii.Ascii true true false false true true true
                                                  false)
                                               (String.String
                                                  (Ascii.Ascii false false false true false true true
                                                     false)
                                                  (String.String
                                                     (Ascii.Ascii true true true true false true true
                                                        false)
                                                     (String.String
                                                        (Ascii.Ascii false false true true false true
                                                           true false)
                                                        (String.String
                                                           (Ascii.Ascii false false true false false
                                                              true true false) String.EmptyString))))))))))))),
                  ft);
                 (String.String (Ascii.Ascii false false true false true false true false)
                    (String.String (Ascii.Ascii false true false false true true true false)
                       (String.String (Ascii.Ascii true false true false true true true false)
                          (String.String (Ascii.Ascii true false true false false true true false)
                             String.EmptyString))), Some 1)]) (fun _ : String.string => None)
             prog_density_inversion_test skel_density_inversion_test
             [String.String (Ascii.Ascii true false false true false true true false)
                (String.String (Ascii.Ascii false true true true false true true false)
                   (String.String (Ascii.Ascii false false false false true true true false)
                      String.EmptyString));
              String.String (Ascii.Ascii false true false true true true true false)
                (String.String (Ascii.Ascii true false false true false true true false)
                   (String.String (Ascii.Ascii false true true true false true true false)
                      (String.String (Ascii.Ascii false false false false true true true false)
                         String.EmptyString)));
              String.String (Ascii.Ascii false false true false false true true false)
                (String.String (Ascii.Ascii true false true false false true true false)
                   (String.String (Ascii.Ascii false false true true false true true false)
                      (String.String (Ascii.Ascii false false true false true true true false)
                         (String.String (Ascii.Ascii true false false false false true true false)
                            String.EmptyString))))]
             (bind_store
                [(String.String (Ascii.Ascii true false false true false true true false)
                    (String.String (Ascii.Ascii false true true true false true true false)
                       (String.String (Ascii.Ascii false false false false true true true false)
                          String.EmptyString)), rho);
                 (String.String (Ascii.Ascii false true false true true true true false)
                    (String.String (Ascii.Ascii true false false true false true true false)
                       (String.String (Ascii.Ascii false true true true false true true false)
                          (String.String (Ascii.Ascii false false false false true true true false)
                             String.EmptyString))), z)]) GOOD = Some fl /\
           density_model st ft rho z = Flags fl.
Proof. exact (@gen_density). Qed.
Print Assumptions C13_source_program.

(* TRANSLATOR TIE: the model of pressure_increasing_test is the flag skeleton generated from the current source (flags[np.where(delta <= 0)[0] + 1] = SUSPECT, read as the view flags[1:][delta <= 0]) run on the model's (possibly sign-flipped) difference array, from all GOOD *)
Theorem C13_source_skeleton_pressure :
  forall ps : list obs,
         pressure_model ps =
         Flags
           (run_steps (env_pressure ps) skel_pressure_increasing_test (all_flags (length ps) GOOD)).
Proof. exact (@skel_pressure). Qed.
Print Assumptions C13_source_skeleton_pressure.

Theorem C13_assign_order :
  assign_order_density_inversion_test = [UNKNOWN; SUSPECT; SUSPECT; FAIL; FAIL; MISSING; MISSING] /\ assign_order_pressure_increasing_test = [SUSPECT].
Proof. split; reflexivity. Qed.
Print Assumptions C13_assign_order.
