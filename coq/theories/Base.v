(* Base.v — shared vocabulary of the ioos_qc models: flags, outcomes, observations,
   boolean comparisons on Q with reflection lemmas, and a small numpy-like list toolkit
   (tab = index comprehension, set_where = boolean-mask assignment) with one index
   lemma each.  No axioms. *)
From Coq Require Export ZArith QArith Qabs List Bool Lia Lqa.
Export ListNotations.

(* ---------------------------------------------------------------- flags *)

Inductive flag := GOOD | UNKNOWN | SUSPECT | FAIL | MISSING.

Definition code (f : flag) : Z :=
  match f with GOOD => 1 | UNKNOWN => 2 | SUSPECT => 3 | FAIL => 4 | MISSING => 9 end%Z.

Definition flag_eqb (a b : flag) : bool :=
  match a, b with
  | GOOD, GOOD | UNKNOWN, UNKNOWN | SUSPECT, SUSPECT | FAIL, FAIL | MISSING, MISSING => true
  | _, _ => false
  end.

Lemma flag_eqb_eq a b : flag_eqb a b = true <-> a = b.
Proof. destruct a, b; simpl; split; congruence. Qed.

Lemma flag_eq_dec (a b : flag) : {a = b} + {a <> b}.
Proof. decide equality. Defined.

Definition flag_of_code (z : Z) : option flag :=
  if (z =? 1)%Z then Some GOOD else if (z =? 2)%Z then Some UNKNOWN else
  if (z =? 3)%Z then Some SUSPECT else if (z =? 4)%Z then Some FAIL else
  if (z =? 9)%Z then Some MISSING else None.

Lemma flag_of_code_code f : flag_of_code (code f) = Some f.
Proof. destruct f; reflexivity. Qed.

Lemma code_inj a b : code a = code b -> a = b.
Proof. destruct a, b; simpl; congruence. Qed.

(* severity among evaluated flags (C16): GOOD < SUSPECT < FAIL; UNKNOWN/MISSING are
   "not evaluated" *)
Definition sev (f : flag) : nat :=
  match f with GOOD => 1 | SUSPECT => 2 | FAIL => 3 | UNKNOWN => 0 | MISSING => 0 end.
Definition not_evaluated (f : flag) : bool :=
  match f with UNKNOWN | MISSING => true | _ => false end.

(* aggregation precedence (C04): MISSING < UNKNOWN < GOOD < SUSPECT < FAIL *)
Definition prio (f : flag) : nat :=
  match f with MISSING => 0 | UNKNOWN => 1 | GOOD => 2 | SUSPECT => 3 | FAIL => 4 end.

(* ---------------------------------------------------------------- outcomes *)

Inductive exn :=
  ValueError | TypeError | IndexError | AssertionError | AttributeError | KeyError | OtherError.

Inductive outcome := Flags (l : list flag) | Raises (e : exn).

(* ---------------------------------------------------------------- observations *)

Definition obs := option Q.

Definition is_none {A} (o : option A) : bool := match o with None => true | Some _ => false end.
Definition is_some {A} (o : option A) : bool := negb (is_none o).

Definition olift2 {A B C} (f : A -> B -> C) (a : option A) (b : option B) : option C :=
  match a, b with Some x, Some y => Some (f x y) | _, _ => None end.

(* a comparison that is False when the operand is missing (numpy: NaN under the mask) *)
Definition otest {A} (p : A -> bool) (o : option A) : bool :=
  match o with Some x => p x | None => false end.

(* ---------------------------------------------------------------- Q comparisons *)

Definition Qleb (x y : Q) : bool := Qle_bool x y.
Definition Qltb (x y : Q) : bool := negb (Qle_bool y x).
Definition Qeqb (x y : Q) : bool := Qeq_bool x y.

Lemma Qleb_spec x y : reflect (x <= y) (Qleb x y).
Proof.
  unfold Qleb. destruct (Qle_bool x y) eqn:E; constructor.
  - apply Qle_bool_iff; exact E.
  - intro H. apply Qle_bool_iff in H. congruence.
Qed.

Lemma Qltb_spec x y : reflect (x < y) (Qltb x y).
Proof.
  unfold Qltb. destruct (Qle_bool y x) eqn:E; simpl; constructor.
  - apply Qle_bool_iff in E. apply Qle_not_lt; exact E.
  - apply Qnot_le_lt. intro H. apply Qle_bool_iff in H. congruence.
Qed.

Lemma Qeqb_spec x y : reflect (x == y) (Qeqb x y).
Proof.
  unfold Qeqb. destruct (Qeq_bool x y) eqn:E; constructor.
  - apply Qeq_bool_iff; exact E.
  - intro H. apply Qeq_bool_iff in H. congruence.
Qed.

Lemma Qleb_true x y : Qleb x y = true <-> x <= y.
Proof. destruct (Qleb_spec x y); split; intros; try congruence; tauto. Qed.
Lemma Qleb_false x y : Qleb x y = false <-> y < x.
Proof. destruct (Qleb_spec x y); split; intros; try congruence; try lra. Qed.
Lemma Qltb_true x y : Qltb x y = true <-> x < y.
Proof. destruct (Qltb_spec x y); split; intros; try congruence; tauto. Qed.
Lemma Qltb_false x y : Qltb x y = false <-> y <= x.
Proof. destruct (Qltb_spec x y); split; intros; try congruence; try lra. Qed.

Global Instance Qleb_Proper : Proper (Qeq ==> Qeq ==> eq) Qleb.
Proof.
  intros a b Hab c d Hcd.
  destruct (Qleb_spec a c), (Qleb_spec b d); try reflexivity; exfalso; lra.
Qed.
Global Instance Qltb_Proper : Proper (Qeq ==> Qeq ==> eq) Qltb.
Proof.
  intros a b Hab c d Hcd.
  destruct (Qltb_spec a c), (Qltb_spec b d); try reflexivity; exfalso; lra.
Qed.

(* |x| written so that case analysis + lra closes goals *)
Definition qabs (x : Q) : Q := if Qleb 0 x then x else - x.

Lemma qabs_case x : (0 <= x /\ qabs x = x) \/ (x < 0 /\ qabs x = - x).
Proof. unfold qabs. destruct (Qleb_spec 0 x); [left|right]; split; try reflexivity; lra. Qed.

Lemma qabs_nonneg x : 0 <= qabs x.
Proof. destruct (qabs_case x) as [[? ->]|[? ->]]; lra. Qed.

Global Instance qabs_Proper : Proper (Qeq ==> Qeq) qabs.
Proof.
  intros a b Hab. destruct (qabs_case a) as [[? ->]|[? ->]], (qabs_case b) as [[? ->]|[? ->]]; lra.
Qed.

Lemma qabs_opp x : qabs (- x) == qabs x.
Proof. destruct (qabs_case x) as [[? ->]|[? ->]], (qabs_case (-x)) as [[? ->]|[? ->]]; lra. Qed.

Definition qmin (x y : Q) : Q := if Qleb x y then x else y.
Definition qmax (x y : Q) : Q := if Qleb x y then y else x.

Lemma qmin_case x y : (x <= y /\ qmin x y = x) \/ (y < x /\ qmin x y = y).
Proof. unfold qmin. destruct (Qleb_spec x y); [left|right]; split; try reflexivity; lra. Qed.
Lemma qmax_case x y : (x <= y /\ qmax x y = y) \/ (y < x /\ qmax x y = x).
Proof. unfold qmax. destruct (Qleb_spec x y); [left|right]; split; try reflexivity; lra. Qed.

(* sign as numpy.sign *)
Definition qsign (x : Q) : Q := if Qltb 0 x then 1 else if Qltb x 0 then -1 else 0.

(* ---------------------------------------------------------------- list toolkit *)

Section Tab.
  Context {A : Type}.

  (* index comprehension: [f 0; f 1; ...; f (n-1)] *)
  Definition tab (n : nat) (f : nat -> A) : list A := map f (seq 0 n).

  Lemma tab_length n f : length (tab n f) = n.
  Proof. unfold tab. rewrite map_length, seq_length. reflexivity. Qed.

  Lemma nth_tab n f i d : (i < n)%nat -> nth i (tab n f) d = f i.
  Proof.
    intros H. unfold tab.
    rewrite (nth_indep _ d (f 0%nat)) by (rewrite map_length, seq_length; exact H).
    rewrite map_nth. rewrite seq_nth by exact H. reflexivity.
  Qed.

  Lemma tab_ext n f g : (forall i, (i < n)%nat -> f i = g i) -> tab n f = tab n g.
  Proof.
    intros H. unfold tab. apply map_ext_in. intros i Hi. apply in_seq in Hi. apply H. lia.
  Qed.

  Lemma tab_S n f : tab (S n) f = f 0%nat :: tab n (fun i => f (S i)).
  Proof. unfold tab. simpl. f_equal. rewrite <- seq_shift, map_map. reflexivity. Qed.

  Lemma tab_nth_self (l : list A) d : tab (length l) (fun i => nth i l d) = l.
  Proof.
    induction l as [|a l IH]; [reflexivity|].
    simpl length. rewrite tab_S. simpl. f_equal. exact IH.
  Qed.

End Tab.

Section Toolkit.
  Context {A : Type}.

  (* boolean-mask assignment  l[c] = v *)
  Fixpoint set_where (c : list bool) (v : A) (l : list A) : list A :=
    match c, l with
    | b :: c', x :: l' => (if b then v else x) :: set_where c' v l'
    | _, _ => l
    end.

  Lemma set_where_length c v l : length (set_where c v l) = length l.
  Proof. revert l; induction c as [|b c IH]; intros [|x l]; simpl; auto. Qed.

  Lemma set_where_tab n c v f :
    set_where (tab n c) v (tab n f) = tab n (fun i => if c i then v else f i).
  Proof.
    revert c f. induction n as [|n IH]; intros c f; [reflexivity|].
    rewrite !tab_S. simpl. f_equal. apply IH.
  Qed.

  (* single-index assignment  l[k] = v  (no effect if k out of range) *)
  Definition set_at (k : nat) (v : A) (l : list A) : list A :=
    set_where (tab (length l) (Nat.eqb k)) v l.

  Lemma set_at_tab k v n f :
    set_at k v (tab n f) = tab n (fun i => if Nat.eqb k i then v else f i).
  Proof. unfold set_at. rewrite tab_length. apply set_where_tab. Qed.

End Toolkit.

Lemma map_tab {A B} (g : A -> B) n (f : nat -> A) : map g (tab n f) = tab n (fun i => g (f i)).
Proof. unfold tab. rewrite map_map. reflexivity. Qed.

Lemma map_as_tab {A B} (g : A -> B) (l : list A) d :
  map g l = tab (length l) (fun i => g (nth i l d)).
Proof. rewrite <- map_tab. rewrite tab_nth_self. reflexivity. Qed.

(* ---------------------------------------------------------------- observation access *)

Definition getq (xs : list obs) (i : nat) : obs := nth i xs None.
Definition missing_at (xs : list obs) (i : nat) : bool := is_none (getq xs i).

Lemma getq_tab n (f : nat -> obs) i : (i < n)%nat -> getq (tab n f) i = f i.
Proof. intros H. unfold getq. apply nth_tab. exact H. Qed.

Lemma getq_beyond xs i : (length xs <= i)%nat -> getq xs i = None.
Proof. intros H. unfold getq. apply nth_overflow. exact H. Qed.

Definition getz (ts : list Z) (i : nat) : Z := nth i ts 0%Z.

(* whole seconds between two ns timestamps: numpy timedelta64[ns] -> [s] is floor division *)
Definition NS : Z := 1000000000%Z.
Definition secs (dt_ns : Z) : Z := (dt_ns / NS)%Z.

Definition all_flags (n : nat) (f : flag) : list flag := tab n (fun _ => f).

(* ---------------------------------------------------------------- decision helpers *)

Definition outcome_eqb (a b : outcome) : bool :=
  match a, b with
  | Flags l1, Flags l2 =>
      (Nat.eqb (length l1) (length l2)) && forallb (fun p => flag_eqb (fst p) (snd p)) (combine l1 l2)
  | Raises e1, Raises e2 =>
      match e1, e2 with
      | ValueError, ValueError | TypeError, TypeError | IndexError, IndexError
      | AssertionError, AssertionError | AttributeError, AttributeError
      | KeyError, KeyError | OtherError, OtherError => true
      | _, _ => false
      end
  | _, _ => false
  end.

(* numbered mismatches: the correspondence files evaluate this with vm_compute *)
Fixpoint mismatches_from {A} (k : N) (eqb : A -> A -> bool) (l : list (A * A)) : list (N * A) :=
  match l with
  | [] => []
  | (got, want) :: r =>
      if eqb got want then mismatches_from (N.succ k) eqb r else (k, got) :: mismatches_from (N.succ k) eqb r
  end.

(* ---------------------------------------------------------------- more list facts *)

Lemma getq_map (f : Q -> Q) xs i : getq (map (option_map f) xs) i = option_map f (getq xs i).
Proof.
  unfold getq. revert i. induction xs as [|x xs IH]; intros [|i]; simpl; auto.
Qed.

Lemma rev_tab {A} n (f : nat -> A) : rev (tab n f) = tab n (fun i => f (n - 1 - i)%nat).
Proof.
  revert f. induction n as [|n IH]; intros f; [reflexivity|].
  rewrite tab_S. simpl rev. rewrite IH.
  assert (E : tab (S n) (fun i => f (S n - 1 - i)%nat) =
              tab n (fun i => f (S n - 1 - i)%nat) ++ [f 0%nat]).
  { unfold tab. rewrite seq_S, map_app. simpl. repeat f_equal. lia. }
  rewrite E. f_equal. apply tab_ext. intros i Hi. f_equal. lia.
Qed.

Lemma getq_rev xs i : (i < length xs)%nat -> getq (rev xs) i = getq xs (length xs - 1 - i).
Proof. intros H. unfold getq. rewrite rev_nth by exact H. f_equal. lia. Qed.

(* thresholds: None = absent (loosest).  thr_le a b: a is at least as strict as b *)
Definition thr_le (a b : option Q) : Prop :=
  match a, b with
  | Some x, Some y => x <= y
  | _, None => True
  | None, Some _ => False
  end.

Global Instance qmin_Proper : Proper (Qeq ==> Qeq ==> Qeq) qmin.
Proof.
  intros a b H c d H1.
  destruct (qmin_case a c) as [[? ->]|[? ->]], (qmin_case b d) as [[? ->]|[? ->]]; lra.
Qed.
Global Instance qmax_Proper : Proper (Qeq ==> Qeq ==> Qeq) qmax.
Proof.
  intros a b H c d H1.
  destruct (qmax_case a c) as [[? ->]|[? ->]], (qmax_case b d) as [[? ->]|[? ->]]; lra.
Qed.

(* ---------------------------------------------------------------- multi-dimensional arguments
   A test flattens its arrays (C order) after checking that their SHAPES agree; arrays of equal size
   but different shapes are rejected.  The one-dimensional models take the flattened series. *)
Definition shape_guard (s1 s2 : list nat) (o : outcome) : outcome :=
  if list_eq_dec Nat.eq_dec s1 s2 then o else Raises ValueError.

Lemma shape_guard_same s o : shape_guard s s o = o.
Proof. unfold shape_guard. destruct (list_eq_dec Nat.eq_dec s s); [reflexivity|congruence]. Qed.

Lemma shape_guard_differ s1 s2 o : s1 <> s2 -> shape_guard s1 s2 o = Raises ValueError.
Proof. intros H. unfold shape_guard. destruct (list_eq_dec Nat.eq_dec s1 s2); [congruence|reflexivity]. Qed.
