(* Props_C14.v — C14: location flags follow bounding-box membership and hop distance.
   Only statements, `exact <lemma>` and Print Assumptions.
   (statements written out by tools/mk_props.py from the lemmas they restate) *)
From IoosQc Require Import Base Generated Location LocationProofs Skel SkelBase SkelP_location.


(* for EVERY geodesic function, every track length and missing pattern, every box and range_max >= 0 (or absent): the operational model equals the per-position decision list; bbox arity and shape mismatch are rejected (both sides) *)
Theorem C14_refines :
  forall (geod : Q -> Q -> Q -> Q -> Q) (bbox : list Q) (range_max : option Q)
           (lon lat : list obs),
         loc_dom range_max (length lon) ->
         location_model geod bbox range_max lon lat = location_spec geod bbox range_max lon lat.
Proof. exact (@location_refines). Qed.
Print Assumptions C14_refines.

(* a bounding box that is not a 4-sequence, or longitude/latitude of different lengths, is rejected with ValueError — and nothing else is *)
Theorem C14_rejects :
  forall (geod : Q -> Q -> Q -> Q -> Q) (bbox : list Q) (range_max : option Q)
           (lon lat : list obs),
         length bbox <> 4%nat \/ length lon <> length lat <->
         location_model geod bbox range_max lon lat = Raises ValueError.
Proof. exact (@location_rejects). Qed.
Print Assumptions C14_rejects.

Theorem C14_accepts :
  forall (geod : Q -> Q -> Q -> Q -> Q) (minx miny maxx maxy : Q) 
           (range_max : option Q) (lon lat : list obs),
         length lon = length lat ->
         location_spec geod [minx; miny; maxx; maxy] range_max lon lat =
         Flags (tab (length lon) (location_pt geod minx miny maxx maxy range_max lon lat)).
Proof. exact (@location_accepts). Qed.
Print Assumptions C14_accepts.

(* FAIL iff exactly one coordinate is missing or a present position lies strictly outside the box *)
Theorem C14_fail :
  forall (geod : Q -> Q -> Q -> Q -> Q) (minx miny maxx maxy : Q) 
           (range_max : option Q) (lon lat : list obs) (i : nat),
         location_pt geod minx miny maxx maxy range_max lon lat i = FAIL <->
         getq lon i = None /\ getq lat i <> None \/
         getq lon i <> None /\ getq lat i = None \/
         (exists x y : Q,
            getq lon i = Some x /\
            getq lat i = Some y /\ (x < minx \/ y < miny \/ maxx < x \/ maxy < y)).
Proof. exact (@location_pt_fail). Qed.
Print Assumptions C14_fail.

(* otherwise SUSPECT iff range_max is given and the geodesic distance from the previous (fully present) position exceeds it *)
Theorem C14_suspect :
  forall (geod : Q -> Q -> Q -> Q -> Q) (minx miny maxx maxy : Q) 
           (range_max : option Q) (lon lat : list obs) (i : nat),
         location_pt geod minx miny maxx maxy range_max lon lat i = SUSPECT <->
         (exists x y : Q,
            getq lon i = Some x /\
            getq lat i = Some y /\
            minx <= x <= maxx /\ miny <= y <= maxy /\ far_hop geod range_max lon lat i x y).
Proof. exact (@location_pt_suspect). Qed.
Print Assumptions C14_suspect.

(* otherwise GOOD *)
Theorem C14_good :
  forall (geod : Q -> Q -> Q -> Q -> Q) (minx miny maxx maxy : Q) 
           (range_max : option Q) (lon lat : list obs) (i : nat),
         location_pt geod minx miny maxx maxy range_max lon lat i = GOOD <->
         (exists x y : Q,
            getq lon i = Some x /\
            getq lat i = Some y /\
            minx <= x <= maxx /\
            miny <= y <= maxy /\
            (forall r x0 y0 : Q,
             range_max = Some r ->
             i <> 0%nat ->
             getq lon (i - 1) = Some x0 -> getq lat (i - 1) = Some y0 -> geod y0 x0 y x <= r)).
Proof. exact (@location_pt_good). Qed.
Print Assumptions C14_good.

(* MISSING iff both coordinates are missing *)
Theorem C14_missing :
  forall (geod : Q -> Q -> Q -> Q -> Q) (minx miny maxx maxy : Q) 
           (range_max : option Q) (lon lat : list obs) (i : nat),
         location_pt geod minx miny maxx maxy range_max lon lat i = MISSING <->
         getq lon i = None /\ getq lat i = None.
Proof. exact (@location_pt_missing). Qed.
Print Assumptions C14_missing.

Theorem C14_never_unknown :
  forall (geod : Q -> Q -> Q -> Q -> Q) (minx miny maxx maxy : Q) 
           (range_max : option Q) (lon lat : list obs) (i : nat),
         location_pt geod minx miny maxx maxy range_max lon lat i <> UNKNOWN.
Proof. exact (@location_pt_never_unknown). Qed.
Print Assumptions C14_never_unknown.

(* edges are inside *)
Theorem C14_edge_good :
  forall (geod : Q -> Q -> Q -> Q -> Q) (minx miny maxx maxy : Q) 
           (range_max : option Q) (lon lat : list obs) (i : nat) (x y : Q),
         getq lon i = Some x ->
         getq lat i = Some y ->
         x == minx \/ x == maxx \/ minx <= x <= maxx ->
         y == miny \/ y == maxy \/ miny <= y <= maxy ->
         minx <= maxx ->
         miny <= maxy ->
         range_max = None -> location_pt geod minx miny maxx maxy range_max lon lat i = GOOD.
Proof. exact (@location_pt_edge_good). Qed.
Print Assumptions C14_edge_good.

(* the default box (read from the source's signature by the translator) is the whole globe *)
Theorem C14_default_box :
  forall (geod : Q -> Q -> Q -> Q -> Q) (rm : option Q) (lon lat : list obs) 
           (i : nat) (x y : Q),
         getq lon i = Some x ->
         getq lat i = Some y ->
         qabs x <= 180 -> qabs y <= 90 -> location_pt geod (-180) (-90) 180 90 rm lon lat i <> FAIL.
Proof. exact (@location_default_no_box_fail). Qed.
Print Assumptions C14_default_box.

Theorem C14_default_box_value :
  location_default_bbox = [-180; -90; 180; 90].
Proof. exact (@location_default_bbox_eq). Qed.
Print Assumptions C14_default_box_value.

(* the model depends on the geodesic only through the hops of the track: justifies evaluating it with the finite table of geographiclib distances *)
Theorem C14_geod_ext :
  forall (g g' : Q -> Q -> Q -> Q -> Q) (bbox : list Q) (range_max : option Q)
           (lon lat : list obs),
         (forall (i : nat) (y0 x0 y x : Q),
          i <> 0%nat ->
          getq lat (i - 1) = Some y0 ->
          getq lon (i - 1) = Some x0 ->
          getq lat i = Some y -> getq lon i = Some x -> g y0 x0 y x = g' y0 x0 y x) ->
         location_model g bbox range_max lon lat = location_model g' bbox range_max lon lat.
Proof. exact (@location_model_geod_ext). Qed.
Print Assumptions C14_geod_ext.

(* outside the stated domain (a NEGATIVE range_max with >= 2 positions) the code flags the first position SUSPECT (d[0] = 0 > range_max): the hypothesis of C14_refines is needed *)
Theorem C14_negative_range_refuted :
  forall geod : Q -> Q -> Q -> Q -> Q,
         exists (bbox : list Q) (range_max : option Q) (lon lat : list obs),
           location_model geod bbox range_max lon lat <> location_spec geod bbox range_max lon lat.
Proof. exact (@location_refuted). Qed.
Print Assumptions C14_negative_range_refuted.

(* TRANSLATOR TIE: the skeleton generated from the current source of location_test (masks, guards `range_max is not None and lon.size > 1`, the four box comparisons, order MISSING / FAIL / SUSPECT / FAIL) run in the model's environment yields exactly the model's flags, for every geodesic *)
Theorem C14_source_skeleton :
  forall (geod : Q -> Q -> Q -> Q -> Q) (minx miny maxx maxy : Q) 
           (rm : option Q) (lon lat : list obs),
         length lon = length lat ->
         location_model geod [minx; miny; maxx; maxy] rm lon lat =
         Flags
           (run_steps (env_loc geod minx miny maxx maxy rm lon lat) skel_location_test
              (all_flags (length lon) GOOD)).
Proof. exact (@skel_location). Qed.
Print Assumptions C14_source_skeleton.

(* multi-dimensional longitude / latitude arrays whose SHAPES differ are rejected, whatever their sizes (shape_guard is the wrapper the correspondence puts around the flattened model) *)
Theorem C14_shapes_differ_rejected :
  forall (s1 s2 : list nat) (o : outcome), s1 <> s2 -> shape_guard s1 s2 o = Raises ValueError.
Proof. exact (@shape_guard_differ). Qed.
Print Assumptions C14_shapes_differ_rejected.

(* with equal shapes the result is that of the flattened series *)
Theorem C14_shapes_equal_flattened :
  forall (s : list nat) (o : outcome), shape_guard s s o = o.
Proof. exact (@shape_guard_same). Qed.
Print Assumptions C14_shapes_equal_flattened.

Theorem C14_assign_order : assign_order_location_test = [MISSING; FAIL; SUSPECT; FAIL].
Proof. reflexivity. Qed.
Print Assumptions C14_assign_order.

Example C14_ex1 :
  location_model (fun _ _ _ _ => 100) [0; 0; 10; 10] (Some 50) [Some 5; Some 5; None; None; Some 11; Some 10] [Some 5; Some 6; Some 1; None; Some 5; Some 10]
  = Flags [GOOD; SUSPECT; FAIL; MISSING; FAIL; SUSPECT].
Proof. vm_compute. reflexivity. Qed.
