(* GenP_density.v — density_inversion_test assembled from its generated parts = model *)
From IoosQc Require Import Base Skel Arr Gen SkelBase ArrBase GenBase Generated Density SkelP_density ArrP_density.
From Coq Require Import String.
Local Notation length := List.length.
Open Scope string_scope.

(* ------------------------------------------------------------------ density_inversion_test *)

Theorem gen_density st ft rho z :
  length rho = length z -> (2 <= length rho)%nat ->
  exists fl,
    gen_flags (length rho) (fun _ => None)
              (bind_num [("suspect_threshold", st); ("fail_threshold", ft); ("True", Some 1)]) (fun _ => None)
              prog_density_inversion_test skel_density_inversion_test ["inp"; "zinp"; "delta"]
              (bind_store [("inp", rho); ("zinp", z)]) GOOD = Some fl
    /\ density_model st ft rho z = Flags fl.
Proof.
  intros Hl H2. unfold gen_flags.
  set (en0 := {| e_arr := fun _ => None; e_num := _; e_str := _; e_size := _ |}).
  destruct (prog_density en0 rho z Hl H2 eq_refl) as (s1 & Hrun & Hd & Hinp & Hz).
  rewrite Hrun. eexists. split; [reflexivity|].
  assert (Hne : rho <> []) by (destruct rho; [cbn in H2; lia|discriminate]).
  rewrite (skel_density st ft rho z Hl Hne). f_equal. apply run_steps_ext.
  repeat split; cbn [e_arr e_num e_str e_size env_density]; try reflexivity.
  apply (restrict_bind s1 [("inp", rho); ("zinp", z); ("delta", density_delta rho z)]). intros p Hp. in_cases Hp.
Qed.
