(* Props_C05.v — C05: running a config through any stream front end equals calling each test on its
   window rows.  All theorems are for an ARBITRARY test function (Section variable `test`), hence for
   neighbour- and time-dependent tests alike, and for all tables, configs and window layouts. *)
From IoosQc Require Import Base Stream StreamProofs.
From Coq Require Import String.
Local Notation length := List.length.

Section C05.
  Variables TestId Kw : Type.
  Variable test : TestId -> Kw -> rows -> option (list flag).

  (* NumpyStream (and NetcdfStream / QcConfig.run, which delegate to it) *)
  Theorem C05_numpy : forall cfg tbl,
    numpy_run TestId Kw test cfg tbl = spec_run TestId Kw test cfg tbl.
  Proof. exact (numpy_run_spec TestId Kw test). Qed.

  (* PandasStream: ANY row index (default, offset, reversed, arbitrary, repeated labels).  Before the repair of
     F23 this needed `NoDup (t_index tbl)`: the hypothesis the proof forced was the defect (refuted below) *)
  Theorem C05_pandas : forall cfg tbl,
    pandas_run TestId Kw test cfg tbl = spec_run TestId Kw test cfg tbl.
  Proof. exact (pandas_run_spec TestId Kw test). Qed.

  (* the label-based row mask of the code before the repair (F23) marks every row that shares a label
     with a selected row *)
  Theorem C05_pandas_label_mask_refuted :
    exists tbl m, length m = length (t_index tbl) /\ pandas_mask_by_label tbl m <> m.
  Proof. exact pandas_mask_by_label_refuted. Qed.

  (* XarrayStream: under the hypothesis the proof forces (both bounds or none, no row exactly at
     `ending`); outside it the label slice is end-inclusive and half-open windows are ignored:
     KNOWN_FINDINGS F9, refuted below *)
  Theorem C05_xarray_partial : forall cfg tbl,
    Forall (xarray_ok TestId Kw tbl) cfg ->
    xarray_run TestId Kw test cfg tbl = spec_run TestId Kw test cfg tbl.
  Proof. exact (xarray_run_spec TestId Kw test). Qed.

  Theorem C05_agree : forall cfg tbl,
    Forall (xarray_ok TestId Kw tbl) cfg ->
    pandas_run TestId Kw test cfg tbl = numpy_run TestId Kw test cfg tbl /\
    xarray_run TestId Kw test cfg tbl = numpy_run TestId Kw test cfg tbl.
  Proof. exact (front_ends_agree TestId Kw test). Qed.

  (* the specification: half-open window, rows in original order *)
  Theorem C05_window : forall (c : context TestId Kw) t,
    in_window TestId Kw c t = true <->
    (match w_start c with Some s => (s <= t)%Z | None => True end) /\
    (match w_end c with Some e => (t < e)%Z | None => True end).
  Proof. exact (in_window_iff TestId Kw). Qed.

  Theorem C05_rows_exact : forall tbl (c : context TestId Kw) col i d,
    length (window_mask TestId Kw tbl c) = length col ->
    nth i (window_mask TestId Kw tbl c) false = true ->
    nth (length (filter (fun b => b) (firstn i (window_mask TestId Kw tbl c))))
        (rw_inp (rows_of tbl (window_mask TestId Kw tbl c) col)) d = nth i col d.
  Proof. exact (spec_rows_exact TestId Kw). Qed.
End C05.

Print Assumptions C05_numpy.
Print Assumptions C05_pandas.
Print Assumptions C05_pandas_label_mask_refuted.
Print Assumptions C05_xarray_partial.
Print Assumptions C05_agree.
Print Assumptions C05_window.
Print Assumptions C05_rows_exact.

(* the xarray front end does NOT meet the specification in general: a row exactly at `ending` *)
Theorem C05_xarray_refuted :
  exists (cfg : list (context nat nat)) tbl,
    xarray_run nat nat (fun _ _ rw => Some (map (fun _ => GOOD) (rw_inp rw))) cfg tbl <>
    spec_run nat nat (fun _ _ rw => Some (map (fun _ => GOOD) (rw_inp rw))) cfg tbl.
Proof.
  exists [ {| w_start := Some 0%Z; w_end := Some 2%Z;
              cx_calls := [ {| cl_stream := "v"%string; cl_test := 0%nat; cl_kw := 0%nat |} ] |} ].
  exists {| t_n := 3; t_time := Some [0; 1; 2]%Z; t_z := None; t_lon := None; t_lat := None;
            t_cols := [("v"%string, [Some 1; Some 2; Some 3])]; t_index := [0; 1; 2]%Z |}.
  vm_compute. discriminate.
Qed.
Print Assumptions C05_xarray_refuted.

(* Config.contexts groups the calls by equal context before any front end runs them: this only
   reorders the results — every (context, call) is run exactly once on its own window, also when the
   same context is listed twice with another one in between *)
From Coq Require Import Permutation.
Theorem C05_contexts_grouping : forall (TestId Kw : Type) (test : TestId -> Kw -> rows -> option (list flag)) cfg tbl,
  Permutation (results_of TestId Kw test (group_contexts TestId Kw cfg) tbl) (results_of TestId Kw test cfg tbl).
Proof. exact group_contexts_perm. Qed.
Print Assumptions C05_contexts_grouping.

(* Call.run: for every parameter name, the test receives the value the stream passed if it passed one,
   else the configured one, and only names of its signature; a raising test yields no result *)
From IoosQc Require Import CallRun CallRunProofs.
Theorem C05_call_run_receives : forall (V R : Type) k sig (f : kwargs V -> option R) (configured passed : kwargs V),
  NoDup (map fst passed) ->
  klookup k (filter_sig sig (merge_kwargs configured passed)) =
  if kmem k sig
  then match klookup k passed with Some v => Some v | None => klookup k configured end
  else None.
Proof. exact call_run_receives. Qed.
Print Assumptions C05_call_run_receives.

Theorem C05_call_run_results : forall (V R : Type) sig (f : kwargs V -> option R) (configured passed : kwargs V),
  call_run sig f configured passed =
  match f (filter_sig sig (merge_kwargs configured passed)) with Some r => [r] | None => [] end.
Proof. exact call_run_results. Qed.
Print Assumptions C05_call_run_results.
