(* Props_C02.v — C02: a missing observation is never reported as evaluated.
   Only statements, `exact <lemma>` and Print Assumptions.
   (statements written out by tools/mk_props.py from the lemmas they restate) *)
From IoosQc Require Import Base Generated Range RangeProofs Spike SpikeProofs Rate RateProofs Location LocationProofs Density DensityProofs FlatLine FlatLineProofs Attenuated AttenuatedProofs Calendar Climatology ClimatologyProofs.


(* gross_range_test: MISSING iff the value is missing (all lengths and placements: the flag list is the pointwise map, C03_gross_refines) *)
Theorem C02_gross :
  forall (flo fhi : Q) (s : option (Q * Q)) (x : obs),
         gross_pt flo fhi s x = MISSING <-> x = None.
Proof. exact (@gross_pt_missing). Qed.
Print Assumptions C02_gross.

(* valid_range_test *)
Theorem C02_valid :
  forall (lo hi : option Q) (si ei : bool) (x : obs),
         valid_pt lo hi si ei x = MISSING <-> x = None.
Proof. exact (@valid_pt_missing). Qed.
Print Assumptions C02_valid.

(* spike_test: a missing value is MISSING, or UNKNOWN at an end point where the test is undefined anyway *)
Theorem C02_spike_missing :
  forall (m : spike_method) (st ft : option Q) (xs : list obs) (i : nat),
         getq xs i = None ->
         spike_pt m st ft xs i = MISSING \/
         endpoint (length xs) i = true /\ spike_pt m st ft xs i = UNKNOWN.
Proof. exact (@spike_pt_missing). Qed.
Print Assumptions C02_spike_missing.

(* conversely a present value is MISSING only when a neighbour it is compared with is missing *)
Theorem C02_spike_only :
  forall (m : spike_method) (st ft : option Q) (xs : list obs) (i : nat) (x : Q),
         getq xs i = Some x ->
         spike_pt m st ft xs i = MISSING ->
         endpoint (length xs) i = false /\ (getq xs (i - 1) = None \/ getq xs (i + 1) = None).
Proof. exact (@spike_pt_missing_only). Qed.
Print Assumptions C02_spike_only.

(* rate_of_change_test *)
Theorem C02_roc_missing :
  forall (thr : Q) (xs : list obs) (ts : list Z) (i : nat),
         getq xs i = None -> roc_pt thr xs ts i = MISSING.
Proof. exact (@roc_pt_missing). Qed.
Print Assumptions C02_roc_missing.

Theorem C02_roc_only :
  forall (thr : Q) (xs : list obs) (ts : list Z) (i : nat),
         roc_pt thr xs ts i = MISSING -> getq xs i = None.
Proof. exact (@roc_pt_missing_only). Qed.
Print Assumptions C02_roc_only.

(* speed_test: a position with a missing coordinate is MISSING, or UNKNOWN at the first point *)
Theorem C02_speed_missing :
  forall (geod : Q -> Q -> Q -> Q -> Q) (st ft : Q) (lon lat : list obs) 
           (ts : list Z) (i : nat),
         getq lon i = None \/ getq lat i = None ->
         speed_pt geod st ft lon lat ts i = MISSING \/
         i = 0%nat /\ speed_pt geod st ft lon lat ts i = UNKNOWN.
Proof. exact (@speed_pt_missing). Qed.
Print Assumptions C02_speed_missing.

(* a full position is MISSING only if the previous position lacks a coordinate *)
Theorem C02_speed_only :
  forall (geod : Q -> Q -> Q -> Q -> Q) (st ft : Q) (lon lat : list obs) 
           (ts : list Z) (i : nat) (c d : Q),
         getq lat i = Some c ->
         getq lon i = Some d ->
         speed_pt geod st ft lon lat ts i = MISSING ->
         i <> 0%nat /\ (getq lat (i - 1) = None \/ getq lon (i - 1) = None).
Proof. exact (@speed_pt_missing_only). Qed.
Print Assumptions C02_speed_only.

Theorem C02_speed_iff :
  forall (geod : Q -> Q -> Q -> Q -> Q) (st ft : Q) (lon lat : list obs) 
           (ts : list Z) (i : nat),
         speed_pt geod st ft lon lat ts i = MISSING <-> i <> 0%nat /\ hop geod lon lat i = None.
Proof. exact (@speed_pt_missing_iff). Qed.
Print Assumptions C02_speed_iff.

(* location_test: both coordinates missing -> MISSING *)
Theorem C02_location_both :
  forall (geod : Q -> Q -> Q -> Q -> Q) (minx miny maxx maxy : Q) 
           (range_max : option Q) (lon lat : list obs) (i : nat),
         getq lon i = None ->
         getq lat i = None ->
         location_pt geod minx miny maxx maxy range_max lon lat i = MISSING /\
         location_pt geod minx miny maxx maxy range_max lon lat i <> GOOD /\
         location_pt geod minx miny maxx maxy range_max lon lat i <> SUSPECT /\
         location_pt geod minx miny maxx maxy range_max lon lat i <> FAIL.
Proof. exact (@location_pt_both_missing). Qed.
Print Assumptions C02_location_both.

(* MISSING only when both are missing (exactly one missing is FAIL: C14) *)
Theorem C02_location_only :
  forall (geod : Q -> Q -> Q -> Q -> Q) (minx miny maxx maxy : Q) 
           (range_max : option Q) (lon lat : list obs) (i : nat),
         location_pt geod minx miny maxx maxy range_max lon lat i = MISSING ->
         getq lon i = None /\ getq lat i = None.
Proof. exact (@location_pt_missing_only). Qed.
Print Assumptions C02_location_only.

(* flat_line_test (every length, short series included) *)
Theorem C02_flat :
  forall (n : nat) (D st ft tol : Q) (xs : list obs) (i : nat),
         flat_flag n D st ft tol xs i = MISSING <-> getq xs i = None.
Proof. exact (@flat_flag_missing). Qed.
Print Assumptions C02_flat.

Theorem C02_flat_model :
  forall (st ft tol : Q) (xs : list obs) (ts : list Z) (l : list flag) (i : nat),
         flat_model st ft tol xs ts = Flags l ->
         (i < length xs)%nat -> nth i l GOOD = MISSING <-> getq xs i = None.
Proof. exact (@flat_model_missing). Qed.
Print Assumptions C02_flat_model.

(* attenuated_signal_test *)
Theorem C02_atten_missing :
  forall (ct : check_type) (st ft : Q) (period : option Z) (minp : Z) 
           (xs : list obs) (ts : list Z) (i : nat),
         getq xs i = None -> atten_pt ct st ft period minp xs ts i = MISSING.
Proof. exact (@atten_pt_missing). Qed.
Print Assumptions C02_atten_missing.

Theorem C02_atten_present :
  forall (ct : check_type) (st ft : Q) (period : option Z) (minp : Z) 
           (xs : list obs) (ts : list Z) (i : nat) (x : Q),
         getq xs i = Some x -> atten_pt ct st ft period minp xs ts i <> MISSING.
Proof. exact (@atten_pt_present). Qed.
Print Assumptions C02_atten_present.

Theorem C02_atten_model :
  forall (check : String.string) (st ft : Q) (tp mo mp : option Z) 
           (xs : list obs) (ts : list Z) (l : list flag) (i : nat),
         atten_model check st ft tp mo mp xs ts = Flags l ->
         (i < length xs)%nat -> nth i l GOOD = MISSING <-> getq xs i = None.
Proof. exact (@atten_model_missing). Qed.
Print Assumptions C02_atten_model.

(* density_inversion_test: an incomplete record is MISSING (UNKNOWN for a single point) *)
Theorem C02_density_missing :
  forall (st ft : option Q) (rho z : list obs) (i : nat),
         rec_missing rho z i = true ->
         density_pt st ft rho z i = MISSING \/
         length rho = 1%nat /\ density_pt st ft rho z i = UNKNOWN.
Proof. exact (@density_pt_missing). Qed.
Print Assumptions C02_density_missing.

(* a present density is MISSING only when its own depth or the previous record is missing *)
Theorem C02_density_only :
  forall (st ft : option Q) (rho z : list obs) (i : nat) (x : Q),
         getq rho i = Some x ->
         density_pt st ft rho z i = MISSING ->
         getq z i = None \/ i <> 0%nat /\ rec_missing rho z (i - 1) = true.
Proof. exact (@density_pt_missing_only). Qed.
Print Assumptions C02_density_only.

Theorem C02_density_iff :
  forall (st ft : option Q) (rho z : list obs) (i : nat),
         density_pt st ft rho z i = MISSING <->
         length rho <> 1%nat /\
         (rec_missing rho z i = true \/ i <> 0%nat /\ rec_missing rho z (i - 1) = true).
Proof. exact (@density_pt_missing_iff). Qed.
Print Assumptions C02_density_iff.

(* climatology_test, every member shape (with/without depth span, absolute or periodic) *)
Theorem C02_clim :
  forall (ms : list member) (x : obs) (t : Z) (z : obs),
         clim_pt ms x t z = MISSING <-> x = None.
Proof. exact (@clim_pt_missing_iff). Qed.
Print Assumptions C02_clim.

Theorem C02_clim_model :
  forall (config : list member) (xs : list obs) (ts : list Z) (zs : list obs) (i : nat),
         (i < length xs)%nat ->
         nth i (flags_of (clim_model config xs ts zs)) UNKNOWN = MISSING <-> getq xs i = None.
Proof. exact (@clim_model_missing). Qed.
Print Assumptions C02_clim_model.

(* the MISSING overwrite is the LAST assignment of every test (order re-read from the source) *)
Theorem C02_missing_written_last :
  last assign_order_gross_range_test GOOD = FAIL /\ last assign_order_spike_test GOOD = MISSING /\
  last assign_order_rate_of_change_test GOOD = MISSING /\ last assign_order_flat_line_test GOOD = MISSING /\
  last assign_order_attenuated_signal_test GOOD = MISSING /\ last assign_order_density_inversion_test GOOD = MISSING /\
  last assign_order_speed_test GOOD = MISSING /\ last assign_order_valid_range_test GOOD = MISSING /\
  last assign_order_climatology_check GOOD = MISSING.
Proof. repeat split; reflexivity. Qed.
Print Assumptions C02_missing_written_last.
