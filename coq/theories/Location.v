(* Location.v — model and pointwise specification of qartod.location_test (qartod.py) with
   utils.great_circle_distance (utils.py).  Definitions only.

   The geodesic routine (geographiclib, Geodesic.WGS84.Inverse(lat1, lon1, lat2, lon2)['s12']) is a
   section variable `geod` about which nothing is assumed: every statement holds for every function
   of four rationals, in the argument order (lat1 lon1 lat2 lon2) of the source.

   The model follows the source order:
     assert isfixedlength(bbox, 4)          -> ValueError (raised inside isfixedlength)
     lon.shape != lat.shape                 -> ValueError
     flag_arr = ones                        (GOOD)
     flag_arr[lon.mask & lat.mask]  = MISSING
     flag_arr[lon.mask != lat.mask] = FAIL
     if range_max is not None and lon.size > 1:
         d = great_circle_distance(lat, lon);  flag_arr[d > range_max] = SUSPECT
     flag_arr[(lon < minx) | (lat < miny) | (lon > maxx) | (lat > maxy)] = FAIL
   A comparison whose operand is missing (NaN under the mask) is False; the geodesic of a hop with
   a missing coordinate is NaN, so `d > range_max` is False there; d[0] = 0 (never masked). *)
From IoosQc Require Import Base Generated.

Section Loc.
  Variable geod : Q -> Q -> Q -> Q -> Q.   (* lat1 lon1 lat2 lon2 -> metres; nothing is assumed about it *)

  (* great_circle_distance(lat_arr, lon_arr): dist = zeros(n); dist[1:] = gc(lat[:-1], lon[:-1], lat[1:], lon[1:]).
     None = NaN: geographiclib returns NaN as soon as one of the four coordinates is NaN. *)
  Definition hop_dist (lon lat : list obs) (i : nat) : obs :=
    if Nat.eqb i 0 then Some 0
    else match getq lat (i - 1), getq lon (i - 1), getq lat i, getq lon i with
         | Some y1, Some x1, Some y2, Some x2 => Some (geod y1 x1 y2 x2)
         | _, _, _, _ => None
         end.

  Definition great_circle_distance (lon lat : list obs) : list obs :=
    tab (length lon) (hop_dist lon lat).

  (* (lon < minx) | (lat < miny) | (lon > maxx) | (lat > maxy), each comparison False on a missing operand *)
  Definition box_mask (minx miny maxx maxy : Q) (lon lat : list obs) (i : nat) : bool :=
    otest (fun x => Qltb x minx) (getq lon i) || otest (fun y => Qltb y miny) (getq lat i)
    || otest (fun x => Qltb maxx x) (getq lon i) || otest (fun y => Qltb maxy y) (getq lat i).

  Definition location_model (bbox : list Q) (range_max : option Q) (lon lat : list obs) : outcome :=
    match bbox with
    | [minx; miny; maxx; maxy] =>                        (* assert isfixedlength(bbox, 4) *)
        if negb (Nat.eqb (length lon) (length lat)) then Raises ValueError else   (* shapes differ *)
        let n := length lon in
        let f0 := all_flags n GOOD in
        let f1 := set_where (tab n (fun i => missing_at lon i && missing_at lat i)) MISSING f0 in
        let f2 := set_where (tab n (fun i => xorb (missing_at lon i) (missing_at lat i))) FAIL f1 in
        let f3 := match range_max with
                  | Some r =>
                      if Nat.ltb 1 n then
                        let d := great_circle_distance lon lat in
                        set_where (tab n (fun i => otest (fun v => Qltb r v) (getq d i))) SUSPECT f2
                      else f2
                  | None => f2
                  end in
        Flags (set_where (tab n (box_mask minx miny maxx maxy lon lat)) FAIL f3)
    | _ => Raises ValueError
    end.

  (* ---------------------------------------------------------------- the property, per position *)

  (* strictly outside the box (edges are inside) *)
  Definition out_of_box (minx miny maxx maxy x y : Q) : bool :=
    Qltb x minx || Qltb y miny || Qltb maxx x || Qltb maxy y.

  (* range_max given, there is a previous position, it is fully present, and the geodesic distance
     from it to (x, y) exceeds range_max *)
  Definition hop_exceeds (range_max : option Q) (lon lat : list obs) (i : nat) (x y : Q) : bool :=
    match range_max with
    | None => false
    | Some r =>
        if Nat.eqb i 0 then false
        else match getq lon (i - 1), getq lat (i - 1) with
             | Some x0, Some y0 => Qltb r (geod y0 x0 y x)
             | _, _ => false
             end
    end.

  Definition location_pt (minx miny maxx maxy : Q) (range_max : option Q) (lon lat : list obs) (i : nat) : flag :=
    match getq lon i, getq lat i with
    | None, None => MISSING
    | Some x, Some y =>
        if out_of_box minx miny maxx maxy x y then FAIL
        else if hop_exceeds range_max lon lat i x y then SUSPECT
        else GOOD
    | _, _ => FAIL                                        (* exactly one coordinate missing *)
    end.

  Definition location_spec (bbox : list Q) (range_max : option Q) (lon lat : list obs) : outcome :=
    match bbox with
    | [minx; miny; maxx; maxy] =>
        if negb (Nat.eqb (length lon) (length lat)) then Raises ValueError
        else Flags (tab (length lon) (location_pt minx miny maxx maxy range_max lon lat))
    | _ => Raises ValueError
    end.

  (* inputs on which the code meets the property: a negative range_max on a track of two or more
     positions makes the code flag the first position SUSPECT (d[0] = 0 > range_max), also over a
     MISSING / one-coordinate-missing FAIL; see LocationProofs.location_refuted *)
  Definition loc_dom (range_max : option Q) (n : nat) : Prop :=
    match range_max with
    | Some r => 0 <= r \/ (n <= 1)%nat
    | None => True
    end.

End Loc.

(* the box used when the caller omits `bbox` *)
Definition location_default_bbox : list Q := default_bbox.

(* executable geodesic for the correspondence harness: a finite table of hops
   ((lat1, lon1, lat2, lon2), metres), looked up with Qeq_bool on all four coordinates; default 0 *)
Fixpoint geod_of_table (t : list ((Q * Q * Q * Q) * Q)) (a b c d : Q) : Q :=
  match t with
  | [] => 0
  | ((a', b', c', d'), v) :: r =>
      if Qeq_bool a a' && Qeq_bool b b' && Qeq_bool c c' && Qeq_bool d d' then v
      else geod_of_table r a b c d
  end.
