(* SkelBase.v — environments and generic facts for the proofs that a flag skeleton GENERATED from the source
   (the skel_ definitions of Generated.v), run in the environment of a hand-written model, produces exactly
   the model's flags.  One file SkelP_<group>.v per model file, so that a function the translator can no
   longer read breaks only the properties anchored in it. *)
From IoosQc Require Import Base Skel.
From Coq Require Import String.
Local Notation length := List.length.
Open Scope string_scope.

Definition bind_num (l : list (string * option Q)) (n : string) : option (option Q) :=
  match find (fun p => String.eqb (fst p) n) l with Some p => Some (snd p) | None => None end.

Definition bind_arr (l : list (string * list obs)) (n : string) : option (list obs) :=
  match find (fun p => String.eqb (fst p) n) l with Some p => Some (snd p) | None => None end.

Definition bind_bool (l : list (string * (nat -> bool))) (n : string) : option (nat -> bool) :=
  match find (fun p => String.eqb (fst p) n) l with Some p => Some (snd p) | None => None end.

(* a Python bool as a scalar *)
Definition qbool (b : bool) : option Q := Some (if b then 1 else 0).

Definition bind_str (l : list (string * string)) (n : string) : option string :=
  match find (fun p => String.eqb (fst p) n) l with Some p => Some (snd p) | None => None end.

(* evaluate the (closed) guards of the generated steps *)
Ltac eval_guards :=
  repeat match goal with
  | |- context [guards_hold ?e ?g] =>
      let b := eval vm_compute in (guards_hold e g) in
      change (guards_hold e g) with b; cbv iota
  end.

Ltac steps := unfold run_steps; cbn [fold_left]; unfold run_step.

Lemma set_where_false {A} n (v : A) f : set_where (tab n (fun _ => false)) v (tab n f) = tab n f.
Proof. rewrite set_where_tab. apply tab_ext. reflexivity. Qed.

Lemma size_gt_guard en a k :
  eval_g en (SCmp ">" (SAttr (SName a) "size") (SNum (inject_Z (Z.of_nat k)))) = Nat.ltb k (e_size en).
Proof.
  assert (E : eval_g en (SCmp ">" (SAttr (SName a) "size") (SNum (inject_Z (Z.of_nat k))))
              = negb (Z.of_nat (e_size en) <=? Z.of_nat k)%Z).
  { cbn. unfold cmp_q. cbn. unfold Qltb, Qle_bool. cbn. rewrite !Z.mul_1_r. reflexivity. }
  rewrite E. destruct (Nat.ltb_spec k (e_size en)) as [H|H].
  - apply negb_true_iff. apply Z.leb_gt. lia.
  - apply negb_false_iff. apply Z.leb_le. lia.
Qed.

Lemma size_eq0_guard en a :
  eval_g en (SCmp "==" (SAttr (SName a) "size") (SNum 0)) = Nat.eqb (e_size en) 0.
Proof.
  cbn. unfold cmp_q. cbn. unfold Qeqb, Qeq_bool. cbn. rewrite Z.mul_1_r.
  destruct (e_size en); reflexivity.
Qed.

Lemma eval_g_and en a b : eval_g en (SBin "and" a b) = (eval_g en a && eval_g en b)%bool.
Proof. reflexivity. Qed.

Lemma eval_g_inv en a : eval_g en (SInv a) = negb (eval_g en a).
Proof. reflexivity. Qed.

Lemma size_lt_guard en a k :
  eval_g en (SCmp "<" (SAttr (SName a) "size") (SNum (inject_Z (Z.of_nat k)))) = Nat.ltb (e_size en) k.
Proof.
  assert (E : eval_g en (SCmp "<" (SAttr (SName a) "size") (SNum (inject_Z (Z.of_nat k))))
              = negb (Z.of_nat k <=? Z.of_nat (e_size en))%Z).
  { cbn. unfold cmp_q. cbn. unfold Qltb, Qle_bool. cbn. rewrite !Z.mul_1_r. reflexivity. }
  rewrite E. destruct (Nat.ltb_spec (e_size en) k) as [H|H].
  - apply negb_true_iff. apply Z.leb_gt. lia.
  - apply negb_false_iff. apply Z.leb_le. lia.
Qed.

Lemma where_guard (b : bool) n c v (f : nat -> flag) :
  (b = false -> forall i, (i < n)%nat -> c i = false) ->
  (if b then set_where (tab n c) v (tab n f) else tab n f) = tab n (fun i => if c i then v else f i).
Proof.
  intros H. destruct b; [apply set_where_tab|].
  apply tab_ext. intros i Hi. rewrite (H eq_refl i Hi). reflexivity.
Qed.

Lemma any_false en c :
  eval_g en (SCall "any" c) = false -> forall i, (i < e_size en)%nat -> eval_b en c i = false.
Proof.
  intros H i Hi. change (existsb (eval_b en c) (seq 0 (e_size en)) = false) in H.
  destruct (eval_b en c i) eqn:E; [|reflexivity].
  assert (X : existsb (eval_b en c) (seq 0 (e_size en)) = true).
  { apply existsb_exists. exists i. split; [apply in_seq; lia|exact E]. }
  congruence.
Qed.
