(* Props_C04.v — C04: aggregation reports, per point, the worst flag any test produced. *)
From IoosQc Require Import Base Generated Compare CompareProofs.
From Coq Require Import Permutation.

(* the source's double loop over its priority list (Generated.priorities, re-read from /repo on
   every run) computes at every position the highest-precedence flag present; k = 0 and
   unequal lengths are rejected as in the source *)
Theorem C04_refines : forall vs, compare_model priorities vs = compare_spec vs.
Proof. exact compare_refines. Qed.
Print Assumptions C04_refines.

(* never better than any evaluated input (order MISSING < UNKNOWN < GOOD < SUSPECT < FAIL) *)
Theorem C04_upper : forall col f, In (Some (code f)) col -> (prio f <= prio (compare_pt col))%nat.
Proof. exact compare_pt_upper. Qed.
Print Assumptions C04_upper.

(* the reported flag was produced by some input; MISSING when no flag remains *)
Theorem C04_attained : forall col,
  In (Some (code (compare_pt col))) col \/
  (compare_pt col = MISSING /\ forall f, ~ In (Some (code f)) col).
Proof. exact compare_pt_attained. Qed.
Print Assumptions C04_attained.

(* masked entries and values that are not flags are ignored *)
Theorem C04_ignores : forall col c, (forall f, c <> Some (code f)) -> compare_pt (c :: col) = compare_pt col.
Proof. exact compare_pt_ignores. Qed.
Print Assumptions C04_ignores.

(* independent of order, multiplicity and grouping *)
Theorem C04_perm : forall n vs vs', Permutation vs vs' -> rollup n vs = rollup n vs'.
Proof. exact rollup_perm. Qed.
Print Assumptions C04_perm.

Theorem C04_dup : forall n v vs, rollup n (v :: v :: vs) = rollup n (v :: vs).
Proof. exact rollup_dup. Qed.
Print Assumptions C04_dup.

Theorem C04_assoc : forall n vs ws, vs <> [] -> ws <> [] ->
  rollup n [lift (rollup n vs); lift (rollup n ws)] = rollup n (vs ++ ws).
Proof. exact rollup_assoc. Qed.
Print Assumptions C04_assoc.

Theorem C04_not_better : forall n vs v i f,
  In v vs -> (i < n)%nat -> nth i v None = Some (code f) ->
  (prio f <= prio (nth i (rollup n vs) MISSING))%nat.
Proof. exact rollup_not_better. Qed.
Print Assumptions C04_not_better.

(* adding the result of one more test never makes the roll-up better at any position *)
Theorem C04_monotone : forall n v vs i, (i < n)%nat ->
  (prio (nth i (rollup n vs) MISSING) <= prio (nth i (rollup n (v :: vs)) MISSING))%nat.
Proof. exact rollup_monotone. Qed.
Print Assumptions C04_monotone.

(* the roll-up of a single flag vector is that vector; rolling up a roll-up changes nothing *)
Theorem C04_single : forall n fl, length fl = n -> rollup n [lift fl] = fl.
Proof. exact rollup_single. Qed.
Print Assumptions C04_single.

Theorem C04_idem : forall n vs, rollup n [lift (rollup n vs)] = rollup n vs.
Proof. exact rollup_idem. Qed.
Print Assumptions C04_idem.

(* the model on equal-length inputs is the roll-up the laws are about *)
Theorem C04_model_rollup : forall n v vs, same_len n (v :: vs) ->
  compare_model priorities (v :: vs) = Flags (rollup n (v :: vs)).
Proof. intros. rewrite compare_refines. apply compare_spec_ok. assumption. Qed.
Print Assumptions C04_model_rollup.

Theorem C04_flag_codes : Forall (fun p => code (fst p) = snd p) flag_codes.
Proof. exact flag_codes_agree. Qed.
Print Assumptions C04_flag_codes.

Example C04_ex1 :
  compare_model priorities
    [[Some 1; Some 4; None; Some 9; Some 7; None]%Z;
     [Some 3; Some 1; Some 2; None; Some 0; None]%Z;
     [Some 1; Some 3; Some 9; None; None; None]%Z]
  = Flags [SUSPECT; FAIL; UNKNOWN; MISSING; MISSING; MISSING].
Proof. vm_compute. reflexivity. Qed.
