(* SkelP_location.v — generated flag skeleton of location_test = model *)
From IoosQc Require Import Base Skel SkelBase Generated Location.
From Coq Require Import String.
Local Notation length := List.length.
Open Scope string_scope.

(* ------------------------------------------------------------------ location_test *)

Section Loc.
  Variable geod : Q -> Q -> Q -> Q -> Q.

  Definition env_loc (minx miny maxx maxy : Q) (rm : option Q) (lon lat : list obs) : env :=
    {| e_arr := bind_arr [("lon", lon); ("lat", lat); ("d", great_circle_distance geod lon lat)];
       e_num := bind_num [("range_max", rm); ("bbox.minx", Some minx); ("bbox.miny", Some miny);
                          ("bbox.maxx", Some maxx); ("bbox.maxy", Some maxy)];
       e_str := (fun _ => None); e_bool := (fun _ => None);
       e_size := length lon |}.

  Theorem skel_location minx miny maxx maxy rm lon lat :
    length lon = length lat ->
    location_model geod [minx; miny; maxx; maxy] rm lon lat =
    Flags (run_steps (env_loc minx miny maxx maxy rm lon lat) skel_location_test (all_flags (length lon) GOOD)).
  Proof.
    intros Hl. unfold location_model. rewrite Hl, Nat.eqb_refl. cbn [negb]. rewrite <- Hl. f_equal.
    unfold skel_location_test, all_flags. steps.
    change (SNum (1 # 1)) with (SNum (inject_Z (Z.of_nat 1))).
    unfold guards_hold, forallb. rewrite eval_g_and, size_gt_guard.
    cbn [e_size env_loc].
    assert (G : eval_g (env_loc minx miny maxx maxy rm lon lat) (SCmp "isnot" (SName "range_max") SNone) = is_some rm)
      by (destruct rm; reflexivity).
    rewrite G, !andb_true_r. clear G.
    destruct rm as [r|]; cbn [is_some is_none negb andb].
    - destruct (Nat.ltb 1 (length lon)); rewrite !set_where_tab; apply tab_ext; intros i _;
        cbn; unfold box_mask, missing_at, getq;
        destruct (nth i lon None), (nth i lat None), (nth i (great_circle_distance geod lon lat) None); reflexivity.
    - rewrite !set_where_tab. apply tab_ext. intros i _.
      cbn. unfold box_mask, missing_at, getq. destruct (nth i lon None), (nth i lat None); reflexivity.
  Qed.
End Loc.
