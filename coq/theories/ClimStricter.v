(* ClimStricter.v — C16 for climatology_test: members whose valid / fail spans are nested inside the old ones (or
   that gain a fail span) never give a less severe flag, and the UNKNOWN / MISSING positions are unchanged.
   Members are compared as STORED by ClimatologyConfig.add (spans sorted); which points a member applies to
   (time span, period, depth span) is the same on both sides. *)
From IoosQc Require Import Base Range RangeProofs Calendar Climatology ClimatologyProofs.

(* m' is at least as strict as m *)
Definition member_stricter (m' m : member) : Prop :=
  m_tspan m' = m_tspan m /\ m_zspan m' = m_zspan m /\
  span_nested (m_fspan m') (m_fspan m) /\
  fst (m_vspan m) <= fst (m_vspan m') /\ snd (m_vspan m') <= snd (m_vspan m).

Lemma matches_stricter m' m t z : member_stricter m' m -> matches t z m' = matches t z m.
Proof.
  intros (Ht & Hz & _). unfold matches, tmatch, zmatch. rewrite Ht, Hz. reflexivity.
Qed.

Lemma out_fail_stricter m' m v : member_stricter m' m -> out_fail m v = true -> out_fail m' v = true.
Proof.
  intros (_ & _ & Hf & _). unfold out_fail, span_nested in *.
  destruct (m_fspan m) as [[lo hi]|]; [|discriminate].
  destruct (m_fspan m') as [[lo' hi']|]; [|contradiction].
  destruct Hf as [H1 H2]. apply outside_nested; assumption.
Qed.

Lemma out_valid_stricter m' m v : member_stricter m' m -> out_valid m v = true -> out_valid m' v = true.
Proof.
  intros (_ & _ & _ & H1 & H2). unfold out_valid. apply outside_nested; assumption.
Qed.

Lemma classify_stricter m' m v :
  member_stricter m' m -> (sev (classify m v) <= sev (classify m' v))%nat.
Proof.
  intros H. unfold classify.
  destruct (out_fail m v) eqn:Ef.
  - rewrite (out_fail_stricter _ _ _ H Ef). apply le_n.
  - destruct (out_valid m v) eqn:Ev.
    + rewrite (out_valid_stricter _ _ _ H Ev). destruct (out_fail m' v); cbn; lia.
    + destruct (out_fail m' v), (out_valid m' v); cbn; lia.
Qed.

(* the last matching member of the loose list and of the strict list sit at the same position *)
Lemma olast_filter_rel t z ms' ms :
  Forall2 member_stricter ms' ms ->
  match olast (filter (matches t z) ms'), olast (filter (matches t z) ms) with
  | Some a', Some a => member_stricter a' a
  | None, None => True
  | _, _ => False
  end.
Proof.
  induction 1 as [|a' a r' r Ha Hr IH]; [exact I|].
  cbn [filter]. rewrite (matches_stricter _ _ t z Ha).
  destruct (matches t z a); [|exact IH].
  destruct (olast (filter (matches t z) r')) as [b'|] eqn:E', (olast (filter (matches t z) r)) as [b|] eqn:E;
    try contradiction.
  - assert (N' : filter (matches t z) r' <> []) by (intros X; rewrite X in E'; discriminate).
    assert (N : filter (matches t z) r <> []) by (intros X; rewrite X in E; discriminate).
    rewrite (olast_cons _ _ N'), (olast_cons _ _ N), E', E. exact IH.
  - apply olast_none in E'. apply olast_none in E. rewrite E', E. exact Ha.
Qed.

Theorem clim_pt_stricter ms' ms x t z :
  Forall2 member_stricter ms' ms ->
  (sev (clim_pt ms x t z) <= sev (clim_pt ms' x t z))%nat /\
  not_evaluated (clim_pt ms x t z) = not_evaluated (clim_pt ms' x t z).
Proof.
  intros H. unfold clim_pt. destruct x as [v|]; [|split; reflexivity].
  pose proof (olast_filter_rel t z _ _ H) as R.
  destruct (olast (filter (matches t z) ms')) as [a'|], (olast (filter (matches t z) ms)) as [a|];
    try contradiction; [|split; reflexivity].
  split; [apply classify_stricter; exact R|].
  rewrite !classify_evaluated. reflexivity.
Qed.

(* ... for the flags the code returns, point by point *)
Theorem clim_model_stricter config' config xs ts zs i :
  Forall2 member_stricter (map add config') (map add config) ->
  (i < length xs)%nat ->
  let f := nth i (flags_of (clim_model config xs ts zs)) UNKNOWN in
  let f' := nth i (flags_of (clim_model config' xs ts zs)) UNKNOWN in
  (sev f <= sev f')%nat /\ not_evaluated f = not_evaluated f'.
Proof.
  intros H Hi. cbn zeta. rewrite !clim_model_nth by exact Hi. apply clim_pt_stricter. exact H.
Qed.

(* the hypotheses are satisfiable in a non-trivial way: a member that gains a fail span and a narrower valid span *)
Example member_stricter_example :
  member_stricter (add (mk_member (TAbs 0 10) (Some (0, 50)) (12, 38) None))
                  (add (mk_member (TAbs 10 0) None (40, 10) None)).
Proof. unfold member_stricter, add, span_nested, sortp, sort2; cbn. repeat split; try reflexivity; unfold Qle; cbn; lia. Qed.
