(* FloatExact.v — the float64 <-> exact-rational gap of DESIGN §4, for the additive intermediates, as a theorem.

   The Coq models compute on exact rationals; the implementation computes on IEEE-754 binary64.  Model of
   binary64 arithmetic: every operation returns the exact real result rounded to nearest-even in the format
   FLT(emin = -1074, precision 53) — `fl` below (no overflow is involved: all magnitudes here are below 2^54).
   On the dyadic grid the correspondence harness generates (integers m with |m| < 2^51, scaled by 2^-k), every
   intermediate result of the difference-based tests is itself a binary64 number, so rounding changes nothing
   and the float computation EQUALS the exact computation:
     spike (average):       | x - (p + s) / 2 |
     spike (differential):  x - p, s - x, their absolute values and the minimum; the SIGN of the product of the steps
     rate of change:        x - p        (the quotient by the elapsed seconds is NOT claimed exact: generators keep it
                                           away from the threshold unless it is exactly equal)
     flat line / range:     max - min
     density inversion:     sign(dz) * (rho2 - rho1)
   Comparisons of binary64 numbers are exact in IEEE-754, so the flags agree.

   Uses the real numbers of the standard library (Flocq.Core): the theorems depend on the standard library's
   axioms for classical reals (listed by Print Assumptions below and in DESIGN §10). *)
From Coq Require Import ZArith Reals Lia Lra.
From Flocq Require Import Core.
Open Scope R_scope.

Definition fexp64 := FLT_exp (-1074) 53.
Definition fl (x : R) : R := round radix2 fexp64 ZnearestE x.

(* the grid number m * 2^-k *)
Definition grid (k : Z) (m : Z) : R := IZR m * bpow radix2 (- k).

Lemma format_grid k m : (Z.abs m < 2 ^ 53)%Z -> (k <= 1074)%Z -> generic_format radix2 fexp64 (grid k m).
Proof.
  intros Hm Hk. unfold grid. apply generic_format_FLT.
  exists (Float radix2 m (- k)); simpl; auto; lia.
Qed.

Lemma fl_grid k m : (Z.abs m < 2 ^ 53)%Z -> (k <= 1074)%Z -> fl (grid k m) = grid k m.
Proof. intros. apply round_generic; [apply valid_rnd_N|apply format_grid; assumption]. Qed.

Lemma grid_add k a b : grid k a + grid k b = grid k (a + b).
Proof. unfold grid. rewrite plus_IZR. ring. Qed.

Lemma grid_sub k a b : grid k a - grid k b = grid k (a - b).
Proof. unfold grid. rewrite minus_IZR. ring. Qed.

Lemma grid_half k a : grid k a / 2 = grid (k + 1) a.
Proof.
  unfold grid. replace (- (k + 1))%Z with (- k - 1)%Z by lia.
  unfold Zminus. rewrite bpow_plus. simpl (bpow radix2 (-1)). unfold Z.pow_pos. simpl. lra.
Qed.

Lemma grid_refine k a : grid k a = grid (k + 1) (2 * a).
Proof.
  unfold grid. replace (- (k + 1))%Z with (- k - 1)%Z by lia.
  unfold Zminus. rewrite bpow_plus, mult_IZR. simpl (bpow radix2 (-1)). unfold Z.pow_pos. simpl. lra.
Qed.

Lemma grid_abs k a : Rabs (grid k a) = grid k (Z.abs a).
Proof.
  unfold grid. rewrite Rabs_mult, <- abs_IZR. rewrite (Rabs_pos_eq (bpow radix2 (- k))); [reflexivity|apply bpow_ge_0].
Qed.

Lemma grid_opp k a : - grid k a = grid k (- a).
Proof. unfold grid. rewrite opp_IZR. ring. Qed.

Lemma grid_le k a b : (a <= b)%Z -> grid k a <= grid k b.
Proof. intros H. unfold grid. apply Rmult_le_compat_r; [apply bpow_ge_0|apply IZR_le; exact H]. Qed.

Section Exact.
  Variables (k : Z) (Hk : (k <= 1000)%Z).
  Variables (mx mp ms : Z).
  Hypothesis Bx : (Z.abs mx < 2 ^ 51)%Z.
  Hypothesis Bp : (Z.abs mp < 2 ^ 51)%Z.
  Hypothesis Bs : (Z.abs ms < 2 ^ 51)%Z.
  Let x := grid k mx.
  Let p := grid k mp.
  Let s := grid k ms.

  (* one subtraction: rate of change numerator, spike steps, density / flat-line / range differences *)
  Theorem fl_sub_exact : fl (x - p) = x - p.
  Proof. unfold x, p. rewrite grid_sub. apply fl_grid; lia. Qed.

  Theorem fl_add_exact : fl (p + s) = p + s.
  Proof. unfold p, s. rewrite grid_add. apply fl_grid; lia. Qed.

  (* spike_test, method "average": diff = |inp - (inp[n-1] + inp[n+1]) / 2| with every operation rounded *)
  Theorem spike_average_exact :
    fl (Rabs (fl (x - fl (fl (p + s) / 2)))) = Rabs (x - (p + s) / 2).
  Proof.
    rewrite fl_add_exact. unfold x, p, s.
    rewrite grid_add, grid_half. rewrite (fl_grid (k + 1) (mp + ms)) by lia.
    rewrite (grid_refine k mx), grid_sub. rewrite (fl_grid (k + 1) (2 * mx - (mp + ms))) by lia.
    rewrite grid_abs. apply fl_grid; lia.
  Qed.

  (* spike_test, method "differential": the two steps, their absolute values and the minimum *)
  Theorem spike_differential_exact :
    fl (Rmin (fl (Rabs (fl (x - p)))) (fl (Rabs (fl (s - x))))) = Rmin (Rabs (x - p)) (Rabs (s - x)).
  Proof.
    assert (E1 : fl (Rabs (fl (x - p))) = Rabs (x - p)).
    { rewrite fl_sub_exact. unfold x, p. rewrite grid_sub, grid_abs. apply fl_grid; lia. }
    assert (E2 : fl (Rabs (fl (s - x))) = Rabs (s - x)).
    { unfold s, x. rewrite grid_sub. rewrite (fl_grid k (ms - mx)) by lia. rewrite grid_abs. apply fl_grid; lia. }
    rewrite E1, E2. unfold Rmin. destruct (Rle_dec (Rabs (x - p)) (Rabs (s - x))).
    - unfold x, p. rewrite grid_sub, grid_abs. apply fl_grid; lia.
    - unfold s, x. rewrite grid_sub, grid_abs. apply fl_grid; lia.
  Qed.

  (* ... and the sign test `ref[:-1] * ref[1:] >= 0`: the product of two grid numbers is a grid number of
     doubled scale whose mantissa may exceed 53 bits, so it may be rounded - but rounding never changes a sign *)
  Theorem product_sign_exact : (k <= 537)%Z -> (0 <= fl ((x - p) * (s - x))) <-> (0 <= (x - p) * (s - x)).
  Proof.
    intros Hk2. split; intros H.
    - destruct (Rle_or_lt 0 ((x - p) * (s - x))) as [G|G]; [exact G|exfalso].
      assert (fl ((x - p) * (s - x)) <= fl (- bpow radix2 (- (2 * k)))).
      { apply round_le; [apply FLT_exp_valid; reflexivity|apply valid_rnd_N|].
        unfold x, p, s. rewrite !grid_sub. unfold grid.
        replace (IZR (mx - mp) * bpow radix2 (- k) * (IZR (ms - mx) * bpow radix2 (- k)))
          with (IZR ((mx - mp) * (ms - mx)) * bpow radix2 (- (2 * k))).
        2:{ rewrite mult_IZR. replace (- (2 * k))%Z with (- k + - k)%Z by lia. rewrite bpow_plus. ring. }
        assert (L : (IZR ((mx - mp) * (ms - mx)) < 0)).
        { apply Rmult_lt_reg_r with (bpow radix2 (- (2 * k))); [apply bpow_gt_0|].
          rewrite Rmult_0_l.
          replace (IZR ((mx - mp) * (ms - mx)) * bpow radix2 (- (2 * k)))
            with ((grid k mx - grid k mp) * (grid k ms - grid k mx)); [exact G|].
          rewrite !grid_sub. unfold grid. rewrite mult_IZR.
          replace (- (2 * k))%Z with (- k + - k)%Z by lia. rewrite bpow_plus. ring. }
        apply lt_IZR in L.
        assert (L1 : (IZR ((mx - mp) * (ms - mx)) <= -1)) by (apply IZR_le; lia).
        pose proof (bpow_gt_0 radix2 (- (2 * k))). nra. }
      assert (F : fl (- bpow radix2 (- (2 * k))) = - bpow radix2 (- (2 * k))).
      { unfold fl. apply round_generic; [apply valid_rnd_N|]. apply generic_format_opp.
        apply generic_format_bpow. unfold fexp64, FLT_exp. lia. }
      rewrite F in H0. pose proof (bpow_gt_0 radix2 (- (2 * k))). lra.
    - unfold fl. rewrite <- (round_0 radix2 fexp64 ZnearestE).
      apply round_le; [apply FLT_exp_valid; reflexivity|apply valid_rnd_N|exact H].
  Qed.
End Exact.

(* density inversion: sign(dz) * drho with sign in {-1, 0, 1} *)
Theorem signed_diff_exact k (sg m1 m2 : Z) :
  (k <= 1000)%Z -> (Z.abs m1 < 2 ^ 51)%Z -> (Z.abs m2 < 2 ^ 51)%Z -> (sg = -1 \/ sg = 0 \/ sg = 1)%Z ->
  fl (IZR sg * fl (grid k m2 - grid k m1)) = IZR sg * (grid k m2 - grid k m1).
Proof.
  intros Hk B1 B2 Hs. rewrite grid_sub. rewrite (fl_grid k (m2 - m1)) by lia.
  replace (IZR sg * grid k (m2 - m1)) with (grid k (sg * (m2 - m1))).
  - apply fl_grid; [|lia]. destruct Hs as [->|[->| ->]]; lia.
  - unfold grid. rewrite mult_IZR. ring.
Qed.

(* flat line / attenuated range: max - min of grid numbers *)
Theorem range_exact k (mmax mmin : Z) :
  (k <= 1000)%Z -> (Z.abs mmax < 2 ^ 51)%Z -> (Z.abs mmin < 2 ^ 51)%Z ->
  fl (Rabs (fl (grid k mmax - grid k mmin))) = Rabs (grid k mmax - grid k mmin).
Proof.
  intros Hk B1 B2. rewrite grid_sub. rewrite (fl_grid k (mmax - mmin)) by lia.
  rewrite grid_abs. apply fl_grid; lia.
Qed.

(* a limit moved by 2^-30 (the fine-limit variants of the C15 check) is still on the grid, one scale finer *)
Theorem fine_limit_on_grid (m : Z) : (Z.abs m < 2 ^ 20)%Z ->
  fl (grid 6 m + bpow radix2 (-30)) = grid 6 m + bpow radix2 (-30).
Proof.
  intros B. replace (grid 6 m + bpow radix2 (-30)) with (grid 30 (m * 2 ^ 24 + 1)).
  - apply fl_grid; lia.
  - unfold grid. rewrite plus_IZR, mult_IZR.
    assert (E : bpow radix2 (- 6) = IZR (2 ^ 24) * bpow radix2 (- 30)).
    { change (IZR (2 ^ 24)) with (bpow radix2 24). rewrite <- bpow_plus. reflexivity. }
    change (- (6))%Z with (-6)%Z. change (- (30))%Z with (-30)%Z. simpl Z.opp. rewrite E. simpl (IZR 1). ring.
Qed.

Print Assumptions spike_average_exact.
Print Assumptions spike_differential_exact.
Print Assumptions product_sign_exact.
Print Assumptions signed_diff_exact.
Print Assumptions range_exact.
Print Assumptions fine_limit_on_grid.

(* ---------------------------------------------------------------- `fl` IS binary64 arithmetic
   Flocq's bit-level formalisation of IEEE-754 binary64 (IEEE754.Bits: b64_plus / b64_minus / b64_mult / b64_div,
   round to nearest even): on finite operands whose rounded result stays below 2^1024 the value of the result is
   `fl` of the exact result. *)
From Flocq Require Import IEEE754.BinarySingleNaN IEEE754.Binary IEEE754.Bits.

Lemma fexp64_is_binary64 : fexp64 = FLT_exp (3 - 1024 - 53) 53.
Proof. reflexivity. Qed.

Theorem b64_plus_is_fl (a b : binary64) :
  Binary.is_finite 53 1024 a = true -> Binary.is_finite 53 1024 b = true ->
  Rabs (fl (Binary.B2R 53 1024 a + Binary.B2R 53 1024 b)) < bpow radix2 1024 ->
  Binary.B2R 53 1024 (b64_plus mode_NE a b) = fl (Binary.B2R 53 1024 a + Binary.B2R 53 1024 b).
Proof.
  intros Fa Fb Hov. unfold b64_plus.
  match goal with |- context [Binary.Bplus _ _ ?p1 ?p2 _ _ _ _] =>
    generalize (Binary.Bplus_correct 53 1024 p1 p2 binop_nan_pl64 mode_NE a b Fa Fb) end.
  change (round radix2 (FLT_exp (3 - 1024 - 53) 53) (round_mode mode_NE)) with fl.
  rewrite Rlt_bool_true by exact Hov. intros [H _]. exact H.
Qed.

Theorem b64_minus_is_fl (a b : binary64) :
  Binary.is_finite 53 1024 a = true -> Binary.is_finite 53 1024 b = true ->
  Rabs (fl (Binary.B2R 53 1024 a - Binary.B2R 53 1024 b)) < bpow radix2 1024 ->
  Binary.B2R 53 1024 (b64_minus mode_NE a b) = fl (Binary.B2R 53 1024 a - Binary.B2R 53 1024 b).
Proof.
  intros Fa Fb Hov. unfold b64_minus.
  match goal with |- context [Binary.Bminus _ _ ?p1 ?p2 _ _ _ _] =>
    generalize (Binary.Bminus_correct 53 1024 p1 p2 binop_nan_pl64 mode_NE a b Fa Fb) end.
  change (round radix2 (FLT_exp (3 - 1024 - 53) 53) (round_mode mode_NE)) with fl.
  rewrite Rlt_bool_true by exact Hov. intros [H _]. exact H.
Qed.

Print Assumptions b64_plus_is_fl.

(* ---------------------------------------------------------------- the quotient by the elapsed seconds
   The rate |dx| / dt is NOT exact in binary64.  But `rate > threshold` is decided correctly whenever the exact
   rate is not above the threshold, or is above it by at least one ulp of the threshold: rounding is monotone and
   the threshold and its successor are binary64 numbers. *)
From Flocq Require Import Ulp.

Lemma ulp64_pos x : 0 < ulp radix2 fexp64 x.
Proof.
  destruct (Req_dec x 0) as [->|Zx].
  - unfold fexp64. rewrite ulp_FLT_0 by reflexivity. apply bpow_gt_0.
  - rewrite ulp_neq_0 by exact Zx. apply bpow_gt_0.
Qed.

Theorem gt_threshold_exact (thr q : R) :
  generic_format radix2 fexp64 thr ->
  (q <= thr \/ thr + ulp radix2 fexp64 thr <= q) ->
  (thr < fl q <-> thr < q).
Proof.
  intros Ft Hq.
  assert (V : Valid_exp fexp64) by (apply FLT_exp_valid; reflexivity).
  assert (M : Monotone_exp fexp64) by (apply FLT_exp_monotone).
  assert (Fl_thr : fl thr = thr) by (apply round_generic; [apply valid_rnd_N|exact Ft]).
  split; intros H.
  - destruct Hq as [Hq|Hq].
    + exfalso. assert (fl q <= fl thr) by (apply round_le; [exact V|apply valid_rnd_N|exact Hq]). lra.
    + pose proof (ulp64_pos thr). lra.
  - destruct Hq as [Hq|Hq]; [lra|].
    assert (S1 : succ radix2 fexp64 thr <= q).
    { apply Rle_trans with (2 := Hq). apply succ_le_plus_ulp. exact M. }
    assert (S2 : fl (succ radix2 fexp64 thr) <= fl q) by (apply round_le; [exact V|apply valid_rnd_N|exact S1]).
    assert (S3 : fl (succ radix2 fexp64 thr) = succ radix2 fexp64 thr).
    { apply round_generic; [apply valid_rnd_N|]. apply generic_format_succ; assumption. }
    assert (S4 : thr < succ radix2 fexp64 thr).
    { destruct (Req_dec thr 0) as [->|Zt].
      - rewrite succ_0. apply ulp64_pos.
      - apply succ_gt_id. exact Zt. }
    lra.
Qed.

(* rate_of_change_test on the grid: numerator dx = grid k m (an exact difference, fl_sub_exact), elapsed whole
   seconds 1 <= n <= 2^20, threshold on the same grid and below 2^(32-k) in magnitude:
   the rounded quotient exceeds the threshold exactly when the rational quotient does *)
Theorem roc_compare_exact (k m mt n : Z) :
  (0 <= k <= 1000)%Z -> (Z.abs mt < 2 ^ 32)%Z -> (1 <= n <= 2 ^ 20)%Z ->
  (grid k mt < fl (Rabs (grid k m) / IZR n) <-> grid k mt < Rabs (grid k m) / IZR n).
Proof.
  intros Hk Bt Hn.
  apply gt_threshold_exact; [apply format_grid; lia|].
  set (q := Rabs (grid k m) / IZR n). set (thr := grid k mt).
  destruct (Rle_or_lt q thr) as [L|G]; [left; exact L|right].
  (* q - thr >= 2^-(k+20) >= ulp thr *)
  assert (Pn : 0 < IZR n) by (apply IZR_lt; lia).
  assert (Pk : 0 < bpow radix2 (- k)) by apply bpow_gt_0.
  assert (Gap : bpow radix2 (- k - 20) <= q - thr).
  { unfold q, thr. rewrite grid_abs. unfold grid.
    (* (|m| - mt n) / (n 2^k) with a positive integer numerator *)
    assert (Num : (1 <= Z.abs m - mt * n)%Z).
    { assert (Lt : IZR (mt * n) < IZR (Z.abs m)).
      { unfold q, thr in G. rewrite grid_abs in G. unfold grid in G.
        rewrite mult_IZR.
        apply Rmult_lt_reg_r with (bpow radix2 (- k) / IZR n).
        - apply Rdiv_lt_0_compat; assumption.
        - replace (IZR mt * IZR n * (bpow radix2 (- k) / IZR n)) with (IZR mt * bpow radix2 (- k)) by (field; lra).
          replace (IZR (Z.abs m) * (bpow radix2 (- k) / IZR n)) with (IZR (Z.abs m) * bpow radix2 (- k) / IZR n) by (field; lra).
          exact G. }
      apply lt_IZR in Lt. lia. }
    replace (IZR (Z.abs m) * bpow radix2 (- k) / IZR n - IZR mt * bpow radix2 (- k))
      with (IZR (Z.abs m - mt * n) * (bpow radix2 (- k) / IZR n)).
    2:{ rewrite minus_IZR, mult_IZR. field. lra. }
    assert (Inv : bpow radix2 (- 20) <= / IZR n).
    { change (bpow radix2 (- 20)) with (/ IZR (2 ^ 20)). apply Rinv_le_contravar; [exact Pn|apply IZR_le; lia]. }
    replace (- k - 20)%Z with (- k + - 20)%Z by lia. rewrite bpow_plus.
    assert (N1 : 1 <= IZR (Z.abs m - mt * n)) by (apply IZR_le; exact Num).
    unfold Rdiv.
    assert (P20 : 0 < bpow radix2 (- 20)) by apply bpow_gt_0.
    set (a := bpow radix2 (- k)) in *. set (b := bpow radix2 (- 20)) in *. set (c := / IZR n) in *.
    set (N := IZR (Z.abs m - mt * n)) in *.
    assert (T1 : a * b <= a * c) by (apply Rmult_le_compat_l; lra).
    assert (T2 : 0 <= a * c) by (apply Rmult_le_pos; lra).
    assert (T3 : a * c <= N * (a * c)) by (rewrite <- (Rmult_1_l (a * c)) at 1; apply Rmult_le_compat_r; assumption).
    lra. }
  assert (U : ulp radix2 fexp64 thr <= bpow radix2 (- k - 20)).
  { destruct (Z.eq_dec mt 0) as [->|Nz].
    - unfold thr, grid. rewrite Rmult_0_l. unfold fexp64. rewrite ulp_FLT_0 by reflexivity.
      apply bpow_le. lia.
    - assert (A1 : bpow radix2 (- k) <= Rabs thr).
      { unfold thr. rewrite grid_abs. unfold grid. rewrite <- (Rmult_1_l (bpow radix2 (- k))) at 1.
        apply Rmult_le_compat_r; [lra|]. apply IZR_le. lia. }
      assert (A2 : Rabs thr <= bpow radix2 (32 - k)).
      { unfold thr. rewrite grid_abs. unfold grid. replace (32 - k)%Z with (32 + - k)%Z by lia. rewrite bpow_plus.
        apply Rmult_le_compat_r; [lra|]. change (bpow radix2 32) with (IZR (2 ^ 32)). apply IZR_le. lia. }
      apply Rle_trans with (Rabs thr * bpow radix2 (1 - 53)).
      + unfold fexp64. apply ulp_FLT_le.
        apply Rle_trans with (2 := A1). apply bpow_le. lia.
      + apply Rle_trans with (bpow radix2 (32 - k) * bpow radix2 (1 - 53)).
        * apply Rmult_le_compat_r; [apply bpow_ge_0|exact A2].
        * rewrite <- bpow_plus. apply bpow_le. lia. }
  lra.
Qed.

(* |fl (dx / n)| = fl (|dx| / n): the code takes the absolute value after the division *)
Theorem abs_after_division (dx : R) (n : Z) : (0 < n)%Z -> Rabs (fl (dx / IZR n)) = fl (Rabs dx / IZR n).
Proof.
  intros Hn. unfold fl. rewrite <- round_NE_abs by (apply FLT_exp_valid; reflexivity).
  f_equal. unfold Rdiv. rewrite Rabs_mult. f_equal. apply Rabs_pos_eq.
  left. apply Rinv_0_lt_compat. apply IZR_lt. exact Hn.
Qed.

Print Assumptions roc_compare_exact.

(* ---------------------------------------------------------------- flat_line_test: duration / step, truncated
   count = (threshold / time_interval).astype(int) with threshold = t * 2^-k and a sampling step m * 2^-k on the same
   dyadic scale (whole seconds, 1.5 s, 0.25 s, ...): the exact quotient is t / m, generally not a binary64 number, but the
   truncation of the ROUNDED quotient is the integer quotient - rounding cannot carry t / m over the next integer, which
   is at least 1 / m >= 2^-26 away, while binary64 numbers below 2^26 are at most 2^-27 apart *)
Theorem trunc_quotient_exact (t m : Z) :
  (0 <= t < 2 ^ 26)%Z -> (1 <= m < 2 ^ 26)%Z -> Zfloor (fl (IZR t / IZR m)) = (t / m)%Z.
Proof.
  intros Ht Hm.
  set (N := (t / m)%Z). set (q := IZR t / IZR m).
  assert (V : Valid_exp fexp64) by (apply FLT_exp_valid; reflexivity).
  assert (Pm : 0 < IZR m) by (apply IZR_lt; lia).
  assert (HN : (0 <= N < 2 ^ 26)%Z).
  { unfold N. split; [apply Z.div_pos; lia|]. apply Z.div_lt_upper_bound; nia. }
  assert (D1 : (m * N <= t)%Z) by (unfold N; apply Z.mul_div_le; lia).
  assert (D2 : (t <= m * N + m - 1)%Z).
  { unfold N. pose proof (Z.mod_pos_bound t m ltac:(lia)). pose proof (Z.div_mod t m ltac:(lia)). lia. }
  assert (Lo : IZR N <= q).
  { unfold q. apply Rmult_le_reg_r with (IZR m); [exact Pm|].
    replace (IZR t / IZR m * IZR m) with (IZR t) by (field; lra).
    rewrite <- mult_IZR. apply IZR_le. lia. }
  assert (Hi : q <= IZR N + 1 - bpow radix2 (-26)).
  { assert (Q1 : q <= IZR N + 1 - / IZR m).
    { unfold q. apply Rmult_le_reg_r with (IZR m); [exact Pm|].
      replace (IZR t / IZR m * IZR m) with (IZR t) by (field; lra).
      replace ((IZR N + 1 - / IZR m) * IZR m) with (IZR (m * N + m - 1)).
      - apply IZR_le. exact D2.
      - rewrite minus_IZR, plus_IZR, mult_IZR. simpl (IZR 1). field. lra. }
    assert (Q2 : bpow radix2 (-26) <= / IZR m).
    { change (bpow radix2 (-26)) with (/ IZR (2 ^ 26)). apply Rinv_le_contravar; [exact Pm|apply IZR_le; lia]. }
    lra. }
  assert (FN : fl (IZR N) = IZR N).
  { replace (IZR N) with (grid 0 N) by (unfold grid; simpl; ring). apply fl_grid; lia. }
  set (u := IZR N + 1 - bpow radix2 (-26)).
  assert (Fu : fl u = u).
  { replace u with (grid 26 ((N + 1) * 2 ^ 26 - 1)).
    - apply fl_grid; lia.
    - unfold u, grid. rewrite minus_IZR, mult_IZR, plus_IZR.
      change (IZR (2 ^ 26)) with (bpow radix2 26).
      assert (E : bpow radix2 26 * bpow radix2 (- (26)) = 1) by (rewrite <- bpow_plus; reflexivity).
      simpl (IZR 1). change (- (26))%Z with (-26)%Z in *.
      set (a := bpow radix2 26) in *. set (b := bpow radix2 (-26)) in *.
      replace (((IZR N + 1) * a - 1) * b) with ((IZR N + 1) * (a * b) - b) by ring. rewrite E. ring. }
  assert (B1 : IZR N <= fl q) by (rewrite <- FN; apply round_le; [exact V|apply valid_rnd_N|exact Lo]).
  assert (B2 : fl q <= u) by (rewrite <- Fu; apply round_le; [exact V|apply valid_rnd_N|exact Hi]).
  apply Zfloor_imp. rewrite plus_IZR. simpl (IZR 1).
  pose proof (bpow_gt_0 radix2 (-26)). unfold u in B2. split; lra.
Qed.

Print Assumptions trunc_quotient_exact.
