(* FloatExact.v — the float64 <-> exact-rational gap of DESIGN §4, for the additive intermediates, as a theorem.

   The Coq models compute on exact rationals; the implementation computes on IEEE-754 binary64.  Model of
   binary64 arithmetic: every operation returns the exact real result rounded to nearest-even in the format
   FLT(emin = -1074, precision 53) — `fl` below (no overflow is involved: all magnitudes here are below 2^54).
   On the dyadic grid the correspondence harness generates (integers m with |m| < 2^51, scaled by 2^-k), every
   intermediate result of the difference-based tests is itself a binary64 number, so rounding changes nothing
   and the float computation EQUALS the exact computation:
     spike (average):       | x - (p + s) / 2 |
     spike (differential):  x - p, s - x, their absolute values and the minimum; the SIGN of the product of the steps
     rate of change:        x - p        (the quotient by the elapsed seconds is NOT claimed exact: generators keep it
                                           away from the threshold unless it is exactly equal)
     flat line / range:     max - min
     density inversion:     sign(dz) * (rho2 - rho1)
   Comparisons of binary64 numbers are exact in IEEE-754, so the flags agree.

   Uses the real numbers of the standard library (Flocq.Core): the theorems depend on the standard library's
   axioms for classical reals (listed by Print Assumptions below and in DESIGN §10). *)
From Coq Require Import ZArith Reals Lia Lra.
From Flocq Require Import Core.
Open Scope R_scope.

Definition fexp64 := FLT_exp (-1074) 53.
Definition fl (x : R) : R := round radix2 fexp64 ZnearestE x.

(* the grid number m * 2^-k *)
Definition grid (k : Z) (m : Z) : R := IZR m * bpow radix2 (- k).

Lemma format_grid k m : (Z.abs m < 2 ^ 53)%Z -> (k <= 1074)%Z -> generic_format radix2 fexp64 (grid k m).
Proof.
  intros Hm Hk. unfold grid. apply generic_format_FLT.
  exists (Float radix2 m (- k)); simpl; auto; lia.
Qed.

Lemma fl_grid k m : (Z.abs m < 2 ^ 53)%Z -> (k <= 1074)%Z -> fl (grid k m) = grid k m.
Proof. intros. apply round_generic; [apply valid_rnd_N|apply format_grid; assumption]. Qed.

Lemma grid_add k a b : grid k a + grid k b = grid k (a + b).
Proof. unfold grid. rewrite plus_IZR. ring. Qed.

Lemma grid_sub k a b : grid k a - grid k b = grid k (a - b).
Proof. unfold grid. rewrite minus_IZR. ring. Qed.

Lemma grid_half k a : grid k a / 2 = grid (k + 1) a.
Proof.
  unfold grid. replace (- (k + 1))%Z with (- k - 1)%Z by lia.
  unfold Zminus. rewrite bpow_plus. simpl (bpow radix2 (-1)). unfold Z.pow_pos. simpl. lra.
Qed.

Lemma grid_refine k a : grid k a = grid (k + 1) (2 * a).
Proof.
  unfold grid. replace (- (k + 1))%Z with (- k - 1)%Z by lia.
  unfold Zminus. rewrite bpow_plus, mult_IZR. simpl (bpow radix2 (-1)). unfold Z.pow_pos. simpl. lra.
Qed.

Lemma grid_abs k a : Rabs (grid k a) = grid k (Z.abs a).
Proof.
  unfold grid. rewrite Rabs_mult, <- abs_IZR. rewrite (Rabs_pos_eq (bpow radix2 (- k))); [reflexivity|apply bpow_ge_0].
Qed.

Lemma grid_opp k a : - grid k a = grid k (- a).
Proof. unfold grid. rewrite opp_IZR. ring. Qed.

Lemma grid_le k a b : (a <= b)%Z -> grid k a <= grid k b.
Proof. intros H. unfold grid. apply Rmult_le_compat_r; [apply bpow_ge_0|apply IZR_le; exact H]. Qed.

Section Exact.
  Variables (k : Z) (Hk : (k <= 1000)%Z).
  Variables (mx mp ms : Z).
  Hypothesis Bx : (Z.abs mx < 2 ^ 51)%Z.
  Hypothesis Bp : (Z.abs mp < 2 ^ 51)%Z.
  Hypothesis Bs : (Z.abs ms < 2 ^ 51)%Z.
  Let x := grid k mx.
  Let p := grid k mp.
  Let s := grid k ms.

  (* one subtraction: rate of change numerator, spike steps, density / flat-line / range differences *)
  Theorem fl_sub_exact : fl (x - p) = x - p.
  Proof. unfold x, p. rewrite grid_sub. apply fl_grid; lia. Qed.

  Theorem fl_add_exact : fl (p + s) = p + s.
  Proof. unfold p, s. rewrite grid_add. apply fl_grid; lia. Qed.

  (* spike_test, method "average": diff = |inp - (inp[n-1] + inp[n+1]) / 2| with every operation rounded *)
  Theorem spike_average_exact :
    fl (Rabs (fl (x - fl (fl (p + s) / 2)))) = Rabs (x - (p + s) / 2).
  Proof.
    rewrite fl_add_exact. unfold x, p, s.
    rewrite grid_add, grid_half. rewrite (fl_grid (k + 1) (mp + ms)) by lia.
    rewrite (grid_refine k mx), grid_sub. rewrite (fl_grid (k + 1) (2 * mx - (mp + ms))) by lia.
    rewrite grid_abs. apply fl_grid; lia.
  Qed.

  (* spike_test, method "differential": the two steps, their absolute values and the minimum *)
  Theorem spike_differential_exact :
    fl (Rmin (fl (Rabs (fl (x - p)))) (fl (Rabs (fl (s - x))))) = Rmin (Rabs (x - p)) (Rabs (s - x)).
  Proof.
    assert (E1 : fl (Rabs (fl (x - p))) = Rabs (x - p)).
    { rewrite fl_sub_exact. unfold x, p. rewrite grid_sub, grid_abs. apply fl_grid; lia. }
    assert (E2 : fl (Rabs (fl (s - x))) = Rabs (s - x)).
    { unfold s, x. rewrite grid_sub. rewrite (fl_grid k (ms - mx)) by lia. rewrite grid_abs. apply fl_grid; lia. }
    rewrite E1, E2. unfold Rmin. destruct (Rle_dec (Rabs (x - p)) (Rabs (s - x))).
    - unfold x, p. rewrite grid_sub, grid_abs. apply fl_grid; lia.
    - unfold s, x. rewrite grid_sub, grid_abs. apply fl_grid; lia.
  Qed.

  (* ... and the sign test `ref[:-1] * ref[1:] >= 0`: the product of two grid numbers is a grid number of
     doubled scale whose mantissa may exceed 53 bits, so it may be rounded - but rounding never changes a sign *)
  Theorem product_sign_exact : (k <= 537)%Z -> (0 <= fl ((x - p) * (s - x))) <-> (0 <= (x - p) * (s - x)).
  Proof.
    intros Hk2. split; intros H.
    - destruct (Rle_or_lt 0 ((x - p) * (s - x))) as [G|G]; [exact G|exfalso].
      assert (fl ((x - p) * (s - x)) <= fl (- bpow radix2 (- (2 * k)))).
      { apply round_le; [apply FLT_exp_valid; reflexivity|apply valid_rnd_N|].
        unfold x, p, s. rewrite !grid_sub. unfold grid.
        replace (IZR (mx - mp) * bpow radix2 (- k) * (IZR (ms - mx) * bpow radix2 (- k)))
          with (IZR ((mx - mp) * (ms - mx)) * bpow radix2 (- (2 * k))).
        2:{ rewrite mult_IZR. replace (- (2 * k))%Z with (- k + - k)%Z by lia. rewrite bpow_plus. ring. }
        assert (L : (IZR ((mx - mp) * (ms - mx)) < 0)).
        { apply Rmult_lt_reg_r with (bpow radix2 (- (2 * k))); [apply bpow_gt_0|].
          rewrite Rmult_0_l.
          replace (IZR ((mx - mp) * (ms - mx)) * bpow radix2 (- (2 * k)))
            with ((grid k mx - grid k mp) * (grid k ms - grid k mx)); [exact G|].
          rewrite !grid_sub. unfold grid. rewrite mult_IZR.
          replace (- (2 * k))%Z with (- k + - k)%Z by lia. rewrite bpow_plus. ring. }
        apply lt_IZR in L.
        assert (L1 : (IZR ((mx - mp) * (ms - mx)) <= -1)) by (apply IZR_le; lia).
        pose proof (bpow_gt_0 radix2 (- (2 * k))). nra. }
      assert (F : fl (- bpow radix2 (- (2 * k))) = - bpow radix2 (- (2 * k))).
      { unfold fl. apply round_generic; [apply valid_rnd_N|]. apply generic_format_opp.
        apply generic_format_bpow. unfold fexp64, FLT_exp. lia. }
      rewrite F in H0. pose proof (bpow_gt_0 radix2 (- (2 * k))). lra.
    - unfold fl. rewrite <- (round_0 radix2 fexp64 ZnearestE).
      apply round_le; [apply FLT_exp_valid; reflexivity|apply valid_rnd_N|exact H].
  Qed.
End Exact.

(* density inversion: sign(dz) * drho with sign in {-1, 0, 1} *)
Theorem signed_diff_exact k (sg m1 m2 : Z) :
  (k <= 1000)%Z -> (Z.abs m1 < 2 ^ 51)%Z -> (Z.abs m2 < 2 ^ 51)%Z -> (sg = -1 \/ sg = 0 \/ sg = 1)%Z ->
  fl (IZR sg * fl (grid k m2 - grid k m1)) = IZR sg * (grid k m2 - grid k m1).
Proof.
  intros Hk B1 B2 Hs. rewrite grid_sub. rewrite (fl_grid k (m2 - m1)) by lia.
  replace (IZR sg * grid k (m2 - m1)) with (grid k (sg * (m2 - m1))).
  - apply fl_grid; [|lia]. destruct Hs as [->|[->| ->]]; lia.
  - unfold grid. rewrite mult_IZR. ring.
Qed.

(* flat line / attenuated range: max - min of grid numbers *)
Theorem range_exact k (mmax mmin : Z) :
  (k <= 1000)%Z -> (Z.abs mmax < 2 ^ 51)%Z -> (Z.abs mmin < 2 ^ 51)%Z ->
  fl (Rabs (fl (grid k mmax - grid k mmin))) = Rabs (grid k mmax - grid k mmin).
Proof.
  intros Hk B1 B2. rewrite grid_sub. rewrite (fl_grid k (mmax - mmin)) by lia.
  rewrite grid_abs. apply fl_grid; lia.
Qed.

(* a limit moved by 2^-30 (the fine-limit variants of the C15 check) is still on the grid, one scale finer *)
Theorem fine_limit_on_grid (m : Z) : (Z.abs m < 2 ^ 20)%Z ->
  fl (grid 6 m + bpow radix2 (-30)) = grid 6 m + bpow radix2 (-30).
Proof.
  intros B. replace (grid 6 m + bpow radix2 (-30)) with (grid 30 (m * 2 ^ 24 + 1)).
  - apply fl_grid; lia.
  - unfold grid. rewrite plus_IZR, mult_IZR.
    assert (E : bpow radix2 (- 6) = IZR (2 ^ 24) * bpow radix2 (- 30)).
    { change (IZR (2 ^ 24)) with (bpow radix2 24). rewrite <- bpow_plus. reflexivity. }
    change (- (6))%Z with (-6)%Z. change (- (30))%Z with (-30)%Z. simpl Z.opp. rewrite E. simpl (IZR 1). ring.
Qed.

Print Assumptions spike_average_exact.
Print Assumptions spike_differential_exact.
Print Assumptions product_sign_exact.
Print Assumptions signed_diff_exact.
Print Assumptions range_exact.
Print Assumptions fine_limit_on_grid.

(* ---------------------------------------------------------------- `fl` IS binary64 arithmetic
   Flocq's bit-level formalisation of IEEE-754 binary64 (IEEE754.Bits: b64_plus / b64_minus / b64_mult / b64_div,
   round to nearest even): on finite operands whose rounded result stays below 2^1024 the value of the result is
   `fl` of the exact result. *)
From Flocq Require Import IEEE754.BinarySingleNaN IEEE754.Binary IEEE754.Bits.

Lemma fexp64_is_binary64 : fexp64 = FLT_exp (3 - 1024 - 53) 53.
Proof. reflexivity. Qed.

Theorem b64_plus_is_fl (a b : binary64) :
  Binary.is_finite 53 1024 a = true -> Binary.is_finite 53 1024 b = true ->
  Rabs (fl (Binary.B2R 53 1024 a + Binary.B2R 53 1024 b)) < bpow radix2 1024 ->
  Binary.B2R 53 1024 (b64_plus mode_NE a b) = fl (Binary.B2R 53 1024 a + Binary.B2R 53 1024 b).
Proof.
  intros Fa Fb Hov. unfold b64_plus.
  match goal with |- context [Binary.Bplus _ _ ?p1 ?p2 _ _ _ _] =>
    generalize (Binary.Bplus_correct 53 1024 p1 p2 binop_nan_pl64 mode_NE a b Fa Fb) end.
  change (round radix2 (FLT_exp (3 - 1024 - 53) 53) (round_mode mode_NE)) with fl.
  rewrite Rlt_bool_true by exact Hov. intros [H _]. exact H.
Qed.

Theorem b64_minus_is_fl (a b : binary64) :
  Binary.is_finite 53 1024 a = true -> Binary.is_finite 53 1024 b = true ->
  Rabs (fl (Binary.B2R 53 1024 a - Binary.B2R 53 1024 b)) < bpow radix2 1024 ->
  Binary.B2R 53 1024 (b64_minus mode_NE a b) = fl (Binary.B2R 53 1024 a - Binary.B2R 53 1024 b).
Proof.
  intros Fa Fb Hov. unfold b64_minus.
  match goal with |- context [Binary.Bminus _ _ ?p1 ?p2 _ _ _ _] =>
    generalize (Binary.Bminus_correct 53 1024 p1 p2 binop_nan_pl64 mode_NE a b Fa Fb) end.
  change (round radix2 (FLT_exp (3 - 1024 - 53) 53) (round_mode mode_NE)) with fl.
  rewrite Rlt_bool_true by exact Hov. intros [H _]. exact H.
Qed.

Print Assumptions b64_plus_is_fl.
