(* Skel.v — the flag-assignment SKELETON of a QC test as data, and its meaning.

   tools/gen_consts.py translates, on every run, the sequence of statements
       flag_arr[<boolean index expression>] = QartodFlags.<F>        (under its enclosing `if` guards)
       flag_arr[<integer>] = QartodFlags.<F>
   of a test function into a `list sstep` (Generated.skel_<function>).  `run_steps` below gives that list
   its numpy meaning, relative to an environment that binds the names occurring in the expressions
   (arrays such as inp / diff / roc / d, scalars such as thresholds and span ends).  SkelP_*.v proves,
   per test, that running the GENERATED skeleton in the environment of the hand-written model yields
   exactly the model's flags — so an edit of a comparison operator, of the order of the assignments,
   of a flag constant or of a guard in the source breaks a proof obligation directly. *)
From IoosQc Require Import Base.
From Coq Require Import String.
Local Notation length := List.length.
Open Scope string_scope.

Inductive sexp :=
  | SName (s : string)                     (* a variable *)
  | SAttr (e : sexp) (field : string)      (* e.field : inp.mask, sspan.minv, lon.size *)
  | SNum (q : Q)
  | SNone
  | SStr (s : string)                      (* a string literal: method == "average" *)
  | SCmp (op : string) (a b : sexp)        (* "<" "<=" ">" ">=" "==" "!=" "is" "isnot" *)
  | SBin (op : string) (a b : sexp)        (* "|" "&" "and" "or" *)
  | SInv (e : sexp)                        (* ~e / not e *)
  | SCall (f : string) (a : sexp)          (* np.isnan(check_val), any(is_suspect) *)
  | SSl (from1 : bool) (e : sexp).         (* e[1:] (from1 = true) / e[:-1] (from1 = false) *)

Inductive sstep :=
  | SWhere (guards : list sexp) (cond : sexp) (f : flag)    (* flag_arr[cond] = f *)
  | SWhereSl (guards : list sexp) (from1 : bool) (cond : sexp) (f : flag)
                                                            (* flag_arr[1:][cond] = f / flag_arr[:-1][cond] = f *)
  | SAt (guards : list sexp) (idx : Z) (f : flag).          (* flag_arr[idx] = f, idx may be negative *)

Record env := {
  e_arr : string -> option (list obs);     (* the arrays in scope (None: not an array name) *)
  e_num : string -> option (option Q);     (* the scalars in scope: Some None = Python None *)
  e_str : string -> option string;         (* the string-valued parameters in scope *)
  e_bool : string -> option (nat -> bool); (* boolean index arrays in scope (the DATA of a masked boolean array:
                                              numpy indexes with the data and ignores the mask) *)
  e_size : nat                             (* common length of the arrays *)
}.

(* dotted name of a variable or attribute path: sspan.minv *)
Fixpoint path (e : sexp) : option string :=
  match e with
  | SName s => Some s
  | SAttr e' f => match path e' with Some p => Some (p ++ "." ++ f) | None => None end
  | _ => None
  end.

(* scalar value of an expression: a number, None, or not a scalar *)
Definition eval_num (en : env) (e : sexp) : option (option Q) :=
  match e with
  | SNum q => Some (Some q)
  | SNone => Some None
  | _ => match path e with Some p => e_num en p | None => None end
  end.

(* array value of an expression at index i *)
Definition eval_arr (en : env) (e : sexp) (i : nat) : option obs :=
  match e with
  | SName s => match e_arr en s with Some l => Some (getq l i) | None => None end
  | _ => None
  end.

Definition cmp_q (op : string) (a b : Q) : bool :=
  if String.eqb op "<" then Qltb a b else
  if String.eqb op "<=" then Qleb a b else
  if String.eqb op ">" then Qltb b a else
  if String.eqb op ">=" then Qleb b a else
  if String.eqb op "==" then Qeqb a b else
  if String.eqb op "!=" then negb (Qeqb a b) else false.

(* boolean array expression at index i.  A comparison with a missing (NaN / masked) element is False. *)
Fixpoint eval_b (en : env) (e : sexp) (i : nat) : bool :=
  match e with
  | SName a => match e_bool en a with Some f => f i | None => false end       (* values_idx *)
  | SAttr (SName a) f =>
      if String.eqb f "mask" then match e_arr en a with Some l => is_none (getq l i) | None => false end else false
  | SCmp op a b =>
      match eval_arr en a i, eval_num en b with
      | Some x, Some (Some v) => otest (fun y => cmp_q op y v) x           (* array <op> scalar *)
      | _, _ =>
          match a, b with
          | SAttr (SName _) _, SAttr (SName _) _ =>                         (* mask != mask *)
              if String.eqb op "!=" then xorb (eval_b en a i) (eval_b en b i)
              else if String.eqb op "==" then negb (xorb (eval_b en a i) (eval_b en b i)) else false
          | _, SName t =>                                                   (* is_suspect == True *)
              if (String.eqb op "==" && String.eqb t "True")%bool then eval_b en a i else false
          | _, _ => false
          end
      end
  | SBin op a b =>
      if String.eqb op "|" then (eval_b en a i || eval_b en b i)%bool
      else if String.eqb op "&" then (eval_b en a i && eval_b en b i)%bool else false
  | SInv a => negb (eval_b en a i)
  | SCall f a =>
      if String.eqb f "isnan" then match eval_arr en a i with Some x => is_none x | None => false end else false
  | SSl from1 a =>                          (* element i of the slice: a[i+1] / a[i] (i below size-1) *)
      if from1 then eval_b en a (S i) else (Nat.ltb (S i) (e_size en) && eval_b en a i)%bool
  | _ => false
  end.

(* guard of an enclosing `if`: `x is not None`, `x is None`, `b is True`, `isnan(s[0])`, `a.size > k`, `a and b` *)
Fixpoint eval_g (en : env) (e : sexp) : bool :=
  match e with
  | SName s =>                                   (* a boolean scalar (bound to 1 / 0), e.g. an opaque guard *)
      match e_num en s with Some (Some q) => negb (Qeqb q 0) | _ => false end
  | SCmp op a b =>
      if String.eqb op "isnot" then match eval_num en a with Some (Some _) => true | _ => false end
      else if String.eqb op "is" then
             match eval_num en a, eval_num en b with
             | Some None, Some None => true
             | Some (Some x), Some (Some y) => Qeqb x y     (* `flag is True`: booleans are bound to 1 / 0 *)
             | _, _ => false
             end
      else match a, b with
           | SAttr (SName _) f, SNum q =>
               if String.eqb f "size" then cmp_q op (inject_Z (Z.of_nat (e_size en))) q else false
           | SName x, SStr v =>                                          (* method == "average" *)
               if String.eqb op "==" then match e_str en x with Some w => String.eqb w v | None => false end
               else false
           | _, _ => false
           end
  | SBin op a b =>
      if String.eqb op "and" then (eval_g en a && eval_g en b)%bool
      else if String.eqb op "or" then (eval_g en a || eval_g en b)%bool else false
  | SInv a => negb (eval_g en a)
  | SCall f a =>                                              (* isnan(valid_span[0]): an absent bound *)
      if String.eqb f "isnan" then match eval_num en a with Some None => true | _ => false end
      else if String.eqb f "any" then existsb (eval_b en a) (seq 0 (e_size en))      (* any(is_suspect) *)
      else false
  | _ => false
  end.

Definition guards_hold (en : env) (gs : list sexp) : bool := forallb (eval_g en) gs.

(* python index: negative counts from the end *)
Definition py_index (n : nat) (idx : Z) : nat :=
  if (idx <? 0)%Z then (n - Z.to_nat (- idx))%nat else Z.to_nat idx.

Definition run_step (en : env) (acc : list flag) (s : sstep) : list flag :=
  match s with
  | SWhere gs c f =>
      if guards_hold en gs then set_where (tab (e_size en) (eval_b en c)) f acc else acc
  | SWhereSl gs from1 c f =>
      (* the slice is a view of size-1 elements: view element j is element j+1 (from1) / j of the array *)
      if guards_hold en gs then
        set_where (tab (e_size en) (fun i =>
          if from1 then (negb (Nat.eqb i 0) && eval_b en c (i - 1))%bool
          else (Nat.ltb (S i) (e_size en) && eval_b en c i)%bool)) f acc
      else acc
  | SAt gs idx f =>
      if guards_hold en gs then set_at (py_index (e_size en) idx) f acc else acc
  end.

Definition run_steps (en : env) (steps : list sstep) (init : list flag) : list flag :=
  fold_left (run_step en) steps init.
