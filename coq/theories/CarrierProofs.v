(* CarrierProofs.v — normalisation is the identity on supported carriers, hence every test (a function
   of the normalised series) returns the same flags for every representation of the same series. *)
From IoosQc Require Import Base Carrier.

Lemma apply_mask_id d : forall m,
  length d = length m -> (forall i, nth i m false = true -> nth i d None = None) -> apply_mask d m = d.
Proof.
  induction d as [|x d IH]; intros [|b m] Hl H; simpl in *; try discriminate; [reflexivity|].
  f_equal.
  - destruct b; [|reflexivity]. symmetry. apply (H 0%nat). reflexivity.
  - apply IH; [lia|]. intros i Hi. apply (H (S i)). exact Hi.
Qed.

Theorem carrier_data c : supported c -> normalise c = denote c.
Proof.
  destruct c as [l|t l|d m|l|k l]; simpl; try reflexivity.
  intros [Hl H]. symmetry. apply apply_mask_id; assumption.
Qed.

(* a masked array whose masked entry hides a finite value: the mask is lost (KNOWN_FINDINGS F13a) *)
Theorem carrier_masked_refuted : exists c, normalise c <> denote c.
Proof. exists (DMasked [Some 1; Some 7] [false; true]). simpl. discriminate. Qed.

Theorem carrier_time c : mapdates_model c = denote_t c.
Proof. destruct c; reflexivity. Qed.

(* every QC test model is a function of the normalised inputs: same logical series, same flags *)
Theorem carrier_flags {R} (f : list obs -> R) c1 c2 :
  supported c1 -> supported c2 -> denote c1 = denote c2 -> f (normalise c1) = f (normalise c2).
Proof. intros H1 H2 E. rewrite (carrier_data c1 H1), (carrier_data c2 H2), E. reflexivity. Qed.

Theorem carrier_flags_time {R} (f : list obs -> list Z -> R) c1 c2 t1 t2 :
  supported c1 -> supported c2 -> denote c1 = denote c2 -> denote_t t1 = denote_t t2 ->
  f (normalise c1) (mapdates_model t1) = f (normalise c2) (mapdates_model t2).
Proof.
  intros H1 H2 E Et. rewrite (carrier_data c1 H1), (carrier_data c2 H2), !carrier_time, E, Et. reflexivity.
Qed.

(* unit scaling of datetime64: the same instants in seconds, milliseconds, microseconds, nanoseconds *)
Theorem dt64_units k : 
  denote_t (TDt64 NS [k]) = denote_t (TDt64 1000000 [(k * 1000)%Z]) /\
  denote_t (TDt64 NS [k]) = denote_t (TDt64 1000 [(k * 1000000)%Z]) /\
  denote_t (TDt64 NS [k]) = denote_t (TDt64 1 [(k * NS)%Z]) /\
  denote_t (TDt64 NS [k]) = denote_t (TEpoch [k]).
Proof. unfold NS. simpl. repeat split; f_equal; lia. Qed.
