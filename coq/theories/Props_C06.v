(* Props_C06.v — C06: collected results put every context's flags back on the right input rows. *)
From IoosQc Require Import Base Collect CollectProofs.
From Coq Require Import String Permutation.
Local Notation length := List.length.
Open Scope string_scope.

(* For EVERY sequence of ContextResults over n input rows in which each call produced one flag per
   selected row (any number of contexts, any window layout — overlapping too —, any yield order,
   any stream/test multiplicity), both forms succeed on the flags, expose exactly one result per
   (stream, package, test) triple in first-seen order, and the accumulator of a key holds at row i
   the flag of the LAST context covering i, the fill value (masked / UNKNOWN) if none does. *)
Theorem C06_flags : forall fill n rs,
  Forall (wf_write n) (writes_of rs) ->
  exists f, collect_flags fill rs = Some f /\
    map fst f = first_seen (map write_key (writes_of rs)) [] /\
    forall k, find k f =
      if mentions k (writes_of rs) then Some (tab n (flag_spec fill (writes_of rs) k)) else None.
Proof. exact collect_flags_correct. Qed.
Print Assumptions C06_flags.

(* list form, with AND without auxiliary axis arrays (`shape` says which of time / depth / lat / lon the
   run's streams have; an absent axis arrives as an empty array in every ContextResult): nothing raises *)
Theorem C06_list : forall shape n rs,
  Forall (wf_write n) (writes_of rs) -> Forall (wf_ctx shape n) rs ->
  exists f p, collect_list_model rs = CList f p /\
    map fst f = first_seen (map write_key (writes_of rs)) [] /\
    forall k, find k f =
      if mentions k (writes_of rs) then Some (tab n (flag_spec None (writes_of rs) k)) else None.
Proof. exact collect_list_ok. Qed.
Print Assumptions C06_list.

Theorem C06_dict : forall n rs,
  Forall (wf_write n) (writes_of rs) ->
  exists f, collect_dict_model rs = CList f [] /\
    map fst f = first_seen (map write_key (writes_of rs)) [] /\
    forall k, find k f =
      if mentions k (writes_of rs) then Some (tab n (flag_spec (Some UNKNOWN) (writes_of rs) k)) else None.
Proof. exact collect_dict_ok. Qed.
Print Assumptions C06_dict.

(* exactly one result per triple *)
Theorem C06_keys_nodup : forall ks, NoDup (first_seen ks []).
Proof. intros. apply first_seen_nodup. Qed.
Print Assumptions C06_keys_nodup.

Theorem C06_keys_complete : forall ks k, In k (first_seen ks []) <-> In k ks.
Proof. exact first_seen_complete. Qed.
Print Assumptions C06_keys_complete.

(* a row covered by no context keeps the fill value: masked in the list form, UNKNOWN in the dict form *)
Theorem C06_uncovered : forall ws k i fill,
  (forall w, In w ws -> covers w k i = false) -> flag_spec fill ws k i = fill.
Proof. intros. rewrite flag_spec_from. apply flag_from_uncovered. assumption. Qed.
Print Assumptions C06_uncovered.

(* a row covered by exactly one context carries the flag that context produced for it *)
Theorem C06_covered : forall n ws1 w ws2 k i fill,
  wf_write n w -> covers w k i = true ->
  (forall w', In w' ws2 -> covers w' k i = false) ->
  flag_spec fill (ws1 ++ w :: ws2) k i = nth_error (write_flags w) (rank (write_mask w) i) /\
  exists f, flag_spec fill (ws1 ++ w :: ws2) k i = Some f.
Proof.
  intros n ws1 w ws2 k i fill Hw Hc H2. rewrite flag_spec_from.
  rewrite (flag_from_unique ws1 w ws2 k i fill Hc H2). split; [apply (value_of_wf n); exact Hw|].
  apply (value_of_some n); [exact Hw|]. unfold covers in Hc. apply andb_true_iff in Hc. tauto.
Qed.
Print Assumptions C06_covered.

(* the two forms agree on every covered row *)
Theorem C06_list_dict_agree : forall ws k i,
  (exists w, In w ws /\ covers w k i = true) ->
  flag_spec None ws k i = flag_spec (Some UNKNOWN) ws k i.
Proof. intros. rewrite !flag_spec_from. apply flag_from_covered_init. assumption. Qed.
Print Assumptions C06_list_dict_agree.

(* for disjoint windows the outcome does not depend on the order of the contexts *)
Theorem C06_perm : forall ws ws' k i fill,
  Permutation ws ws' -> disjoint ws -> flag_spec fill ws k i = flag_spec fill ws' k i.
Proof. intros. rewrite !flag_spec_from. apply flag_from_perm; assumption. Qed.
Print Assumptions C06_perm.

(* regression example for the repaired defect F11: a stream without axis arrays and a partial window *)
Example C06_list_no_axes_ok :
  collect_list_model
    [ {| r_stream := "a"; r_calls := [ {| c_pkg := "qartod"; c_test := "t"; c_flags := [GOOD] |} ];
         r_mask := [true; false]; r_pay := [[Some 1]; []; []; []; []] |} ]
  = CList [(("a", "qartod", "t"), [Some GOOD; None])]
          [(("a", "qartod", "t"), [[Some (Some 1); None]; [None; None]; [None; None]; [None; None]; [None; None]])].
Proof. vm_compute. reflexivity. Qed.

Example C06_ex1 :
  collect_list_model
    [ {| r_stream := "a"; r_calls := [ {| c_pkg := "qartod"; c_test := "t"; c_flags := [FAIL; GOOD] |} ];
         r_mask := [false; true; false; true]; r_pay := [[Some 1; Some 3]; [Some 11; Some 13]; []; []; []] |};
      {| r_stream := "a"; r_calls := [ {| c_pkg := "qartod"; c_test := "t"; c_flags := [SUSPECT] |} ];
         r_mask := [true; false; false; false]; r_pay := [[Some 0]; [Some 10]; []; []; []] |} ]
  = CList [(("a", "qartod", "t"), [Some SUSPECT; Some FAIL; None; Some GOOD])]
          [(("a", "qartod", "t"), [[Some (Some 0); Some (Some 1); None; Some (Some 3)];
                                   [Some (Some 10); Some (Some 11); None; Some (Some 13)];
                                   [None; None; None; None]; [None; None; None; None]; [None; None; None; None]])].
Proof. vm_compute. reflexivity. Qed.

Example C06_ex2 :
  collect_flags None
    [ {| r_stream := "a"; r_calls := [ {| c_pkg := "qartod"; c_test := "t"; c_flags := [FAIL; GOOD] |} ];
         r_mask := [false; true; false; true]; r_pay := [] |};
      {| r_stream := "a"; r_calls := [ {| c_pkg := "qartod"; c_test := "t"; c_flags := [SUSPECT] |} ];
         r_mask := [true; false; false; false]; r_pay := [] |} ]
  = Some [(("a", "qartod", "t"), [Some SUSPECT; Some FAIL; None; Some GOOD])].
Proof. vm_compute. reflexivity. Qed.

(* the collected data, time, depth and position arrays: row i of array a (0 = data, 1..4 = the axes the
   run's streams have) under key k holds the value of the LAST context keyed k that covers i — *)
Theorem C06_axes : forall shape n rs,
  Forall (wf_ctx shape n) rs ->
  exists p, collect_pay rs = Some p /\
    forall k,
      if keyed k rs
      then exists arrs, find k p = Some arrs /\
             (forall a, present shape a = true -> length (nth a arrs []) = n) /\
             (forall a i, present shape a = true -> (i < n)%nat ->
                nth i (nth a arrs []) None = pay_from rs k a i None)
      else find k p = None.
Proof. exact collect_pay_correct. Qed.
Print Assumptions C06_axes.

(* — hence equals the SOURCE value on covered rows (the subset array is the source column restricted
   to the window, C05_rows_exact) and stays masked on rows no context covers *)
Theorem C06_axes_source : forall shape n rs1 r rs2 k a i col,
  Forall (wf_ctx shape n) (rs1 ++ r :: rs2) -> present shape a = true -> (i < n)%nat ->
  pay_covers r k i = true -> (forall r', In r' rs2 -> pay_covers r' k i = false) ->
  length col = n -> nth a (r_pay r) [] = restrict' (r_mask r) col ->
  exists p arrs, collect_pay (rs1 ++ r :: rs2) = Some p /\ find k p = Some arrs /\
    nth i (nth a arrs []) None = Some (nth i col None).
Proof. exact collect_pay_source. Qed.
Print Assumptions C06_axes_source.

Theorem C06_axes_masked : forall shape n rs k a i,
  Forall (wf_ctx shape n) rs -> keyed k rs = true -> present shape a = true -> (i < n)%nat ->
  (forall r, In r rs -> pay_covers r k i = false) ->
  exists p arrs, collect_pay rs = Some p /\ find k p = Some arrs /\ nth i (nth a arrs []) None = None.
Proof. exact collect_pay_masked. Qed.
Print Assumptions C06_axes_masked.
