(* Climatology.v — model and pointwise specification of
     qartod.climatology_test / ClimatologyConfig.add / ClimatologyConfig.check   (qartod.py)
     utils.mapdates (datetime64 input: the identity on nanosecond timestamps)
   Definitions only.  The model follows `check` member by member with the same three overwrites
   (FAIL, SUSPECT, GOOD on `values_idx`) and the MISSING overwrite before and after the member
   loop, including what numpy masked arrays do when they are combined with `&` and used as an
   index (observed with numpy 1.26 / pandas 3.0):
     * ndarray & MaskedArray, MaskedArray & MaskedArray: data = plain `&` of the data, mask = union;
       `~` negates the data and keeps the mask; comparisons with NaN under the mask give False;
     * flag_arr[MaskedArray] = v uses the DATA of the index (the mask is ignored);
     * np.asarray(tinp.<period>), pd.Index(tinp.isocalendar().week) and a DatetimeIndex all compare
       to plain ndarrays (every member goes through the same mask arithmetic). *)
From IoosQc Require Import Base Range Calendar.

(* ---------------------------------------------------------------- configuration *)

(* the `period` names this model covers (any pd.Timestamp attribute is accepted by `add`) *)
Inductive period :=
  PYear | PMonth | PWeek | PWeekOfYear | PDayOfYear | PDayOfWeek | PQuarter | PDay | PHour.

(* value of the named calendar field at a timestamp (ns since the epoch) *)
Definition period_value (p : period) (t : Z) : Z :=
  match p with
  | PYear => year t
  | PMonth => month t
  | PWeek | PWeekOfYear => iso_week t          (* tinp.isocalendar().week *)
  | PDayOfYear => dayofyear t
  | PDayOfWeek => dayofweek t
  | PQuarter => quarter t
  | PDay => day t
  | PHour => hour t
  end.

(* tspan: a pair of dates (ns) when no period is given, a numeric pair in the period's unit else *)
Inductive tspan :=
  | TAbs (a b : Z)
  | TPer (p : period) (a b : Q).

Record member := mk_member {
  m_tspan : tspan;
  m_fspan : option (Q * Q);
  m_vspan : Q * Q;
  m_zspan : option (Q * Q) }.

Definition m_period (m : member) : option period :=
  match m_tspan m with TAbs _ _ => None | TPer p _ _ => Some p end.

Definition sortp (s : Q * Q) : Q * Q := sort2 (fst s) (snd s).

(* ClimatologyConfig.add: every span is stored sorted *)
Definition add (m : member) : member :=
  {| m_tspan := match m_tspan m with
                | TAbs a b => TAbs (Z.min a b) (Z.max a b)
                | TPer p a b => let '(lo, hi) := sort2 a b in TPer p lo hi
                end;
     m_fspan := option_map sortp (m_fspan m);
     m_vspan := sortp (m_vspan m);
     m_zspan := option_map sortp (m_zspan m) |}.

(* ---------------------------------------------------------------- membership tests *)

(* lo <= v <= hi *)
Definition inside (lo hi v : Q) : bool := Qleb lo v && Qleb v hi.

(* (tinp_copy >= m.tspan.minv) & (tinp_copy <= m.tspan.maxv) *)
Definition tmatch (m : member) (t : Z) : bool :=
  match m_tspan m with
  | TAbs lo hi => (lo <=? t)%Z && (t <=? hi)%Z
  | TPer p lo hi => inside lo hi (inject_Z (period_value p t))
  end.

Definition zmatch (m : member) (z : obs) : bool :=
  match m_zspan m with
  | None => true
  | Some (lo, hi) => otest (inside lo hi) z
  end.

Definition matches (t : Z) (z : obs) (m : member) : bool := tmatch m t && zmatch m z.

Definition out_fail (m : member) (v : Q) : bool :=
  match m_fspan m with Some (lo, hi) => outside lo hi v | None => false end.
Definition out_valid (m : member) (v : Q) : bool := outside (fst (m_vspan m)) (snd (m_vspan m)) v.

(* ---------------------------------------------------------------- masked index algebra *)

(* one element of a numpy boolean (masked) array: (data, mask) *)
Definition mb := (bool * bool)%type.
Definition mb_not (a : mb) : mb := (negb (fst a), snd a).
Definition mb_and (a b : mb) : mb := (fst a && fst b, snd a || snd b).

(* whether flag_arr[index] = v assigns at this element: the data, whatever the mask *)
Definition mb_eff (a : mb) : bool := fst a.

(* ---------------------------------------------------------------- the model *)

Definition count_present (zs : list obs) : nat := length (filter is_some zs).

(* `if not isnan(m.zspan) and (not zinp.count() or isnan(zinp.any())): continue` *)
Definition skipped (m : member) (zs : list obs) : bool :=
  is_some (m_zspan m) && Nat.eqb (count_present zs) 0.

(* (tinp_copy >= minv) & (tinp_copy <= maxv): a plain ndarray for every kind of member *)
Definition t_idx (m : member) (ts : list Z) (i : nat) : mb := (tmatch m (getz ts i), false).

Definition z_idx (m : member) (xs zs : list obs) (i : nat) : mb :=
  match m_zspan m with
  | Some (lo, hi) => (otest (inside lo hi) (getq zs i), is_none (getq zs i))
  | None => (is_some (getq xs i), is_none (getq xs i))     (* np.ma.array(~isnan(inp.data), mask=inp.mask) *)
  end.

Definition fail_idx (m : member) (xs : list obs) (i : nat) : mb :=
  match m_fspan m with
  | Some (lo, hi) => (otest (outside lo hi) (getq xs i), is_none (getq xs i))
  | None => (false, false)                                  (* np.zeros(inp.size, dtype=bool) *)
  end.

Definition suspect_idx (m : member) (xs : list obs) (i : nat) : mb :=
  (otest (out_valid m) (getq xs i), is_none (getq xs i)).

Definition values_idx (m : member) (xs : list obs) (ts : list Z) (zs : list obs) (i : nat) : mb :=
  mb_and (t_idx m ts i) (z_idx m xs zs i).

(* one iteration of `for m in self._members` *)
Definition clim_step (xs : list obs) (ts : list Z) (zs : list obs) (acc : list flag) (m : member)
  : list flag :=
  let n := length xs in
  if skipped m zs then acc else
  let v := values_idx m xs ts zs in
  let f := fail_idx m xs in
  let s := suspect_idx m xs in
  let a1 := set_where (tab n (fun i => mb_eff (mb_and (v i) (f i)))) FAIL acc in
  let a2 := set_where (tab n (fun i => mb_eff (mb_and (mb_and (v i) (mb_not (f i))) (s i)))) SUSPECT a1 in
  set_where (tab n (fun i => mb_eff (mb_and (mb_and (v i) (mb_not (f i))) (mb_not (s i))))) GOOD a2.

(* config: the members as written by the caller (spans in any order); xs, ts, zs: inp, tinp (ns),
   zinp, of equal length *)
Definition clim_model (config : list member) (xs : list obs) (ts : list Z) (zs : list obs) : outcome :=
  let ms := map add config in
  let n := length xs in
  let f0 := all_flags n UNKNOWN in
  let f1 := set_where (tab n (missing_at xs)) MISSING f0 in       (* before the member loop *)
  let f2 := fold_left (clim_step xs ts zs) ms f1 in
  Flags (set_where (tab n (missing_at xs)) MISSING f2).            (* and again after it *)

(* ---------------------------------------------------------------- the property, per point *)

Fixpoint olast {A} (l : list A) : option A :=
  match l with
  | [] => None
  | [a] => Some a
  | _ :: r => olast r
  end.

Definition classify (m : member) (v : Q) : flag :=
  if out_fail m v then FAIL else if out_valid m v then SUSPECT else GOOD.

Definition clim_pt (ms : list member) (x : obs) (t : Z) (z : obs) : flag :=
  match x with
  | None => MISSING
  | Some v =>
      match olast (filter (matches t z) ms) with
      | None => UNKNOWN
      | Some m => classify m v
      end
  end.

Definition clim_spec (config : list member) (xs : list obs) (ts : list Z) (zs : list obs) : outcome :=
  let ms := map add config in
  Flags (tab (length xs) (fun i => clim_pt ms (getq xs i) (getz ts i) (getq zs i))).
