(* CollectProofs.v — collect_results: every key's accumulator holds, at every input row, the flag
   of the last (context, call) whose window covers the row; uncovered rows keep the fill value
   (masked / UNKNOWN); keys are the distinct (stream, package, test) triples in first-seen order;
   for disjoint windows the result does not depend on the order of the contexts. *)
From IoosQc Require Import Base Collect.
From Coq Require Import String Permutation.
Local Notation length := List.length.

(* ---------------------------------------------------------------- keys *)

Lemma key_eqb_spec a b : reflect (a = b) (key_eqb a b).
Proof.
  destruct a as [[a1 a2] a3], b as [[b1 b2] b3]. unfold key_eqb.
  destruct (String.eqb_spec a1 b1), (String.eqb_spec a2 b2), (String.eqb_spec a3 b3);
    simpl; constructor; congruence.
Qed.

Lemma key_eqb_refl a : key_eqb a a = true.
Proof. destruct (key_eqb_spec a a); congruence. Qed.

Lemma key_eqb_sym a b : key_eqb a b = key_eqb b a.
Proof. destruct (key_eqb_spec a b), (key_eqb_spec b a); congruence. Qed.

Section AssocFacts.
  Context {V : Type}.
  Implicit Types st : list (key * V).

  Lemma find_upd_same k v st : find k (upd k v st) = Some v.
  Proof.
    induction st as [|[k' v'] r IH]; simpl.
    - rewrite key_eqb_refl. reflexivity.
    - destruct (key_eqb k' k) eqn:E; simpl; rewrite E; auto.
  Qed.

  Lemma find_upd_other k k' v st : k' <> k -> find k' (upd k v st) = find k' st.
  Proof.
    intros N. induction st as [|[k0 v0] r IH]; simpl.
    - destruct (key_eqb_spec k k'); [congruence|reflexivity].
    - destruct (key_eqb_spec k0 k); simpl.
      + subst. destruct (key_eqb_spec k k'); [congruence|reflexivity].
      + destruct (key_eqb k0 k'); auto.
  Qed.

  Definition has_key k st : bool := existsb (key_eqb k) (map fst st).

  Lemma find_none_has_key k st : find k st = None <-> has_key k st = false.
  Proof.
    unfold has_key. induction st as [|[k0 v0] r IH]; simpl; [tauto|].
    rewrite (key_eqb_sym k k0). destruct (key_eqb k0 k); simpl; [split; congruence|exact IH].
  Qed.

  Lemma keys_upd k v st :
    map fst (upd k v st) = if has_key k st then map fst st else map fst st ++ [k].
  Proof.
    unfold has_key. induction st as [|[k0 v0] r IH]; simpl; [reflexivity|].
    rewrite (key_eqb_sym k k0). destruct (key_eqb k0 k) eqn:E; simpl; [reflexivity|].
    rewrite IH. destruct (existsb (key_eqb k) (map fst r)); reflexivity.
  Qed.
End AssocFacts.

(* ---------------------------------------------------------------- scatter *)

Lemma scatter_length {A} m (vals : list A) acc : length (scatter m vals acc) = length acc.
Proof. unfold scatter. apply tab_length. Qed.

Lemma nth_scatter {A} m (vals : list A) acc i :
  (i < length acc)%nat ->
  nth i (scatter m vals acc) None =
  if nth i m false
  then (if Nat.eqb (length vals) (count_true m) then nth_error vals (rank m i) else hd_error vals)
  else nth i acc None.
Proof. intros H. unfold scatter. rewrite nth_tab by exact H. reflexivity. Qed.

(* ---------------------------------------------------------------- flags *)

(* one step of the pointwise "last covering write wins" fold *)
Definition flag_step (k : key) (i : nat) (acc : option flag) (w : write) : option flag :=
  let '(k', m, fl) := w in
  if (key_eqb k' k && nth i m false)%bool
  then (if Nat.eqb (length fl) (count_true m) then nth_error fl (rank m i) else hd_error fl)
  else acc.

Definition flag_from (ws : list write) (k : key) (i : nat) (init : option flag) : option flag :=
  fold_left (flag_step k i) ws init.

Lemma flag_spec_from fill ws k i : flag_spec fill ws k i = flag_from ws k i fill.
Proof. reflexivity. Qed.

Lemma flag_from_cons w ws k i init :
  flag_from (w :: ws) k i init = flag_from ws k i (flag_step k i init w).
Proof. reflexivity. Qed.

Definition mentions (k : key) (ws : list write) : bool := existsb (fun w => key_eqb (write_key w) k) ws.

Definition lens_ok (n : nat) (s : list (key * list (option flag))) : Prop :=
  forall k a, find k s = Some a -> length a = n.

Lemma wf_scatter_ok n w : wf_write n w -> scatter_ok (write_mask w) (write_flags w) = true.
Proof.
  intros [_ H]. unfold scatter_ok. rewrite H, Nat.eqb_refl. reflexivity.
Qed.

Lemma flags_fold fill n ws : forall s,
  Forall (wf_write n) ws -> lens_ok n s ->
  exists f, fold_left (flags_step fill) ws (Some s) = Some f /\ lens_ok n f /\
    (forall k, find k f =
       match find k s with
       | Some a => Some (tab n (fun i => flag_from ws k i (nth i a None)))
       | None => if mentions k ws then Some (tab n (fun i => flag_from ws k i fill)) else None
       end) /\
    map fst f = map fst s ++ first_seen (map write_key ws) (map fst s).
Proof.
  induction ws as [|w ws IH]; intros s Hwf Hlen.
  - exists s. simpl. repeat split; auto.
    + intros k. destruct (find k s) as [a|] eqn:E; [|reflexivity].
      f_equal. rewrite <- (Hlen _ _ E). symmetry. apply tab_nth_self.
    + rewrite app_nil_r. reflexivity.
  - inversion Hwf as [|? ? Hw Hws]; subst.
    destruct w as [[k0 m] fl]. simpl fold_left.
    pose proof (wf_scatter_ok n _ Hw) as Hok.
    destruct Hw as [Hm Hfl]. unfold write_mask, write_flags in Hok, Hm, Hfl. simpl in Hok, Hm, Hfl.
    rewrite Hok.
    set (acc := match find k0 s with Some a => a | None => tab (length m) (fun _ => fill) end).
    assert (Hacc : length acc = n).
    { unfold acc. destruct (find k0 s) as [a|] eqn:E; [eapply Hlen; eauto|]. rewrite tab_length. exact Hm. }
    set (s' := upd k0 (scatter m fl acc) s).
    assert (Hlen' : lens_ok n s').
    { intros k a. unfold s'. destruct (key_eqb_spec k k0) as [->|N].
      - rewrite find_upd_same. intros E. inversion E; subst. rewrite scatter_length. exact Hacc.
      - rewrite find_upd_other by exact N. apply Hlen. }
    destruct (IH s' Hws Hlen') as [f [Hf [Hlf [Hfind Hkeys]]]].
    exists f. split; [exact Hf|]. split; [exact Hlf|]. split.
    + intros k. rewrite Hfind. unfold s'.
      destruct (key_eqb_spec k k0) as [->|N].
      * rewrite find_upd_same. simpl mentions. unfold write_key at 1. simpl fst.
        rewrite key_eqb_refl. simpl orb.
        assert (E : forall init_arr, length init_arr = n -> acc = init_arr ->
                  tab n (fun i => flag_from ws k0 i (nth i (scatter m fl acc) None)) =
                  tab n (fun i => flag_from ((k0, m, fl) :: ws) k0 i (nth i init_arr None))).
        { intros ia Hia Eq. apply tab_ext. intros i Hi. rewrite nth_scatter by lia.
          rewrite flag_from_cons. unfold flag_step. rewrite key_eqb_refl. simpl andb.
          rewrite <- Eq. reflexivity. }
        destruct (find k0 s) as [a|] eqn:Ea.
        -- f_equal. apply E; [eapply Hlen; eauto|reflexivity].
        -- f_equal. rewrite (E (tab n (fun _ => fill))).
           ++ apply tab_ext. intros i Hi. rewrite nth_tab by exact Hi. reflexivity.
           ++ apply tab_length.
           ++ unfold acc. rewrite Hm. reflexivity.
      * rewrite find_upd_other by exact N.
        assert (Estep : forall i init, flag_from ((k0, m, fl) :: ws) k i init = flag_from ws k i init).
        { intros i init. rewrite flag_from_cons. unfold flag_step.
          destruct (key_eqb_spec k0 k); [congruence|]. reflexivity. }
        destruct (find k s) as [a|] eqn:Ea.
        -- f_equal. apply tab_ext. intros i _. rewrite Estep. reflexivity.
        -- simpl mentions. unfold write_key at 1. simpl fst.
           destruct (key_eqb_spec k0 k); [congruence|]. simpl orb.
           destruct (mentions k ws); [|reflexivity].
           f_equal. apply tab_ext. intros i _. rewrite Estep. reflexivity.
    + rewrite Hkeys. unfold s'. rewrite keys_upd. simpl map. simpl first_seen.
      unfold write_key at 2. simpl fst. unfold has_key.
      destruct (existsb (key_eqb k0) (map fst s)) eqn:Ex; [reflexivity|].
      rewrite <- app_assoc. simpl. f_equal. f_equal.
      (* first_seen with seen-list in a different order / representation *)
      clear - Ex. generalize (map write_key ws) as ks. intros ks.
      assert (G : forall seen1 seen2, (forall x, existsb (key_eqb x) seen1 = existsb (key_eqb x) seen2) ->
                  first_seen ks seen1 = first_seen ks seen2).
      { induction ks as [|x r IHr]; intros s1 s2 Hs; simpl; [reflexivity|].
        rewrite (Hs x). destruct (existsb (key_eqb x) s2).
        - apply IHr; exact Hs.
        - f_equal. apply IHr. intros y. simpl. rewrite (Hs y). reflexivity. }
      apply G. intros x. rewrite existsb_app. simpl. rewrite orb_false_r. apply orb_comm.
Qed.

Theorem collect_flags_correct fill n rs :
  Forall (wf_write n) (writes_of rs) ->
  exists f, collect_flags fill rs = Some f /\
    map fst f = first_seen (map write_key (writes_of rs)) [] /\
    forall k, find k f =
      if mentions k (writes_of rs) then Some (tab n (flag_spec fill (writes_of rs) k)) else None.
Proof.
  intros H. unfold collect_flags.
  destruct (flags_fold fill n (writes_of rs) [] H) as [f [Hf [_ [Hfind Hkeys]]]].
  { intros k a E. discriminate. }
  exists f. split; [exact Hf|]. split; [exact Hkeys|].
  intros k. rewrite Hfind. simpl. reflexivity.
Qed.

(* ---------------------------------------------------------------- consequences *)

Definition covers (w : write) (k : key) (i : nat) : bool :=
  (key_eqb (write_key w) k && nth i (write_mask w) false)%bool.

Definition value_of (w : write) (i : nat) : option flag :=
  if Nat.eqb (length (write_flags w)) (count_true (write_mask w))
  then nth_error (write_flags w) (rank (write_mask w) i) else hd_error (write_flags w).

Lemma flag_step_covers k i acc w :
  flag_step k i acc w = if covers w k i then value_of w i else acc.
Proof. destruct w as [[k' m] fl]. reflexivity. Qed.

(* a row covered by no write of the key keeps the fill value: masked (list) / UNKNOWN (dict) *)
Lemma flag_from_uncovered ws k i init :
  (forall w, In w ws -> covers w k i = false) -> flag_from ws k i init = init.
Proof.
  revert init. induction ws as [|w ws IH]; intros init H; [reflexivity|].
  unfold flag_from. simpl. rewrite flag_step_covers, (H w) by (left; reflexivity).
  apply IH. intros w' Hw'. apply H. right. exact Hw'.
Qed.

(* a row covered by exactly one write of the key carries that write's flag for the row *)
Lemma flag_from_unique ws1 w ws2 k i init :
  covers w k i = true ->
  (forall w', In w' ws2 -> covers w' k i = false) ->
  flag_from (ws1 ++ w :: ws2) k i init = value_of w i.
Proof.
  intros Hc H2. unfold flag_from. rewrite fold_left_app. simpl.
  rewrite flag_step_covers, Hc. apply flag_from_uncovered. exact H2.
Qed.

(* windows of one key pairwise disjoint: no row covered twice *)
Definition disjoint (ws : list write) : Prop :=
  forall k i ws1 w ws2, ws = ws1 ++ w :: ws2 -> covers w k i = true ->
    (forall w', In w' ws1 -> covers w' k i = false) /\ (forall w', In w' ws2 -> covers w' k i = false).

Lemma flag_from_disjoint_iff ws k i init v :
  disjoint ws ->
  (exists w, In w ws /\ covers w k i = true) ->
  (flag_from ws k i init = v <-> exists w, In w ws /\ covers w k i = true /\ value_of w i = v).
Proof.
  intros Hd [w [Hin Hc]]. apply in_split in Hin. destruct Hin as [ws1 [ws2 E]].
  destruct (Hd k i ws1 w ws2 E Hc) as [H1 H2]. subst ws.
  rewrite (flag_from_unique ws1 w ws2 k i init Hc H2). split.
  - intros <-. exists w. split; [apply in_or_app; right; left; reflexivity|]. auto.
  - intros [w' [Hin' [Hc' Hv']]]. apply in_app_or in Hin'. destruct Hin' as [Hin'|[->|Hin']].
    + rewrite (H1 w' Hin') in Hc'. discriminate.
    + exact Hv'.
    + rewrite (H2 w' Hin') in Hc'. discriminate.
Qed.

Lemma disjoint_perm ws ws' : Permutation ws ws' -> disjoint ws ->
  forall k i w1 w2, In w1 ws' -> In w2 ws' -> covers w1 k i = true -> covers w2 k i = true ->
  value_of w1 i = value_of w2 i.
Proof.
  intros HP Hd k i w1 w2 H1 H2 C1 C2.
  apply (Permutation_in _ (Permutation_sym HP)) in H1.
  apply (Permutation_in _ (Permutation_sym HP)) in H2.
  apply in_split in H1. destruct H1 as [a [b E]].
  destruct (Hd k i a w1 b E C1) as [Ha Hb]. subst ws.
  apply in_app_or in H2. destruct H2 as [H2|[<-|H2]].
  - rewrite (Ha _ H2) in C2. discriminate.
  - reflexivity.
  - rewrite (Hb _ H2) in C2. discriminate.
Qed.

(* order independence for disjoint windows (pointwise form) *)
Theorem flag_from_perm ws ws' k i init :
  Permutation ws ws' -> disjoint ws -> flag_from ws k i init = flag_from ws' k i init.
Proof.
  intros HP Hd.
  destruct (existsb (fun w => covers w k i) ws) eqn:Ex.
  - apply existsb_exists in Ex. destruct Ex as [w [Hin Hc]].
    (* value on the left *)
    pose proof (proj2 (flag_from_disjoint_iff ws k i init (value_of w i) Hd
                         (ex_intro _ w (conj Hin Hc)))) as HL.
    rewrite HL by (exists w; auto).
    (* on the right: the last covering write in ws' has the same value *)
    assert (Hin' : In w ws') by (eapply Permutation_in; eauto).
    clear HL. revert init.
    assert (G : forall l init, (forall x, In x l -> In x ws') ->
              (exists x, In x l /\ covers x k i = true) -> flag_from l k i init = value_of w i).
    { induction l as [|x l IHl] using rev_ind; intros init Hsub [y [Hy Hcy]]; [destruct Hy|].
      unfold flag_from. rewrite fold_left_app. simpl. rewrite flag_step_covers.
      destruct (covers x k i) eqn:Cx.
      - apply (disjoint_perm ws ws' HP Hd k i x w); auto.
        apply Hsub. apply in_or_app. right. left. reflexivity.
      - apply IHl.
        + intros z Hz. apply Hsub. apply in_or_app. left. exact Hz.
        + apply in_app_or in Hy. destruct Hy as [Hy|[<-|[]]]; [exists y; auto|congruence]. }
    intros init. symmetry. apply G; [auto|]. exists w. auto.
  - assert (N : forall l, (forall x, In x l -> In x ws) -> forall w, In w l -> covers w k i = false).
    { intros l Hsub w Hw. specialize (Hsub w Hw).
      destruct (covers w k i) eqn:C; [|reflexivity].
      assert (existsb (fun w => covers w k i) ws = true) by (apply existsb_exists; exists w; auto).
      congruence. }
    rewrite !flag_from_uncovered; auto.
    + apply (N ws'). intros x Hx. eapply Permutation_in; [apply Permutation_sym|]; eauto.
    + apply (N ws). auto.
Qed.

(* list and dict forms agree on every covered row *)
Lemma flag_from_covered_init ws k i init init' :
  (exists w, In w ws /\ covers w k i = true) -> flag_from ws k i init = flag_from ws k i init'.
Proof.
  revert init init'. induction ws as [|w ws IH] using rev_ind; intros init init' [y [Hy Hc]]; [destruct Hy|].
  unfold flag_from. rewrite !fold_left_app. simpl. rewrite !flag_step_covers.
  destruct (covers w k i) eqn:C; [reflexivity|].
  apply IH. apply in_app_or in Hy. destruct Hy as [Hy|[<-|[]]]; [exists y; auto|congruence].
Qed.

(* value_of a well-formed write is the flag the context produced for that row *)
Lemma value_of_wf n w i :
  wf_write n w -> value_of w i = nth_error (write_flags w) (rank (write_mask w) i).
Proof. intros [_ H]. unfold value_of. rewrite H, Nat.eqb_refl. reflexivity. Qed.

Lemma rank_lt_count m i : nth i m false = true -> (rank m i < count_true m)%nat.
Proof.
  unfold rank, count_true. revert i. induction m as [|b m IH]; intros [|i]; simpl; try discriminate.
  - intros ->. simpl. lia.
  - intros H. specialize (IH i H). destruct b; simpl; lia.
Qed.

(* a covered row always gets a genuine flag (never stays masked) *)
Lemma value_of_some n w i :
  wf_write n w -> nth i (write_mask w) false = true -> exists f, value_of w i = Some f.
Proof.
  intros Hw Hc. rewrite (value_of_wf n w i Hw). destruct Hw as [_ Hl].
  destruct (nth_error (write_flags w) (rank (write_mask w) i)) eqn:E; [eauto|].
  apply nth_error_None in E. pose proof (rank_lt_count _ _ Hc). lia.
Qed.

(* ---------------------------------------------------------------- keys: one result per triple *)

Lemma first_seen_in ks : forall seen k,
  In k (first_seen ks seen) <-> (In k ks /\ existsb (key_eqb k) seen = false).
Proof.
  induction ks as [|x r IH]; intros seen k; simpl; [tauto|].
  destruct (existsb (key_eqb x) seen) eqn:Ex.
  - rewrite IH. split.
    + intros [H1 H2]. split; [right; exact H1|exact H2].
    + intros [[->|H1] H2]; [congruence|split; assumption].
  - simpl. rewrite IH. simpl. split.
    + intros [->|[H1 H2]].
      * split; [left; reflexivity|exact Ex].
      * apply orb_false_iff in H2. destruct H2 as [_ H2]. split; [right; exact H1|exact H2].
    + intros [[->|H1] H2]; [left; reflexivity|].
      destruct (key_eqb_spec k x) as [->|N]; [left; reflexivity|].
      right. split; [exact H1|]. apply orb_false_iff. split; [|exact H2].
      destruct (key_eqb_spec k x); congruence.
Qed.

Lemma first_seen_nodup ks : forall seen, NoDup (first_seen ks seen).
Proof.
  induction ks as [|x r IH]; intros seen; simpl; [constructor|].
  destruct (existsb (key_eqb x) seen); [apply IH|].
  constructor; [|apply IH].
  intros H. apply first_seen_in in H. destruct H as [_ H]. simpl in H.
  rewrite key_eqb_refl in H. discriminate.
Qed.

Lemma first_seen_complete ks k : In k (first_seen ks []) <-> In k ks.
Proof. rewrite first_seen_in. simpl. tauto. Qed.

(* ---------------------------------------------------------------- payload (data / axes) *)

Lemma count_true_all m : all_true m = true -> count_true m = length m.
Proof.
  unfold all_true, count_true. induction m as [|b m IH]; simpl; [reflexivity|].
  destruct b; simpl; [|discriminate]. intros H. rewrite IH by exact H. reflexivity.
Qed.

(* which of the four axes (time, depth, lat, lon) the run's streams have: an absent axis arrives as
   an empty array in EVERY ContextResult *)
Definition wf_axis (present : bool) (cnt : nat) (a : list obs) : Prop :=
  if present then length a = cnt else a = [].

Definition wf_ctx (shape : list bool) (n : nat) (r : ctxres) : Prop :=
  length (r_mask r) = n /\
  match r_pay r with
  | d :: axes => length d = count_true (r_mask r) /\ Forall2 (fun p a => wf_axis p (count_true (r_mask r)) a) shape axes
  | [] => False
  end.

(* accumulators: data has n rows; a present axis has n rows; an absent one has n (masked) or 0
   (replaced by the empty array) rows *)
Definition acc_ok (present : bool) (n : nat) (a : list (option obs)) : Prop :=
  if present then length a = n else True.

Definition pay_lens_ok (shape : list bool) (n : nat) (s : list (key * list (list (option obs)))) : Prop :=
  forall k a, find k s = Some a ->
    match a with d :: axes => length d = n /\ Forall2 (fun p x => acc_ok p n x) shape axes | [] => False end.

Lemma place_data m v old :
  length v = count_true m -> length old = length m ->
  exists x, place false m v old = Some x /\ length x = length m.
Proof.
  intros Hv Ho. unfold place. simpl andb. unfold scatter_ok. rewrite Hv, Nat.eqb_refl, Ho, Nat.eqb_refl. simpl.
  eexists. split; [reflexivity|]. rewrite scatter_length. exact Ho.
Qed.

Lemma place_axis present m v old :
  wf_axis present (count_true m) v -> acc_ok present (length m) old ->
  exists x, place true m v old = Some x /\ acc_ok present (length m) x.
Proof.
  unfold wf_axis, acc_ok, place. destruct present.
  - intros Hv Ho. destruct v as [|v0 v'].
    + simpl. eexists. split; [reflexivity|exact Ho].
    + simpl is_nil. simpl andb. unfold scatter_ok. rewrite Hv, Nat.eqb_refl, Ho, Nat.eqb_refl. simpl.
      eexists. split; [reflexivity|]. rewrite scatter_length. exact Ho.
  - intros -> _. simpl. eexists. split; [reflexivity|exact I].
Qed.

Lemma place_all_axes shape m : forall axes olds,
  Forall2 (fun p a => wf_axis p (count_true m) a) shape axes ->
  Forall2 (fun p x => acc_ok p (length m) x) shape olds ->
  exists r, place_all true m axes olds = Some r /\ Forall2 (fun p x => acc_ok p (length m) x) shape r.
Proof.
  induction shape as [|p shape IH]; intros axes olds Ha Ho; inversion Ha; inversion Ho; subst.
  - exists []. split; [reflexivity|constructor].
  - match goal with H1 : wf_axis p _ ?v, H2 : acc_ok p _ ?o |- _ =>
      destruct (place_axis p m v o H1 H2) as [x [Ex Hx]] end.
    match goal with H1 : Forall2 _ shape ?l1, H2 : Forall2 _ shape ?l2 |- _ =>
      destruct (IH l1 l2 H1 H2) as [r [Er Hr]] end.
    simpl. rewrite Ex, Er. eexists. split; [reflexivity|]. constructor; assumption.
Qed.

Lemma replaced_axes_ok shape cnt n : forall axes,
  cnt = n -> Forall2 (fun p a => wf_axis p cnt a) shape axes ->
  Forall2 (fun p (x : list (option obs)) => acc_ok p n x) shape (map (map Some) axes).
Proof.
  intros axes E H. induction H as [|p a shape' axes' Hw Hrest IH]; simpl; constructor; [|exact IH].
  unfold acc_ok. destruct p; [|exact I]. rewrite map_length. unfold wf_axis in Hw. rewrite Hw. exact E.
Qed.

Lemma fresh_axes_ok shape cnt n : forall axes,
  Forall2 (fun p a => wf_axis p cnt a) shape axes ->
  Forall2 (fun p (x : list (option obs)) => acc_ok p n x) shape
          (map (fun _ : list obs => tab n (fun _ => @None obs)) axes).
Proof.
  intros axes H. induction H as [|p a shape' axes' Hw Hrest IH]; simpl; constructor; [|exact IH].
  unfold acc_ok. destruct p; [|exact I]. apply tab_length.
Qed.

(* with the axes consistently present or absent the payload pass never raises *)
Lemma pay_fold_ok shape n rs : forall s,
  Forall (wf_ctx shape n) rs -> pay_lens_ok shape n s ->
  exists p, fold_left pay_step rs (Some s) = Some p /\ pay_lens_ok shape n p.
Proof.
  induction rs as [|r rs IH]; intros s Hwf Hs; [exists s; auto|].
  inversion Hwf as [|? ? Hr Hrs]; subst. destruct Hr as [Hm Hp].
  destruct (r_pay r) as [|d axes] eqn:Epay; [contradiction|]. destruct Hp as [Hd Hax].
  simpl fold_left. unfold pay_step at 1. fold pay_step.
  destruct (last_key r) as [k|]; [|apply IH; assumption].
  destruct (all_true (r_mask r)) eqn:Eall.
  - apply IH; [exact Hrs|].
    intros k' a. destruct (key_eqb_spec k' k) as [->|N].
    + rewrite find_upd_same. intros E. injection E as <-. rewrite Epay. simpl map.
      split; [rewrite map_length, Hd, (count_true_all _ Eall); exact Hm|].
      apply (replaced_axes_ok shape (count_true (r_mask r))); [|exact Hax].
      rewrite (count_true_all _ Eall). exact Hm.
    + rewrite find_upd_other by exact N. apply Hs.
  - set (old := match find k s with
                | Some a => a
                | None => map (fun _ => tab (length (r_mask r)) (fun _ => None)) (r_pay r)
                end).
    assert (Hold : match old with o :: olds => length o = n /\ Forall2 (fun p x => acc_ok p n x) shape olds | [] => False end).
    { unfold old. destruct (find k s) as [a|] eqn:E; [eapply Hs; eauto|].
      rewrite Epay. simpl map. split; [rewrite tab_length; exact Hm|].
      rewrite Hm. apply (fresh_axes_ok shape (count_true (r_mask r))). exact Hax. }
    destruct old as [|o olds]; [contradiction|]. destruct Hold as [Ho Holds].
    rewrite Epay. simpl place_all.
    destruct (place_data (r_mask r) d o Hd) as [x [Ex Hx]]; [rewrite Ho, Hm; reflexivity|].
    rewrite <- Hm in Holds.
    destruct (place_all_axes shape (r_mask r) axes olds Hax Holds) as [rr [Er Hrr]].
    rewrite Ex, Er. apply IH; [exact Hrs|].
    intros k' a. destruct (key_eqb_spec k' k) as [->|N].
    + rewrite find_upd_same. intros E. injection E as <-. split; [rewrite Hx; exact Hm|]. rewrite <- Hm. exact Hrr.
    + rewrite find_upd_other by exact N. apply Hs.
Qed.

Theorem collect_list_ok shape n rs :
  Forall (wf_write n) (writes_of rs) -> Forall (wf_ctx shape n) rs ->
  exists f p, collect_list_model rs = CList f p /\
    map fst f = first_seen (map write_key (writes_of rs)) [] /\
    forall k, find k f =
      if mentions k (writes_of rs) then Some (tab n (flag_spec None (writes_of rs) k)) else None.
Proof.
  intros Hw Hc. destruct (collect_flags_correct None n rs Hw) as [f [Hf [Hk Hfind]]].
  destruct (pay_fold_ok shape n rs [] Hc) as [p [Hp _]]; [intros k a E; discriminate|].
  exists f, p. unfold collect_list_model, collect_pay. rewrite Hf, Hp. auto.
Qed.

Theorem collect_dict_ok n rs :
  Forall (wf_write n) (writes_of rs) ->
  exists f, collect_dict_model rs = CList f [] /\
    map fst f = first_seen (map write_key (writes_of rs)) [] /\
    forall k, find k f =
      if mentions k (writes_of rs) then Some (tab n (flag_spec (Some UNKNOWN) (writes_of rs) k)) else None.
Proof.
  intros Hw. destruct (collect_flags_correct (Some UNKNOWN) n rs Hw) as [f [Hf [Hk Hfind]]].
  exists f. unfold collect_dict_model. rewrite Hf. auto.
Qed.


(* ================================================================ payload: pointwise characterisation

   After the flags of a ContextResult are scattered, its data / tinp / zinp / lat / lon arrays are
   stored under the key of its LAST CallResult: replaced wholesale when the mask covers every row,
   scattered through the mask otherwise.  Array index a: 0 = data, 1..4 = the axes; a cell of an
   accumulator is an `option obs` (None = masked, Some v = the stored value v, itself possibly a
   missing observation).  The theorems below are the payload analogue of collect_flags_correct:
   at every row the accumulator of key k holds the cell of the last context keyed k whose mask
   covers the row, and stays masked when there is none. *)

(* the cell context r contributes to row i of array a: the (rank i)-th entry of its subset array *)
Definition pay_cell (r : ctxres) (a i : nat) : option obs :=
  nth_error (nth a (r_pay r) []) (rank (r_mask r) i).

(* context r stores its payload under key k *)
Definition keyed_by (k : key) (r : ctxres) : bool :=
  match last_key r with Some k' => key_eqb k' k | None => false end.

(* ... and its mask covers row i *)
Definition pay_covers (r : ctxres) (k : key) (i : nat) : bool :=
  (keyed_by k r && nth i (r_mask r) false)%bool.

Definition pay_pt (k : key) (a i : nat) (acc : option obs) (r : ctxres) : option obs :=
  if pay_covers r k i then pay_cell r a i else acc.

(* pay_spec: "last covering context wins", pointwise *)
Definition pay_from (rs : list ctxres) (k : key) (a i : nat) (init : option obs) : option obs :=
  fold_left (pay_pt k a i) rs init.

(* some context stores under key k *)
Definition keyed (k : key) (rs : list ctxres) : bool := existsb (keyed_by k) rs.

(* array index a is claimed: the data array, or an axis the run's streams have *)
Definition present (shape : list bool) (a : nat) : bool :=
  match a with O => true | S a' => nth a' shape false end.

Lemma pay_from_cons r rs k a i init :
  pay_from (r :: rs) k a i init = pay_from rs k a i (pay_pt k a i init r).
Proof. reflexivity. Qed.

(* the same fold written over the contexts keyed k only (the form of the task statement) *)
Lemma pay_from_filter rs k a i : forall init,
  pay_from rs k a i init =
  fold_left (fun acc r => if nth i (r_mask r) false then pay_cell r a i else acc)
            (filter (keyed_by k) rs) init.
Proof.
  induction rs as [|r rs IH]; intros init; [reflexivity|].
  rewrite pay_from_cons. simpl filter. unfold pay_pt, pay_covers.
  destruct (keyed_by k r); simpl; apply IH.
Qed.

(* ---------------------------------------------------------------- list facts *)

Lemma nth_map_some {A} (v : list A) i : nth i (map Some v) None = nth_error v i.
Proof. revert i. induction v as [|x v IH]; intros [|i]; simpl; auto. Qed.

Lemma nth_all_true m i : all_true m = true -> (i < length m)%nat -> nth i m false = true.
Proof.
  unfold all_true. revert i. induction m as [|b m IH]; intros i H Hi; simpl in *; [lia|].
  apply andb_true_iff in H. destruct H as [Hb H]. destruct i as [|i]; [exact Hb|]. apply IH; [exact H|lia].
Qed.

Lemma rank_all_true m i : all_true m = true -> (i <= length m)%nat -> rank m i = i.
Proof.
  unfold all_true, rank, count_true. revert i.
  induction m as [|b m IH]; intros [|i] H Hi; simpl in *; try reflexivity; try lia.
  apply andb_true_iff in H. destruct H as [-> H]. simpl. f_equal. apply IH; [exact H|lia].
Qed.

(* the wholesale replacement is what the scatter would have produced *)
Lemma scatter_all_true {A} m (vals : list A) acc :
  all_true m = true -> length vals = length m -> length acc = length m ->
  scatter m vals acc = map Some vals.
Proof.
  intros Hall Hv Ha. apply (nth_ext _ _ None None).
  - rewrite scatter_length, map_length. congruence.
  - rewrite scatter_length. intros i Hi. rewrite nth_scatter by exact Hi.
    rewrite nth_all_true by (auto; lia).
    rewrite (count_true_all _ Hall), Hv, Nat.eqb_refl.
    rewrite rank_all_true by (auto; lia). symmetry. apply nth_map_some.
Qed.

(* ---------------------------------------------------------------- one array, one context *)

Lemma place_pt g m v o x i :
  place g m v o = Some x -> length v = count_true m -> (i < length o)%nat ->
  nth i x None = if nth i m false then nth_error v (rank m i) else nth i o None.
Proof.
  unfold place. intros H Hv Hi.
  destruct (g && is_nil v)%bool eqn:G.
  - injection H as <-. apply andb_true_iff in G. destruct G as [_ G].
    destruct v as [|? ?]; [|discriminate].
    destruct (nth i m false) eqn:C; [|reflexivity].
    pose proof (rank_lt_count _ _ C). simpl in Hv. lia.
  - destruct (scatter_ok m v && Nat.eqb (length o) (length m))%bool; [|discriminate].
    injection H as <-. rewrite nth_scatter by exact Hi. rewrite Hv, Nat.eqb_refl. reflexivity.
Qed.

Lemma place_all_pt m i : forall pay g old new a,
  place_all g m pay old = Some new ->
  length (nth a pay []) = count_true m -> (i < length (nth a old []))%nat ->
  nth i (nth a new []) None =
  if nth i m false then nth_error (nth a pay []) (rank m i) else nth i (nth a old []) None.
Proof.
  induction pay as [|v pay IH]; intros g old new a H Hv Hi; destruct old as [|o old]; simpl in H;
    try discriminate.
  - destruct a; simpl in Hi; lia.
  - destruct (place g m v o) as [x|] eqn:Ex; [|discriminate].
    destruct (place_all true m pay old) as [rr|] eqn:Er; [|discriminate].
    injection H as <-. destruct a as [|a]; simpl in *.
    + eapply place_pt; eauto.
    + eapply IH; eauto.
Qed.

(* ---------------------------------------------------------------- shapes *)

Lemma shape_axis_len shape cnt axes : Forall2 (fun p a => wf_axis p cnt a) shape axes ->
  forall a', nth a' shape false = true -> length (nth a' axes []) = cnt.
Proof.
  intros H. induction H as [|p x shape' axes' Hw _ IH]; intros [|a'] Hp; simpl in *; try discriminate.
  - subst p. exact Hw.
  - apply IH. exact Hp.
Qed.

Lemma shape_acc_len shape n (olds : list (list (option obs))) :
  Forall2 (fun p x => acc_ok p n x) shape olds ->
  forall a', nth a' shape false = true -> length (nth a' olds []) = n.
Proof.
  intros H. induction H as [|p x shape' olds' Hw _ IH]; intros [|a'] Hp; simpl in *; try discriminate.
  - subst p. exact Hw.
  - apply IH. exact Hp.
Qed.

Lemma wf_pay_len shape n r a :
  wf_ctx shape n r -> present shape a = true ->
  length (nth a (r_pay r) []) = count_true (r_mask r).
Proof.
  intros [_ Hp] Ha. destruct (r_pay r) as [|d axes]; [contradiction|]. destruct Hp as [Hd Hax].
  destruct a as [|a']; simpl in *; [exact Hd|]. eapply shape_axis_len; eauto.
Qed.

Lemma arrs_len shape n (arrs : list (list (option obs))) a :
  match arrs with d :: axes => length d = n /\ Forall2 (fun p x => acc_ok p n x) shape axes | [] => False end ->
  present shape a = true -> length (nth a arrs []) = n.
Proof.
  intros H Ha. destruct arrs as [|d axes]; [contradiction|]. destruct H as [Hd Hax].
  destruct a as [|a']; simpl in *; [exact Hd|]. eapply shape_acc_len; eauto.
Qed.

Lemma fresh_pt n (l : list (list obs)) a i :
  nth i (nth a (map (fun _ : list obs => tab n (fun _ => @None obs)) l) []) None = None.
Proof.
  revert a. induction l as [|x l IH]; intros [|a]; simpl; try (destruct i; reflexivity).
  - destruct (lt_dec i n) as [L|L]; [rewrite nth_tab by exact L; reflexivity|].
    apply nth_overflow. rewrite tab_length. lia.
  - apply IH.
Qed.

(* a covered row of a well-formed context always carries a stored value (never stays masked) *)
Lemma pay_cell_some shape n r a i :
  wf_ctx shape n r -> present shape a = true -> nth i (r_mask r) false = true ->
  exists v, pay_cell r a i = Some v.
Proof.
  intros Hw Ha Hc. unfold pay_cell.
  destruct (nth_error (nth a (r_pay r) []) (rank (r_mask r) i)) eqn:E; [eauto|].
  apply nth_error_None in E. rewrite (wf_pay_len shape n r a Hw Ha) in E.
  pose proof (rank_lt_count _ _ Hc). lia.
Qed.

(* ---------------------------------------------------------------- one context *)

Lemma pay_step_pt shape n r s :
  wf_ctx shape n r -> pay_lens_ok shape n s ->
  exists s', pay_step (Some s) r = Some s' /\ pay_lens_ok shape n s' /\
    match last_key r with
    | None => s' = s
    | Some k =>
        (forall k', k' <> k -> find k' s' = find k' s) /\
        exists new, find k s' = Some new /\
          forall a i, present shape a = true -> (i < n)%nat ->
            nth i (nth a new []) None =
            if nth i (r_mask r) false then pay_cell r a i
            else match find k s with Some arrs => nth i (nth a arrs []) None | None => None end
    end.
Proof.
  intros Hr Hs.
  assert (Hlen : forall a, present shape a = true ->
                   length (nth a (r_pay r) []) = count_true (r_mask r)).
  { intros a Ha. eapply wf_pay_len; eauto. }
  destruct Hr as [Hm Hp]. unfold pay_cell, pay_step.
  destruct (r_pay r) as [|d axes] eqn:Epay; [contradiction|]. destruct Hp as [Hd Hax].
  destruct (last_key r) as [k|]; [|exists s; auto].
  destruct (all_true (r_mask r)) eqn:Eall.
  - eexists. split; [reflexivity|]. split; [|split].
    + intros k' a. destruct (key_eqb_spec k' k) as [->|N].
      * rewrite find_upd_same. intros E. injection E as <-. simpl map.
        split; [rewrite map_length, Hd, (count_true_all _ Eall); exact Hm|].
        apply (replaced_axes_ok shape (count_true (r_mask r))); [|exact Hax].
        rewrite (count_true_all _ Eall). exact Hm.
      * rewrite find_upd_other by exact N. apply Hs.
    + intros k' N. apply find_upd_other. exact N.
    + eexists. split; [apply find_upd_same|]. intros a i Ha Hi.
      change (@nil (option obs)) with (map (@Some obs) []). rewrite map_nth, nth_map_some.
      rewrite nth_all_true by (auto; lia). rewrite rank_all_true by (auto; lia). reflexivity.
  - set (old := match find k s with
                | Some a => a
                | None => map (fun _ => tab (length (r_mask r)) (fun _ => None)) (d :: axes)
                end).
    assert (Hold : match old with o :: olds => length o = n /\ Forall2 (fun p x => acc_ok p n x) shape olds | [] => False end).
    { unfold old. destruct (find k s) as [a|] eqn:E; [eapply Hs; eauto|].
      simpl map. split; [rewrite tab_length; exact Hm|].
      rewrite Hm. apply (fresh_axes_ok shape (count_true (r_mask r))). exact Hax. }
    assert (Hold_pt : forall a i, nth i (nth a old []) None =
              match find k s with Some arrs => nth i (nth a arrs []) None | None => None end).
    { intros a i. unfold old. destruct (find k s); [reflexivity|]. apply fresh_pt. }
    clearbody old.
    assert (Hold_len : forall a, present shape a = true -> length (nth a old []) = n).
    { intros a Ha. eapply arrs_len; eauto. }
    destruct old as [|o olds]; [contradiction|]. destruct Hold as [Ho Holds].
    destruct (place_data (r_mask r) d o Hd) as [x [Ex Hx]]; [rewrite Ho, Hm; reflexivity|].
    rewrite <- Hm in Holds.
    destruct (place_all_axes shape (r_mask r) axes olds Hax Holds) as [rr [Er Hrr]].
    assert (Eall' : place_all false (r_mask r) (d :: axes) (o :: olds) = Some (x :: rr)).
    { simpl. rewrite Ex, Er. reflexivity. }
    rewrite Eall'. eexists. split; [reflexivity|]. split; [|split].
    + intros k' a. destruct (key_eqb_spec k' k) as [->|N].
      * rewrite find_upd_same. intros E. injection E as <-. split; [rewrite Hx; exact Hm|]. rewrite <- Hm. exact Hrr.
      * rewrite find_upd_other by exact N. apply Hs.
    + intros k' N. apply find_upd_other. exact N.
    + eexists. split; [apply find_upd_same|]. intros a i Ha Hi.
      rewrite <- Hold_pt.
      apply (place_all_pt (r_mask r) i (d :: axes) false (o :: olds) (x :: rr) a Eall').
      * apply Hlen. exact Ha.
      * rewrite Hold_len by exact Ha. exact Hi.
Qed.

(* ---------------------------------------------------------------- the whole pass *)

Lemma pay_fold_pt shape n rs : forall s,
  Forall (wf_ctx shape n) rs -> pay_lens_ok shape n s ->
  exists p, fold_left pay_step rs (Some s) = Some p /\ pay_lens_ok shape n p /\
    forall k,
      match find k s with
      | Some arrs =>
          exists arrs', find k p = Some arrs' /\
            forall a i, present shape a = true -> (i < n)%nat ->
              nth i (nth a arrs' []) None = pay_from rs k a i (nth i (nth a arrs []) None)
      | None =>
          if keyed k rs
          then exists arrs', find k p = Some arrs' /\
                 forall a i, present shape a = true -> (i < n)%nat ->
                   nth i (nth a arrs' []) None = pay_from rs k a i None
          else find k p = None
      end.
Proof.
  induction rs as [|r rs IH]; intros s Hwf Hs.
  - exists s. split; [reflexivity|]. split; [exact Hs|]. intros k.
    destruct (find k s) as [arrs|] eqn:E; simpl; [|reflexivity]. exists arrs. auto.
  - inversion Hwf as [|? ? Hr Hrs]; subst.
    destruct (pay_step_pt shape n r s Hr Hs) as [s' [Es' [Hs' Hstep]]].
    change (fold_left pay_step (r :: rs) (Some s)) with (fold_left pay_step rs (pay_step (Some s) r)). rewrite Es'.
    destruct (IH s' Hrs Hs') as [p [Ep [Hp Hfind]]].
    exists p. split; [exact Ep|]. split; [exact Hp|]. intros k. specialize (Hfind k).
    unfold keyed. simpl existsb. fold (keyed k rs).
    destruct (last_key r) as [k0|] eqn:Ek0.
    + destruct Hstep as [Hother [new [Enew Hnew]]].
      destruct (key_eqb_spec k0 k) as [->|N].
      * assert (Ekb : keyed_by k r = true) by (unfold keyed_by; rewrite Ek0; apply key_eqb_refl).
        rewrite Ekb. simpl orb. rewrite Enew in Hfind. destruct Hfind as [arrs' [Ea' Hpt]].
        assert (G : forall a i, present shape a = true -> (i < n)%nat ->
                  nth i (nth a arrs' []) None =
                  pay_from (r :: rs) k a i
                    match find k s with Some arrs => nth i (nth a arrs []) None | None => None end).
        { intros a i Ha Hi. rewrite (Hpt a i Ha Hi), (Hnew a i Ha Hi), pay_from_cons.
          unfold pay_pt, pay_covers. rewrite Ekb. simpl andb. reflexivity. }
        destruct (find k s) as [arrs|]; exists arrs'; auto.
      * assert (Ekb : keyed_by k r = false).
        { unfold keyed_by. rewrite Ek0. destruct (key_eqb_spec k0 k); congruence. }
        rewrite Ekb. simpl orb. rewrite (Hother k) in Hfind by congruence.
        assert (G : forall a i init, pay_from (r :: rs) k a i init = pay_from rs k a i init).
        { intros a i init. rewrite pay_from_cons. unfold pay_pt, pay_covers. rewrite Ekb. reflexivity. }
        destruct (find k s) as [arrs|].
        -- destruct Hfind as [arrs' [Ea' Hpt]]. exists arrs'. split; [exact Ea'|].
           intros a i Ha Hi. rewrite G. auto.
        -- destruct (keyed k rs); [|exact Hfind].
           destruct Hfind as [arrs' [Ea' Hpt]]. exists arrs'. split; [exact Ea'|].
           intros a i Ha Hi. rewrite G. auto.
    + subst s'.
      assert (Ekb : keyed_by k r = false) by (unfold keyed_by; rewrite Ek0; reflexivity).
      rewrite Ekb. simpl orb.
      assert (G : forall a i init, pay_from (r :: rs) k a i init = pay_from rs k a i init).
      { intros a i init. rewrite pay_from_cons. unfold pay_pt, pay_covers. rewrite Ekb. reflexivity. }
      destruct (find k s) as [arrs|].
      -- destruct Hfind as [arrs' [Ea' Hpt]]. exists arrs'. split; [exact Ea'|].
         intros a i Ha Hi. rewrite G. auto.
      -- destruct (keyed k rs); [|exact Hfind].
         destruct Hfind as [arrs' [Ea' Hpt]]. exists arrs'. split; [exact Ea'|].
         intros a i Ha Hi. rewrite G. auto.
Qed.

(* collect_pay_correct: the payload pass never raises; exactly the keys that are the last key of some
   context get arrays; the data array and every present axis have one cell per input row, and the
   cell of row i is that of the last context (of that key) covering row i, masked when there is
   none.  Nothing is claimed for an absent axis (its accumulator is all-masked or empty). *)
Theorem collect_pay_correct shape n rs :
  Forall (wf_ctx shape n) rs ->
  exists p, collect_pay rs = Some p /\
    forall k,
      if keyed k rs
      then exists arrs, find k p = Some arrs /\
             (forall a, present shape a = true -> length (nth a arrs []) = n) /\
             (forall a i, present shape a = true -> (i < n)%nat ->
                nth i (nth a arrs []) None = pay_from rs k a i None)
      else find k p = None.
Proof.
  intros H. unfold collect_pay.
  destruct (pay_fold_pt shape n rs [] H) as [p [Ep [Hp Hfind]]]; [intros k a E; discriminate|].
  exists p. split; [exact Ep|]. intros k. specialize (Hfind k). simpl in Hfind.
  destruct (keyed k rs); [|exact Hfind].
  destruct Hfind as [arrs [Ea Hpt]]. exists arrs. split; [exact Ea|]. split; [|exact Hpt].
  intros a Ha. eapply arrs_len; [|exact Ha]. eapply Hp. exact Ea.
Qed.

(* the data array alone (index 0 is always claimed) *)
Corollary collect_pay_data shape n rs k :
  Forall (wf_ctx shape n) rs -> keyed k rs = true ->
  exists p arrs, collect_pay rs = Some p /\ find k p = Some arrs /\
    length (nth 0 arrs []) = n /\
    forall i, (i < n)%nat -> nth i (nth 0 arrs []) None = pay_from rs k 0 i None.
Proof.
  intros H Hk. destruct (collect_pay_correct shape n rs H) as [p [Ep Hf]].
  specialize (Hf k). rewrite Hk in Hf. destruct Hf as [arrs [Ea [Hl Hpt]]].
  exists p, arrs. repeat split; auto.
Qed.

(* ---------------------------------------------------------------- consequences *)

(* (a) a row covered by no context of the key stays masked *)
Lemma pay_uncovered rs k a i init :
  (forall r, In r rs -> pay_covers r k i = false) -> pay_from rs k a i init = init.
Proof.
  revert init. induction rs as [|r rs IH]; intros init H; [reflexivity|].
  rewrite pay_from_cons. unfold pay_pt. rewrite (H r) by (left; reflexivity).
  apply IH. intros r' Hr'. apply H. right. exact Hr'.
Qed.

(* (b) the last context of the key covering a row decides it; in particular a row covered by exactly
   one context carries that context's cell *)
Lemma pay_covered_last rs1 r rs2 k a i init :
  pay_covers r k i = true ->
  (forall r', In r' rs2 -> pay_covers r' k i = false) ->
  pay_from (rs1 ++ r :: rs2) k a i init = pay_cell r a i.
Proof.
  intros Hc H2. unfold pay_from. rewrite fold_left_app. simpl.
  unfold pay_pt at 2. rewrite Hc. apply pay_uncovered. exact H2.
Qed.

Lemma pay_covered_unique rs1 r rs2 k a i init :
  pay_covers r k i = true ->
  (forall r', In r' rs1 -> pay_covers r' k i = false) ->
  (forall r', In r' rs2 -> pay_covers r' k i = false) ->
  pay_from (rs1 ++ r :: rs2) k a i init = pay_cell r a i.
Proof. intros Hc _ H2. apply pay_covered_last; assumption. Qed.

(* (c) the subset arrays of a context are the rows of the source columns its mask selects, in order *)
Fixpoint restrict' {A} (m : list bool) (col : list A) : list A :=
  match m, col with
  | b :: m', x :: col' => if b then x :: restrict' m' col' else restrict' m' col'
  | _, _ => []
  end.

Lemma restrict_length' {A} (m : list bool) (col : list A) :
  length col = length m -> length (restrict' m col) = count_true m.
Proof.
  unfold count_true. revert col. induction m as [|b m IH]; intros [|x col] H; simpl in *; try discriminate;
    [reflexivity|].
  destruct b; simpl; rewrite IH by lia; reflexivity.
Qed.

Lemma restrict_rank {A} (m : list bool) (col : list A) d : forall i,
  length col = length m -> nth i m false = true ->
  nth_error (restrict' m col) (rank m i) = Some (nth i col d).
Proof.
  unfold rank, count_true. revert col.
  induction m as [|b m IH]; intros [|x col] i Hlen Hi; simpl in *; try discriminate.
  - destruct i; discriminate.
  - destruct i as [|i]; simpl in *.
    + subst b. reflexivity.
    + destruct b; simpl; apply IH; auto.
Qed.

Lemma keyed_in k r rs : In r rs -> keyed_by k r = true -> keyed k rs = true.
Proof. intros Hin Hk. unfold keyed. apply existsb_exists. exists r. auto. Qed.

(* the collected data equals the source value on covered rows: if array a of the last context of
   key k covering row i is the restriction of the source column `col` to the context's mask, the
   collected cell of row i is `Some (col[i])` *)
Theorem collect_pay_source shape n rs1 r rs2 k a i col :
  Forall (wf_ctx shape n) (rs1 ++ r :: rs2) ->
  present shape a = true -> (i < n)%nat ->
  pay_covers r k i = true ->
  (forall r', In r' rs2 -> pay_covers r' k i = false) ->
  length col = n -> nth a (r_pay r) [] = restrict' (r_mask r) col ->
  exists p arrs, collect_pay (rs1 ++ r :: rs2) = Some p /\ find k p = Some arrs /\
    nth i (nth a arrs []) None = Some (nth i col None).
Proof.
  intros Hwf Ha Hi Hc H2 Hcol Hsub.
  destruct (collect_pay_correct shape n _ Hwf) as [p [Ep Hf]]. specialize (Hf k).
  apply andb_true_iff in Hc. destruct Hc as [Hk Hrow].
  rewrite (keyed_in k r) in Hf; [|apply in_or_app; right; left; reflexivity|exact Hk].
  destruct Hf as [arrs [Ea [_ Hpt]]]. exists p, arrs. split; [exact Ep|]. split; [exact Ea|].
  rewrite (Hpt a i Ha Hi).
  rewrite pay_covered_last; [|unfold pay_covers; rewrite Hk, Hrow; reflexivity|exact H2].
  unfold pay_cell. rewrite Hsub. apply restrict_rank; [|exact Hrow].
  assert (Hr : wf_ctx shape n r).
  { rewrite Forall_forall in Hwf. apply Hwf. apply in_or_app. right. left. reflexivity. }
  destruct Hr as [Hm _]. congruence.
Qed.

(* ... and a row no context of the key covers is masked in the collected arrays *)
Theorem collect_pay_masked shape n rs k a i :
  Forall (wf_ctx shape n) rs -> keyed k rs = true ->
  present shape a = true -> (i < n)%nat ->
  (forall r, In r rs -> pay_covers r k i = false) ->
  exists p arrs, collect_pay rs = Some p /\ find k p = Some arrs /\
    nth i (nth a arrs []) None = None.
Proof.
  intros Hwf Hk Ha Hi Hun.
  destruct (collect_pay_correct shape n _ Hwf) as [p [Ep Hf]]. specialize (Hf k).
  rewrite Hk in Hf. destruct Hf as [arrs [Ea [_ Hpt]]]. exists p, arrs.
  split; [exact Ep|]. split; [exact Ea|]. rewrite (Hpt a i Ha Hi). apply pay_uncovered. exact Hun.
Qed.

(* non-vacuity: 3 rows, time axis present, depth absent; a full-window context (arrays replaced
   wholesale), then a partial one over rows 0 and 2 (scattered), both under the same key *)
Example collect_pay_example :
  let k := ("s", "qartod", "t")%string in
  let c := {| c_pkg := "qartod"; c_test := "t"; c_flags := [] |} in
  let r1 := {| r_stream := "s"; r_calls := [c]; r_mask := [true; true; true];
               r_pay := [[Some 1; Some 2; Some 3]; [Some 10; Some 20; Some 30]; []] |} in
  let r2 := {| r_stream := "s"; r_calls := [c]; r_mask := [true; false; true];
               r_pay := [[Some 7; None]; [Some 70; Some 90]; []] |} in
  collect_pay [r1; r2] =
    Some [(k, [[Some (Some 7); Some (Some 2); Some None];
               [Some (Some 70); Some (Some 20); Some (Some 90)]; []])] /\
  map (fun i => pay_from [r1; r2] k 0 i None) [0; 1; 2]%nat = [Some (Some 7); Some (Some 2); Some None] /\
  Forall (wf_ctx [true; false] 3) [r1; r2].
Proof.
  simpl. split; [reflexivity|]. split; [reflexivity|].
  repeat constructor.
Qed.
