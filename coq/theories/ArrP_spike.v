(* ArrP_spike.v — generated array program of spike_test = the model's diff array *)
From IoosQc Require Import Base Skel Arr SkelBase ArrBase Generated Spike.
From Coq Require Import String.
Local Notation length := List.length.
Open Scope string_scope.

(* ------------------------------------------------------------------ spike_test *)

Theorem prog_spike en method m xs :
  parse_method method = Some m -> e_str en "method" = Some method ->
  exists st, run_prog (length xs) (fun _ => None) en prog_spike_test (bind_store [("inp", xs)]) = Some st
             /\ store_arr st "diff" = Some (spike_diff m xs) /\ store_arr st "inp" = Some xs.
Proof.
  intros Hm Hs. unfold prog_spike_test, run_prog. cbn [fold_left].
  unfold run_stmt, guards_hold, forallb. rewrite !eval_g_inv, !(method_guard en method _ Hs), !andb_true_r.
  unfold parse_method in Hm.
  destruct (String.eqb method "average") eqn:Ea.
  - injection Hm as <-. cbn [negb andb].
    cbn -[Nat.min Nat.sub Nat.eqb].
    assert (E1 : (length xs - 2 - Nat.min 0 (length xs) =? length xs - Nat.min 2 (length xs))%nat = true)
      by (apply Nat.eqb_eq; lia).
    rewrite E1. cbn -[Nat.min Nat.sub Nat.eqb].
    assert (E2 : (length xs - 2 - Nat.min 0 (length xs) =? length xs - 1 - Nat.min 1 (length xs))%nat = true)
      by (apply Nat.eqb_eq; lia).
    rewrite E2. cbn -[Nat.min Nat.sub Nat.eqb]. rewrite Nat.eqb_refl.
    eexists. split; [reflexivity|]. split; [|store_arr_of_list_tac].
    unfold store_arr, upd. cbn -[Nat.min Nat.sub Nat.eqb]. f_equal. unfold to_list. cbn [alen aget fst snd].
    apply tab_ext. intros i Hi. unfold in_slice, getq.
    destruct (Nat.eqb_spec i 0) as [->|N0]; cbn [orb].
    + assert (L : (Nat.min 1 (length xs) <=? 0)%nat = false) by (apply Nat.leb_gt; lia).
      rewrite L. cbn [andb]. destruct (nth 0 xs None); reflexivity.
    + destruct (Nat.eqb_spec i (length xs - 1)) as [E|N1].
      * assert (L : (i <? length xs - 1)%nat = false) by (apply Nat.ltb_ge; lia).
        rewrite L, andb_false_r. destruct (nth i xs None); reflexivity.
      * assert (L1 : (Nat.min 1 (length xs) <=? i)%nat = true) by (apply Nat.leb_le; lia).
        assert (L2 : (i <? length xs - 1)%nat = true) by (apply Nat.ltb_lt; lia).
        rewrite L1, L2. cbn [andb].
        replace (i - Nat.min 1 (length xs) + Nat.min 0 (length xs))%nat with (i - 1)%nat by lia.
        replace (i - Nat.min 1 (length xs) + Nat.min 2 (length xs))%nat with (i + 1)%nat by lia.
        destruct (nth i xs None), (nth (i - 1) xs None), (nth (i + 1) xs None); reflexivity.
  - destruct (String.eqb method "differential") eqn:Ed; [|discriminate]. injection Hm as <-. cbn [negb andb].
    cbn -[Nat.min Nat.sub Nat.eqb].
    assert (E1 : (length xs - 1 - 1 - 0 =? length xs - 1 - Nat.min 1 (length xs - 1))%nat = true)
      by (apply Nat.eqb_eq; lia).
    rewrite E1. cbn -[Nat.min Nat.sub Nat.eqb].
    assert (E2 : (length xs - 1 - 1 - 0 =? length xs - 1 - Nat.min 1 (length xs))%nat = true)
      by (apply Nat.eqb_eq; lia).
    rewrite E2. cbn -[Nat.min Nat.sub Nat.eqb].
    rewrite E1. cbn -[Nat.min Nat.sub Nat.eqb].
    rewrite E2.
    eexists. split; [reflexivity|]. split; [|store_arr_of_list_tac].
    unfold store_arr, upd. cbn -[Nat.min Nat.sub Nat.eqb]. f_equal. unfold to_list. cbn [alen aget fst snd].
    apply tab_ext. intros i Hi. unfold in_slice, getq.
    destruct (Nat.eqb_spec i 0) as [->|N0]; cbn [orb].
    + assert (L : (Nat.min 1 (length xs) <=? 0)%nat = false) by (apply Nat.leb_gt; lia).
      rewrite L. reflexivity.
    + destruct (Nat.eqb_spec i (length xs - 1)) as [E|N1].
      * assert (L : (i <? length xs - 1)%nat = false) by (apply Nat.ltb_ge; lia).
        rewrite L, andb_false_r. reflexivity.
      * assert (L1 : (Nat.min 1 (length xs) <=? i)%nat = true) by (apply Nat.leb_le; lia).
        assert (L2 : (i <? length xs - 1)%nat = true) by (apply Nat.ltb_lt; lia).
        rewrite L1, L2. cbn [andb].
        replace (i - Nat.min 1 (length xs) + 0)%nat with (i - 1)%nat by lia.
        replace (i - Nat.min 1 (length xs) + Nat.min 1 (length xs - 1))%nat with i by lia.
        replace (S (i - 1)) with i by lia. replace (S i) with (i + 1)%nat by lia.
        destruct (nth i xs None) as [x|], (nth (i - 1) xs None) as [p|], (nth (i + 1) xs None) as [q|];
          cbn; try reflexivity.
        destruct (Qleb 0 ((x - p) * (q - x))); reflexivity.
Qed.
