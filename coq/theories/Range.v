(* Range.v — models and pointwise specifications of
     qartod.gross_range_test   (qartod.py)
     axds.valid_range_test     (axds.py)
   Models follow the source step by step (same overwrites in the same order). *)
From IoosQc Require Import Base.

(* ------------------------------------------------------------------ gross range *)

Definition sort2 (a b : Q) : Q * Q := if Qleb a b then (a, b) else (b, a).

(* strictly outside [lo, hi]  —  (inp < lo) | (inp > hi) *)
Definition outside (lo hi x : Q) : bool := Qltb x lo || Qltb hi x.

(* fail_span / suspect_span arrive as Python sequences of any arity: list Q *)
Definition gross_model (fspan : list Q) (sspan : option (list Q)) (xs : list obs) : outcome :=
  match fspan with
  | [a; b] =>                                        (* assert isfixedlength(fail_span, 2) *)
      let '(flo, fhi) := sort2 a b in                (* sorted fail_span *)
      let n := length xs in
      let f0 := all_flags n GOOD in                  (* np.ma.ones *)
      let f1 := set_where (tab n (missing_at xs)) MISSING f0 in   (* flag_arr[inp.mask] = MISSING *)
      match sspan with
      | None =>
          Flags (set_where (tab n (fun i => otest (outside flo fhi) (getq xs i))) FAIL f1)
      | Some [c; d] =>
          let '(slo, shi) := sort2 c d in
          if Qltb slo flo || Qltb fhi shi then Raises ValueError else
          let f2 := set_where (tab n (fun i => otest (outside slo shi) (getq xs i))) SUSPECT f1 in
          Flags (set_where (tab n (fun i => otest (outside flo fhi) (getq xs i))) FAIL f2)
      | Some _ => Raises ValueError                  (* isfixedlength(suspect_span, 2) *)
      end
  | _ => Raises ValueError
  end.

(* the property, per point *)
Definition gross_pt (flo fhi : Q) (s : option (Q * Q)) (x : obs) : flag :=
  match x with
  | None => MISSING
  | Some v =>
      if outside flo fhi v then FAIL
      else match s with
           | Some (slo, shi) => if outside slo shi v then SUSPECT else GOOD
           | None => GOOD
           end
  end.

Definition gross_spec (fspan : list Q) (sspan : option (list Q)) (xs : list obs) : outcome :=
  match fspan with
  | [a; b] =>
      let '(flo, fhi) := sort2 a b in
      match sspan with
      | None => Flags (map (gross_pt flo fhi None) xs)
      | Some [c; d] =>
          let '(slo, shi) := sort2 c d in
          if Qltb slo flo || Qltb fhi shi then Raises ValueError
          else Flags (map (gross_pt flo fhi (Some (slo, shi))) xs)
      | Some _ => Raises ValueError
      end
  | _ => Raises ValueError
  end.

(* ------------------------------------------------------------------ valid range *)

(* valid_span = (lo, hi), None (or NaN) = unbounded; the four comparison choices *)
Definition below (incl : bool) (lo x : Q) : bool := if incl then Qltb x lo else Qleb x lo.
Definition above (incl : bool) (hi x : Q) : bool := if incl then Qltb hi x else Qleb hi x.

Definition valid_model (lo hi : option Q) (si ei : bool) (xs : list obs) : outcome :=
  let n := length xs in
  let f0 := all_flags n GOOD in
  let f1 := match lo with
            | Some l => set_where (tab n (fun i => otest (below si l) (getq xs i))) FAIL f0
            | None => f0 end in
  let f2 := match hi with
            | Some h => set_where (tab n (fun i => otest (above ei h) (getq xs i))) FAIL f1
            | None => f1 end in
  Flags (set_where (tab n (missing_at xs)) MISSING f2).

Definition in_span (lo hi : option Q) (si ei : bool) (v : Q) : bool :=
  match lo with Some l => negb (below si l v) | None => true end &&
  match hi with Some h => negb (above ei h v) | None => true end.

Definition valid_pt (lo hi : option Q) (si ei : bool) (x : obs) : flag :=
  match x with
  | None => MISSING
  | Some v => if in_span lo hi si ei v then GOOD else FAIL
  end.

Definition valid_spec lo hi si ei (xs : list obs) : outcome := Flags (map (valid_pt lo hi si ei) xs).
