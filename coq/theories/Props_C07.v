(* Props_C07.v — C07: a configuration means the same calls whatever its carrier format and layout. *)
From Coq Require Import String Permutation.
From IoosQc Require Import Base Generated Config ConfigProofs.
Local Notation length := List.length.
Open Scope string_scope.
Open Scope list_scope.

(* `known` is instantiated with the real tables (Generated.known_qartod / known_argo / known_axds);
   every theorem holds for any `known` and any default stream key. *)

(* list of contexts: exactly the intended calls, for EVERY well-formed W (any number of contexts and
   streams, any tests and parameter trees, windows, Feature / FeatureCollection regions, unknown
   modules and tests anywhere) *)
Theorem C07_layout_contexts : forall ds W,
  Forall (fun w => region_supported (w_region w)) W ->
  config_calls real_known ds (spell_contexts W) = calls_of real_known W.
Proof. intros. apply layout_contexts. assumption. Qed.
Print Assumptions C07_layout_contexts.

Theorem C07_layout_streams : forall ds w,
  region_supported (w_region w) ->
  config_calls real_known ds (spell_streams w) = calls_of real_known [w].
Proof. intros. apply layout_streams. assumption. Qed.
Print Assumptions C07_layout_streams.

(* bare stream mapping: FULL STATEMENT without H_depth_streams is refuted below *)
Theorem C07_layout_bare_streams : forall ds w,
  w_window w = None -> w_region w = RNone ->
  ~ In "contexts" (map fst (w_streams w)) -> ~ In "streams" (map fst (w_streams w)) ->
  H_depth_streams (w_streams w) ->
  config_calls real_known ds (spell_bare_streams w) = calls_of real_known [w].
Proof. intros. apply layout_bare_streams; assumption. Qed.
Print Assumptions C07_layout_bare_streams.

Theorem C07_layout_bare_streams_refuted :
  exists w,
    w_window w = None /\ w_region w = RNone /\
    ~ In "contexts" (map fst (w_streams w)) /\ ~ In "streams" (map fst (w_streams w)) /\
    config_calls real_known "_stream" (spell_bare_streams w) = [] /\
    calls_of real_known [w]
    = [ {| k_stream := "v1"; k_module := "argo"; k_test := "pressure_increasing_test";
           k_kwargs := CDict []; k_window := (CNull, CNull); k_region := CNull |} ].
Proof. exact layout_bare_streams_refuted. Qed.
Print Assumptions C07_layout_bare_streams_refuted.

(* bare module mapping bound to the default stream id: FULL STATEMENT without H_depth_module refuted below *)
Theorem C07_layout_bare_module : forall ds w mods,
  w_window w = None -> w_region w = RNone -> w_streams w = [(ds, mods)] ->
  ~ In "contexts" (map fst mods) -> ~ In "streams" (map fst mods) ->
  H_depth_module mods ->
  config_calls real_known ds (spell_bare_module w) = calls_of real_known [w].
Proof. intros ds w mods; intros. apply (layout_bare_module real_known ds w mods); assumption. Qed.
Print Assumptions C07_layout_bare_module.

Theorem C07_layout_bare_module_refuted :
  exists w mods,
    w_window w = None /\ w_region w = RNone /\ w_streams w = [("_stream", mods)] /\
    ~ In "contexts" (map fst mods) /\ ~ In "streams" (map fst mods) /\
    config_calls real_known "_stream" (spell_bare_module w) = [] /\
    List.length (calls_of real_known [w]) = 1%nat.
Proof. exact layout_bare_module_refuted. Qed.
Print Assumptions C07_layout_bare_module_refuted.

(* the hypotheses are exactly the layout heuristic dict_depth >= depth_threshold *)
Theorem C07_depth_streams_exact : forall ss,
  (depth_threshold <= dict_depth (emb_streams ss))%nat <-> H_depth_streams ss.
Proof. exact depth_streams_iff. Qed.
Print Assumptions C07_depth_streams_exact.

Theorem C07_depth_module_exact : forall mods,
  (dict_depth (emb_mods mods) < depth_threshold)%nat <-> H_depth_module mods.
Proof. exact depth_module_iff. Qed.
Print Assumptions C07_depth_module_exact.

Theorem C07_region_bare_refuted :
  exists w,
    map k_region (config_calls real_known "_stream" (spell_streams w)) = [CNull] /\
    map k_region (calls_of real_known [w]) = [region_meaning (w_region w)] /\
    region_meaning (w_region w) <> CNull.
Proof. exact layout_region_bare_refuted. Qed.
Print Assumptions C07_region_bare_refuted.

(* unknown modules / unknown test names sprinkled anywhere do not affect the remaining calls *)
Theorem C07_unknown_skipped : forall W W',
  sprinkled real_known W W' -> calls_of real_known W' = calls_of real_known W.
Proof. intros. apply unknown_skipped. assumption. Qed.
Print Assumptions C07_unknown_skipped.

(* exactly one call per configured (stream, module, test): names, parameters, window, region *)
Theorem C07_calls_exact : forall w c,
  In c (ctx_calls real_known w) <->
  exists sid pkg t kw,
    In (sid, pkg, t, kw) (entries (w_streams w)) /\ real_known pkg t = true /\
    c = {| k_stream := sid; k_module := pkg; k_test := t; k_kwargs := norm_kwargs kw;
           k_window := window_meaning (w_window w); k_region := region_meaning (w_region w) |}.
Proof. intros. apply calls_exact. Qed.
Print Assumptions C07_calls_exact.

Theorem C07_calls_nodup : forall w,
  wf_streams (w_streams w) -> NoDup (map call_key (ctx_calls real_known w)).
Proof. intros w H. apply calls_nodup. apply entries_nodup. exact H. Qed.
Print Assumptions C07_calls_nodup.

(* per-variable xarray attributes *)
Theorem C07_xarray_vars : forall ds vs,
  NoDup (map entry_key vs) -> Forall xvar_ok vs ->
  ~ In "contexts" (map xtarget vs) -> ~ In "streams" (map xtarget vs) ->
  Permutation (config_calls real_known ds (from_xarray_vars vs))
              (map (mk_call (CNull, CNull) CNull) (filter (entry_known real_known) vs)).
Proof. intros. apply xarray_vars_roundtrip; assumption. Qed.
Print Assumptions C07_xarray_vars.

(* carriers: under the (trusted) load-after-dump hypotheses every pair of carriers agrees *)
Theorem C07_carriers_agree :
  forall ds (carrier1 carrier2 : Type)
         (dump1 : cfg -> carrier1) (load1 : carrier1 -> option cfg)
         (dump2 : cfg -> carrier2) (load2 : carrier2 -> option cfg),
    (forall d, load1 (dump1 d) = Some d) -> (forall d, load2 (dump2 d) = Some d) ->
    forall d, calls_via real_known ds load1 (dump1 d) = calls_via real_known ds load2 (dump2 d).
Proof. intros. apply carriers_agree; assumption. Qed.
Print Assumptions C07_carriers_agree.

Example C07_ex_dict_depth :
  dict_depth (CDict [("v1", CDict [("argo", CDict [("pressure_increasing_test", CNull)])])]) = 3%nat /\
  dict_depth (CDict [("v1", CDict [("argo", CDict [("pressure_increasing_test", CDict [])])])]) = 4%nat /\
  dict_depth (CDict [("qartod", CDict [("climatology_test",
     CDict [("config", CList [CDict [("vspan", CList [CNum 1; CNum 2])]])])])]) = 3%nat.
Proof. repeat split. Qed.
