(* StreamProbe.v — an executable instantiation of the abstract `test` of Stream.v, mirroring the probe
   tests the harness registers at run time inside its own process (harness/fn_stream.py).  Used only to
   EVALUATE the stream models in the correspondence; no theorem depends on it. *)
From IoosQc Require Import Base Stream.
From Coq Require Import String Qround.
Local Notation length := List.length.

(* test kinds: 0 = probe_test (all inputs optional), 1 = probe_needs_z (zinp required),
   2 = probe_needs_t (tinp required) *)
Definition TestId := nat.
(* parameters: p (an integer mixed into every flag) and fault: 0 none, 1 raise while evaluating,
   2 raise when the series has fewer than 2 rows *)
Definition Kw := (Z * nat)%type.

Definition flag_of_Z (c : Z) : flag :=
  match (c mod 5)%Z with
  | 0 => GOOD | 1 => UNKNOWN | 2 => SUSPECT | 3 => FAIL | _ => MISSING
  end%Z.

(* integer key of a grid value k/64; a missing value counts 7 *)
Definition kq (x : obs) : Z := match x with Some v => Qfloor (v * 64) | None => 7%Z end.

Definition oget {A} (l : option (list A)) (i : nat) (d : A) : A :=
  match l with Some xs => nth i xs d | None => d end.

Definition probe_flags (p : Z) (rw : rows) : list flag :=
  let n := length (rw_inp rw) in
  tab n (fun i =>
    let k := kq (nth i (rw_inp rw) None) in
    let kp := match i with O => 3%Z | S j => kq (nth j (rw_inp rw) None) end in
    let t := match rw_tinp rw with Some ts => (nth i ts 0%Z / NS)%Z | None => 11%Z end in
    let zk := match rw_zinp rw with Some zs => kq (nth i zs None) | None => 13%Z end in
    let lo := match rw_lon rw with Some zs => kq (nth i zs None) | None => 17%Z end in
    let la := match rw_lat rw with Some zs => kq (nth i zs None) | None => 19%Z end in
    flag_of_Z (k + 2 * kp + 3 * t + 5 * zk + 7 * lo + 11 * la + p)).

Definition probe (tid : TestId) (kw : Kw) (rw : rows) : option (list flag) :=
  let '(p, fault) := kw in
  match fault with
  | 1%nat => None
  | 3%nat => None
  | 2%nat => if Nat.ltb (length (rw_inp rw)) 2 then None else
             match tid with
             | 1%nat => match rw_zinp rw with None => None | Some _ => Some (probe_flags p rw) end
             | 2%nat => match rw_tinp rw with None => None | Some _ => Some (probe_flags p rw) end
             | _ => Some (probe_flags p rw)
             end
  | _ =>
      match tid with
      | 1%nat => match rw_zinp rw with None => None | Some _ => Some (probe_flags p rw) end
      | 2%nat => match rw_tinp rw with None => None | Some _ => Some (probe_flags p rw) end
      | _ => Some (probe_flags p rw)
      end
  end.

(* ---------------------------------------------------------------- equality of runs *)

Definition obs_eqb (a b : obs) : bool :=
  match a, b with Some x, Some y => Qeq_bool x y | None, None => true | _, _ => false end.

Fixpoint leqb {A} (e : A -> A -> bool) (a b : list A) : bool :=
  match a, b with
  | [], [] => true
  | x :: a', y :: b' => (e x y && leqb e a' b')%bool
  | _, _ => false
  end.

Definition oeqb {A} (e : A -> A -> bool) (a b : option A) : bool :=
  match a, b with Some x, Some y => e x y | None, None => true | _, _ => false end.

Definition rows_eqb (a b : rows) : bool :=
  (leqb obs_eqb (rw_inp a) (rw_inp b) && oeqb (leqb Z.eqb) (rw_tinp a) (rw_tinp b)
   && oeqb (leqb obs_eqb) (rw_zinp a) (rw_zinp b) && oeqb (leqb obs_eqb) (rw_lon a) (rw_lon b)
   && oeqb (leqb obs_eqb) (rw_lat a) (rw_lat b))%bool.

Definition sres_eqb (a b : sres) : bool :=
  (String.eqb (s_stream a) (s_stream b) && oeqb (leqb flag_eqb) (s_flags a) (s_flags b)
   && leqb Bool.eqb (s_mask a) (s_mask b) && rows_eqb (s_rows a) (s_rows b))%bool.

Definition srun_eqb (a b : srun) : bool :=
  match a, b with
  | SList x, SList y => leqb sres_eqb x y
  | SRaises _, SRaises _ => true
  | _, _ => false
  end.
