(* FlatLine.v — model and pointwise specification of qartod.flat_line_test (qartod.py).

   The model follows the source:
     fewer than 3 points -> GOOD, MISSING where the input is masked (returned before the time
     axis or the parameters are looked at);
     time_interval = median(diff(tinp)) as timedelta64[ns], in (fractional) seconds;
     run_test(threshold, flag):
        count        = trunc(threshold / time_interval)
        window       = rolling_window(inp, count): the len-count windows of count+1 consecutive
                       points (NaN = masked), none when len < count
        data_range   = |max - min| over the unmasked entries of each window (masked if none)
        test_results = min(len, count) leading False ++ filled(data_range < tolerance, False)
        flag_arr[test_results] = flag
     run_test(suspect, SUSPECT); run_test(fail, FAIL); flag_arr[inp.mask] = MISSING.

   Domain / totalisation notes
   * time_interval = 0 (constant time axis): numpy divides by 0.0 (inf / nan), the
     cast to int gives INT64_MIN on this platform and rolling_window then raises ValueError
     ("negative dimensions").  The model returns Raises ValueError there; this is observed
     behaviour of an undefined float -> int cast and lies outside the property's domain (D > 0).
   * a negative count (negative threshold, or decreasing time axis) raises ValueError in
     rolling_window / np.min (observed for count = -1 and count <= -2).
   * the median is taken over the time array alone; the property's domain has
     length ts = length xs (a shorter ts is outside the model's domain: np.median of an empty
     array is NaT).
   * float arithmetic: thr / time_interval is a float quotient truncated toward zero; the generators keep the
     step and the thresholds on a dyadic grid (steps k/4 s) on which the quotient is exact. *)
From IoosQc Require Import Base.
From Coq Require Import Qround.

(* ---------------------------------------------------------------- median time step *)

Fixpoint zinsert (x : Z) (l : list Z) : list Z :=
  match l with
  | [] => [x]
  | y :: r => if (x <=? y)%Z then x :: l else y :: zinsert x r
  end.

Definition zsort (l : list Z) : list Z := fold_right zinsert [] l.

(* np.diff(tinp), in ns *)
Definition zdiffs (ts : list Z) : list Z :=
  tab (length ts - 1) (fun i => (getz ts (i + 1) - getz ts i)%Z).

(* np.median of timedelta64[ns]: middle element of the sorted values, or the mean of the two
   middle ones, (a + b) / 2 as an integer timedelta division (truncation toward zero; observed:
   median[1ns,2ns] = 1ns, median[-3ns,-4ns] = -3ns).  Empty input: 0 (outside the domain). *)
Definition zmedian (l : list Z) : Z :=
  let s := zsort l in
  let m := length s in
  if Nat.even m then Z.quot (nth (m / 2 - 1) s 0%Z + nth (m / 2) s 0%Z) 2
  else nth (m / 2) s 0%Z.

(* the median sampling step, in nanoseconds; the code divides it by np.timedelta64(1, "s") to get (fractional)
   seconds.  (Before the repair of F18 it was floored to whole seconds: .astype("timedelta64[s]").) *)
Definition median_step (ts : list Z) : Z := zmedian (zdiffs ts).

(* a step of d nanoseconds, in seconds *)
Definition step_q (d : Z) : Q := inject_Z d / inject_Z NS.

(* ---------------------------------------------------------------- thresholds -> counts *)

(* Python int(x): truncation toward zero *)
Definition qtrunc (x : Q) : Z := Z.quot (Qnum x) (Zpos (Qden x)).

(* count = (thr / time_interval).astype(int) with time_interval = d ns in seconds: the quotient truncated toward
   zero.  For thr >= 0 and d > 0 this is floor(thr / D)  (FlatLineProofs.count_of_floor).
   d = 0 is excluded by the model before count_of is used. *)
Definition count_of (thr : Q) (d : Z) : Z := qtrunc (thr / step_q d).

(* ---------------------------------------------------------------- window statistics *)

(* min / max that ignore missing entries *)
Definition omin (a b : obs) : obs :=
  match a, b with
  | Some x, Some y => Some (qmin x y)
  | Some x, None => Some x
  | None, _ => b
  end.
Definition omax (a b : obs) : obs :=
  match a, b with
  | Some x, Some y => Some (qmax x y)
  | Some x, None => Some x
  | None, _ => b
  end.

(* the k+1 consecutive points lo, lo+1, ..., lo+k *)
Definition window (xs : list obs) (lo k : nat) : list obs := tab (k + 1) (fun j => getq xs (lo + j)).

(* np.min / np.max over a masked row: None when every entry is masked *)
Definition wmin (xs : list obs) (lo k : nat) : option Q := fold_right omin None (window xs lo k).
Definition wmax (xs : list obs) (lo k : nat) : option Q := fold_right omax None (window xs lo k).

(* the source's data_range = np.abs(data_max - data_min) *)
Definition wrange (xs : list obs) (lo k : nat) : option Q :=
  olift2 (fun M m => qabs (M - m)) (wmax xs lo k) (wmin xs lo k).

(* the property's "largest minus smallest present value" *)
Definition wspan (xs : list obs) (lo k : nat) : option Q :=
  olift2 Qminus (wmax xs lo k) (wmin xs lo k).

(* np.ma.filled(data_range < tolerance, False) *)
Definition flat_lt (tol : Q) (r : option Q) : bool := otest (fun v => Qltb v tol) r.

(* ---------------------------------------------------------------- the model *)

(* one data_range per window: row j of rolling_window(inp, count) covers j .. j+count *)
Definition rolling_ranges (xs : list obs) (count : nat) : list (option Q) :=
  let n := length xs in
  if (n <? count)%nat then [] else tab (n - count) (fun j => wrange xs j count).

(* test_results of run_test *)
Definition run_test (tol : Q) (xs : list obs) (count : nat) : list bool :=
  repeat false (Nat.min (length xs) count) ++ map (flat_lt tol) (rolling_ranges xs count).

(* st, ft: suspect / fail thresholds (seconds), tol: tolerance, ts: time stamps in ns *)
Definition flat_model (st ft : Q) (tol : Q) (xs : list obs) (ts : list Z) : outcome :=
  let n := length xs in
  if (n <? 3)%nat then Flags (set_where (tab n (missing_at xs)) MISSING (all_flags n GOOD)) else
  let D := median_step ts in
  if (D =? 0)%Z then Raises ValueError else
  let cs := count_of st D in
  let cf := count_of ft D in
  if ((cs <? 0)%Z || (cf <? 0)%Z)%bool then Raises ValueError else
  let f0 := all_flags n GOOD in
  let f1 := set_where (run_test tol xs (Z.to_nat cs)) SUSPECT f0 in
  let f2 := set_where (run_test tol xs (Z.to_nat cf)) FAIL f1 in
  Flags (set_where (tab n (missing_at xs)) MISSING f2).

(* ---------------------------------------------------------------- the property, per point *)

(* time axis with constant step d (ns) *)
Definition regular_ns (d : Z) (ts : list Z) : Prop :=
  forall i, (i + 1 < length ts)%nat -> (getz ts (i + 1) - getz ts i)%Z = d.

(* k = floor(threshold / D), D the sampling step in seconds *)
Definition kof (thr D : Q) : nat := Z.to_nat (Qfloor (thr / D)).

(* point i is flat for window length k: i >= k and the span of the present values among the k+1
   points ending at i is strictly below the tolerance *)
Definition flat_hit (k : nat) (tol : Q) (xs : list obs) (i : nat) : bool :=
  ((k <=? i)%nat && flat_lt tol (wspan xs (i - k) k))%bool.

(* decision at point i from the two window lengths (in steps) *)
Definition flat_ptk (ks kf : nat) (tol : Q) (xs : list obs) (i : nat) : flag :=
  match getq xs i with
  | None => MISSING
  | Some _ =>
      if flat_hit kf tol xs i then FAIL
      else if flat_hit ks tol xs i then SUSPECT
      else GOOD
  end.

Definition flat_pt (D st ft tol : Q) (xs : list obs) (i : nat) : flag :=
  flat_ptk (kof st D) (kof ft D) tol xs i.

(* fewer than three points: the test is not run, present points are GOOD *)
Definition short_pt (xs : list obs) (i : nat) : flag :=
  match getq xs i with None => MISSING | Some _ => GOOD end.

(* the property's flag of point i in a series of n points *)
Definition flat_flag (n : nat) (D st ft tol : Q) (xs : list obs) (i : nat) : flag :=
  if (n <? 3)%nat then short_pt xs i else flat_pt D st ft tol xs i.

Definition flat_spec (D st ft tol : Q) (xs : list obs) : outcome :=
  Flags (tab (length xs) (flat_flag (length xs) D st ft tol xs)).
