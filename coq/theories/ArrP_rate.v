(* ArrP_rate.v — generated array programs of rate_of_change_test and argo.speed_test = the models' arrays *)
From IoosQc Require Import Base Skel Arr SkelBase ArrBase Generated Rate SkelP_rate.
From Coq Require Import String.
Local Notation length := List.length.
Open Scope string_scope.

(* ------------------------------------------------------------------ rate_of_change_test *)

Theorem prog_roc en xs ts :
  length xs = length ts -> steps_nonzero ts ->
  exists st, run_prog (length xs) (bind_tim [("tinp", ts)]) en prog_rate_of_change_test (bind_store [("inp", xs)]) = Some st
             /\ store_arr st "roc" = Some (roc_rates xs ts) /\ store_arr st "inp" = Some xs.
Proof.
  intros Hl Hnz. unfold prog_rate_of_change_test, run_prog. cbn [fold_left].
  unfold run_stmt at 2. cbn.
  rewrite <- Hl, Nat.eqb_refl.
  assert (E : (length xs - 1 =? length xs - match length xs with 0 => 0 | S _ => 1 end)%nat = true)
    by (apply Nat.eqb_eq; destruct (length xs); lia).
  rewrite E. eexists. split; [reflexivity|]. split; [|store_arr_of_list_tac].
  unfold store_arr, upd. cbn. f_equal. unfold to_list, roc_rates. cbn [alen aget fst snd].
  apply tab_ext. intros i Hi. unfold in_slice, getq.
  destruct i as [|i].
  - destruct (length xs); [lia|]. reflexivity.
  - destruct (length xs) as [|n'] eqn:En; [lia|].
    assert (L : (1 <=? S i)%nat = true) by (apply Nat.leb_le; lia).
    assert (L2 : (S i <? S n')%nat = true) by (apply Nat.ltb_lt; lia).
    rewrite L, L2. cbn [andb Nat.eqb].
    replace (S i - 1)%nat with i by lia.
    destruct (nth (S i) xs None) as [a|], (nth i xs None) as [b|]; cbn; try reflexivity.
    assert (Z0 : Qeqb (dsecs ts (S i)) 0 = false) by (apply Hnz; lia).
    unfold dsecs, getz in Z0. replace (S i - 1)%nat with i in Z0 by lia. rewrite Z0.
    unfold dsecs, getz. replace (S i - 1)%nat with i by lia. reflexivity.
Qed.

(* ------------------------------------------------------------------ argo.speed_test *)

Section SpeedProg.
  Variable geod : Q -> Q -> Q -> Q -> Q.

  Theorem prog_speed en lon lat ts :
    length lon = length lat -> length lon = length ts -> (2 <= length lon)%nat -> e_size en = length lon ->
    steps_nonzero ts ->
    exists st, run_prog (length lon) (bind_tim [("tinp", ts)]) en prog_speed_test
                        (bind_store [("lon", lon); ("lat", lat); ("dist", speed_dist geod lon lat)]) = Some st
               /\ store_arr st "speed" = Some (speed_arr geod lon lat ts)
               /\ store_arr st "lon" = Some lon /\ store_arr st "lat" = Some lat
               /\ store_arr st "dist" = Some (speed_dist geod lon lat).
  Proof.
    intros Hl Ht H2 Hsz Hnz. unfold prog_speed_test, run_prog. cbn [fold_left].
    unfold run_stmt, guards_hold, forallb.
    change (SNum (2 # 1)) with (SNum (inject_Z (Z.of_nat 2))).
    rewrite !eval_g_inv, !size_eq0_guard, !size_lt_guard, !andb_true_r, Hsz.
    assert (G0 : Nat.eqb (length lon) 0 = false) by (apply Nat.eqb_neq; lia).
    assert (G2 : Nat.ltb (length lon) 2 = false) by (apply Nat.ltb_ge; lia).
    rewrite G0, G2. cbn [negb andb].
    cbn -[Nat.min Nat.sub Nat.eqb speed_dist].
    assert (Ld : length (speed_dist geod lon lat) = length lon) by (unfold speed_dist; apply tab_length).
    rewrite Ld.
    match goal with |- context [Nat.eqb ?a ?b] =>
      replace (Nat.eqb a b) with true by (symmetry; apply Nat.eqb_eq; unfold obs in *; lia) end.
    cbn -[Nat.min Nat.sub Nat.eqb speed_dist].
    rewrite Nat.eqb_refl.
    eexists. split; [reflexivity|]. split; [|repeat split; store_arr_of_list_tac].
    unfold store_arr, upd. cbn -[Nat.min Nat.sub Nat.eqb speed_dist]. f_equal.
    unfold to_list, speed_arr. cbn [alen aget fst snd].
    apply tab_ext. intros i Hi. unfold in_slice.
    destruct i as [|i].
    - assert (L : (Nat.min 1 (length lon) <=? 0)%nat = false) by (apply Nat.leb_gt; lia).
      rewrite L. reflexivity.
    - assert (L1 : (Nat.min 1 (length lon) <=? S i)%nat = true) by (apply Nat.leb_le; lia).
      assert (L2 : (S i <? length lon)%nat = true) by (apply Nat.ltb_lt; lia).
      rewrite L1, L2. cbn [andb Nat.eqb].
      replace (S i - Nat.min 1 (length lon) + Nat.min 1 (length lon))%nat with (S i) by lia.
      replace (S i - Nat.min 1 (length lon))%nat with i by lia.
      unfold getq. destruct (nth (S i) (speed_dist geod lon lat) None) as [d|]; [|reflexivity].
      assert (Z0 : Qeqb (dsecs ts (S i)) 0 = false) by (apply Hnz; lia).
      unfold dsecs, getz in *. replace (S i - 1)%nat with i in * by lia.
      cbn. rewrite Z0. reflexivity.
  Qed.
End SpeedProg.
