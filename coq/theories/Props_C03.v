(* Props_C03.v — C03: range tests flag by inclusive interval membership, fail before suspect.
   Only statements, `exact <lemma>` and Print Assumptions. *)
From IoosQc Require Import Base Generated Range RangeProofs.

(* the operational model of gross_range_test equals the pointwise decision list, for every
   series (any length, any placement of missing values), every fail span and every optional
   suspect span (any arity: wrong arity is rejected with ValueError) *)
Theorem C03_gross_refines : forall fspan sspan xs, gross_model fspan sspan xs = gross_spec fspan sspan xs.
Proof. exact gross_refines. Qed.
Print Assumptions C03_gross_refines.

(* FAIL iff strictly outside the (sorted) fail span: both end points are acceptable *)
Theorem C03_gross_fail : forall flo fhi s v, gross_pt flo fhi s (Some v) = FAIL <-> v < flo \/ fhi < v.
Proof. exact gross_pt_fail. Qed.
Print Assumptions C03_gross_fail.

(* else SUSPECT iff a suspect span is given and the value is strictly outside it *)
Theorem C03_gross_suspect : forall flo fhi s v,
  gross_pt flo fhi s (Some v) = SUSPECT <->
  (flo <= v <= fhi) /\ exists slo shi, s = Some (slo, shi) /\ (v < slo \/ shi < v).
Proof. exact gross_pt_suspect. Qed.
Print Assumptions C03_gross_suspect.

(* else GOOD *)
Theorem C03_gross_good : forall flo fhi s v,
  gross_pt flo fhi s (Some v) = GOOD <->
  (flo <= v <= fhi) /\ forall slo shi, s = Some (slo, shi) -> slo <= v <= shi.
Proof. exact gross_pt_good. Qed.
Print Assumptions C03_gross_good.

Theorem C03_gross_missing : forall flo fhi s x, gross_pt flo fhi s x = MISSING <-> x = None.
Proof. exact gross_pt_missing. Qed.
Print Assumptions C03_gross_missing.

(* the four cases are exhaustive: gross_range_test never answers UNKNOWN, and never SUSPECT when no
   suspect span is given; valid_range_test answers GOOD, FAIL or MISSING only *)
Theorem C03_gross_alphabet : forall flo fhi s x,
  gross_pt flo fhi s x = GOOD \/ gross_pt flo fhi s x = SUSPECT \/
  gross_pt flo fhi s x = FAIL \/ gross_pt flo fhi s x = MISSING.
Proof. exact gross_pt_alphabet. Qed.
Print Assumptions C03_gross_alphabet.

Theorem C03_gross_without_suspect : forall flo fhi x, gross_pt flo fhi None x <> SUSPECT.
Proof. exact gross_pt_without_suspect. Qed.
Print Assumptions C03_gross_without_suspect.

Theorem C03_valid_alphabet : forall lo hi si ei x,
  valid_pt lo hi si ei x = GOOD \/ valid_pt lo hi si ei x = FAIL \/ valid_pt lo hi si ei x = MISSING.
Proof. exact valid_pt_alphabet. Qed.
Print Assumptions C03_valid_alphabet.

(* the two numbers of a span may be given in either order *)
Theorem C03_gross_swap_fail : forall a b ss xs, gross_model [a; b] ss xs = gross_model [b; a] ss xs.
Proof. intros. rewrite !gross_refines. apply gross_swap_fail. Qed.
Print Assumptions C03_gross_swap_fail.

Theorem C03_gross_swap_suspect : forall fs c d xs,
  gross_model fs (Some [c; d]) xs = gross_model fs (Some [d; c]) xs.
Proof. intros. rewrite !gross_refines. apply gross_swap_suspect. Qed.
Print Assumptions C03_gross_swap_suspect.

(* a suspect span not contained in the fail span is rejected with ValueError; a contained
   one is accepted and decided by the sorted spans *)
Theorem C03_gross_rejects : forall a b c d xs,
  (fst (sort2 c d) < fst (sort2 a b) \/ snd (sort2 a b) < snd (sort2 c d)) ->
  gross_model [a; b] (Some [c; d]) xs = Raises ValueError.
Proof. intros. rewrite gross_refines. apply gross_rejects. assumption. Qed.
Print Assumptions C03_gross_rejects.

Theorem C03_gross_accepts : forall a b c d xs,
  fst (sort2 a b) <= fst (sort2 c d) -> snd (sort2 c d) <= snd (sort2 a b) ->
  gross_model [a; b] (Some [c; d]) xs =
  Flags (map (gross_pt (fst (sort2 a b)) (snd (sort2 a b)) (Some (sort2 c d))) xs).
Proof. intros. rewrite gross_refines. apply gross_accepts; assumption. Qed.
Print Assumptions C03_gross_accepts.

Theorem C03_sort2 : forall a b, let '(lo, hi) := sort2 a b in
  lo <= hi /\ ((lo = a /\ hi = b) \/ (lo = b /\ hi = a)).
Proof. exact sort2_spec. Qed.
Print Assumptions C03_sort2.

(* valid_range_test: FAIL exactly the present values outside the span, per inclusivity;
   a missing bound is unbounded *)
Theorem C03_valid_refines : forall lo hi si ei xs, valid_model lo hi si ei xs = valid_spec lo hi si ei xs.
Proof. exact valid_refines. Qed.
Print Assumptions C03_valid_refines.

Theorem C03_valid_fail : forall lo hi si ei v,
  valid_pt lo hi si ei (Some v) = FAIL <-> in_span lo hi si ei v = false.
Proof. exact valid_pt_fail. Qed.
Print Assumptions C03_valid_fail.

Theorem C03_valid_good : forall lo hi si ei v,
  valid_pt lo hi si ei (Some v) = GOOD <-> in_span lo hi si ei v = true.
Proof. exact valid_pt_good. Qed.
Print Assumptions C03_valid_good.

Theorem C03_in_span : forall lo hi si ei v,
  in_span lo hi si ei v = true <->
  (match lo with Some l => if si then l <= v else l < v | None => True end) /\
  (match hi with Some h => if ei then v <= h else v < h | None => True end).
Proof. exact in_span_iff. Qed.
Print Assumptions C03_in_span.

(* the source's defaults: lower bound inclusive, upper exclusive *)
Theorem C03_valid_defaults :
  valid_range_default_start_inclusive = true /\ valid_range_default_end_inclusive = false.
Proof. split; reflexivity. Qed.
Print Assumptions C03_valid_defaults.

(* the overwrite order of the source: MISSING, SUSPECT, FAIL (fail written last) *)
Theorem C03_assign_order : assign_order_gross_range_test = [MISSING; SUSPECT; FAIL].
Proof. reflexivity. Qed.
Print Assumptions C03_assign_order.

(* non-vacuity: concrete non-trivial instances *)
Example C03_ex1 :
  gross_model [10; 0] (Some [2; 8]) [Some 0; Some (-1#64); Some 2; Some (129#64); Some 9; None; Some 10; Some 11]
  = Flags [SUSPECT; FAIL; GOOD; GOOD; SUSPECT; MISSING; SUSPECT; FAIL].
Proof. vm_compute. reflexivity. Qed.
Example C03_ex2 : gross_model [0; 10] (Some [-1; 8]) [Some 1] = Raises ValueError.
Proof. vm_compute. reflexivity. Qed.
Example C03_ex3 :
  valid_model (Some 1) (Some 3) true false [Some 1; Some 3; Some 2; None; Some 0]
  = Flags [GOOD; FAIL; GOOD; MISSING; FAIL].
Proof. vm_compute. reflexivity. Qed.

(* TRANSLATOR TIE: the flag-assignment skeleton generated from the CURRENT source of gross_range_test
   (Generated.skel_gross_range_test: masks, comparison operators, flag constants, the order MISSING /
   SUSPECT / FAIL and the guard `suspect_span is not None`), given its numpy meaning by Skel.run_steps in the
   environment inp := xs, sspan := (flo, fhi), uspan := s, yields exactly the specification's flags *)
From IoosQc Require Import Skel SkelBase SkelP_range.
Theorem C03_source_skeleton : forall flo fhi s xs,
  run_steps (env_gross flo fhi s xs) skel_gross_range_test (all_flags (length xs) GOOD)
  = map (gross_pt flo fhi s) xs.
Proof. exact skel_gross_flags. Qed.
Print Assumptions C03_source_skeleton.

(* TRANSLATOR TIE, axds.valid_range_test: the skeleton generated from the CURRENT source (the four
   comparison operators selected by `start_inclusive is True` / `end_inclusive is True`, the guards
   `not isnan(valid_span[k])`, flag constants and order), run in the model's environment, yields exactly
   the model's flags *)
Theorem C03_source_skeleton_valid : forall lo hi si ei xs,
  valid_model lo hi si ei xs =
  Flags (run_steps (env_valid lo hi si ei xs) skel_valid_range_test (all_flags (length xs) GOOD)).
Proof. exact skel_valid. Qed.
Print Assumptions C03_source_skeleton_valid.
