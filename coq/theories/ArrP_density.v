(* ArrP_density.v — generated array program of density_inversion_test = the model's delta array *)
From IoosQc Require Import Base Skel Arr SkelBase ArrBase Generated Density.
From Coq Require Import String.
Local Notation length := List.length.
Open Scope string_scope.

(* ------------------------------------------------------------------ density_inversion_test *)

Theorem prog_density en rho z :
  length rho = length z -> (2 <= length rho)%nat -> e_size en = length rho ->
  exists st, run_prog (length rho) (fun _ => None) en prog_density_inversion_test
                      (bind_store [("inp", rho); ("zinp", z)]) = Some st
             /\ store_arr st "delta" = Some (density_delta rho z)
             /\ store_arr st "inp" = Some rho /\ store_arr st "zinp" = Some z.
Proof.
  intros Hl H2 Hsz. unfold prog_density_inversion_test, run_prog. cbn [fold_left].
  unfold run_stmt, guards_hold, forallb.
  change (SNum (2 # 1)) with (SNum (inject_Z (Z.of_nat 2))).
  rewrite !eval_g_inv, !size_eq0_guard, !size_lt_guard, !andb_true_r, Hsz.
  assert (G0 : Nat.eqb (length rho) 0 = false) by (apply Nat.eqb_neq; lia).
  assert (G2 : Nat.ltb (length rho) 2 = false) by (apply Nat.ltb_ge; lia).
  rewrite G0, G2. cbn [negb andb].
  cbn -[Nat.min Nat.sub Nat.eqb].
  rewrite <- Hl, Nat.eqb_refl.
  eexists. split; [reflexivity|]. split; [|split; store_arr_of_list_tac].
  unfold store_arr, upd. cbn -[Nat.min Nat.sub Nat.eqb]. f_equal.
  unfold to_list, density_delta, odiff. cbn [alen aget fst snd]. rewrite <- Hl.
  apply tab_ext. intros i Hi. unfold getq.
  rewrite !nth_tab by lia.
  replace (i + 1)%nat with (S i) by lia.
  destruct (nth (S i) z None), (nth i z None), (nth (S i) rho None), (nth i rho None); reflexivity.
Qed.
