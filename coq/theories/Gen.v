(* Gen.v — a test function assembled from its two GENERATED parts: the array program (Arr.v) computes the
   intermediate arrays, the flag skeleton (Skel.v) turns them into flags.  gen_flags is the meaning of the
   pair; GenP_*.v proves it equal to the hand-written models. *)
From IoosQc Require Import Base Skel Arr.
From Coq Require Import String.
Local Notation length := List.length.
Open Scope string_scope.

(* the arrays of the final store that the skeleton may read *)
Definition restrict (names : list string) (f : string -> option (list obs)) (s : string) : option (list obs) :=
  if existsb (String.eqb s) names then f s else None.

Definition gen_flags (n : nat) (tim : string -> option (list Z))
                     (nums : string -> option (option Q)) (strs : string -> option string)
                     (prog : list astmt) (skel : list sstep) (names : list string)
                     (st0 : store) (init : flag) : option (list flag) :=
  let en0 := {| e_arr := fun _ => None; e_num := nums; e_str := strs; e_bool := (fun _ => None); e_size := n |} in
  match run_prog n tim en0 prog st0 with
  | Some st =>
      Some (run_steps {| e_arr := restrict names (store_arr st); e_num := nums; e_str := strs; e_bool := (fun _ => None); e_size := n |}
                      skel (all_flags n init))
  | None => None                 (* numpy would have raised: unknown name / lengths that do not fit *)
  end.

(* ---------------------------------------------------------------- environments that agree give the same flags *)

Definition env_eq (a b : env) : Prop :=
  (forall s, e_arr a s = e_arr b s) /\ (forall s, e_num a s = e_num b s) /\
  (forall s, e_str a s = e_str b s) /\ (forall s, e_bool a s = e_bool b s) /\ e_size a = e_size b.

Lemma eval_num_ext a b : env_eq a b -> forall e, eval_num a e = eval_num b e.
Proof.
  intros (_ & Hn & _) e. unfold eval_num.
  destruct e; try reflexivity; match goal with |- context [path ?p] => destruct (path p) end; try apply Hn; reflexivity.
Qed.

Lemma eval_arr_ext a b : env_eq a b -> forall e i, eval_arr a e i = eval_arr b e i.
Proof. intros (Ha & _) e i. destruct e; cbn; try reflexivity. rewrite Ha. reflexivity. Qed.

Lemma eval_b_ext a b : env_eq a b -> forall e i, eval_b a e i = eval_b b e i.
Proof.
  intros H. pose proof (eval_num_ext a b H) as Hn. pose proof (eval_arr_ext a b H) as Hr.
  destruct H as (Ha & _ & _ & Hbo & Hs).
  induction e as [s|e IH f|q| |s|op e1 IH1 e2 IH2|op e1 IH1 e2 IH2|e IH|f e IH|fr e IH]; intros i; cbn [eval_b];
    try reflexivity.
  - rewrite Hbo. reflexivity.
  - destruct e; try reflexivity. rewrite Ha. reflexivity.
  - rewrite Hr, Hn. rewrite !IH1, !IH2. reflexivity.
  - rewrite IH1, IH2. reflexivity.
  - rewrite IH. reflexivity.
  - rewrite Hr. reflexivity.
  - rewrite Hs, !IH. reflexivity.
Qed.

Lemma eval_g_ext a b : env_eq a b -> forall e, eval_g a e = eval_g b e.
Proof.
  intros H. pose proof (eval_num_ext a b H) as Hn. pose proof (eval_b_ext a b H) as Hb. pose proof H as H0.
  destruct H as (_ & _ & Hst & _ & Hs).
  induction e as [s|e IH f|q| |s|op e1 IH1 e2 IH2|op e1 IH1 e2 IH2|e IH|f e IH|fr e IH]; cbn [eval_g];
    try reflexivity.
  - destruct H0 as (_ & Hnum & _). rewrite Hnum. reflexivity.
  - rewrite !Hn, Hs. destruct e1; try reflexivity. destruct e2; try reflexivity. rewrite Hst. reflexivity.
  - rewrite IH1, IH2. reflexivity.
  - rewrite IH. reflexivity.
  - rewrite Hn, Hs. destruct (String.eqb f "isnan"); [reflexivity|]. destruct (String.eqb f "any"); [|reflexivity].
    generalize (seq 0 (e_size b)). intros l. induction l as [|x l IHl]; cbn; [reflexivity|].
    rewrite Hb, IHl. reflexivity.
Qed.

Lemma run_steps_ext a b : env_eq a b -> forall steps init, run_steps a steps init = run_steps b steps init.
Proof.
  intros H steps. pose proof (eval_b_ext a b H) as Hb. pose proof (eval_g_ext a b H) as Hg.
  assert (Hgs : forall gs, guards_hold a gs = guards_hold b gs).
  { intros gs. unfold guards_hold. induction gs as [|g gs IH]; cbn; [reflexivity|]. rewrite Hg, IH. reflexivity. }
  destruct H as (_ & _ & _ & _ & Hs).
  unfold run_steps. induction steps as [|s steps IH]; intros init; cbn [fold_left]; [reflexivity|].
  rewrite <- IH. f_equal. destruct s; cbn [run_step]; rewrite Hgs, Hs; try reflexivity.
  - destruct (guards_hold b guards); [|reflexivity]. f_equal. apply tab_ext. intros; apply Hb.
  - destruct (guards_hold b guards); [|reflexivity]. f_equal. apply tab_ext. intros i _.
    rewrite !Hb. reflexivity.
Qed.
