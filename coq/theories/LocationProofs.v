(* LocationProofs.v — location_test: refinement to the pointwise specification (for every geodesic
   routine `geod`), decision-list characterisation, rejections, and the laws used by C02 (missing),
   C16 (monotone in box / range_max) and C17 (locality).

   Full statement of the refinement (NOT a theorem, see location_refuted):
     forall geod bbox range_max lon lat,
       location_model geod bbox range_max lon lat = location_spec geod bbox range_max lon lat.
   It fails exactly when range_max < 0 on a track of two or more positions: the code then flags the
   first position SUSPECT (d[0] = 0 > range_max) although it has no previous position, also when
   that position is MISSING or has exactly one coordinate missing.  location_refines carries the
   visible hypothesis `loc_dom` that excludes this class. *)
From IoosQc Require Import Base Generated Location.

Ltac tabs := unfold all_flags; repeat rewrite set_where_tab.

Section LocProofs.
  Variable geod : Q -> Q -> Q -> Q -> Q.

  (* ---------------------------------------------------------------- refinement *)

  Lemma location_refines bbox range_max lon lat :
    loc_dom range_max (length lon) ->
    location_model geod bbox range_max lon lat = location_spec geod bbox range_max lon lat.
  Proof.
    intros Hd. unfold location_model, location_spec.
    destruct bbox as [|minx [|miny [|maxx [|maxy [|? ?]]]]]; try reflexivity.
    destruct (negb (Nat.eqb (length lon) (length lat))); [reflexivity|].
    set (n := length lon) in *.
    destruct range_max as [r|].
    - destruct (Nat.ltb 1 n) eqn:Hn.
      + tabs. f_equal. apply tab_ext. intros i Hi.
        unfold great_circle_distance. fold n. rewrite getq_tab by exact Hi.
        unfold location_pt, box_mask, hop_dist, hop_exceeds, missing_at, out_of_box.
        destruct (Nat.eqb i 0) eqn:E0.
        * assert (H0 : Qltb r 0 = false).
          { apply Qltb_false. destruct Hd as [Hr|Hr]; [exact Hr|]. apply Nat.ltb_lt in Hn. lia. }
          destruct (getq lon i) as [x|], (getq lat i) as [y|]; simpl; rewrite H0;
            repeat match goal with |- context [Qltb ?a ?b] => destruct (Qltb a b) end; reflexivity.
        * destruct (getq lon i) as [x|], (getq lat i) as [y|];
            destruct (getq lat (i - 1)) as [y0|], (getq lon (i - 1)) as [x0|]; simpl;
            repeat match goal with |- context [Qltb ?a ?b] => destruct (Qltb a b) end; reflexivity.
      + tabs. f_equal. apply tab_ext. intros i Hi.
        assert (E0 : Nat.eqb i 0 = true).
        { apply Nat.eqb_eq. apply Nat.ltb_ge in Hn. lia. }
        unfold location_pt, box_mask, hop_exceeds, missing_at, out_of_box. rewrite E0.
        destruct (getq lon i) as [x|], (getq lat i) as [y|]; simpl;
          repeat match goal with |- context [Qltb ?a ?b] => destruct (Qltb a b) end; reflexivity.
    - tabs. f_equal. apply tab_ext. intros i Hi.
      unfold location_pt, box_mask, hop_exceeds, missing_at, out_of_box.
      destruct (getq lon i) as [x|], (getq lat i) as [y|]; simpl;
        repeat match goal with |- context [Qltb ?a ?b] => destruct (Qltb a b) end; reflexivity.
  Qed.

  (* the deviation, for every geodesic routine: concrete inputs on which the code's answer is not
     the property's.  No hop is evaluated on these tracks, so the witnesses do not depend on geod. *)
  Lemma location_negative_range_one_missing :
    location_model geod location_default_bbox (Some (-1 # 1)) [None; Some 5] [Some 5; Some 5]
      = Flags [SUSPECT; GOOD] /\
    location_spec geod location_default_bbox (Some (-1 # 1)) [None; Some 5] [Some 5; Some 5]
      = Flags [FAIL; GOOD].
  Proof. split; vm_compute; reflexivity. Qed.

  Lemma location_negative_range_both_missing :
    location_model geod location_default_bbox (Some (-1 # 1)) [None; Some 5] [None; Some 5]
      = Flags [SUSPECT; GOOD] /\
    location_spec geod location_default_bbox (Some (-1 # 1)) [None; Some 5] [None; Some 5]
      = Flags [MISSING; GOOD].
  Proof. split; vm_compute; reflexivity. Qed.

  Lemma location_refuted :
    exists bbox range_max lon lat,
      location_model geod bbox range_max lon lat <> location_spec geod bbox range_max lon lat.
  Proof.
    exists location_default_bbox, (Some (-1 # 1)), [None; Some 5], [Some 5; Some 5].
    destruct location_negative_range_one_missing as [-> ->]. discriminate.
  Qed.

  (* what the code does in the excluded class: with range_max < 0 and at least two positions the
     first flag is SUSPECT unless the box test fails it, whatever is missing there *)
  Lemma location_model_negative_range minx miny maxx maxy r lon lat :
    r < 0 -> (1 < length lon)%nat -> length lon = length lat ->
    exists fl, location_model geod [minx; miny; maxx; maxy] (Some r) lon lat = Flags fl /\
               nth 0 fl GOOD = if box_mask minx miny maxx maxy lon lat 0 then FAIL else SUSPECT.
  Proof.
    intros Hr Hn Hl. unfold location_model. rewrite <- Hl, Nat.eqb_refl. simpl negb. cbv iota.
    apply Nat.ltb_lt in Hn. rewrite Hn. apply Nat.ltb_lt in Hn.
    tabs. eexists. split; [reflexivity|].
    rewrite nth_tab by lia.
    unfold great_circle_distance. rewrite getq_tab by lia. unfold hop_dist. simpl.
    assert (H0 : Qltb r 0 = true) by (apply Qltb_true; exact Hr). rewrite H0.
    destruct (box_mask minx miny maxx maxy lon lat 0); reflexivity.
  Qed.

  (* ---------------------------------------------------------------- rejections *)

  Lemma location_rejects_bbox bbox range_max lon lat :
    length bbox <> 4%nat -> location_model geod bbox range_max lon lat = Raises ValueError.
  Proof.
    intros H. unfold location_model.
    destruct bbox as [|a [|b [|c [|d [|? ?]]]]]; try reflexivity. simpl in H. congruence.
  Qed.

  Lemma location_rejects_shape bbox range_max lon lat :
    length lon <> length lat -> location_model geod bbox range_max lon lat = Raises ValueError.
  Proof.
    intros H. unfold location_model.
    destruct bbox as [|a [|b [|c [|d [|? ?]]]]]; try reflexivity.
    apply Nat.eqb_neq in H. rewrite H. reflexivity.
  Qed.

  Lemma location_rejects bbox range_max lon lat :
    (length bbox <> 4%nat \/ length lon <> length lat) <->
    location_model geod bbox range_max lon lat = Raises ValueError.
  Proof.
    split.
    - intros [H|H]; [apply location_rejects_bbox|apply location_rejects_shape]; exact H.
    - unfold location_model.
      destruct bbox as [|a [|b [|c [|d [|? ?]]]]]; simpl length; try (intros _; left; lia).
      destruct (Nat.eqb_spec (length lon) (length lat)) as [E|E]; simpl negb; cbv iota.
      + discriminate.
      + intros _. right. exact E.
  Qed.

  Lemma location_accepts minx miny maxx maxy range_max lon lat :
    length lon = length lat ->
    location_spec geod [minx; miny; maxx; maxy] range_max lon lat =
    Flags (tab (length lon) (location_pt geod minx miny maxx maxy range_max lon lat)).
  Proof. intros H. unfold location_spec. rewrite H, Nat.eqb_refl. reflexivity. Qed.

  (* ---------------------------------------------------------------- decision list *)

  Lemma out_of_box_iff minx miny maxx maxy x y :
    out_of_box minx miny maxx maxy x y = true <-> x < minx \/ y < miny \/ maxx < x \/ maxy < y.
  Proof. unfold out_of_box. rewrite !orb_true_iff, !Qltb_true. tauto. Qed.

  Lemma out_of_box_false_iff minx miny maxx maxy x y :
    out_of_box minx miny maxx maxy x y = false <-> (minx <= x <= maxx) /\ (miny <= y <= maxy).
  Proof. unfold out_of_box. rewrite !orb_false_iff, !Qltb_false. tauto. Qed.

  (* the previous position exists, is fully present, and lies more than range_max away *)
  Definition far_hop (range_max : option Q) (lon lat : list obs) (i : nat) (x y : Q) : Prop :=
    exists r x0 y0, range_max = Some r /\ i <> 0%nat /\
      getq lon (i - 1) = Some x0 /\ getq lat (i - 1) = Some y0 /\ r < geod y0 x0 y x.

  Lemma hop_exceeds_iff range_max lon lat i x y :
    hop_exceeds geod range_max lon lat i x y = true <-> far_hop range_max lon lat i x y.
  Proof.
    unfold hop_exceeds, far_hop. destruct range_max as [r|].
    - destruct (Nat.eqb_spec i 0) as [E|E].
      + split; [discriminate|]. intros (r' & x0 & y0 & _ & H & _). congruence.
      + destruct (getq lon (i - 1)) as [x0|].
        * destruct (getq lat (i - 1)) as [y0|].
          -- rewrite Qltb_true. split.
             ++ intros H. exists r, x0, y0. auto.
             ++ intros (r' & x0' & y0' & Hr & _ & Hx & Hy & H). congruence.
          -- split; [discriminate|]. intros (r' & x0' & y0' & _ & _ & _ & Hy & _). discriminate.
        * split; [discriminate|]. intros (r' & x0' & y0' & _ & _ & Hx & _). discriminate.
    - split; [discriminate|]. intros (r' & x0 & y0 & H & _). discriminate.
  Qed.

  Lemma hop_exceeds_false_iff range_max lon lat i x y :
    hop_exceeds geod range_max lon lat i x y = false <->
    (forall r x0 y0, range_max = Some r -> i <> 0%nat ->
       getq lon (i - 1) = Some x0 -> getq lat (i - 1) = Some y0 -> geod y0 x0 y x <= r).
  Proof.
    split.
    - intros H r x0 y0 Hr Hi Hx Hy.
      destruct (Qlt_le_dec r (geod y0 x0 y x)) as [L|L]; [|exact L].
      assert (T : hop_exceeds geod range_max lon lat i x y = true).
      { apply hop_exceeds_iff. exists r, x0, y0. auto. }
      congruence.
    - intros H. destruct (hop_exceeds geod range_max lon lat i x y) eqn:E; [|reflexivity].
      apply hop_exceeds_iff in E. destruct E as (r & x0 & y0 & Hr & Hi & Hx & Hy & L).
      specialize (H r x0 y0 Hr Hi Hx Hy). lra.
  Qed.

  Section Pt.
    Variables minx miny maxx maxy : Q.
    Variable range_max : option Q.
    Variables lon lat : list obs.
    Local Notation pt := (location_pt geod minx miny maxx maxy range_max lon lat).

    (* FAIL iff exactly one coordinate is missing, or both are present and the position lies
       strictly outside the box *)
    Lemma location_pt_fail i :
      pt i = FAIL <->
      (getq lon i = None /\ getq lat i <> None) \/ (getq lon i <> None /\ getq lat i = None) \/
      (exists x y, getq lon i = Some x /\ getq lat i = Some y /\
                   (x < minx \/ y < miny \/ maxx < x \/ maxy < y)).
    Proof.
      unfold location_pt. destruct (getq lon i) as [x|], (getq lat i) as [y|].
      - destruct (out_of_box minx miny maxx maxy x y) eqn:E.
        + split; [|reflexivity]. intros _. right. right. exists x, y.
          apply out_of_box_iff in E. auto.
        + split.
          * destruct (hop_exceeds geod range_max lon lat i x y); discriminate.
          * intros [[H _]|[[_ H]|(x' & y' & Hx & Hy & H)]]; try discriminate.
            inversion Hx; inversion Hy; subst. apply out_of_box_iff in H. congruence.
      - split; [|reflexivity]. intros _. right. left. split; congruence.
      - split; [|reflexivity]. intros _. left. split; congruence.
      - split; [discriminate|].
        intros [[_ H]|[[H _]|(x' & y' & Hx & _)]]; congruence.
    Qed.

    (* otherwise SUSPECT iff range_max is given and the geodesic distance from the (fully present)
       previous position exceeds it *)
    Lemma location_pt_suspect i :
      pt i = SUSPECT <->
      exists x y, getq lon i = Some x /\ getq lat i = Some y /\
                  (minx <= x <= maxx) /\ (miny <= y <= maxy) /\ far_hop range_max lon lat i x y.
    Proof.
      unfold location_pt. destruct (getq lon i) as [x|], (getq lat i) as [y|].
      - destruct (out_of_box minx miny maxx maxy x y) eqn:E.
        + split; [discriminate|]. intros (x' & y' & Hx & Hy & H1 & H2 & _).
          inversion Hx; inversion Hy; subst.
          assert (F : out_of_box minx miny maxx maxy x' y' = false) by (apply out_of_box_false_iff; auto).
          congruence.
        + apply out_of_box_false_iff in E. destruct E as [E1 E2].
          destruct (hop_exceeds geod range_max lon lat i x y) eqn:H.
          * split; [|reflexivity]. intros _. exists x, y. apply hop_exceeds_iff in H. auto.
          * split; [discriminate|]. intros (x' & y' & Hx & Hy & _ & _ & F).
            inversion Hx; inversion Hy; subst. apply hop_exceeds_iff in F. congruence.
      - split; [discriminate|]. intros (x' & y' & _ & H & _). discriminate.
      - split; [discriminate|]. intros (x' & y' & H & _). discriminate.
      - split; [discriminate|]. intros (x' & y' & H & _). discriminate.
    Qed.

    (* otherwise GOOD *)
    Lemma location_pt_good i :
      pt i = GOOD <->
      exists x y, getq lon i = Some x /\ getq lat i = Some y /\
                  (minx <= x <= maxx) /\ (miny <= y <= maxy) /\
                  (forall r x0 y0, range_max = Some r -> i <> 0%nat ->
                     getq lon (i - 1) = Some x0 -> getq lat (i - 1) = Some y0 -> geod y0 x0 y x <= r).
    Proof.
      unfold location_pt. destruct (getq lon i) as [x|], (getq lat i) as [y|].
      - destruct (out_of_box minx miny maxx maxy x y) eqn:E.
        + split; [discriminate|]. intros (x' & y' & Hx & Hy & H1 & H2 & _).
          inversion Hx; inversion Hy; subst.
          assert (F : out_of_box minx miny maxx maxy x' y' = false) by (apply out_of_box_false_iff; auto).
          congruence.
        + apply out_of_box_false_iff in E. destruct E as [E1 E2].
          destruct (hop_exceeds geod range_max lon lat i x y) eqn:H.
          * split; [discriminate|]. intros (x' & y' & Hx & Hy & _ & _ & F).
            inversion Hx; inversion Hy; subst.
            apply (proj2 (hop_exceeds_false_iff _ _ _ _ _ _)) in F. congruence.
          * split; [|reflexivity]. intros _. exists x, y.
            pose proof (proj1 (hop_exceeds_false_iff _ _ _ _ _ _) H) as H'. auto.
      - split; [discriminate|]. intros (x' & y' & _ & H & _). discriminate.
      - split; [discriminate|]. intros (x' & y' & H & _). discriminate.
      - split; [discriminate|]. intros (x' & y' & H & _). discriminate.
    Qed.

    (* MISSING iff both coordinates are missing (C02, both directions) *)
    Lemma location_pt_missing i :
      pt i = MISSING <-> getq lon i = None /\ getq lat i = None.
    Proof.
      unfold location_pt. destruct (getq lon i) as [x|], (getq lat i) as [y|].
      - split; [|intros [H _]; discriminate].
        destruct (out_of_box minx miny maxx maxy x y); [discriminate|].
        destruct (hop_exceeds geod range_max lon lat i x y); discriminate.
      - split; [discriminate|]. intros [H _]; discriminate.
      - split; [discriminate|]. intros [_ H]; discriminate.
      - tauto.
    Qed.

    Lemma location_pt_never_unknown i : pt i <> UNKNOWN.
    Proof.
      unfold location_pt. destruct (getq lon i) as [x|], (getq lat i) as [y|]; try discriminate.
      destruct (out_of_box minx miny maxx maxy x y); [discriminate|].
      destruct (hop_exceeds geod range_max lon lat i x y); discriminate.
    Qed.

    (* a position exactly on an edge or a corner of the box is inside; a hop exactly range_max
       long is not too long *)
    Lemma location_pt_edge_good i x y :
      getq lon i = Some x -> getq lat i = Some y ->
      (x == minx \/ x == maxx \/ minx <= x <= maxx) -> (y == miny \/ y == maxy \/ miny <= y <= maxy) ->
      minx <= maxx -> miny <= maxy -> range_max = None -> pt i = GOOD.
    Proof.
      intros Hx Hy Ex Ey Bx By Hr. apply location_pt_good. exists x, y.
      repeat split; auto; try (destruct Ex as [E|[E|E]]; lra); try (destruct Ey as [E|[E|E]]; lra).
      intros r x0 y0 H. congruence.
    Qed.

    (* ---------------------------------------------------------------- C02 *)

    Lemma location_pt_both_missing i :
      getq lon i = None -> getq lat i = None ->
      pt i = MISSING /\ pt i <> GOOD /\ pt i <> SUSPECT /\ pt i <> FAIL.
    Proof.
      intros H1 H2. assert (E : pt i = MISSING) by (apply location_pt_missing; auto).
      rewrite E. repeat split; discriminate.
    Qed.

    Lemma location_pt_missing_only i :
      pt i = MISSING -> getq lon i = None /\ getq lat i = None.
    Proof. apply location_pt_missing. Qed.

    Lemma location_pt_one_missing i :
      is_none (getq lon i) <> is_none (getq lat i) -> pt i = FAIL.
    Proof.
      unfold location_pt. destruct (getq lon i), (getq lat i); simpl; congruence.
    Qed.

  End Pt.

  (* C02 on the flags the code returns (inside loc_dom) *)
  Lemma location_model_missing bbox range_max lon lat fl i :
    loc_dom range_max (length lon) ->
    location_model geod bbox range_max lon lat = Flags fl -> (i < length lon)%nat ->
    (nth i fl GOOD = MISSING <-> getq lon i = None /\ getq lat i = None).
  Proof.
    intros Hd Hm Hi. rewrite location_refines in Hm by exact Hd. unfold location_spec in Hm.
    destruct bbox as [|minx [|miny [|maxx [|maxy [|? ?]]]]]; try discriminate.
    destruct (negb (Nat.eqb (length lon) (length lat))); [discriminate|].
    inversion Hm; subst fl. rewrite nth_tab by exact Hi. apply location_pt_missing.
  Qed.

  (* ---------------------------------------------------------------- C16 *)

  Lemma hop_exceeds_mono rm rm' lon lat i x y :
    thr_le rm' rm -> hop_exceeds geod rm lon lat i x y = true -> hop_exceeds geod rm' lon lat i x y = true.
  Proof.
    unfold thr_le, hop_exceeds. destruct rm as [r|]; [|discriminate].
    destruct rm' as [r'|]; [|tauto]. intros Hr.
    destruct (Nat.eqb i 0); [auto|].
    destruct (getq lon (i - 1)) as [x0|]; [|auto]. destruct (getq lat (i - 1)) as [y0|]; [|auto].
    rewrite !Qltb_true. lra.
  Qed.

  Lemma out_of_box_mono minx miny maxx maxy minx' miny' maxx' maxy' x y :
    minx <= minx' -> miny <= miny' -> maxx' <= maxx -> maxy' <= maxy ->
    out_of_box minx miny maxx maxy x y = true -> out_of_box minx' miny' maxx' maxy' x y = true.
  Proof. rewrite !out_of_box_iff. intros. lra. Qed.

  (* box nested inside the old one, range_max not larger (None = loosest): never a better flag,
     the MISSING positions unchanged *)
  Lemma location_pt_mono minx miny maxx maxy minx' miny' maxx' maxy' rm rm' lon lat i :
    minx <= minx' -> miny <= miny' -> maxx' <= maxx -> maxy' <= maxy -> thr_le rm' rm ->
    (sev (location_pt geod minx miny maxx maxy rm lon lat i)
       <= sev (location_pt geod minx' miny' maxx' maxy' rm' lon lat i))%nat /\
    not_evaluated (location_pt geod minx miny maxx maxy rm lon lat i)
      = not_evaluated (location_pt geod minx' miny' maxx' maxy' rm' lon lat i).
  Proof.
    intros H1 H2 H3 H4 Hr. unfold location_pt.
    destruct (getq lon i) as [x|], (getq lat i) as [y|]; simpl; auto.
    pose proof (out_of_box_mono minx miny maxx maxy minx' miny' maxx' maxy' x y H1 H2 H3 H4) as Hb.
    pose proof (hop_exceeds_mono rm rm' lon lat i x y Hr) as Hh.
    destruct (out_of_box minx miny maxx maxy x y).
    - rewrite Hb by reflexivity. simpl. auto.
    - destruct (out_of_box minx' miny' maxx' maxy' x y).
      + destruct (hop_exceeds geod rm lon lat i x y); simpl; split; auto; lia.
      + destruct (hop_exceeds geod rm lon lat i x y).
        * rewrite Hh by reflexivity. simpl. auto.
        * destruct (hop_exceeds geod rm' lon lat i x y); simpl; split; auto; lia.
  Qed.

  (* ---------------------------------------------------------------- C17: locality *)

  (* changing position k (either coordinate) can only alter the flags at k and k+1 *)
  Lemma location_pt_local minx miny maxx maxy rm lon lat lon' lat' k i :
    (forall j, j <> k -> getq lon j = getq lon' j) ->
    (forall j, j <> k -> getq lat j = getq lat' j) ->
    i <> k -> (i <> k + 1)%nat ->
    location_pt geod minx miny maxx maxy rm lon lat i = location_pt geod minx miny maxx maxy rm lon' lat' i.
  Proof.
    intros Hx Hy H0 H1. unfold location_pt, hop_exceeds.
    rewrite (Hx i), (Hy i) by exact H0.
    destruct (getq lon' i) as [x|]; [|reflexivity]. destruct (getq lat' i) as [y|]; [|reflexivity].
    destruct (out_of_box minx miny maxx maxy x y); [reflexivity|].
    destruct rm as [r|]; [|reflexivity].
    destruct (Nat.eqb_spec i 0) as [E|E]; [reflexivity|].
    rewrite (Hx (i - 1)%nat), (Hy (i - 1)%nat) by lia. reflexivity.
  Qed.

  (* without range_max (pure bounding-box test) the flag depends on the position itself only *)
  Lemma location_pt_local_box minx miny maxx maxy lon lat lon' lat' i :
    getq lon i = getq lon' i -> getq lat i = getq lat' i ->
    location_pt geod minx miny maxx maxy None lon lat i = location_pt geod minx miny maxx maxy None lon' lat' i.
  Proof. intros Hx Hy. unfold location_pt, hop_exceeds. rewrite Hx, Hy. reflexivity. Qed.

  (* ---------------------------------------------------------------- default box *)

  Lemma location_default_bbox_eq : location_default_bbox = [(-180 # 1); (-90 # 1); (180 # 1); (90 # 1)].
  Proof. reflexivity. Qed.

  Lemma default_box_inside x y :
    qabs x <= 180 -> qabs y <= 90 -> out_of_box (-180 # 1) (-90 # 1) (180 # 1) (90 # 1) x y = false.
  Proof.
    intros Hx Hy. apply out_of_box_false_iff.
    destruct (qabs_case x) as [[? E]|[? E]], (qabs_case y) as [[? E']|[? E']]; rewrite E in Hx; rewrite E' in Hy; lra.
  Qed.

  (* the default box is the whole globe: no present position with |lon| <= 180, |lat| <= 90 fails *)
  Lemma location_default_no_box_fail rm lon lat i x y :
    getq lon i = Some x -> getq lat i = Some y -> qabs x <= 180 -> qabs y <= 90 ->
    location_pt geod (-180 # 1) (-90 # 1) (180 # 1) (90 # 1) rm lon lat i <> FAIL.
  Proof.
    intros Hx Hy Bx By. unfold location_pt. rewrite Hx, Hy, default_box_inside by assumption.
    destruct (hop_exceeds geod rm lon lat i x y); discriminate.
  Qed.

End LocProofs.

(* ---------------------------------------------------------------- the geodesic is used on hops only *)

(* two geodesic routines that agree on the hops of the track (fully present consecutive positions)
   give the same outcome: this is what lets the correspondence harness replace geographiclib by the
   finite table of the track's hop distances *)
Lemma location_model_geod_ext g g' bbox range_max lon lat :
  (forall i y0 x0 y x, i <> 0%nat ->
     getq lat (i - 1) = Some y0 -> getq lon (i - 1) = Some x0 -> getq lat i = Some y -> getq lon i = Some x ->
     g y0 x0 y x = g' y0 x0 y x) ->
  location_model g bbox range_max lon lat = location_model g' bbox range_max lon lat.
Proof.
  intros H. unfold location_model.
  destruct bbox as [|minx [|miny [|maxx [|maxy [|? ?]]]]]; try reflexivity.
  destruct (negb (Nat.eqb (length lon) (length lat))); [reflexivity|].
  destruct range_max as [r|]; [|reflexivity].
  destruct (Nat.ltb 1 (length lon)); [|reflexivity].
  assert (E : great_circle_distance g lon lat = great_circle_distance g' lon lat).
  { unfold great_circle_distance. apply tab_ext. intros i _. unfold hop_dist.
    destruct (Nat.eqb_spec i 0) as [E0|E0]; [reflexivity|].
    destruct (getq lat (i - 1)) as [y0|] eqn:A; [|reflexivity].
    destruct (getq lon (i - 1)) as [x0|] eqn:B; [|reflexivity].
    destruct (getq lat i) as [y|] eqn:C; [|reflexivity].
    destruct (getq lon i) as [x|] eqn:D; [|reflexivity].
    rewrite (H i y0 x0 y x) by assumption. reflexivity. }
  rewrite E. reflexivity.
Qed.

Lemma geod_of_table_hit t a b c d v :
  geod_of_table (((a, b, c, d), v) :: t) a b c d = v.
Proof.
  simpl. rewrite !(proj2 (Qeq_bool_iff _ _)) by reflexivity. reflexivity.
Qed.
