(* DensityProofs.v — density_inversion_test and pressure_increasing_test: refinement of the operational
   models to the pointwise specifications and the laws used by C13 (pair flagging, reversal),
   C02 (missing), C16 (monotone in thresholds), C17 (shift invariance, locality). *)
From IoosQc Require Import Base Density.

Ltac tabs := unfold all_flags; repeat rewrite set_where_tab.

(* ---------------------------------------------------------------- general helpers *)

Lemma qsign_case x :
  (0 < x /\ qsign x = 1) \/ (x == 0 /\ qsign x = 0) \/ (x < 0 /\ qsign x = -1).
Proof.
  unfold qsign. destruct (Qltb_spec 0 x); [left; split; [assumption|reflexivity]|].
  destruct (Qltb_spec x 0); [right; right; split; [assumption|reflexivity]|].
  right; left; split; [lra|reflexivity].
Qed.

Global Instance qsign_Proper : Proper (Qeq ==> eq) qsign.
Proof.
  intros a b H.
  destruct (qsign_case a) as [[? ->]|[[? ->]|[? ->]]],
           (qsign_case b) as [[? ->]|[[? ->]|[? ->]]]; try reflexivity; exfalso; lra.
Qed.

Lemma qsign_opp x : qsign (- x) == - qsign x.
Proof.
  destruct (qsign_case x) as [[? ->]|[[? ->]|[? ->]]],
           (qsign_case (- x)) as [[? ->]|[[? ->]|[? ->]]]; lra.
Qed.

Lemma qsign_div_pos s d : 0 < d -> qsign (s / d) = qsign s.
Proof.
  intros Hd. unfold Qdiv. pose proof (Qinv_lt_0_compat d Hd) as He. set (e := / d) in *.
  destruct (qsign_case s) as [[? ->]|[[? ->]|[? ->]]],
           (qsign_case (s * e)) as [[? ->]|[[? ->]|[? ->]]]; try reflexivity; exfalso; nra.
Qed.

(* equality of observations up to == on the value *)
Definition oeq (a b : obs) : Prop :=
  match a, b with Some x, Some y => x == y | None, None => True | _, _ => False end.

Lemma all_present_get (xs : list obs) i :
  forallb is_some xs = true -> (i < length xs)%nat -> exists v, getq xs i = Some v.
Proof.
  revert i. induction xs as [|x xs IH]; intros i H Hi; [simpl in Hi; lia|].
  simpl in H. apply andb_true_iff in H. destruct H as [Hx H].
  destruct i as [|i].
  - destruct x as [v|]; [exists v; reflexivity|discriminate].
  - apply (IH i H). simpl in Hi. lia.
Qed.

(* ================================================================ density inversion *)

Lemma odiff_get xs j :
  (j < length xs - 1)%nat -> getq (odiff xs) j = olift2 Qminus (getq xs (j + 1)) (getq xs j).
Proof. intros H. unfold odiff. rewrite getq_tab by exact H. reflexivity. Qed.

Lemma pair_delta_beyond rho z j : (length rho <= j + 1)%nat -> pair_delta rho z j = None.
Proof.
  intros H. unfold pair_delta. rewrite (getq_beyond rho (j + 1)) by exact H.
  destruct (option_map qsign _); reflexivity.
Qed.

(* the delta array of the source, read at any index, is the pair quantity of the property *)
Lemma delta_get rho z j :
  length rho = length z -> getq (density_delta rho z) j = pair_delta rho z j.
Proof.
  intros Hl. unfold density_delta.
  destruct (Nat.ltb_spec j (length rho - 1)) as [H|H].
  - rewrite getq_tab by exact H.
    rewrite (odiff_get z) by (rewrite <- Hl; exact H). rewrite (odiff_get rho) by exact H. reflexivity.
  - rewrite getq_beyond by (rewrite tab_length; exact H).
    symmetry. apply pair_delta_beyond. lia.
Qed.

(* refinement: for ALL lengths (incl. unequal -> ValueError, 0, 1), all missing placements, all
   threshold pairs *)
Lemma density_refines st ft rho z : density_model st ft rho z = density_spec st ft rho z.
Proof.
  unfold density_model, density_spec.
  destruct (Nat.eqb (length rho) (length z)) eqn:Hl; cbn [negb]; [|reflexivity].
  apply Nat.eqb_eq in Hl.
  destruct rho as [|r0 [|r1 rho']]; [reflexivity|reflexivity|].
  remember (r0 :: r1 :: rho') as rho eqn:Erho.
  assert (Hn : (2 <= length rho)%nat) by (subst; simpl; lia).
  clear Erho.
  destruct (Nat.eqb_spec (length rho) 0); [lia|].
  destruct (Nat.ltb_spec (length rho) 2); [lia|].
  tabs. f_equal. apply tab_ext. intros i Hi.
  unfold density_pt.
  destruct (Nat.eqb_spec (length rho) 1); [lia|].
  rewrite !delta_get by exact Hl.
  unfold pair_flag, dens_decide, below_thr.
  destruct (Nat.eqb i 0), (rec_missing rho z i), (rec_missing rho z (i - 1)),
           (pair_delta rho z (i - 1)) as [d1|], (pair_delta rho z i) as [d0|], ft as [t|], st as [u|];
    repeat match goal with |- context [Qltb ?a ?b] => destruct (Qltb a b) end; reflexivity.
Qed.

Lemma density_shape_mismatch st ft rho z :
  length rho <> length z -> density_model st ft rho z = Raises ValueError.
Proof.
  intros H. unfold density_model. apply Nat.eqb_neq in H. rewrite H. reflexivity.
Qed.

Lemma density_single st ft r d : density_model st ft [r] [d] = Flags [UNKNOWN].
Proof. reflexivity. Qed.

Lemma density_empty st ft : density_model st ft [] [] = Flags [].
Proof. reflexivity. Qed.

(* ---------------------------------------------------------------- decision list on a pair *)

Lemma dens_decide_fail st ft d : dens_decide st ft d = FAIL <-> exists t, ft = Some t /\ d < t.
Proof.
  unfold dens_decide. destruct ft as [t|].
  - destruct (Qltb_spec d t).
    + split; [intros _; exists t; auto|reflexivity].
    + split.
      * destruct st as [u|]; [destruct (Qltb d u)|]; congruence.
      * intros [t' [E H]]. inversion E; subst. tauto.
  - split.
    + destruct st as [u|]; [destruct (Qltb d u)|]; congruence.
    + intros [t' [E _]]. congruence.
Qed.

Lemma dens_decide_suspect st ft d :
  dens_decide st ft d = SUSPECT <->
  (forall t, ft = Some t -> t <= d) /\ exists u, st = Some u /\ d < u.
Proof.
  unfold dens_decide. destruct ft as [t|].
  - destruct (Qltb_spec d t).
    + split; [congruence|]. intros [H _]. specialize (H t eq_refl). lra.
    + destruct st as [u|].
      * destruct (Qltb_spec d u).
        -- split; [|reflexivity]. intros _. split; [intros ? E; inversion E; subst; lra|]. exists u; auto.
        -- split; [congruence|]. intros [_ [u' [E H]]]. inversion E; subst. tauto.
      * split; [congruence|]. intros [_ [u' [E _]]]. congruence.
  - destruct st as [u|].
    + destruct (Qltb_spec d u).
      * split; [|reflexivity]. intros _. split; [intros ? E; congruence|]. exists u; auto.
      * split; [congruence|]. intros [_ [u' [E H]]]. inversion E; subst. tauto.
    + split; [congruence|]. intros [_ [u' [E _]]]. congruence.
Qed.

Lemma dens_decide_good st ft d :
  dens_decide st ft d = GOOD <-> (forall t, ft = Some t -> t <= d) /\ (forall u, st = Some u -> u <= d).
Proof.
  unfold dens_decide. destruct ft as [t|], st as [u|];
    repeat match goal with |- context [Qltb ?a ?b] => destruct (Qltb_spec a b) end;
    (split; [try congruence; intros _; split; intros ? E; inversion E; subst; lra
            | try reflexivity; intros [H1 H2];
              try (specialize (H1 _ eq_refl)); try (specialize (H2 _ eq_refl)); try lra ]).
Qed.

(* a change exactly on a threshold is not an inversion *)
Lemma dens_decide_on_thr st ft d :
  (forall t, ft = Some t -> t <= d) -> (forall u, st = Some u -> u <= d) -> dens_decide st ft d = GOOD.
Proof. intros. apply dens_decide_good. auto. Qed.

Lemma dens_decide_range st ft d :
  dens_decide st ft d = GOOD \/ dens_decide st ft d = SUSPECT \/ dens_decide st ft d = FAIL.
Proof.
  unfold dens_decide. destruct (match ft with Some t => Qltb d t | None => false end); [auto|].
  destruct (match st with Some t => Qltb d t | None => false end); auto.
Qed.

Lemma dens_decide_evaluated st ft d : not_evaluated (dens_decide st ft d) = false.
Proof. destruct (dens_decide_range st ft d) as [-> | [-> | ->]]; reflexivity. Qed.

Global Instance dens_decide_Proper st ft : Proper (Qeq ==> eq) (dens_decide st ft).
Proof.
  intros a b H. unfold dens_decide. destruct ft as [t|], st as [u|]; rewrite ?H; reflexivity.
Qed.

(* C16 on one pair: thresholds not smaller (or a threshold added) never give a better verdict *)
Lemma dens_decide_mono st ft st' ft' d :
  thr_ge st' st -> thr_ge ft' ft -> (sev (dens_decide st ft d) <= sev (dens_decide st' ft' d))%nat.
Proof.
  unfold thr_ge, dens_decide. intros Hs Hf.
  destruct ft as [t|], ft' as [t'|], st as [u|], st' as [u'|]; try tauto;
    repeat match goal with |- context [Qltb ?a ?b] => destruct (Qltb_spec a b) end;
    simpl; try lia; exfalso; lra.
Qed.

(* ---------------------------------------------------------------- the pair quantity *)

Lemma pair_delta_some rho z j r0 r1 z0 z1 :
  getq rho j = Some r0 -> getq rho (j + 1) = Some r1 -> getq z j = Some z0 -> getq z (j + 1) = Some z1 ->
  pair_delta rho z j = Some (qsign (z1 - z0) * (r1 - r0)).
Proof. intros H0 H1 H2 H3. unfold pair_delta. rewrite H0, H1, H2, H3. reflexivity. Qed.

(* a pair is evaluated exactly when its four numbers are present *)
Lemma pair_delta_defined rho z j :
  pair_delta rho z j <> None <->
  rec_missing rho z j = false /\ rec_missing rho z (j + 1) = false.
Proof.
  unfold pair_delta, rec_missing, missing_at.
  destruct (getq rho j), (getq rho (j + 1)), (getq z j), (getq z (j + 1)); simpl;
    split; try congruence; try tauto; intros [? ?]; congruence.
Qed.

(* deeper second point: the density step itself; shallower second point: its negative *)
Lemma pair_delta_down rho z j r0 r1 z0 z1 :
  getq rho j = Some r0 -> getq rho (j + 1) = Some r1 -> getq z j = Some z0 -> getq z (j + 1) = Some z1 ->
  z0 < z1 -> oeq (pair_delta rho z j) (Some (r1 - r0)).
Proof.
  intros H0 H1 H2 H3 Hz. rewrite (pair_delta_some _ _ _ _ _ _ _ H0 H1 H2 H3). simpl.
  destruct (qsign_case (z1 - z0)) as [[? ->]|[[? ->]|[? ->]]]; lra.
Qed.

Lemma pair_delta_up rho z j r0 r1 z0 z1 :
  getq rho j = Some r0 -> getq rho (j + 1) = Some r1 -> getq z j = Some z0 -> getq z (j + 1) = Some z1 ->
  z1 < z0 -> oeq (pair_delta rho z j) (Some (r0 - r1)).
Proof.
  intros H0 H1 H2 H3 Hz. rewrite (pair_delta_some _ _ _ _ _ _ _ H0 H1 H2 H3). simpl.
  destruct (qsign_case (z1 - z0)) as [[? ->]|[[? ->]|[? ->]]]; lra.
Qed.

Lemma pair_delta_const_depth rho z j r0 r1 z0 z1 :
  getq rho j = Some r0 -> getq rho (j + 1) = Some r1 -> getq z j = Some z0 -> getq z (j + 1) = Some z1 ->
  z1 == z0 -> oeq (pair_delta rho z j) (Some 0).
Proof.
  intros H0 H1 H2 H3 Hz. rewrite (pair_delta_some _ _ _ _ _ _ _ H0 H1 H2 H3). simpl.
  destruct (qsign_case (z1 - z0)) as [[? ->]|[[? ->]|[? ->]]]; lra.
Qed.

Lemma pair_flag_oeq st ft rho z j rho' z' j' :
  oeq (pair_delta rho z j) (pair_delta rho' z' j') -> pair_flag st ft rho z j = pair_flag st ft rho' z' j'.
Proof.
  unfold pair_flag, oeq. destruct (pair_delta rho z j), (pair_delta rho' z' j'); try tauto.
  intros H. apply dens_decide_Proper. exact H.
Qed.

Lemma pair_flag_oeq_val st ft rho z j d :
  oeq (pair_delta rho z j) (Some d) -> pair_flag st ft rho z j = dens_decide st ft d.
Proof.
  unfold pair_flag, oeq. destruct (pair_delta rho z j); [|tauto].
  intros H. apply dens_decide_Proper. exact H.
Qed.

(* a pair at constant depth is judged on a density change of zero: flagged iff a threshold is positive *)
Lemma density_const_depth st ft rho z j r0 r1 z0 z1 :
  getq rho j = Some r0 -> getq rho (j + 1) = Some r1 -> getq z j = Some z0 -> getq z (j + 1) = Some z1 ->
  z1 == z0 -> pair_flag st ft rho z j = dens_decide st ft 0.
Proof.
  intros H0 H1 H2 H3 Hz. apply pair_flag_oeq_val.
  exact (pair_delta_const_depth _ _ _ _ _ _ _ H0 H1 H2 H3 Hz).
Qed.

Lemma pair_flag_range st ft rho z j :
  pair_flag st ft rho z j = GOOD \/ pair_flag st ft rho z j = SUSPECT \/ pair_flag st ft rho z j = FAIL.
Proof. unfold pair_flag. destruct (pair_delta rho z j); [apply dens_decide_range|auto]. Qed.

Lemma pair_flag_fail st ft rho z j :
  pair_flag st ft rho z j = FAIL <-> exists d t, pair_delta rho z j = Some d /\ ft = Some t /\ d < t.
Proof.
  unfold pair_flag. destruct (pair_delta rho z j) as [d|].
  - rewrite dens_decide_fail. split.
    + intros [t H]. exists d, t. tauto.
    + intros [d' [t [E H]]]. inversion E; subst. exists t. exact H.
  - split; [congruence|]. intros [d [t [E _]]]. congruence.
Qed.

Lemma pair_flag_suspect st ft rho z j :
  pair_flag st ft rho z j = SUSPECT <->
  exists d, pair_delta rho z j = Some d /\ (forall t, ft = Some t -> t <= d) /\ exists u, st = Some u /\ d < u.
Proof.
  unfold pair_flag. destruct (pair_delta rho z j) as [d|].
  - rewrite dens_decide_suspect. split.
    + intros H. exists d. tauto.
    + intros [d' [E H]]. inversion E; subst. exact H.
  - split; [congruence|]. intros [d [E _]]. congruence.
Qed.

Lemma pair_flag_good st ft rho z j :
  pair_flag st ft rho z j = GOOD <->
  forall d, pair_delta rho z j = Some d ->
            (forall t, ft = Some t -> t <= d) /\ (forall u, st = Some u -> u <= d).
Proof.
  unfold pair_flag. destruct (pair_delta rho z j) as [d|].
  - rewrite dens_decide_good. split.
    + intros H d' E. inversion E; subst. exact H.
    + intros H. apply H. reflexivity.
  - split; [intros _ d E; congruence|reflexivity].
Qed.

(* ---------------------------------------------------------------- worse *)

Lemma worse_fail a b : worse a b = FAIL <-> a = FAIL \/ b = FAIL.
Proof. destruct a, b; simpl; split; intros; try congruence; auto; destruct H; congruence. Qed.

Lemma worse_suspect a b :
  worse a b = SUSPECT <-> a <> FAIL /\ b <> FAIL /\ (a = SUSPECT \/ b = SUSPECT).
Proof.
  destruct a, b; simpl; split; intros H; try congruence;
    try (repeat split; try congruence; auto; fail);
    try (destruct H as [H1 [H2 [H3|H3]]]; congruence).
Qed.

Lemma worse_good a b :
  worse a b = GOOD <-> a <> FAIL /\ b <> FAIL /\ a <> SUSPECT /\ b <> SUSPECT.
Proof.
  destruct a, b; simpl; split; intros H; try congruence;
    try (repeat split; congruence); destruct H as [H1 [H2 [H3 H4]]]; congruence.
Qed.

Lemma worse_comm a b : worse a b = worse b a.
Proof. destruct a, b; reflexivity. Qed.

Lemma worse_evaluated a b : not_evaluated (worse a b) = false.
Proof. destruct a, b; reflexivity. Qed.

Lemma worse_mono a b a' b' :
  (sev a <= sev a')%nat -> (sev b <= sev b')%nat -> (sev (worse a b) <= sev (worse a' b'))%nat.
Proof. destruct a, b, a', b'; simpl; lia. Qed.

(* ---------------------------------------------------------------- the per-point decision *)

(* pairs that contain point i *)
Definition adjacent (i j : nat) : Prop := j = i \/ (i <> 0%nat /\ j = (i - 1)%nat).

(* point i is judged: not a single-point profile, its record and the previous record are complete *)
Definition judged (rho z : list obs) (i : nat) : Prop :=
  length rho <> 1%nat /\ rec_missing rho z i = false /\ (i <> 0%nat -> rec_missing rho z (i - 1) = false).

Lemma density_pt_judged st ft rho z i :
  judged rho z i ->
  density_pt st ft rho z i =
  worse (if Nat.eqb i 0 then GOOD else pair_flag st ft rho z (i - 1)) (pair_flag st ft rho z i).
Proof.
  intros [H1 [H2 H3]]. unfold density_pt. apply Nat.eqb_neq in H1. rewrite H1, H2.
  destruct (Nat.eqb_spec i 0) as [E|E]; [reflexivity|]. rewrite (H3 E). reflexivity.
Qed.

Lemma density_pt_not_judged st ft rho z i :
  ~ judged rho z i -> density_pt st ft rho z i = UNKNOWN \/ density_pt st ft rho z i = MISSING.
Proof.
  intros H. unfold density_pt. destruct (Nat.eqb_spec (length rho) 1) as [E|E]; [auto|].
  destruct (rec_missing rho z i) eqn:M; [auto|].
  destruct (Nat.eqb_spec i 0) as [E0|E0]; simpl.
  - exfalso. apply H. repeat split; auto. intros; contradiction.
  - destruct (rec_missing rho z (i - 1)) eqn:M1; [auto|].
    exfalso. apply H. repeat split; auto.
Qed.

Lemma density_pt_unknown st ft rho z i : density_pt st ft rho z i = UNKNOWN <-> length rho = 1%nat.
Proof.
  unfold density_pt. destruct (Nat.eqb_spec (length rho) 1) as [E|E]; [tauto|].
  split; [|tauto].
  destruct (rec_missing rho z i || negb (Nat.eqb i 0) && rec_missing rho z (i - 1)); [congruence|].
  intros H. pose proof (worse_evaluated (if Nat.eqb i 0 then GOOD else pair_flag st ft rho z (i - 1))
                          (pair_flag st ft rho z i)) as N.
  rewrite H in N. discriminate.
Qed.

Lemma density_pt_missing_iff st ft rho z i :
  density_pt st ft rho z i = MISSING <->
  length rho <> 1%nat /\ (rec_missing rho z i = true \/ (i <> 0%nat /\ rec_missing rho z (i - 1) = true)).
Proof.
  unfold density_pt. destruct (Nat.eqb_spec (length rho) 1) as [E|E].
  - split; [congruence|tauto].
  - destruct (rec_missing rho z i) eqn:M; cbn [orb].
    + split; auto.
    + destruct (Nat.eqb_spec i 0) as [E0|E0]; cbn [negb andb].
      * split.
        -- intros H. pose proof (worse_evaluated GOOD (pair_flag st ft rho z i)) as N.
           rewrite H in N. discriminate.
        -- intros [_ [H|[H _]]]; [discriminate|contradiction].
      * destruct (rec_missing rho z (i - 1)) eqn:M1.
        -- split; auto.
        -- split.
           ++ intros H. pose proof (worse_evaluated (pair_flag st ft rho z (i - 1)) (pair_flag st ft rho z i)) as N.
              rewrite H in N. discriminate.
           ++ intros [_ [H|[_ H]]]; discriminate.
Qed.

Lemma judged_dec rho z i : judged rho z i \/ ~ judged rho z i.
Proof.
  unfold judged. destruct (Nat.eq_dec (length rho) 1); [right; tauto|].
  destruct (rec_missing rho z i); [right; intros [_ [? _]]; discriminate|].
  destruct (Nat.eq_dec i 0).
  - left. repeat split; auto. intros; contradiction.
  - destruct (rec_missing rho z (i - 1)) eqn:M.
    + right. intros [_ [_ H]]. specialize (H n0). discriminate.
    + left. repeat split; auto.
Qed.

Lemma density_pt_evaluated_judged st ft rho z i :
  not_evaluated (density_pt st ft rho z i) = false -> judged rho z i.
Proof.
  intros H. destruct (judged_dec rho z i) as [J|J]; [exact J|].
  destruct (density_pt_not_judged st ft rho z i J) as [E|E]; rewrite E in H; discriminate.
Qed.

Lemma density_pt_fail st ft rho z i :
  density_pt st ft rho z i = FAIL <->
  judged rho z i /\ exists j, adjacent i j /\ pair_flag st ft rho z j = FAIL.
Proof.
  split.
  - intros H. assert (J : judged rho z i) by (apply (density_pt_evaluated_judged st ft); rewrite H; reflexivity).
    split; [exact J|]. rewrite (density_pt_judged _ _ _ _ _ J) in H. apply worse_fail in H.
    destruct H as [H|H].
    + destruct (Nat.eqb_spec i 0); [discriminate|]. exists (i - 1)%nat. split; [right; auto|exact H].
    + exists i. split; [left; reflexivity|exact H].
  - intros [J [j [[->|[N ->]] H]]]; rewrite (density_pt_judged _ _ _ _ _ J); apply worse_fail.
    + right; exact H.
    + left. destruct (Nat.eqb_spec i 0); [contradiction|exact H].
Qed.

Lemma density_pt_suspect st ft rho z i :
  density_pt st ft rho z i = SUSPECT <->
  judged rho z i /\ (forall j, adjacent i j -> pair_flag st ft rho z j <> FAIL) /\
  exists j, adjacent i j /\ pair_flag st ft rho z j = SUSPECT.
Proof.
  split.
  - intros H. assert (J : judged rho z i) by (apply (density_pt_evaluated_judged st ft); rewrite H; reflexivity).
    split; [exact J|]. rewrite (density_pt_judged _ _ _ _ _ J) in H. apply worse_suspect in H.
    destruct H as [H1 [H2 H3]]. split.
    + intros j [->|[N ->]]; [exact H2|]. destruct (Nat.eqb_spec i 0); [contradiction|exact H1].
    + destruct H3 as [H3|H3].
      * destruct (Nat.eqb_spec i 0); [discriminate|]. exists (i - 1)%nat. split; [right; auto|exact H3].
      * exists i. split; [left; reflexivity|exact H3].
  - intros [J [HF [j [A H]]]]. rewrite (density_pt_judged _ _ _ _ _ J). apply worse_suspect.
    split; [|split].
    + destruct (Nat.eqb_spec i 0); [discriminate|]. apply HF. right; auto.
    + apply HF. left; reflexivity.
    + destruct A as [->|[N ->]]; [right; exact H|]. left. destruct (Nat.eqb_spec i 0); [contradiction|exact H].
Qed.

Lemma density_pt_good st ft rho z i :
  density_pt st ft rho z i = GOOD <->
  judged rho z i /\ forall j, adjacent i j -> pair_flag st ft rho z j = GOOD.
Proof.
  split.
  - intros H. assert (J : judged rho z i) by (apply (density_pt_evaluated_judged st ft); rewrite H; reflexivity).
    split; [exact J|]. rewrite (density_pt_judged _ _ _ _ _ J) in H. apply worse_good in H.
    destruct H as [H1 [H2 [H3 H4]]].
    intros j [->|[N ->]].
    + destruct (pair_flag_range st ft rho z i) as [E|[E|E]]; congruence.
    + destruct (Nat.eqb_spec i 0); [contradiction|].
      destruct (pair_flag_range st ft rho z (i - 1)) as [E|[E|E]]; congruence.
  - intros [J H]. rewrite (density_pt_judged _ _ _ _ _ J). apply worse_good.
    assert (H0 : pair_flag st ft rho z i = GOOD) by (apply H; left; reflexivity).
    destruct (Nat.eqb_spec i 0) as [E|E].
    + rewrite H0. repeat split; congruence.
    + assert (H1 : pair_flag st ft rho z (i - 1) = GOOD) by (apply H; right; auto).
      rewrite H0, H1. repeat split; congruence.
Qed.

(* both members of an inverted pair are flagged: the second one always, the first one unless the
   record before it is incomplete (then it is MISSING by the "following record" rule) *)
Lemma pair_present_length rho z j : pair_delta rho z j <> None -> (j + 1 < length rho)%nat.
Proof.
  intros H. destruct (Nat.ltb_spec (j + 1) (length rho)) as [L|L]; [exact L|].
  exfalso. apply H. apply pair_delta_beyond. exact L.
Qed.

Lemma density_pair_fail_both st ft rho z j :
  pair_flag st ft rho z j = FAIL ->
  density_pt st ft rho z (j + 1) = FAIL /\
  (density_pt st ft rho z j = FAIL \/ (j <> 0%nat /\ rec_missing rho z (j - 1) = true /\ density_pt st ft rho z j = MISSING)).
Proof.
  intros H.
  assert (D : pair_delta rho z j <> None).
  { apply pair_flag_fail in H. destruct H as [d [t [E _]]]. congruence. }
  pose proof (pair_present_length _ _ _ D) as L.
  apply pair_delta_defined in D. destruct D as [M0 M1].
  assert (N1 : length rho <> 1%nat) by lia.
  split.
  - apply density_pt_fail. split.
    + repeat split; auto. intros _. replace (j + 1 - 1)%nat with j by lia. exact M0.
    + exists j. split; [right; split; lia|exact H].
  - destruct (Nat.eq_dec j 0) as [E|E].
    + left. apply density_pt_fail. split; [repeat split; auto; intros; contradiction|].
      exists j. split; [left; reflexivity|exact H].
    + destruct (rec_missing rho z (j - 1)) eqn:M.
      * right. repeat split; auto. apply density_pt_missing_iff. split; auto.
      * left. apply density_pt_fail. split; [repeat split; auto|].
        exists j. split; [left; reflexivity|exact H].
Qed.

Lemma density_pair_suspect_both st ft rho z j :
  pair_flag st ft rho z j = SUSPECT ->
  (density_pt st ft rho z (j + 1) = SUSPECT \/ density_pt st ft rho z (j + 1) = FAIL) /\
  (density_pt st ft rho z j = SUSPECT \/ density_pt st ft rho z j = FAIL \/
   (j <> 0%nat /\ rec_missing rho z (j - 1) = true /\ density_pt st ft rho z j = MISSING)).
Proof.
  intros H.
  assert (D : pair_delta rho z j <> None).
  { apply pair_flag_suspect in H. destruct H as [d [E _]]. congruence. }
  pose proof (pair_present_length _ _ _ D) as L.
  apply pair_delta_defined in D. destruct D as [M0 M1].
  assert (N1 : length rho <> 1%nat) by lia.
  assert (J1 : judged rho z (j + 1)).
  { repeat split; auto. intros _. replace (j + 1 - 1)%nat with j by lia. exact M0. }
  split.
  - rewrite (density_pt_judged _ _ _ _ _ J1).
    destruct (Nat.eqb_spec (j + 1) 0); [lia|]. replace (j + 1 - 1)%nat with j by lia. rewrite H.
    destruct (pair_flag_range st ft rho z (j + 1)) as [E|[E|E]]; rewrite E; simpl; auto.
  - destruct (judged_dec rho z j) as [J|J].
    + rewrite (density_pt_judged _ _ _ _ _ J). rewrite H.
      destruct (Nat.eqb j 0); [simpl; auto|].
      destruct (pair_flag_range st ft rho z (j - 1)) as [E|[E|E]]; rewrite E; simpl; auto.
    + right; right. unfold judged in J.
      destruct (Nat.eq_dec j 0) as [E|E]; [exfalso; apply J; repeat split; auto; intros; contradiction|].
      destruct (rec_missing rho z (j - 1)) eqn:M; [|exfalso; apply J; repeat split; auto].
      repeat split; auto. apply density_pt_missing_iff. split; auto.
Qed.

(* ---------------------------------------------------------------- reversal (upcast vs downcast) *)

Lemma pair_delta_rev rho z j :
  length rho = length z -> (j + 1 < length rho)%nat ->
  oeq (pair_delta (rev rho) (rev z) j) (pair_delta rho z (length rho - 2 - j)).
Proof.
  intros Hl Hj. unfold pair_delta.
  rewrite !getq_rev by lia. rewrite <- Hl.
  set (k := (length rho - 2 - j)%nat).
  replace (length rho - 1 - (j + 1))%nat with k by lia.
  replace (length rho - 1 - j)%nat with (k + 1)%nat by lia.
  destruct (getq z k) as [z0|], (getq z (k + 1)) as [z1|], (getq rho k) as [r0|], (getq rho (k + 1)) as [r1|];
    simpl; trivial.
  destruct (qsign_case (z0 - z1)) as [[? ->]|[[? ->]|[? ->]]],
           (qsign_case (z1 - z0)) as [[? ->]|[[? ->]|[? ->]]]; lra.
Qed.

Lemma pair_flag_rev st ft rho z j :
  length rho = length z -> (j + 1 < length rho)%nat ->
  pair_flag st ft (rev rho) (rev z) j = pair_flag st ft rho z (length rho - 2 - j).
Proof. intros Hl Hj. apply pair_flag_oeq. apply pair_delta_rev; assumption. Qed.

Lemma pair_flag_beyond st ft rho z j : (length rho <= j + 1)%nat -> pair_flag st ft rho z j = GOOD.
Proof. intros H. unfold pair_flag. rewrite pair_delta_beyond by exact H. reflexivity. Qed.

Lemma rec_missing_rev rho z k :
  length rho = length z -> (k < length rho)%nat ->
  rec_missing (rev rho) (rev z) k = rec_missing rho z (length rho - 1 - k).
Proof.
  intros Hl Hk. unfold rec_missing, missing_at. rewrite !getq_rev by lia. rewrite <- Hl. reflexivity.
Qed.

Lemma density_pt_rev st ft rho z i :
  length rho = length z ->
  (forall k, (k < length rho)%nat -> rec_missing rho z k = false) ->
  (i < length rho)%nat ->
  density_pt st ft (rev rho) (rev z) i = density_pt st ft rho z (length rho - 1 - i).
Proof.
  intros Hl Hp Hi.
  assert (Hm : forall k, (k < length rho)%nat -> rec_missing (rev rho) (rev z) k = false).
  { intros k Hk. rewrite rec_missing_rev by assumption. apply Hp. lia. }
  unfold density_pt. rewrite rev_length.
  destruct (Nat.eqb_spec (length rho) 1) as [E1|E1]; [reflexivity|].
  set (n := length rho) in *.
  rewrite (Hm i Hi), (Hp (n - 1 - i)%nat) by lia. cbn [orb].
  assert (Ea : negb (Nat.eqb i 0) && rec_missing (rev rho) (rev z) (i - 1) = false).
  { destruct (Nat.eqb_spec i 0); [reflexivity|]. rewrite Hm by lia. reflexivity. }
  assert (Eb : negb (Nat.eqb (n - 1 - i) 0) && rec_missing rho z (n - 1 - i - 1) = false).
  { destruct (Nat.eqb_spec (n - 1 - i) 0); [reflexivity|]. rewrite Hp by lia. reflexivity. }
  rewrite Ea, Eb.
  destruct (Nat.eqb_spec i 0) as [E0|E0]; destruct (Nat.eqb_spec (n - 1 - i) 0) as [E2|E2]; try lia.
  - (* first point of the reversed profile = last point of the original *)
    rewrite (pair_flag_rev st ft rho z i) by (fold n; lia || assumption). fold n.
    rewrite (pair_flag_beyond st ft rho z (n - 1 - i)) by (fold n; lia).
    replace (n - 2 - i)%nat with (n - 1 - i - 1)%nat by lia. apply worse_comm.
  - (* last point of the reversed profile = first point of the original *)
    rewrite (pair_flag_beyond st ft (rev rho) (rev z) i) by (rewrite rev_length; fold n; lia).
    rewrite (pair_flag_rev st ft rho z (i - 1)) by (fold n; lia || assumption). fold n.
    replace (n - 2 - (i - 1))%nat with (n - 1 - i)%nat by lia. apply worse_comm.
  - rewrite (pair_flag_rev st ft rho z (i - 1)) by (fold n; lia || assumption).
    rewrite (pair_flag_rev st ft rho z i) by (fold n; lia || assumption). fold n.
    replace (n - 2 - (i - 1))%nat with (n - 1 - i)%nat by lia.
    replace (n - 2 - i)%nat with (n - 1 - i - 1)%nat by lia. apply worse_comm.
Qed.

(* a complete profile and the same profile in reverse order receive mirrored flags *)
Lemma density_reverse st ft rho z :
  (forall k, (k < length rho)%nat -> rec_missing rho z k = false) ->
  density_spec st ft (rev rho) (rev z) =
  match density_spec st ft rho z with Flags l => Flags (rev l) | Raises e => Raises e end.
Proof.
  intros Hp. unfold density_spec. rewrite !rev_length.
  destruct (Nat.eqb (length rho) (length z)) eqn:Hl; cbn [negb]; [|reflexivity].
  apply Nat.eqb_eq in Hl. f_equal. rewrite rev_tab. apply tab_ext. intros i Hi.
  apply density_pt_rev; assumption.
Qed.

Lemma density_model_reverse st ft rho z :
  (forall k, (k < length rho)%nat -> rec_missing rho z k = false) ->
  density_model st ft (rev rho) (rev z) =
  match density_model st ft rho z with Flags l => Flags (rev l) | Raises e => Raises e end.
Proof. intros Hp. rewrite !density_refines. apply density_reverse. exact Hp. Qed.

(* the hypothesis is needed: "this record and the following one" is directional *)
Lemma density_reverse_needs_present :
  exists st ft rho z,
    density_spec st ft (rev rho) (rev z) <>
    match density_spec st ft rho z with Flags l => Flags (rev l) | Raises e => Raises e end.
Proof.
  exists None, None, [Some 1; None; Some 1; Some 1], [Some 1; Some 2; Some 3; Some 4].
  vm_compute. discriminate.
Qed.

(* ---------------------------------------------------------------- C02: missing values *)

Lemma density_pt_missing st ft rho z i :
  rec_missing rho z i = true ->
  density_pt st ft rho z i = MISSING \/ (length rho = 1%nat /\ density_pt st ft rho z i = UNKNOWN).
Proof.
  intros H. unfold density_pt. rewrite H. destruct (Nat.eqb_spec (length rho) 1); auto.
Qed.

Lemma density_pt_missing_only st ft rho z i x :
  getq rho i = Some x -> density_pt st ft rho z i = MISSING ->
  getq z i = None \/ (i <> 0%nat /\ rec_missing rho z (i - 1) = true).
Proof.
  intros Hx H. apply density_pt_missing_iff in H. destruct H as [_ [H|H]]; [|auto].
  left. unfold rec_missing, missing_at in H. rewrite Hx in H. simpl in H.
  destruct (getq z i); [discriminate|reflexivity].
Qed.

(* ---------------------------------------------------------------- C16 *)

Lemma pair_flag_mono st ft st' ft' rho z j :
  thr_ge st' st -> thr_ge ft' ft ->
  (sev (pair_flag st ft rho z j) <= sev (pair_flag st' ft' rho z j))%nat.
Proof.
  intros Hs Hf. unfold pair_flag. destruct (pair_delta rho z j); [|simpl; lia].
  apply dens_decide_mono; assumption.
Qed.

Lemma density_pt_mono st ft st' ft' rho z i :
  thr_ge st' st -> thr_ge ft' ft ->
  (sev (density_pt st ft rho z i) <= sev (density_pt st' ft' rho z i))%nat /\
  not_evaluated (density_pt st ft rho z i) = not_evaluated (density_pt st' ft' rho z i).
Proof.
  intros Hs Hf. unfold density_pt.
  destruct (Nat.eqb (length rho) 1); [simpl; auto|].
  destruct (rec_missing rho z i || negb (Nat.eqb i 0) && rec_missing rho z (i - 1)); [simpl; auto|].
  split; [|rewrite !worse_evaluated; reflexivity].
  apply worse_mono; [|apply pair_flag_mono; assumption].
  destruct (Nat.eqb i 0); [lia|apply pair_flag_mono; assumption].
Qed.

(* ---------------------------------------------------------------- C17 *)

Lemma missing_at_map (f : Q -> Q) xs i : missing_at (map (option_map f) xs) i = missing_at xs i.
Proof. unfold missing_at. rewrite getq_map. destruct (getq xs i); reflexivity. Qed.

Lemma pair_delta_shift_rho c rho z j :
  oeq (pair_delta (map (option_map (fun v => v + c)) rho) z j) (pair_delta rho z j).
Proof.
  unfold pair_delta, obs in *. rewrite !getq_map.
  destruct (getq z j), (getq z (j + 1)), (getq rho j) as [r0|], (getq rho (j + 1)) as [r1|]; simpl; trivial.
  assert (E : r1 + c - (r0 + c) == r1 - r0) by ring. rewrite E. reflexivity.
Qed.

Lemma pair_delta_shift_z c rho z j :
  oeq (pair_delta rho (map (option_map (fun v => v + c)) z) j) (pair_delta rho z j).
Proof.
  unfold pair_delta, obs in *. rewrite !getq_map.
  destruct (getq z j) as [z0|], (getq z (j + 1)) as [z1|], (getq rho j) as [r0|], (getq rho (j + 1)) as [r1|];
    simpl; trivial.
  assert (E : z1 + c - (z0 + c) == z1 - z0) by ring. rewrite E. reflexivity.
Qed.

(* adding a constant to every density leaves every flag unchanged *)
Lemma density_pt_shift st ft c rho z i :
  density_pt st ft (map (option_map (fun v => v + c)) rho) z i = density_pt st ft rho z i.
Proof.
  unfold density_pt, rec_missing. rewrite map_length, !missing_at_map.
  rewrite !(pair_flag_oeq st ft _ _ _ _ _ _ (pair_delta_shift_rho c rho z _)). reflexivity.
Qed.

Lemma density_spec_shift st ft c rho z :
  density_spec st ft (map (option_map (fun v => v + c)) rho) z = density_spec st ft rho z.
Proof.
  unfold density_spec. rewrite map_length.
  destruct (negb _); [reflexivity|].
  f_equal. apply tab_ext. intros i _. apply density_pt_shift.
Qed.

(* so does adding a constant to every depth *)
Lemma density_pt_shift_depth st ft c rho z i :
  density_pt st ft rho (map (option_map (fun v => v + c)) z) i = density_pt st ft rho z i.
Proof.
  unfold density_pt, rec_missing. rewrite !missing_at_map.
  rewrite !(pair_flag_oeq st ft _ _ _ _ _ _ (pair_delta_shift_z c rho z _)). reflexivity.
Qed.

(* locality: changing record k (density and/or depth) can only alter the flags at k-1, k, k+1 *)
Lemma density_pt_local st ft rho z rho' z' k i :
  length rho = length rho' ->
  (forall j, j <> k -> getq rho j = getq rho' j) ->
  (forall j, j <> k -> getq z j = getq z' j) ->
  i <> k -> (i + 1 <> k)%nat -> (i <> k + 1)%nat ->
  density_pt st ft rho z i = density_pt st ft rho' z' i.
Proof.
  intros Hl Hr Hz H0 H1 H2. unfold density_pt, pair_flag, pair_delta, rec_missing, missing_at.
  rewrite Hl. rewrite (Hr i), (Hz i) by exact H0. rewrite (Hr (i + 1)%nat), (Hz (i + 1)%nat) by exact H1.
  destruct (Nat.eqb_spec i 0) as [E|E]; [reflexivity|].
  rewrite (Hr (i - 1)%nat), (Hz (i - 1)%nat) by lia.
  replace (i - 1 + 1)%nat with i by lia. rewrite (Hr i), (Hz i) by exact H0. reflexivity.
Qed.

(* ================================================================ pressure increasing *)

Lemma odiff_cons (a b : obs) r : odiff (a :: b :: r) = olift2 Qminus b a :: odiff (b :: r).
Proof.
  unfold odiff.
  replace (length (a :: b :: r) - 1)%nat with (S (length r)) by (simpl; lia).
  replace (length (b :: r) - 1)%nat with (length r) by (simpl; lia).
  rewrite tab_S. reflexivity.
Qed.

(* telescoping: the sum of the successive differences of a complete series is last - first *)
Lemma pressure_sum_telescopes ps f l :
  forallb is_some ps = true -> getq ps 0 = Some f -> getq ps (length ps - 1) = Some l ->
  exists s, osum (odiff ps) = Some s /\ s == l - f.
Proof.
  revert f. induction ps as [|a r IH]; intros f Hp Hf Hl;
    [unfold getq in Hf; simpl in Hf; discriminate Hf|].
  unfold getq in Hf. simpl in Hf. subst a.
  destruct r as [|b r].
  - unfold getq in Hl. simpl in Hl. inversion Hl; subst. exists 0. split; [reflexivity|ring].
  - simpl in Hp. destruct b as [bv|]; [|discriminate].
    destruct (IH bv) as [s [Es Hs]].
    + exact Hp.
    + reflexivity.
    + replace (length (Some bv :: r) - 1)%nat with (length r) by (simpl; lia).
      replace (length (Some f :: Some bv :: r) - 1)%nat with (S (length r)) in Hl by (simpl; lia).
      exact Hl.
    + rewrite odiff_cons. cbn [osum]. unfold obs in *. rewrite Es. cbn [olift2]. exists (bv - f + s). split; [reflexivity|]. lra.
Qed.

(* a NaN anywhere in a series of two or more points makes the sum (and the mean) NaN *)
Lemma pressure_sum_nan ps :
  forallb is_some ps = false -> (2 <= length ps)%nat -> osum (odiff ps) = None.
Proof.
  induction ps as [|a r IH]; intros Hp Hn; [discriminate|].
  destruct r as [|b r]; [simpl in Hn; lia|].
  rewrite odiff_cons. cbn [osum].
  destruct a as [av|]; [|destruct b; reflexivity]. destruct b as [bv|]; [|reflexivity].
  simpl in Hp. destruct r as [|c r]; [discriminate|].
  unfold obs in *. rewrite IH; [reflexivity|exact Hp|simpl; lia].
Qed.

(* the sign of the mean step is the sign of last - first *)
Lemma pressure_mean_sign ps f l :
  forallb is_some ps = true -> (2 <= length ps)%nat ->
  getq ps 0 = Some f -> getq ps (length ps - 1) = Some l ->
  option_map qsign (omean (odiff ps)) = Some (qsign (l - f)).
Proof.
  intros Hp Hn Hf Hl.
  destruct (pressure_sum_telescopes ps f l Hp Hf Hl) as [s [Es Hs]].
  destruct ps as [|a [|b r]]; try (simpl in Hn; lia).
  rewrite odiff_cons in *. unfold omean. rewrite Es. simpl option_map. f_equal.
  rewrite qsign_div_pos.
  - apply qsign_Proper. exact Hs.
  - replace 0 with (inject_Z 0) by reflexivity. rewrite <- Zlt_Qlt. simpl length. lia.
Qed.

Lemma pressure_mean_nan ps :
  forallb is_some ps = false -> omean (odiff ps) = None.
Proof.
  intros Hp. destruct ps as [|a [|b r]]; try reflexivity.
  pose proof (pressure_sum_nan (a :: b :: r) Hp) as H. rewrite odiff_cons in *.
  unfold omean. rewrite H by (simpl; lia). reflexivity.
Qed.

Lemma descending_nan ps : forallb is_some ps = false -> descending ps = false.
Proof. intros H. unfold descending. rewrite H. reflexivity. Qed.

(* the (possibly flipped) difference array of the source *)
Lemma pressure_delta_flip ps :
  match option_map qsign (omean (odiff ps)) with
  | Some s => if Qltb s 0 then map (option_map (Qmult s)) (odiff ps) else odiff ps
  | None => odiff ps
  end = if descending ps then map (option_map (Qmult (-1))) (odiff ps) else odiff ps.
Proof.
  destruct (forallb is_some ps) eqn:Hp.
  - destruct ps as [|a [|b r]].
    + reflexivity.
    + unfold descending. rewrite Hp. destruct a as [v|]; [|discriminate]. simpl.
      destruct (Qltb_spec (v - v) 0); [exfalso; lra|reflexivity].
    + remember (a :: b :: r) as ps eqn:E.
      assert (Hn : (2 <= length ps)%nat) by (subst; simpl; lia).
      destruct (all_present_get ps 0 Hp) as [f Hf]; [lia|].
      destruct (all_present_get ps (length ps - 1) Hp) as [l Hl]; [lia|].
      rewrite (pressure_mean_sign ps f l Hp Hn Hf Hl).
      unfold descending. rewrite Hp, Hf, Hl. simpl.
      destruct (qsign_case (l - f)) as [[H ->]|[[H ->]|[H ->]]];
        destruct (Qltb_spec (l - f) 0); try (exfalso; lra); reflexivity.
  - rewrite pressure_mean_nan by exact Hp. rewrite descending_nan by exact Hp. reflexivity.
Qed.

(* what the code does, for every series, NaN included *)
Lemma pressure_model_char ps : pressure_model ps = Flags (tab (length ps) (pressure_code_pt ps)).
Proof.
  unfold pressure_model. rewrite pressure_delta_flip. tabs. f_equal. apply tab_ext. intros i Hi.
  unfold pressure_code_pt. destruct (Nat.eqb_spec i 0) as [E|E]; [reflexivity|]. cbn [negb andb].
  assert (G : getq (odiff ps) (i - 1) = olift2 Qminus (getq ps i) (getq ps (i - 1))).
  { rewrite odiff_get by lia. replace (i - 1 + 1)%nat with i by lia. reflexivity. }
  destruct (descending ps).
  - unfold obs in *. rewrite getq_map, G.
    destruct (getq ps (i - 1)) as [a|], (getq ps i) as [b|]; try reflexivity. simpl.
    destruct (Qleb_spec (-1 * (b - a)) 0), (Qltb_spec b a); try reflexivity; exfalso; lra.
  - rewrite G. destruct (getq ps (i - 1)) as [a|], (getq ps i) as [b|]; try reflexivity. simpl.
    destruct (Qleb_spec (b - a) 0), (Qltb_spec a b); try reflexivity; exfalso; lra.
Qed.

(* NaN: a NaN point and the point after it are never flagged; with a NaN anywhere the profile is treated
   as ascending whatever its actual direction *)
Lemma pressure_code_nan_point ps i : getq ps i = None -> pressure_code_pt ps i = GOOD.
Proof.
  intros H. unfold pressure_code_pt. rewrite H. destruct (Nat.eqb i 0); [reflexivity|].
  destruct (getq ps (i - 1)); reflexivity.
Qed.

Lemma pressure_code_after_nan ps i : getq ps (i - 1) = None -> pressure_code_pt ps i = GOOD.
Proof.
  intros H. unfold pressure_code_pt. rewrite H. destruct (Nat.eqb i 0); reflexivity.
Qed.

Lemma pressure_code_with_nan ps i a b :
  forallb is_some ps = false -> i <> 0%nat -> getq ps (i - 1) = Some a -> getq ps i = Some b ->
  (pressure_code_pt ps i = SUSPECT <-> b <= a).
Proof.
  intros Hp Hi Ha Hb. unfold pressure_code_pt. rewrite Ha, Hb, (descending_nan ps Hp).
  destruct (Nat.eqb_spec i 0); [contradiction|].
  destruct (Qltb_spec a b); split; intros; try congruence; try lra.
Qed.

(* characterisation of the property's decision *)
Lemma net_dir_present ps f l :
  getq ps 0 = Some f -> getq ps (length ps - 1) = Some l -> net_dir ps = Some (qsign (l - f)).
Proof. intros Hf Hl. unfold net_dir. rewrite Hf, Hl. reflexivity. Qed.

Lemma pressure_pt_suspect ps i :
  pressure_pt ps i = SUSPECT <->
  i <> 0%nat /\ exists s a b, net_dir ps = Some s /\ getq ps (i - 1) = Some a /\ getq ps i = Some b /\
                               s * (b - a) <= 0.
Proof.
  unfold pressure_pt. destruct (Nat.eqb_spec i 0) as [E|E].
  - split; [congruence|tauto].
  - destruct (net_dir ps) as [s|], (getq ps (i - 1)) as [a|], (getq ps i) as [b|];
      try (split; [congruence|intros [_ (s' & a' & b' & H1 & H2 & H3 & _)]; congruence]).
    destruct (Qltb_spec 0 (s * (b - a))).
    + split; [congruence|]. intros [_ (s' & a' & b' & H1 & H2 & H3 & H4)].
      inversion H1; inversion H2; inversion H3; subst. lra.
    + split; [|reflexivity]. intros _. split; [exact E|]. exists s, a, b. repeat split; try reflexivity. lra.
Qed.

Lemma pressure_pt_good_or_suspect ps i : pressure_pt ps i = GOOD \/ pressure_pt ps i = SUSPECT.
Proof.
  unfold pressure_pt. destruct (Nat.eqb i 0); [auto|].
  destruct (net_dir ps) as [s|], (getq ps (i - 1)) as [a|], (getq ps i) as [b|]; auto.
  destruct (Qltb 0 (s * (b - a))); auto.
Qed.

(* descending / ascending / no net change, for a complete series *)
Lemma pressure_pt_descending ps i f l a b :
  getq ps 0 = Some f -> getq ps (length ps - 1) = Some l -> l < f ->
  i <> 0%nat -> getq ps (i - 1) = Some a -> getq ps i = Some b ->
  (pressure_pt ps i = SUSPECT <-> a <= b).
Proof.
  intros Hf Hl H Hi Ha Hb. unfold pressure_pt. rewrite (net_dir_present ps f l Hf Hl), Ha, Hb.
  destruct (Nat.eqb_spec i 0); [contradiction|].
  destruct (qsign_case (l - f)) as [[? ->]|[[? ->]|[? ->]]]; try lra.
  destruct (Qltb_spec 0 (-1 * (b - a))); split; intros; try congruence; try lra.
Qed.

Lemma pressure_pt_ascending ps i f l a b :
  getq ps 0 = Some f -> getq ps (length ps - 1) = Some l -> f < l ->
  i <> 0%nat -> getq ps (i - 1) = Some a -> getq ps i = Some b ->
  (pressure_pt ps i = SUSPECT <-> b <= a).
Proof.
  intros Hf Hl H Hi Ha Hb. unfold pressure_pt. rewrite (net_dir_present ps f l Hf Hl), Ha, Hb.
  destruct (Nat.eqb_spec i 0); [contradiction|].
  destruct (qsign_case (l - f)) as [[? ->]|[[? ->]|[? ->]]]; try lra.
  destruct (Qltb_spec 0 (1 * (b - a))); split; intros; try congruence; try lra.
Qed.

Lemma pressure_pt_no_net_change ps i f l a b :
  getq ps 0 = Some f -> getq ps (length ps - 1) = Some l -> l == f ->
  i <> 0%nat -> getq ps (i - 1) = Some a -> getq ps i = Some b ->
  pressure_pt ps i = SUSPECT.
Proof.
  intros Hf Hl H Hi Ha Hb. unfold pressure_pt. rewrite (net_dir_present ps f l Hf Hl), Ha, Hb.
  destruct (Nat.eqb_spec i 0); [contradiction|].
  destruct (qsign_case (l - f)) as [[? ->]|[[? ->]|[? ->]]]; try lra.
  destruct (Qltb_spec 0 (0 * (b - a))); [exfalso; lra|reflexivity].
Qed.

(* whereas the code treats a profile without net change as ascending *)
Lemma pressure_code_no_net_change ps i f l a b :
  getq ps 0 = Some f -> getq ps (length ps - 1) = Some l -> l == f ->
  i <> 0%nat -> getq ps (i - 1) = Some a -> getq ps i = Some b ->
  (pressure_code_pt ps i = SUSPECT <-> b <= a).
Proof.
  intros Hf Hl H Hi Ha Hb. unfold pressure_code_pt, descending. rewrite Hf, Hl, Ha, Hb. simpl.
  destruct (Nat.eqb_spec i 0); [contradiction|].
  destruct (Qltb_spec (l - f) 0); [exfalso; lra|]. rewrite andb_false_r.
  destruct (Qltb_spec a b); split; intros; try congruence; try lra.
Qed.

(* refinement. Full statement (false, see pressure_refuted):
     forall ps, forallb is_some ps = true -> pressure_model ps = pressure_spec ps.
   It holds for every complete series whose last value differs from its first (or with fewer than
   two points). *)
Lemma pressure_refines ps :
  forallb is_some ps = true ->
  (forall f l, (2 <= length ps)%nat -> getq ps 0 = Some f -> getq ps (length ps - 1) = Some l -> ~ l == f) ->
  pressure_model ps = pressure_spec ps.
Proof.
  intros Hp Hnz. rewrite pressure_model_char. unfold pressure_spec. f_equal. apply tab_ext. intros i Hi.
  unfold pressure_code_pt, pressure_pt. destruct (Nat.eqb_spec i 0) as [E|E]; [reflexivity|].
  destruct (all_present_get ps 0 Hp) as [f Hf]; [unfold obs in *; lia|].
  destruct (all_present_get ps (length ps - 1) Hp) as [l Hl]; [unfold obs in *; lia|].
  destruct (all_present_get ps (i - 1) Hp) as [a Ha]; [unfold obs in *; lia|].
  destruct (all_present_get ps i Hp) as [b Hb]; [unfold obs in *; lia|].
  assert (Hn : (2 <= length ps)%nat) by (unfold obs in *; lia).
  specialize (Hnz f l Hn Hf Hl).
  unfold obs in *. rewrite (net_dir_present ps f l Hf Hl), Ha, Hb. unfold descending. unfold obs in *. rewrite Hp, Hf, Hl. simpl.
  destruct (qsign_case (l - f)) as [[H ->]|[[H ->]|[H ->]]].
  - destruct (Qltb_spec (l - f) 0); [exfalso; lra|].
    destruct (Qltb_spec a b), (Qltb_spec 0 (1 * (b - a))); try reflexivity; exfalso; lra.
  - exfalso. apply Hnz. lra.
  - destruct (Qltb_spec (l - f) 0); [|exfalso; lra].
    destruct (Qltb_spec b a), (Qltb_spec 0 (-1 * (b - a))); try reflexivity; exfalso; lra.
Qed.

Lemma pressure_refuted : exists ps, forallb is_some ps = true /\ pressure_model ps <> pressure_spec ps.
Proof. exists [Some 0; Some 1; Some 0]. split; [reflexivity|]. vm_compute. discriminate. Qed.

Lemma pressure_empty : pressure_model [] = Flags [].
Proof. reflexivity. Qed.

Lemma pressure_single p : pressure_model [p] = Flags [GOOD].
Proof. destruct p; reflexivity. Qed.

(* ---------------------------------------------------------------- concrete instances *)

(* down-up cast with one inverted pair on each leg: both members of each pair are flagged *)
Example density_ex_downup :
  density_model (Some 0) (Some (-1))
    [Some 1; Some 3; Some 2; Some 4; Some 4; Some 1; Some 2; Some 1]
    [Some 1; Some 2; Some 3; Some 4; Some 3; Some 2; Some 1; Some 0]
  = Flags [GOOD; SUSPECT; SUSPECT; GOOD; GOOD; SUSPECT; SUSPECT; GOOD].
Proof. vm_compute. reflexivity. Qed.

(* a change exactly on the threshold is not flagged; constant depth counts as change 0 *)
Example density_ex_on_threshold :
  density_model (Some 0) (Some (-1)) [Some 2; Some 2; Some 1; Some 5] [Some 1; Some 2; Some 3; Some 3]
  = Flags [GOOD; SUSPECT; SUSPECT; GOOD].
Proof. vm_compute. reflexivity. Qed.

(* missing depth: that record and the next are MISSING, the pair before it is still judged *)
Example density_ex_missing :
  density_model (Some 0) (Some (-1)) [Some 3; Some 1; Some 1; Some 0; Some 5] [Some 1; Some 2; None; Some 4; Some 5]
  = Flags [FAIL; FAIL; MISSING; MISSING; GOOD].
Proof. vm_compute. reflexivity. Qed.

(* pressure: a NaN anywhere switches the direction correction off: this descending profile gets its
   last point flagged, and the NaN point itself is GOOD *)
Example pressure_ex_nan_descending :
  pressure_model [Some 3; None; Some 2; Some 1] = Flags [GOOD; GOOD; GOOD; SUSPECT].
Proof. vm_compute. reflexivity. Qed.

Example pressure_ex_descending :
  pressure_model [Some 3; Some 2; Some 2; Some 1] = Flags [GOOD; GOOD; SUSPECT; GOOD].
Proof. vm_compute. reflexivity. Qed.
