(* Spike.v — model and pointwise specification of qartod.spike_test (qartod.py).
   The model follows the source: reference / spike magnitude arrays (masked where an operand
   is), then the overwrites SUSPECT, FAIL, end points UNKNOWN, MISSING where the magnitude is
   masked. *)
From IoosQc Require Import Base.
From Coq Require Import String.
Local Notation length := List.length.

Inductive spike_method := Average | Differential.

Definition parse_method (s : string) : option spike_method :=
  if String.eqb s "average" then Some Average
  else if String.eqb s "differential" then Some Differential else None.

Definition qavg (a b : Q) : Q := (a + b) / 2.

(* magnitude array `diff` of the source, one (possibly masked) entry per point *)
Definition spike_diff (m : spike_method) (xs : list obs) : list obs :=
  let n := length xs in
  match m with
  | Average =>
      (* ref = 0 at the end points, (inp[0:-2] + inp[2:]) / 2 inside; diff = |inp - ref| *)
      tab n (fun i =>
        let ref := if (Nat.eqb i 0 || Nat.eqb i (n - 1))%bool then Some 0
                   else olift2 qavg (getq xs (i - 1)) (getq xs (i + 1)) in
        olift2 (fun x r => qabs (x - r)) (getq xs i) ref)
  | Differential =>
      (* ref = diff(inp); diff[1:-1] = minimum(|ref[:-1]|, |ref[1:]|), zero where the two steps
         do not have opposite signs; diff = 0 (never masked) at the end points *)
      tab n (fun i =>
        if (Nat.eqb i 0 || Nat.eqb i (n - 1))%bool then Some 0
        else
          let d1 := olift2 Qminus (getq xs i) (getq xs (i - 1)) in
          let d2 := olift2 Qminus (getq xs (i + 1)) (getq xs i) in
          olift2 (fun a b => if Qleb 0 (a * b) then 0 else qmin (qabs a) (qabs b)) d1 d2)
  end.

Definition exceeds (thr : option Q) (d : obs) : bool :=
  match thr, d with Some t, Some v => Qltb t v | _, _ => false end.

Definition spike_model (method : string) (st ft : option Q) (xs : list obs) : outcome :=
  match parse_method method with
  | None => Raises ValueError
  | Some m =>
      let n := length xs in
      let diff := spike_diff m xs in
      let f0 := all_flags n GOOD in
      let f1 := set_where (tab n (fun i => exceeds st (getq diff i))) SUSPECT f0 in
      let f2 := set_where (tab n (fun i => exceeds ft (getq diff i))) FAIL f1 in
      (* end points (when there are any): flag_arr[0] = flag_arr[-1] = UNKNOWN *)
      let f3 := if Nat.eqb n 0 then f2 else set_at (n - 1) UNKNOWN (set_at 0 UNKNOWN f2) in
      Flags (set_where (tab n (fun i => is_none (getq diff i))) MISSING f3)
  end.

(* ---------------------------------------------------------------- the property, per point *)

(* spike magnitude of an interior point from its value and its two neighbours *)
Definition magnitude (m : spike_method) (p x s : Q) : Q :=
  match m with
  | Average => qabs (x - (p + s) / 2)
  | Differential =>
      if Qleb 0 ((x - p) * (s - x)) then 0 else qmin (qabs (x - p)) (qabs (s - x))
  end.

Definition decide3 (st ft : option Q) (d : Q) : flag :=
  if match ft with Some t => Qltb t d | None => false end then FAIL
  else if match st with Some t => Qltb t d | None => false end then SUSPECT
  else GOOD.

Definition spike_pt (m : spike_method) (st ft : option Q) (xs : list obs) (i : nat) : flag :=
  let n := length xs in
  if (Nat.eqb i 0 || Nat.eqb i (n - 1))%bool then
    (* end points: undefined; a missing end point is reported MISSING by the 'average' method *)
    match m, getq xs i with Average, None => MISSING | _, _ => UNKNOWN end
  else
    match getq xs (i - 1), getq xs i, getq xs (i + 1) with
    | Some p, Some x, Some s => decide3 st ft (magnitude m p x s)
    | _, _, _ => MISSING
    end.

Definition spike_spec (method : string) (st ft : option Q) (xs : list obs) : outcome :=
  match parse_method method with
  | None => Raises ValueError
  | Some m => Flags (tab (length xs) (spike_pt m st ft xs))
  end.
