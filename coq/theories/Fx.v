(* Fx.v — model of ioos_qc/config_creator/fx_parser.py (BNF, push_first, push_unary_minus,
   the module-level exprStack, evaluate_stack, eval_fx) and of QcVariableConfig._validate_fx
   (config_creator.py).  Definitions only; the lemmas are in FxProofs.v.

   The stack symbols are the objects the parse actions append to `exprStack`:
     push_first        -> the matched number / identifier text, or the operator of a
                          `(op operand)` group AFTER the operand has pushed its own symbols;
     push_unary_minus  -> one "unary -" marker per leading "-" of an atom, AFTER the atom's symbols;
     fn_call           -> a (name, nargs) tuple (outside the property's grammar, kept as TFn).
   `exprStack` is never cleared: every parse appends to whatever earlier calls (successful,
   failed half-way, or rejected by evaluate_stack) left behind, and evaluate_stack pops from the
   END of a copy.  The model therefore threads the stack through every call. *)
From IoosQc Require Import Base Generated.
From Coq Require Import String Ascii.
Local Notation length := List.length.
Open Scope string_scope.
Open Scope list_scope.

(* ---------------------------------------------------------------- symbols and expressions *)

Inductive stat := SMin | SMax | SMean | SStd.
Inductive binop := Add | Sub | Mul | Div.

Inductive tok :=
  | TNum (s : string)              (* text matched by fnumber; evaluate_stack applies float() *)
  | TStat (st : stat)              (* "min" / "max" / "mean" / "std" *)
  | TOp (o : binop)                (* "+" "-" "*" "/" pushed after both operands *)
  | TUnaryMinus                    (* "unary -" *)
  | TIdent (s : string)            (* any other string: identifiers, "PI", "E", "^" *)
  | TFn (s : string) (n : nat).    (* (name, number of arguments) pushed by fn_call *)

Definition stack := list tok.      (* top of the stack = LAST element, as the Python list *)

(* the property's grammar; parentheses do not appear at tree level *)
Inductive expr :=
  | Num (s : string)
  | Stat (st : stat)
  | Neg (e : expr)
  | Bin (o : binop) (a b : expr).

Definition stat_name (st : stat) : string :=
  match st with SMin => "min" | SMax => "max" | SMean => "mean" | SStd => "std" end.
Definition op_name (o : binop) : string :=
  match o with Add => "+" | Sub => "-" | Mul => "*" | Div => "/" end.
(* name of the function of module `operator` that fx_parser.opn associates with the symbol *)
Definition py_operator (o : binop) : string :=
  match o with Add => "add" | Sub => "sub" | Mul => "mul" | Div => "truediv" end.
(* binding level: expr (addop) = 0, term (multop) = 1, atom = 2 *)
Definition lvl (o : binop) : nat := match o with Add | Sub => 0 | Mul | Div => 1 end%nat.

Definition stat_of_name (s : string) : option stat :=
  if s =? "min" then Some SMin else if s =? "max" then Some SMax
  else if s =? "mean" then Some SMean else if s =? "std" then Some SStd else None.

(* postfix order in which the grammar's actions push: operand1, operand2, operator;
   for a negated atom the atom's symbols, then the marker *)
Fixpoint compile (e : expr) : list tok :=
  match e with
  | Num s => [TNum s]
  | Stat st => [TStat st]
  | Neg a => compile a ++ [TUnaryMinus]
  | Bin o a b => compile a ++ compile b ++ [TOp o]
  end.

Fixpoint size (e : expr) : nat :=
  match e with
  | Num _ | Stat _ => 1
  | Neg a => S (size a)
  | Bin _ a b => S (size a + size b)
  end%nat.

(* ---------------------------------------------------------------- evaluation, any value type *)

Section Fx.
  Variable V : Type.
  Variables (vadd vsub vmul vdiv : V -> V -> V) (vneg : V -> V).
  Variable of_lit : string -> V.      (* float(text) *)
  Variable stats : stat -> V.         (* the dict handed to eval_fx *)

  Definition vop (o : binop) : V -> V -> V :=
    match o with Add => vadd | Sub => vsub | Mul => vmul | Div => vdiv end.

  (* the ordinary arithmetic value of an expression *)
  Fixpoint denote (e : expr) : V :=
    match e with
    | Num s => of_lit s
    | Stat st => stats st
    | Neg a => vneg (denote a)
    | Bin o a b => vop o (denote a) (denote b)
    end.

  (* evaluate_stack on the reversed list (head = top of the stack = s.pop()).  Returns the value
     and what is left below.  None = the Python raises (pop from an empty list, "invalid
     identifier") or leaves the modelled fragment (PI, E, ^, the math function table).
     fuel: the recursion depth never exceeds the number of symbols. *)
  Fixpoint eval_rev (fuel : nat) (l : list tok) : option (V * list tok) :=
    match fuel with
    | O => None
    | S f =>
        match l with
        | [] => None
        | TUnaryMinus :: r =>
            match eval_rev f r with Some (v, r') => Some (vneg v, r') | None => None end
        | TOp o :: r =>
            (* op2 = evaluate_stack(s); op1 = evaluate_stack(s); opn[op](op1, op2) *)
            match eval_rev f r with
            | Some (v2, r2) =>
                match eval_rev f r2 with
                | Some (v1, r1) => Some (vop o v1 v2, r1)
                | None => None
                end
            | None => None
            end
        | TStat st :: r => Some (stats st, r)
        | TNum s :: r => Some (of_lit s, r)
        | TFn name _ :: r =>
            (* a tuple whose name is a statistic returns the statistic and ignores its arguments *)
            match stat_of_name name with Some st => Some (stats st, r) | None => None end
        | TIdent _ :: _ => None
        end
    end.

  Definition evaluate_stack (s : stack) : option (V * stack) :=
    match eval_rev (length s) (rev s) with
    | Some (v, r) => Some (v, rev r)
    | None => None
    end.

  (* eval_fx on a well-formed expression e when the module-level stack holds s:
     (value of evaluate_stack(exprStack[:]), new contents of exprStack) *)
  Definition eval_fx_model (s : stack) (e : expr) : option (V * stack) * stack :=
    (evaluate_stack (s ++ compile e), s ++ compile e).

  (* histories: earlier calls either evaluated a well-formed expression or left arbitrary symbols
     behind (a parse that failed half-way, an invalid identifier, a function call, ...) — the only
     mutation of exprStack anywhere in the module is `append` *)
  Inductive step := Good (e : expr) | Garbage (g : list tok).
  Definition push_step (s : stack) (st : step) : stack :=
    match st with Good e => s ++ compile e | Garbage g => s ++ g end.
  Definition after_history (s0 : stack) (h : list step) : stack := fold_left push_step h s0.
  Definition eval_after_history (s0 : stack) (h : list step) (e : expr) :=
    eval_fx_model (after_history s0 h) e.

End Fx.

(* ---------------------------------------------------------------- lexical classes of a token *)

Definition is_digit (c : ascii) : bool :=
  let n := nat_of_ascii c in ((48 <=? n) && (n <=? 57))%nat.

(* unsigned decimal literals: digits, optionally followed by a dot and further digits — a subset
   of fx_parser's fnumber (no exponent; a sign never reaches fnumber because addop[...] consumes
   it first) *)
Fixpoint lit_go (s : string) (num : Z) (den : positive) (after_dot : bool) : option Q :=
  match s with
  | EmptyString => Some (num # den)
  | String c r =>
      if Ascii.eqb c "." then (if after_dot then None else lit_go r num den true)
      else if is_digit c then
        let d := Z.of_nat (nat_of_ascii c - 48) in
        if after_dot then lit_go r (num * 10 + d)%Z (den * 10)%positive true
        else lit_go r (num * 10 + d)%Z 1%positive false
      else None
  end.

Definition lit_value (s : string) : option Q :=
  match s with
  | String c _ => if is_digit c then lit_go s 0%Z 1%positive false else None
  | EmptyString => None
  end.

Definition is_num (s : string) : bool := is_some (lit_value s).

Inductive lexclass :=
  CLPar | CRPar | CPlus | CMinus | CMul | CDiv | CStat (st : stat) | CNum | COther.

Definition classify (t : string) : lexclass :=
  if t =? "(" then CLPar else if t =? ")" then CRPar
  else if t =? "+" then CPlus else if t =? "-" then CMinus
  else if t =? "*" then CMul else if t =? "/" then CDiv
  else match stat_of_name t with
       | Some st => CStat st
       | None => if is_num t then CNum else COther
       end.

Fixpoint wf (e : expr) : Prop :=
  match e with
  | Num s => is_num s = true
  | Stat _ => True
  | Neg a => wf a
  | Bin _ a b => wf a /\ wf b
  end.

(* ---------------------------------------------------------------- printers (token level) *)

(* full = true: every binary node in parentheses; full = false: only the parentheses that
   standard precedence and left associativity require.  p = level of the context. *)
Fixpoint print (full : bool) (p : nat) (e : expr) : list string :=
  match e with
  | Num s => [s]
  | Stat st => [stat_name st]
  | Neg a => "-" :: print full 2 a
  | Bin o a b =>
      let body := print full (lvl o) a ++ op_name o :: print full (S (lvl o)) b in
      if (full || (lvl o <? p)%nat)%bool then "(" :: body ++ [")"] else body
  end.

Definition print_full (e : expr) : list string := print true 0 e.
Definition print_min (e : expr) : list string := print false 0 e.

(* ---------------------------------------------------------------- recursive-descent parser
   BNF of fx_parser restricted to the property's grammar:
     atom   :: addop[...] ( fnumber | ident | '(' expr ')' )     -> push_first, push_unary_minus
     factor :: atom                                              (no '^')
     term   :: factor [ multop factor ]...                       -> push_first (the operator)
     expr   :: term [ addop term ]...                            -> push_first (the operator)
   Tokens are the space-separated pieces of the text.  A parser takes the remaining tokens and the
   stack and returns the extended stack and the tokens left.  None = ParseException, or a text
   outside the modelled fragment (what a failing parse leaves on the stack is covered by
   `Garbage` above, not computed here). *)

Definition parser := list string -> stack -> option (stack * list string).

(* addop[...]: the leading run of sign tokens *)
Fixpoint strip_signs (toks : list string) : list string * list string :=
  match toks with
  | t :: r =>
      match classify t with
      | CPlus | CMinus => let (sg, r') := strip_signs r in (t :: sg, r')
      | _ => ([], toks)
      end
  | [] => ([], [])
  end.

(* push_unary_minus: one marker per "-" until the first token that is not "-" *)
Fixpoint leading_minus (sg : list string) : nat :=
  match sg with
  | t :: r => match classify t with CMinus => S (leading_minus r) | _ => O end
  | [] => O
  end.

Section Level.
  Variable sub : parser.    (* the parser used for a parenthesised expression *)

  Definition parse_atom : parser := fun toks s =>
    let (sg, r) := strip_signs toks in
    let marks := repeat TUnaryMinus (leading_minus sg) in
    match r with
    | [] => None
    | t :: r' =>
        match classify t with
        | CLPar =>
            match sub r' s with
            | Some (s', t2 :: r'') =>
                match classify t2 with CRPar => Some (s' ++ marks, r'') | _ => None end
            | _ => None
            end
        | CStat st => Some (s ++ TStat st :: marks, r')
        | CNum => Some (s ++ TNum t :: marks, r')
        | _ => None
        end
    end.

  (* [ multop factor ]... ; n bounds the number of iterations.  When the operand after an
     operator does not parse, ZeroOrMore stops before the operator. *)
  Fixpoint mul_loop (n : nat) (toks : list string) (s : stack) : option (stack * list string) :=
    match toks with
    | [] => Some (s, [])
    | t :: r =>
        let go (o : binop) :=
          match n with
          | O => None
          | S n' =>
              match parse_atom r s with
              | Some (s', r') => mul_loop n' r' (s' ++ [TOp o])
              | None => Some (s, toks)
              end
          end in
        match classify t with
        | CMul => go Mul
        | CDiv => go Div
        | _ => Some (s, toks)
        end
    end.

  Definition parse_term (n : nat) : parser := fun toks s =>
    match parse_atom toks s with
    | Some (s', r) => mul_loop n r s'
    | None => None
    end.

  Fixpoint add_loop (n : nat) (toks : list string) (s : stack) : option (stack * list string) :=
    match toks with
    | [] => Some (s, [])
    | t :: r =>
        let go (o : binop) :=
          match n with
          | O => None
          | S n' =>
              match parse_term n' r s with
              | Some (s', r') => add_loop n' r' (s' ++ [TOp o])
              | None => Some (s, toks)
              end
          end in
        match classify t with
        | CPlus => go Add
        | CMinus => go Sub
        | _ => Some (s, toks)
        end
    end.

  Definition parse_expr_level (n : nat) : parser := fun toks s =>
    match parse_term n toks s with
    | Some (s', r) => add_loop n r s'
    | None => None
    end.
End Level.

Fixpoint parse_expr (fuel : nat) : parser :=
  match fuel with
  | O => fun _ _ => None
  | S f => fun toks s => parse_expr_level (parse_expr f) (length toks) toks s
  end.

Definition parse_model (fuel : nat) (toks : list string) (s : stack) : option (stack * list string) :=
  parse_expr fuel toks s.

(* eval_fx on a text given as tokens: parseString(fx, parseAll=True) then evaluate a copy *)
Section FxStr.
  Variable V : Type.
  Variables (vadd vsub vmul vdiv : V -> V -> V) (vneg : V -> V).
  Variable of_lit : string -> V.
  Variable stats : stat -> V.

  Definition eval_fx_str (fuel : nat) (s : stack) (toks : list string)
    : option (option (V * stack) * stack) :=
    match parse_model fuel toks s with
    | Some (s', []) => Some (evaluate_stack V vadd vsub vmul vdiv vneg of_lit stats s', s')
    | _ => None
    end.
End FxStr.

(* ---------------------------------------------------------------- _validate_fx *)

(* str.split(" "): never empty, consecutive spaces give empty tokens *)
Fixpoint split_spaces (s : string) : list string :=
  match s with
  | EmptyString => [EmptyString]
  | String c r =>
      if Ascii.eqb c " " then EmptyString :: split_spaces r
      else match split_spaces r with
           | t :: ts => String c t :: ts
           | [] => [String c EmptyString]
           end
  end.

Fixpoint join_spaces (ts : list string) : string :=
  match ts with
  | [] => EmptyString
  | [t] => t
  | t :: r => t ++ String " " (join_spaces r)
  end%string.

Fixpoint has_space (s : string) : bool :=
  match s with
  | EmptyString => false
  | String c r => Ascii.eqb c " " || has_space r
  end.

Definition allowed_token (allowed : list string) (is_number : string -> bool) (t : string) : bool :=
  is_number t || existsb (String.eqb t) allowed.

(* true = accepted, false = ValueError *)
Definition validate_model (allowed : list string) (is_number : string -> bool) (spec : list string) : bool :=
  forallb (allowed_token allowed is_number) spec.

Definition fx_allowed : list string :=
  fx_allowed_stats ++ fx_allowed_operators ++ fx_allowed_groupings.

Definition validate_fx_model (is_number : string -> bool) (input_fx : string) : bool :=
  validate_model fx_allowed is_number (split_spaces input_fx).

(* the float() oracle as a table of the tokens on which float() succeeds *)
Definition number_table (nums : list string) : string -> bool :=
  fun t => existsb (String.eqb t) nums.

(* ---------------------------------------------------------------- instance V := option Q
   used by the correspondence harness.  None = ZeroDivisionError of operator.truediv on floats. *)

Definition QV := option Q.
Definition qv_div (a b : QV) : QV :=
  match a, b with
  | Some x, Some y => if Qeq_bool y 0 then None else Some (x / y)
  | _, _ => None
  end.
Definition qv_stats (mn mx me sd : Q) (st : stat) : QV :=
  Some match st with SMin => mn | SMax => mx | SMean => me | SStd => sd end.

Definition qv_evaluate (mn mx me sd : Q) : stack -> option (QV * stack) :=
  evaluate_stack QV (olift2 Qplus) (olift2 Qminus) (olift2 Qmult) qv_div (option_map Qopp)
                 lit_value (qv_stats mn mx me sd).

Definition tok_eqb (a b : tok) : bool :=
  match a, b with
  | TNum x, TNum y => x =? y
  | TStat x, TStat y =>
      match x, y with SMin, SMin | SMax, SMax | SMean, SMean | SStd, SStd => true | _, _ => false end
  | TOp x, TOp y =>
      match x, y with Add, Add | Sub, Sub | Mul, Mul | Div, Div => true | _, _ => false end
  | TUnaryMinus, TUnaryMinus => true
  | TIdent x, TIdent y => x =? y
  | TFn x n, TFn y m => (x =? y) && Nat.eqb n m
  | _, _ => false
  end.

Fixpoint stack_eqb (a b : stack) : bool :=
  match a, b with
  | [], [] => true
  | x :: a', y :: b' => tok_eqb x y && stack_eqb a' b'
  | _, _ => false
  end.

(* result of one eval_fx call as the harness observes it: the value (or the exception class) and
   the contents of exprStack afterwards *)
Inductive fx_out :=
  | FxVal (v : Q) (st : stack)
  | FxZeroDiv (st : stack)
  | FxStack (st : stack)          (* value not compared (inexact in float64): pushed symbols only *)
  | FxUnmodelled.

Definition fx_out_eqb (a b : fx_out) : bool :=
  match a, b with
  | FxVal v s, FxVal w t => Qeq_bool v w && stack_eqb s t
  | FxZeroDiv s, FxZeroDiv t => stack_eqb s t
  | FxStack s, FxStack t => stack_eqb s t
  | FxUnmodelled, FxUnmodelled => true
  | _, _ => false
  end.

(* eval_fx(" ".join(toks), stats) with exprStack = s *)
Definition fx_run (mn mx me sd : Q) (s : stack) (toks : list string) : fx_out :=
  match parse_model (S (length toks)) toks s with
  | Some (s', []) =>
      match qv_evaluate mn mx me sd s' with
      | Some (Some v, _) => FxVal v s'
      | Some (None, _) => FxZeroDiv s'
      | None => FxUnmodelled
      end
  | _ => FxUnmodelled
  end.

Definition fx_stack_only (r : fx_out) : fx_out :=
  match r with
  | FxVal _ st | FxZeroDiv st | FxStack st => FxStack st
  | FxUnmodelled => FxUnmodelled
  end.

(* the same through the tree: print, parse, evaluate (used to cross-check the printers) *)
Definition fx_run_expr (full : bool) (mn mx me sd : Q) (s : stack) (e : expr) : fx_out :=
  fx_run mn mx me sd s (print full 0 e).

(* ---------------------------------------------------------------- create_config (specification)
   For a climatology constant in time the daily interpolation returns each selected cell's value
   on every day, so the statistics are those of the selected cells.  Cells: (lon, lat, value);
   None = NaN (land).  The bounding box (xmin, ymin, xmax, ymax) is inclusive on both ends. *)

Section Creator.
  Definition cell := (Q * Q * obs)%type.

  Definition in_bbox (bbox : Q * Q * Q * Q) (c : cell) : bool :=
    let '(xmin, ymin, xmax, ymax) := bbox in
    let '(lon, lat, _) := c in
    Qleb xmin lon && Qleb lon xmax && Qleb ymin lat && Qleb lat ymax.

  Fixpoint somes (l : list obs) : list Q :=
    match l with
    | [] => []
    | Some x :: r => x :: somes r
    | None :: r => somes r
    end.

  Definition selected (bbox : Q * Q * Q * Q) (cells : list cell) : list Q :=
    somes (map (fun c : cell => snd c) (filter (in_bbox bbox) cells)).

  Definition qsum (l : list Q) : Q := fold_right Qplus 0 l.
  Definition qlist_min (x : Q) (l : list Q) : Q := fold_right qmin x l.
  Definition qlist_max (x : Q) (l : list Q) : Q := fold_right qmax x l.
  Definition qmean (l : list Q) : Q := qsum l / inject_Z (Z.of_nat (length l)).
  Definition qvar (l : list Q) : Q :=
    let m := qmean l in qmean (map (fun x => (x - m) * (x - m)) l).
  (* numpy.nanstd: the non-negative root of the population variance *)
  Definition is_std (l : list Q) (sd : Q) : Prop := 0 <= sd /\ sd * sd == qvar l.

  (* the four statistics of a non-empty selection, the deviation being supplied *)
  Definition creator_stats (l : list Q) (sd : Q) (st : stat) : QV :=
    match l with
    | [] => None
    | x :: r =>
        Some match st with
             | SMin => qlist_min x r
             | SMax => qlist_max x r
             | SMean => qmean l
             | SStd => sd
             end
    end.

  (* suspect_span / fail_span of a span section: the four limit expressions on those statistics *)
  Definition span_spec (l : list Q) (sd : Q) (smin smax fmin fmax : expr) : (QV * QV) * (QV * QV) :=
    let d := denote QV (olift2 Qplus) (olift2 Qminus) (olift2 Qmult) qv_div (option_map Qopp)
                    lit_value (creator_stats l sd) in
    ((d smin, d smax), (d fmin, d fmax)).
End Creator.
