(* SkelP_clim.v — generated flag skeleton of ClimatologyConfig.check (before the member loop, one iteration, after it) = model *)
From IoosQc Require Import Base Skel SkelBase Generated Calendar Climatology.
From Coq Require Import String.
Local Notation length := List.length.
Open Scope string_scope.

(* one iteration for member m: the three boolean index arrays (their DATA: numpy indexes with the data of a
   masked boolean array), and the opaque guard = "this member is skipped" (a depth span without any depth) *)
Definition env_clim_member (m : member) (xs : list obs) (ts : list Z) (zs : list obs) : env :=
  {| e_arr := bind_arr [("inp", xs)];
     e_num := bind_num [("@opaque1", qbool (skipped m zs))];
     e_str := (fun _ => None);
     e_bool := bind_bool [("values_idx", fun i => mb_eff (values_idx m xs ts zs i));
                          ("fail_idx", fun i => mb_eff (fail_idx m xs i));
                          ("suspect_idx", fun i => mb_eff (suspect_idx m xs i))];
     e_size := length xs |}.

Definition env_clim_outer (xs : list obs) : env :=
  {| e_arr := bind_arr [("inp", xs)]; e_num := (fun _ => None); e_str := (fun _ => None);
     e_bool := (fun _ => None); e_size := length xs |}.

Theorem skel_clim_member m xs ts zs acc :
  clim_step xs ts zs acc m = run_steps (env_clim_member m xs ts zs) skel_climatology_check_member acc.
Proof.
  unfold clim_step, skel_climatology_check_member. steps.
  unfold guards_hold, forallb. rewrite !eval_g_inv, !andb_true_r.
  assert (G : eval_g (env_clim_member m xs ts zs) (SName "@opaque1") = skipped m zs)
    by (cbn; destruct (skipped m zs); reflexivity).
  rewrite G. destruct (skipped m zs); cbn [negb]; [reflexivity|].
  cbn [e_size env_clim_member].
  assert (T : forall c1 c2 : nat -> bool, (forall i, c1 i = c2 i) -> tab (length xs) c1 = tab (length xs) c2)
    by (intros c1 c2 H; apply tab_ext; intros; apply H).
  rewrite (T (fun i => mb_eff (mb_and (values_idx m xs ts zs i) (fail_idx m xs i)))
             (eval_b (env_clim_member m xs ts zs) (SBin "&" (SName "values_idx") (SName "fail_idx")))) by reflexivity.
  rewrite (T (fun i => mb_eff (mb_and (mb_and (values_idx m xs ts zs i) (mb_not (fail_idx m xs i))) (suspect_idx m xs i)))
             (eval_b (env_clim_member m xs ts zs)
                (SBin "&" (SBin "&" (SName "values_idx") (SInv (SName "fail_idx"))) (SName "suspect_idx")))) by reflexivity.
  rewrite (T (fun i => mb_eff (mb_and (mb_and (values_idx m xs ts zs i) (mb_not (fail_idx m xs i))) (mb_not (suspect_idx m xs i))))
             (eval_b (env_clim_member m xs ts zs)
                (SBin "&" (SBin "&" (SName "values_idx") (SInv (SName "fail_idx"))) (SInv (SName "suspect_idx"))))) by reflexivity.
  reflexivity.
Qed.

Theorem skel_clim_model config xs ts zs :
  clim_model config xs ts zs =
  Flags (run_steps (env_clim_outer xs) skel_climatology_check_post
          (fold_left (fun acc m => run_steps (env_clim_member m xs ts zs) skel_climatology_check_member acc)
                     (map add config)
                     (run_steps (env_clim_outer xs) skel_climatology_check_pre (all_flags (length xs) UNKNOWN)))).
Proof.
  unfold clim_model. f_equal.
  assert (E : forall acc, run_steps (env_clim_outer xs) skel_climatology_check_pre acc
                          = set_where (tab (length xs) (missing_at xs)) MISSING acc).
  { intros acc. unfold skel_climatology_check_pre. steps. unfold guards_hold, forallb.
    cbn [e_size env_clim_outer]. f_equal. }
  assert (E' : forall acc, run_steps (env_clim_outer xs) skel_climatology_check_post acc
                           = set_where (tab (length xs) (missing_at xs)) MISSING acc).
  { intros acc. unfold skel_climatology_check_post. steps. unfold guards_hold, forallb.
    cbn [e_size env_clim_outer]. f_equal. }
  rewrite E, E'. f_equal.
  generalize (set_where (tab (length xs) (missing_at xs)) MISSING (all_flags (length xs) UNKNOWN)).
  induction (map add config) as [|m ms IH]; intros acc; cbn [fold_left]; [reflexivity|].
  rewrite skel_clim_member. apply IH.
Qed.
