(* RateProofs.v — rate_of_change_test and argo.speed_test: refinement of the operational models to
   the pointwise specifications of C10 and the laws used by C02 (missing), C16 (monotone in the
   thresholds) and C17 (value shift / negation / time shift / locality). *)
From IoosQc Require Import Base Rate.

Ltac tabs := unfold all_flags; repeat rewrite set_where_tab.

(* ---------------------------------------------------------------- general facts *)

Lemma qabs_div_nonneg a d : 0 <= d -> qabs (a / d) == qabs a / d.
Proof.
  intros Hd. unfold Qdiv.
  assert (Hk : 0 <= / d) by (apply Qinv_le_0_compat; exact Hd).
  set (k := / d) in *.
  destruct (qabs_case a) as [[Ha ->]|[Ha ->]], (qabs_case (a * k)) as [[Hp ->]|[Hp ->]]; nra.
Qed.

Lemma getz_map_shift c ts i :
  (i < length ts)%nat -> getz (map (fun t => (t + c)%Z) ts) i = (getz ts i + c)%Z.
Proof.
  intros H. unfold getz.
  rewrite (nth_indep _ 0%Z (0 + c)%Z) by (rewrite map_length; exact H).
  exact (map_nth (fun t => (t + c)%Z) ts 0%Z i).
Qed.

Lemma dsecs_tshift c ts i :
  (i < length ts)%nat -> dsecs (map (fun t => (t + c)%Z) ts) i = dsecs ts i.
Proof.
  intros H. unfold dsecs. rewrite !getz_map_shift by lia. do 2 f_equal. lia.
Qed.

(* on the property's domain the elapsed seconds are the positive whole number of the step *)
Lemma whole_step_secs k : secs (k * NS) = k.
Proof. unfold secs. apply Z.div_mul. unfold NS. lia. Qed.

Lemma whole_increasing_pos ts i :
  whole_increasing ts -> (0 < i < length ts)%nat -> 0 < dsecs ts i.
Proof.
  intros H Hi. destruct (H i Hi) as [k [Hk E]]. unfold dsecs. rewrite E, whole_step_secs.
  unfold Qlt. simpl. lia.
Qed.

Lemma whole_increasing_nonneg ts : whole_increasing ts -> steps_nonneg ts.
Proof.
  intros H i Hi. destruct (H i Hi) as [k [Hk E]]. rewrite E, whole_step_secs. lia.
Qed.

Lemma steps_nonneg_dsecs ts i : steps_nonneg ts -> (0 < i < length ts)%nat -> 0 <= dsecs ts i.
Proof.
  intros H Hi. specialize (H i Hi). unfold dsecs, Qle. simpl. lia.
Qed.

(* ================================================================ rate of change *)

Global Instance roc_decide_Proper thr : Proper (Qeq ==> eq) (roc_decide thr).
Proof. intros a b H. unfold roc_decide. rewrite H. reflexivity. Qed.

Lemma roc_decide_suspect thr v : roc_decide thr v = SUSPECT <-> thr < v.
Proof. unfold roc_decide. destruct (Qltb_spec thr v); split; intros; try congruence; tauto. Qed.

Lemma roc_decide_good thr v : roc_decide thr v = GOOD <-> v <= thr.
Proof. unfold roc_decide. destruct (Qltb_spec thr v); split; intros; try congruence; lra. Qed.

Lemma roc_decide_evaluated thr v : not_evaluated (roc_decide thr v) = false.
Proof. unfold roc_decide. destruct (Qltb thr v); reflexivity. Qed.

Lemma roc_decide_mono thr thr' v :
  thr' <= thr -> (sev (roc_decide thr v) <= sev (roc_decide thr' v))%nat.
Proof.
  intros H. unfold roc_decide.
  destruct (Qltb_spec thr v), (Qltb_spec thr' v); simpl; try lia. exfalso; lra.
Qed.

(* the array of rates, read at one index *)
Lemma roc_rates_at xs ts i :
  (i < length xs)%nat ->
  getq (roc_rates xs ts) i =
  if Nat.eqb i 0 then Some 0
  else olift2 (fun x p => qabs ((x - p) / dsecs ts i)) (getq xs i) (getq xs (i - 1)).
Proof. intros Hi. unfold roc_rates. rewrite getq_tab by exact Hi. reflexivity. Qed.

(* mismatched lengths are rejected, unconditionally *)
Lemma roc_mismatch thr xs ts :
  length xs <> length ts -> roc_model thr xs ts = Raises ValueError.
Proof.
  intros H. unfold roc_model. apply Nat.eqb_neq in H. rewrite H. reflexivity.
Qed.

Lemma roc_spec_mismatch thr xs ts :
  length xs <> length ts -> roc_spec thr xs ts = Raises ValueError.
Proof.
  intros H. unfold roc_spec. apply Nat.eqb_neq in H. rewrite H. reflexivity.
Qed.

Lemma roc_model_raises thr xs ts :
  roc_model thr xs ts = Raises ValueError <-> length xs <> length ts.
Proof.
  unfold roc_model. destruct (Nat.eqb_spec (length xs) (length ts)); simpl; split; intros; congruence.
Qed.

(* The full statement  forall thr xs ts, roc_model thr xs ts = roc_spec thr xs ts  is false for
   negative thresholds (roc_refuted_negative_threshold below): the refinement holds for every series
   and time axis (any lengths, mismatch included) and thresholds >= 0; time axes only need
   non-negative steps. *)
Lemma roc_refines thr xs ts :
  steps_nonneg ts -> 0 <= thr -> roc_model thr xs ts = roc_spec thr xs ts.
Proof.
  intros Ht Hthr. unfold roc_model, roc_spec.
  destruct (Nat.eqb_spec (length xs) (length ts)) as [Hl|Hl]; simpl negb; cbv iota; [|reflexivity].
  tabs. f_equal. apply tab_ext. intros i Hi.
  rewrite roc_rates_at by assumption.
  unfold roc_pt, missing_at.
  destruct (getq xs i) as [x|]; simpl; [|reflexivity].
  destruct (Nat.eqb_spec i 0) as [E0|E0].
  - simpl. destruct (Qltb_spec thr 0); [exfalso; lra|reflexivity].
  - destruct (getq xs (i - 1)) as [p|]; simpl; [|reflexivity].
    unfold roc_decide, roc_rate.
    assert (Hd : 0 <= dsecs ts i) by (apply steps_nonneg_dsecs; [exact Ht|lia]).
    assert (E : Qltb thr (qabs ((x - p) / dsecs ts i)) = Qltb thr (qabs (x - p) / dsecs ts i)).
    { apply Qltb_Proper; [reflexivity|]. apply qabs_div_nonneg. exact Hd. }
    rewrite E. destruct (Qltb thr (qabs (x - p) / dsecs ts i)); reflexivity.
Qed.

Lemma roc_refines_domain thr xs ts :
  whole_increasing ts -> 0 <= thr -> roc_model thr xs ts = roc_spec thr xs ts.
Proof. intros Ht. apply roc_refines. apply whole_increasing_nonneg. exact Ht. Qed.

(* a negative threshold flags the first point (roc[0] = 0 > threshold) *)
Lemma roc_refuted_negative_threshold :
  exists thr xs ts, whole_increasing ts /\ length xs = length ts /\
                    roc_model thr xs ts <> roc_spec thr xs ts.
Proof.
  exists (-1), [Some 0], [0%Z]. split; [|split].
  - intros i Hi. simpl in Hi. lia.
  - reflexivity.
  - vm_compute. discriminate.
Qed.

(* ---------------------------------------------------------------- decision list *)

Lemma roc_pt_first thr xs ts x : getq xs 0 = Some x -> roc_pt thr xs ts 0 = GOOD.
Proof. intros H. unfold roc_pt. rewrite H. reflexivity. Qed.

Lemma roc_pt_after_gap thr xs ts i x :
  getq xs i = Some x -> getq xs (i - 1) = None -> roc_pt thr xs ts i = GOOD.
Proof. intros H G. unfold roc_pt. rewrite H, G. destruct (Nat.eqb i 0); reflexivity. Qed.

Lemma roc_pt_pair thr xs ts i p x :
  i <> 0%nat -> getq xs (i - 1) = Some p -> getq xs i = Some x ->
  roc_pt thr xs ts i = roc_decide thr (qabs (x - p) / dsecs ts i).
Proof.
  intros H0 Hp Hx. unfold roc_pt. rewrite Hx, Hp. apply Nat.eqb_neq in H0. rewrite H0. reflexivity.
Qed.

(* SUSPECT iff the predecessor is present and |dx| / dt exceeds the threshold *)
Lemma roc_pt_suspect thr xs ts i :
  roc_pt thr xs ts i = SUSPECT <->
  i <> 0%nat /\ exists p x, getq xs (i - 1) = Some p /\ getq xs i = Some x /\
                            thr < qabs (x - p) / dsecs ts i.
Proof.
  unfold roc_pt. destruct (getq xs i) as [x|].
  - destruct (Nat.eqb_spec i 0) as [E0|E0].
    + split; [congruence|]. intros [H _]. contradiction.
    + destruct (getq xs (i - 1)) as [p|].
      * rewrite roc_decide_suspect. unfold roc_rate. split.
        -- intros H. split; [exact E0|]. exists p, x. auto.
        -- intros [_ (p' & x' & Hp & Hx & H)]. inversion Hp; inversion Hx; subst. exact H.
      * split; [congruence|]. intros [_ (p' & x' & Hp & _)]. congruence.
  - split; [congruence|]. intros [_ (p' & x' & _ & Hx & _)]. congruence.
Qed.

Lemma roc_pt_good thr xs ts i :
  roc_pt thr xs ts i = GOOD <->
  exists x, getq xs i = Some x /\
    (i = 0%nat \/ getq xs (i - 1) = None \/
     exists p, getq xs (i - 1) = Some p /\ qabs (x - p) / dsecs ts i <= thr).
Proof.
  unfold roc_pt. destruct (getq xs i) as [x|].
  - destruct (Nat.eqb_spec i 0) as [E0|E0].
    + split; [|reflexivity]. intros _. exists x. auto.
    + destruct (getq xs (i - 1)) as [p|].
      * rewrite roc_decide_good. unfold roc_rate. split.
        -- intros H. exists x. split; [reflexivity|]. right. right. exists p. auto.
        -- intros (x' & Hx & [H|[H|(p' & Hp & H)]]); [congruence|congruence|].
           inversion Hx; inversion Hp; subst. exact H.
      * split; [|reflexivity]. intros _. exists x. auto.
  - split; [congruence|]. intros (x' & Hx & _). congruence.
Qed.

(* a rate exactly on the threshold does not flag *)
Lemma roc_pt_eq_thr thr xs ts i p x :
  getq xs (i - 1) = Some p -> getq xs i = Some x -> qabs (x - p) / dsecs ts i == thr ->
  roc_pt thr xs ts i = GOOD.
Proof.
  intros Hp Hx E. apply roc_pt_good. exists x. split; [exact Hx|].
  right. right. exists p. split; [exact Hp|]. lra.
Qed.

(* ---------------------------------------------------------------- C02: missing values *)

Lemma roc_pt_missing thr xs ts i : getq xs i = None -> roc_pt thr xs ts i = MISSING.
Proof. intros H. unfold roc_pt. rewrite H. reflexivity. Qed.

Lemma roc_pt_missing_only thr xs ts i : roc_pt thr xs ts i = MISSING -> getq xs i = None.
Proof.
  unfold roc_pt. destruct (getq xs i) as [x|]; [|reflexivity].
  destruct (Nat.eqb i 0); [discriminate|].
  destruct (getq xs (i - 1)) as [p|]; [|discriminate].
  intros E. pose proof (roc_decide_evaluated thr (roc_rate p x (dsecs ts i))) as N.
  rewrite E in N. discriminate.
Qed.

Lemma roc_pt_evaluated thr xs ts i x :
  getq xs i = Some x -> not_evaluated (roc_pt thr xs ts i) = false.
Proof.
  intros H. unfold roc_pt. rewrite H. destruct (Nat.eqb i 0); [reflexivity|].
  destruct (getq xs (i - 1)); [apply roc_decide_evaluated|reflexivity].
Qed.

(* ---------------------------------------------------------------- C16 *)

Lemma roc_pt_mono thr thr' xs ts i :
  thr' <= thr ->
  (sev (roc_pt thr xs ts i) <= sev (roc_pt thr' xs ts i))%nat /\
  not_evaluated (roc_pt thr xs ts i) = not_evaluated (roc_pt thr' xs ts i).
Proof.
  intros H. unfold roc_pt. destruct (getq xs i) as [x|]; [|auto].
  destruct (Nat.eqb i 0); [auto|].
  destruct (getq xs (i - 1)) as [p|]; [|auto].
  split; [apply roc_decide_mono; exact H|]. rewrite !roc_decide_evaluated. reflexivity.
Qed.

(* ---------------------------------------------------------------- C17 *)

Lemma roc_rate_shift c p x dt : roc_rate (p + c) (x + c) dt == roc_rate p x dt.
Proof.
  unfold roc_rate. assert (E : x + c - (p + c) == x - p) by ring. rewrite E. reflexivity.
Qed.

Lemma roc_rate_neg p x dt : roc_rate (- p) (- x) dt == roc_rate p x dt.
Proof.
  unfold roc_rate. assert (E : - x - - p == - (x - p)) by ring. rewrite E, qabs_opp. reflexivity.
Qed.

Lemma roc_pt_shift thr c xs ts i :
  roc_pt thr (map (option_map (fun v => v + c)) xs) ts i = roc_pt thr xs ts i.
Proof.
  unfold roc_pt, obs in *. rewrite !getq_map.
  destruct (getq xs i) as [x|]; simpl; [|reflexivity].
  destruct (Nat.eqb i 0); [reflexivity|].
  destruct (getq xs (i - 1)) as [p|]; simpl; [|reflexivity].
  apply roc_decide_Proper, roc_rate_shift.
Qed.

Lemma roc_pt_neg thr xs ts i :
  roc_pt thr (map (option_map Qopp) xs) ts i = roc_pt thr xs ts i.
Proof.
  unfold roc_pt, obs in *. rewrite !getq_map.
  destruct (getq xs i) as [x|]; simpl; [|reflexivity].
  destruct (Nat.eqb i 0); [reflexivity|].
  destruct (getq xs (i - 1)) as [p|]; simpl; [|reflexivity].
  apply roc_decide_Proper, roc_rate_neg.
Qed.

Lemma roc_pt_tshift thr c xs ts i :
  (i < length ts)%nat ->
  roc_pt thr xs (map (fun t => (t + c)%Z) ts) i = roc_pt thr xs ts i.
Proof.
  intros Hi. unfold roc_pt. rewrite dsecs_tshift by exact Hi. reflexivity.
Qed.

Lemma roc_spec_shift thr c xs ts :
  roc_spec thr (map (option_map (fun v => v + c)) xs) ts = roc_spec thr xs ts.
Proof.
  unfold roc_spec, obs in *. rewrite map_length. destruct (Nat.eqb (length xs) (length ts)); [|reflexivity].
  f_equal. apply tab_ext. intros i _. apply roc_pt_shift.
Qed.

Lemma roc_spec_neg thr xs ts :
  roc_spec thr (map (option_map Qopp) xs) ts = roc_spec thr xs ts.
Proof.
  unfold roc_spec, obs in *. rewrite map_length. destruct (Nat.eqb (length xs) (length ts)); [|reflexivity].
  f_equal. apply tab_ext. intros i _. apply roc_pt_neg.
Qed.

Lemma roc_spec_tshift thr c xs ts :
  roc_spec thr xs (map (fun t => (t + c)%Z) ts) = roc_spec thr xs ts.
Proof.
  unfold roc_spec. rewrite map_length.
  destruct (Nat.eqb_spec (length xs) (length ts)) as [E|E]; [|reflexivity].
  f_equal. apply tab_ext. intros i Hi. apply roc_pt_tshift. lia.
Qed.

(* locality: changing the observation at k can only alter the flags at k and k+1 *)
Lemma roc_pt_local thr xs ys ts k i :
  (forall j, j <> k -> getq xs j = getq ys j) ->
  i <> k -> (i <> k + 1)%nat ->
  roc_pt thr xs ts i = roc_pt thr ys ts i.
Proof.
  intros Hag H0 H1. unfold roc_pt. rewrite (Hag i) by exact H0.
  destruct (Nat.eqb_spec i 0) as [E0|E0]; [reflexivity|].
  rewrite (Hag (i - 1)%nat) by lia. reflexivity.
Qed.

(* ================================================================ speed *)

Global Instance decide2_Proper st ft : Proper (Qeq ==> eq) (decide2 st ft).
Proof.
  intros a b H. unfold decide2.
  assert (E1 : Qltb ft a = Qltb ft b) by (rewrite H; reflexivity).
  assert (E2 : Qltb st a = Qltb st b) by (rewrite H; reflexivity).
  rewrite E1, E2. reflexivity.
Qed.

Lemma decide2_fail st ft v : decide2 st ft v = FAIL <-> ft < v.
Proof.
  unfold decide2. destruct (Qltb_spec ft v).
  - tauto.
  - destruct (Qltb st v); split; intros; try congruence; contradiction.
Qed.

Lemma decide2_suspect st ft v : decide2 st ft v = SUSPECT <-> v <= ft /\ st < v.
Proof.
  unfold decide2. destruct (Qltb_spec ft v).
  - split; [congruence|]. intros [H _]. exfalso; lra.
  - destruct (Qltb_spec st v).
    + split; [|reflexivity]. intros _. split; [lra|assumption].
    + split; [congruence|]. intros [_ H]. contradiction.
Qed.

Lemma decide2_good st ft v : decide2 st ft v = GOOD <-> v <= ft /\ v <= st.
Proof.
  unfold decide2. destruct (Qltb_spec ft v).
  - split; [congruence|]. intros [H _]. exfalso; lra.
  - destruct (Qltb_spec st v).
    + split; [congruence|]. intros [_ H]. exfalso; lra.
    + split; [|reflexivity]. intros _. split; lra.
Qed.

(* a speed exactly on a threshold is not flagged by that threshold *)
Lemma decide2_eq_thr st ft v : v <= ft -> v <= st -> decide2 st ft v = GOOD.
Proof. intros. apply decide2_good. auto. Qed.

Lemma decide2_evaluated st ft v : not_evaluated (decide2 st ft v) = false.
Proof. unfold decide2. destruct (Qltb ft v); [reflexivity|]. destruct (Qltb st v); reflexivity. Qed.

Lemma decide2_mono st ft st' ft' v :
  st' <= st -> ft' <= ft -> (sev (decide2 st ft v) <= sev (decide2 st' ft' v))%nat.
Proof.
  intros Hs Hf. unfold decide2.
  destruct (Qltb_spec ft v), (Qltb_spec ft' v), (Qltb_spec st v), (Qltb_spec st' v);
    simpl; try lia; exfalso; lra.
Qed.

Section SpeedProofs.
  Variable geod : Q -> Q -> Q -> Q -> Q.

  Lemma speed_dist_at lon lat i :
    (i < length lon)%nat ->
    getq (speed_dist geod lon lat) i = if Nat.eqb i 0 then Some 0 else hop geod lon lat i.
  Proof. intros Hi. unfold speed_dist. rewrite getq_tab by exact Hi. reflexivity. Qed.

  (* for every distance function; time axes only need non-negative steps *)
  Lemma speed_refines st ft lon lat ts :
    steps_nonneg ts -> speed_model geod st ft lon lat ts = speed_spec geod st ft lon lat ts.
  Proof.
    intros Ht. unfold speed_model, speed_spec.
    destruct (Nat.eqb_spec (length lon) (length lat)) as [Ela|Ela]; simpl andb; [|reflexivity].
    destruct (Nat.eqb_spec (length lon) (length ts)) as [Ets|Ets]; simpl negb; cbv iota; [|reflexivity].
    remember (length lon) as n eqn:En.
    destruct (Nat.eqb_spec n 0) as [E0|E0]; [subst n; rewrite E0; reflexivity|].
    destruct (Nat.ltb_spec n 2) as [E1|E1].
    - (* a single point *)
      tabs. rewrite set_at_tab. f_equal. apply tab_ext. intros i Hi.
      assert (i = 0%nat) by lia. subst i. reflexivity.
    - tabs. rewrite set_at_tab, set_where_tab. f_equal. apply tab_ext. intros i Hi.
      rewrite getq_tab by exact Hi.
      rewrite speed_dist_at by (rewrite <- En; exact Hi).
      unfold speed_pt. rewrite (Nat.eqb_sym 0 i).
      destruct (Nat.eqb_spec i 0) as [Ei|Ei]; [reflexivity|].
      unfold hop, missing_at.
      destruct (getq lat (i - 1)) as [a|], (getq lon (i - 1)) as [b|],
               (getq lat i) as [c|], (getq lon i) as [d|]; simpl; try reflexivity.
      unfold decide2, speed_of.
      assert (Hd : 0 <= dsecs ts i) by (apply steps_nonneg_dsecs; [exact Ht|lia]).
      assert (E : forall t, Qltb t (qabs (geod a b c d / dsecs ts i))
                          = Qltb t (qabs (geod a b c d) / dsecs ts i)).
      { intros t. apply Qltb_Proper; [reflexivity|]. apply qabs_div_nonneg. exact Hd. }
      rewrite !E.
      destruct (Qltb ft (qabs (geod a b c d) / dsecs ts i)); [reflexivity|].
      destruct (Qltb st (qabs (geod a b c d) / dsecs ts i)); reflexivity.
  Qed.

  Lemma speed_refines_domain st ft lon lat ts :
    whole_increasing ts -> speed_model geod st ft lon lat ts = speed_spec geod st ft lon lat ts.
  Proof. intros H. apply speed_refines, whole_increasing_nonneg, H. Qed.

  (* mismatched lengths are rejected, unconditionally *)
  Lemma speed_mismatch st ft lon lat ts :
    (length lon <> length lat \/ length lon <> length ts) ->
    speed_model geod st ft lon lat ts = Raises ValueError.
  Proof.
    intros H. unfold speed_model.
    destruct (Nat.eqb_spec (length lon) (length lat)), (Nat.eqb_spec (length lon) (length ts));
      simpl; try reflexivity. exfalso. tauto.
  Qed.

  Lemma speed_flags st ft lon lat ts :
    length lon = length lat -> length lon = length ts ->
    speed_spec geod st ft lon lat ts = Flags (tab (length lon) (speed_pt geod st ft lon lat ts)).
  Proof.
    intros H1 H2. unfold speed_spec. rewrite <- H1, <- H2, Nat.eqb_refl. reflexivity.
  Qed.

  (* a non-negative distance needs no absolute value *)
  Lemma speed_of_nonneg a b c d dt :
    0 <= geod a b c d -> speed_of geod a b c d dt == geod a b c d / dt.
  Proof.
    intros H. unfold speed_of. destruct (qabs_case (geod a b c d)) as [[_ ->]|[H1 _]]; [reflexivity|lra].
  Qed.

  (* ---------------------------------------------------------------- decision list *)

  Lemma speed_pt_first st ft lon lat ts : speed_pt geod st ft lon lat ts 0 = UNKNOWN.
  Proof. reflexivity. Qed.

  Lemma speed_pt_hop st ft lon lat ts i a b c d :
    i <> 0%nat ->
    getq lat (i - 1) = Some a -> getq lon (i - 1) = Some b -> getq lat i = Some c -> getq lon i = Some d ->
    speed_pt geod st ft lon lat ts i = decide2 st ft (qabs (geod a b c d) / dsecs ts i).
  Proof.
    intros H0 Ha Hb Hc Hd. unfold speed_pt. apply Nat.eqb_neq in H0. rewrite H0, Ha, Hb, Hc, Hd.
    reflexivity.
  Qed.

  Lemma speed_pt_unknown st ft lon lat ts i : speed_pt geod st ft lon lat ts i = UNKNOWN <-> i = 0%nat.
  Proof.
    unfold speed_pt. destruct (Nat.eqb_spec i 0) as [E|E]; [tauto|].
    split; [|contradiction].
    destruct (getq lat (i - 1)) as [a|], (getq lon (i - 1)) as [b|],
             (getq lat i) as [c|], (getq lon i) as [d|]; try discriminate.
    intros H. pose proof (decide2_evaluated st ft (speed_of geod a b c d (dsecs ts i))) as N.
    rewrite H in N. discriminate.
  Qed.

  (* ---------------------------------------------------------------- C02: missing values *)

  Lemma speed_pt_missing_iff st ft lon lat ts i :
    speed_pt geod st ft lon lat ts i = MISSING <-> i <> 0%nat /\ hop geod lon lat i = None.
  Proof.
    unfold speed_pt, hop. destruct (Nat.eqb_spec i 0) as [E|E].
    - split; [discriminate|]. intros [H _]. contradiction.
    - destruct (getq lat (i - 1)) as [a|], (getq lon (i - 1)) as [b|],
               (getq lat i) as [c|], (getq lon i) as [d|]; try tauto.
      split; [|intros [_ H]; discriminate].
      intros H. pose proof (decide2_evaluated st ft (speed_of geod a b c d (dsecs ts i))) as N.
      rewrite H in N. discriminate.
  Qed.

  (* a point with a missing coordinate is MISSING, or UNKNOWN where the speed is undefined *)
  Lemma speed_pt_missing st ft lon lat ts i :
    (getq lon i = None \/ getq lat i = None) ->
    speed_pt geod st ft lon lat ts i = MISSING \/ (i = 0%nat /\ speed_pt geod st ft lon lat ts i = UNKNOWN).
  Proof.
    intros H. unfold speed_pt. destruct (Nat.eqb_spec i 0) as [E|E]; [right; auto|left].
    destruct (getq lat (i - 1)) as [a|], (getq lon (i - 1)) as [b|]; try reflexivity.
    destruct H as [H|H]; rewrite H; [destruct (getq lat i)|]; reflexivity.
  Qed.

  (* a point with a full position is MISSING only when its predecessor lacks a coordinate *)
  Lemma speed_pt_missing_only st ft lon lat ts i c d :
    getq lat i = Some c -> getq lon i = Some d -> speed_pt geod st ft lon lat ts i = MISSING ->
    i <> 0%nat /\ (getq lat (i - 1) = None \/ getq lon (i - 1) = None).
  Proof.
    intros Hc Hd H. apply speed_pt_missing_iff in H. destruct H as [H0 H]. split; [exact H0|].
    unfold hop in H. rewrite Hc, Hd in H.
    destruct (getq lat (i - 1)); [|auto]. destruct (getq lon (i - 1)); [discriminate|auto].
  Qed.

  (* ---------------------------------------------------------------- C16 *)

  Lemma speed_pt_mono st ft st' ft' lon lat ts i :
    st' <= st -> ft' <= ft ->
    (sev (speed_pt geod st ft lon lat ts i) <= sev (speed_pt geod st' ft' lon lat ts i))%nat /\
    not_evaluated (speed_pt geod st ft lon lat ts i) = not_evaluated (speed_pt geod st' ft' lon lat ts i).
  Proof.
    intros Hs Hf. unfold speed_pt. destruct (Nat.eqb i 0); [auto|].
    destruct (getq lat (i - 1)) as [a|], (getq lon (i - 1)) as [b|],
             (getq lat i) as [c|], (getq lon i) as [d|]; simpl; auto.
    split; [apply decide2_mono; assumption|]. rewrite !decide2_evaluated. reflexivity.
  Qed.

  (* ---------------------------------------------------------------- C17 *)

  Lemma speed_pt_tshift st ft c lon lat ts i :
    (i < length ts)%nat ->
    speed_pt geod st ft lon lat (map (fun t => (t + c)%Z) ts) i = speed_pt geod st ft lon lat ts i.
  Proof. intros Hi. unfold speed_pt. rewrite dsecs_tshift by exact Hi. reflexivity. Qed.

  Lemma speed_spec_tshift st ft c lon lat ts :
    speed_spec geod st ft lon lat (map (fun t => (t + c)%Z) ts) = speed_spec geod st ft lon lat ts.
  Proof.
    unfold speed_spec. rewrite map_length.
    destruct (Nat.eqb (length lon) (length lat)); [|reflexivity].
    destruct (Nat.eqb_spec (length lon) (length ts)) as [E|E]; [|reflexivity]. simpl.
    f_equal. apply tab_ext. intros i Hi. apply speed_pt_tshift. lia.
  Qed.

  (* locality: changing the position at k can only alter the flags at k and k+1 *)
  Lemma speed_pt_local st ft lon lat lon' lat' ts k i :
    (forall j, j <> k -> getq lon j = getq lon' j) ->
    (forall j, j <> k -> getq lat j = getq lat' j) ->
    i <> k -> (i <> k + 1)%nat ->
    speed_pt geod st ft lon lat ts i = speed_pt geod st ft lon' lat' ts i.
  Proof.
    intros Hlon Hlat H0 H1. unfold speed_pt.
    destruct (Nat.eqb_spec i 0) as [E0|E0]; [reflexivity|].
    rewrite (Hlon i), (Hlat i) by exact H0.
    rewrite (Hlon (i - 1)%nat), (Hlat (i - 1)%nat) by lia. reflexivity.
  Qed.

End SpeedProofs.

(* the flags depend on the distance function only through the hops of the track *)
Lemma speed_pt_geod_ext geod geod' st ft lon lat ts i :
  (forall a b c d, geod a b c d == geod' a b c d) ->
  speed_pt geod st ft lon lat ts i = speed_pt geod' st ft lon lat ts i.
Proof.
  intros H. unfold speed_pt. destruct (Nat.eqb i 0); [reflexivity|].
  destruct (getq lat (i - 1)) as [a|], (getq lon (i - 1)) as [b|],
           (getq lat i) as [c|], (getq lon i) as [d|]; try reflexivity.
  apply decide2_Proper. unfold speed_of. rewrite (H a b c d). reflexivity.
Qed.
