(* Props_C01.v — C01: every QC test is a total, pure map from a series to one valid flag per point.
   Only statements, `exact <lemma>` and Print Assumptions.
   (statements written out by tools/mk_props.py from the lemmas they restate) *)
From IoosQc Require Import Base Generated Range RangeProofs Spike SpikeProofs Rate RateProofs Location LocationProofs Density DensityProofs FlatLine FlatLineProofs Attenuated AttenuatedProofs Calendar Climatology ClimatologyProofs TotalProofs.


(* for every length (0, 1, 2, ... included) and every placement of missing values, with valid parameters, each test's model returns WITHOUT raising exactly one flag per input element (`total o n`: o = Flags fl with length fl = n; each flag is one of the five by typing; the order is the input order by the per-index refinement theorems): gross_range_test *)
Theorem C01_gross :
  forall (a b : Q) (ss : option (list Q)) (xs : list obs),
         ss = None \/
         (exists c d : Q,
            ss = Some [c; d] /\
            fst (sort2 a b) <= fst (sort2 c d) /\ snd (sort2 c d) <= snd (sort2 a b)) ->
         total (gross_model [a; b] ss xs) (length xs).
Proof. exact (@gross_total). Qed.
Print Assumptions C01_gross.

(* valid_range_test *)
Theorem C01_valid :
  forall (lo hi : option Q) (si ei : bool) (xs : list obs),
         total (valid_model lo hi si ei xs) (length xs).
Proof. exact (@valid_total). Qed.
Print Assumptions C01_valid.

(* spike_test *)
Theorem C01_spike :
  forall (method : String.string) (m : spike_method) (st ft : option Q) (xs : list obs),
         parse_method method = Some m -> total (spike_model method st ft xs) (length xs).
Proof. exact (@spike_total). Qed.
Print Assumptions C01_spike.

(* rate_of_change_test *)
Theorem C01_roc :
  forall (thr : Q) (xs : list obs) (ts : list Z),
         whole_increasing ts ->
         0 <= thr -> length xs = length ts -> total (roc_model thr xs ts) (length xs).
Proof. exact (@roc_total). Qed.
Print Assumptions C01_roc.

(* speed_test (any geodesic) *)
Theorem C01_speed :
  forall (geod : Q -> Q -> Q -> Q -> Q) (st ft : Q) (lon lat : list obs) (ts : list Z),
         whole_increasing ts ->
         length lon = length lat ->
         length lon = length ts -> total (speed_model geod st ft lon lat ts) (length lon).
Proof. exact (@speed_total). Qed.
Print Assumptions C01_speed.

(* location_test (any geodesic) *)
Theorem C01_location :
  forall (geod : Q -> Q -> Q -> Q -> Q) (minx miny maxx maxy : Q) 
           (rm : option Q) (lon lat : list obs),
         loc_dom rm (length lon) ->
         length lon = length lat ->
         total (location_model geod [minx; miny; maxx; maxy] rm lon lat) (length lon).
Proof. exact (@location_total). Qed.
Print Assumptions C01_location.

(* density_inversion_test *)
Theorem C01_density :
  forall (st ft : option Q) (rho z : list obs),
         length rho = length z -> total (density_model st ft rho z) (length rho).
Proof. exact (@density_total). Qed.
Print Assumptions C01_density.

(* pressure_increasing_test *)
Theorem C01_pressure :
  forall ps : list obs, total (pressure_model ps) (length ps).
Proof. exact (@pressure_total). Qed.
Print Assumptions C01_pressure.

(* flat_line_test *)
Theorem C01_flat :
  forall (d : Z) (st ft tol : Q) (xs : list obs) (ts : list Z),
         regular_ns d ts ->
         (0 < d)%Z ->
         length ts = length xs ->
         0 <= st -> 0 <= ft -> total (flat_model st ft tol xs ts) (length xs).
Proof. exact (@flat_total). Qed.
Print Assumptions C01_flat.

(* attenuated_signal_test *)
Theorem C01_atten :
  forall (check : String.string) (ct : check_type) (st ft : Q) (tp mo mp : option Z)
           (xs : list obs) (ts : list Z),
         parse_check_type check = Some ct ->
         (forall ct' : check_type, parse_check_type check = Some ct' -> atten_dom ct' tp mo mp xs ts) ->
         total (atten_model check st ft tp mo mp xs ts) (length xs).
Proof. exact (@atten_total). Qed.
Print Assumptions C01_atten.

(* climatology_test *)
Theorem C01_clim :
  forall (config : list member) (xs : list obs) (ts : list Z) (zs : list obs),
         total (clim_model config xs ts zs) (length xs).
Proof. exact (@clim_total). Qed.
Print Assumptions C01_clim.

(* determinism and independence of history: the abstract machine the call-history correspondence ties the code to has NO state — the i-th answer of any operation sequence is the model's answer for the i-th call alone *)
Theorem C01_history :
  forall (Op : Type) (run_model : Op -> outcome) (ops : list Op),
         run Op run_model tt ops = map run_model ops.
Proof. exact (@history_stateless). Qed.
Print Assumptions C01_history.

(* so repeating a call later, after any other calls, gives the same answer *)
Theorem C01_history_repeat :
  forall (Op : Type) (run_model : Op -> outcome) (ops1 : list Op) 
           (o : Op) (ops2 ops3 : list Op),
         nth (length ops1) (run Op run_model tt (ops1 ++ o :: ops2)) (Raises OtherError) =
         nth (length ops3) (run Op run_model tt (ops3 ++ [o])) (Raises OtherError).
Proof. exact (@history_perm_repeat). Qed.
Print Assumptions C01_history_repeat.

(* the five flags and their integer codes (GOOD=1, UNKNOWN=2, SUSPECT=3, FAIL=4, MISSING=9; table re-read from the source in Generated.flag_codes) *)
Theorem C01_flag_codes :
  forall f : flag, flag_of_code (code f) = Some f.
Proof. exact (@flag_of_code_code). Qed.
Print Assumptions C01_flag_codes.

Theorem C01_codes_inj :
  forall a b : flag, code a = code b -> a = b.
Proof. exact (@code_inj). Qed.
Print Assumptions C01_codes_inj.

Theorem C01_flag_table : flag_codes = [(GOOD, 1%Z); (UNKNOWN, 2%Z); (SUSPECT, 3%Z); (FAIL, 4%Z); (MISSING, 9%Z)] /\ Forall (fun p => code (fst p) = snd p) flag_codes.
Proof. split; [reflexivity|repeat constructor]. Qed.
Print Assumptions C01_flag_table.
