(* Props_C15.v — C15: flags do not depend on how the same series and times are represented.
   Only statements, `exact <lemma>` and Print Assumptions.
   (statements written out by tools/mk_props.py from the lemmas they restate) *)
From IoosQc Require Import Base Carrier CarrierProofs.


(* on every supported carrier (list/tuple with None or NaN, ndarray of any real dtype, pandas Series, dask array, masked array whose masked entries hold NaN) the tests' normalisation yields exactly the logical series the carrier denotes *)
Theorem C15_data :
  forall c : dcarrier, supported c -> normalise c = denote c.
Proof. exact (@carrier_data). Qed.
Print Assumptions C15_data.

(* mapdates yields the denoted instants for datetime64 of any unit, python datetimes, Timestamps, DatetimeIndex / Series (naive or UTC-aware) and epoch seconds *)
Theorem C15_time :
  forall c : tcarrier, mapdates_model c = denote_t c.
Proof. exact (@carrier_time). Qed.
Print Assumptions C15_time.

Theorem C15_units :
  forall k : Z,
         denote_t (TDt64 NS [k]) = denote_t (TDt64 1000000 [(k * 1000)%Z]) /\
         denote_t (TDt64 NS [k]) = denote_t (TDt64 1000 [(k * 1000000)%Z]) /\
         denote_t (TDt64 NS [k]) = denote_t (TDt64 1 [(k * NS)%Z]) /\
         denote_t (TDt64 NS [k]) = denote_t (TEpoch [k]).
Proof. exact (@dt64_units). Qed.
Print Assumptions C15_units.

(* hence ANY function of the normalised series — in particular every QC test model of this development — returns the same flags for two carriers of the same logical series *)
Theorem C15_flags :
  forall (R : Type) (f : list obs -> R) (c1 c2 : dcarrier),
         supported c1 -> supported c2 -> denote c1 = denote c2 -> f (normalise c1) = f (normalise c2).
Proof. exact (@carrier_flags). Qed.
Print Assumptions C15_flags.

Theorem C15_flags_time :
  forall (R : Type) (f : list obs -> list Z -> R) (c1 c2 : dcarrier) (t1 t2 : tcarrier),
         supported c1 ->
         supported c2 ->
         denote c1 = denote c2 ->
         denote_t t1 = denote_t t2 ->
         f (normalise c1) (mapdates_model t1) = f (normalise c2) (mapdates_model t2).
Proof. exact (@carrier_flags_time). Qed.
Print Assumptions C15_flags_time.

(* a masked array whose masked entries hide FINITE values is NOT supported: np.array(masked) drops the mask (known finding F13a) *)
Theorem C15_masked_refuted :
  exists c : dcarrier, normalise c <> denote c.
Proof. exact (@carrier_masked_refuted). Qed.
Print Assumptions C15_masked_refuted.

