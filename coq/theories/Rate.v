(* Rate.v — models and pointwise specifications of
     qartod.rate_of_change_test   (qartod.py)
     argo.speed_test              (argo.py)  with utils.great_circle_distance / utils.mapdates.
   Time axes are lists of Z nanoseconds (what mapdates returns: datetime64[ns]; epoch seconds s are
   s * 10^9).  Elapsed whole seconds = secs (t_i - t_{i-1}) (timedelta64[ns] -> [s]).
   Division by 0 elapsed seconds is outside the domain (Coq's x / 0 = 0).
   Models follow the source step by step (same overwrites in the same order). *)
From IoosQc Require Import Base.

(* elapsed whole seconds between point i-1 and point i, as a rational *)
Definition dsecs (ts : list Z) (i : nat) : Q := inject_Z (secs (getz ts i - getz ts (i - 1))).

(* the domain of the property: strictly increasing axes with whole-second steps *)
Definition whole_increasing (ts : list Z) : Prop :=
  forall i, (0 < i < length ts)%nat ->
    exists k, (0 < k)%Z /\ (getz ts i - getz ts (i - 1) = k * NS)%Z.

(* what the refinement proofs actually use: no negative elapsed time *)
Definition steps_nonneg (ts : list Z) : Prop :=
  forall i, (0 < i < length ts)%nat -> (0 <= secs (getz ts i - getz ts (i - 1)))%Z.

(* ------------------------------------------------------------------ rate of change *)

(* roc = zeros(n); roc[1:] = abs(diff(inp) / diff(tinp)[s]) — masked where an operand is *)
Definition roc_rates (xs : list obs) (ts : list Z) : list obs :=
  tab (length xs) (fun i =>
    if Nat.eqb i 0 then Some 0
    else olift2 (fun x p => qabs ((x - p) / dsecs ts i)) (getq xs i) (getq xs (i - 1))).

Definition roc_model (thr : Q) (xs : list obs) (ts : list Z) : outcome :=
  let n := length xs in
  (* if inp.size != tinp.size: raise ValueError *)
  if negb (Nat.eqb n (length ts)) then Raises ValueError else
  let roc := roc_rates xs ts in
  let f0 := all_flags n GOOD in                                              (* np.ma.ones *)
  let f1 := set_where (tab n (fun i => otest (Qltb thr) (getq roc i))) SUSPECT f0 in
                                                                (* flag_arr[roc > threshold] *)
  Flags (set_where (tab n (missing_at xs)) MISSING f1).          (* flag_arr[inp.mask] = MISSING *)

(* the property, per point *)
Definition roc_rate (p x dt : Q) : Q := qabs (x - p) / dt.

Definition roc_decide (thr v : Q) : flag := if Qltb thr v then SUSPECT else GOOD.

Definition roc_pt (thr : Q) (xs : list obs) (ts : list Z) (i : nat) : flag :=
  match getq xs i with
  | None => MISSING
  | Some x =>
      if Nat.eqb i 0 then GOOD
      else match getq xs (i - 1) with
           | None => GOOD
           | Some p => roc_decide thr (roc_rate p x (dsecs ts i))
           end
  end.

Definition roc_spec (thr : Q) (xs : list obs) (ts : list Z) : outcome :=
  if Nat.eqb (length xs) (length ts) then Flags (tab (length xs) (roc_pt thr xs ts))
  else Raises ValueError.

(* ------------------------------------------------------------------ speed *)

(* FAIL above ft, else SUSPECT above st, else GOOD *)
Definition decide2 (st ft v : Q) : flag :=
  if Qltb ft v then FAIL else if Qltb st v then SUSPECT else GOOD.

Section Speed.
  Variable geod : Q -> Q -> Q -> Q -> Q.   (* lat1 lon1 lat2 lon2 -> metres; nothing assumed *)

  (* distance of the hop that ends at i (i >= 1): gc(lat[i-1], lon[i-1], lat[i], lon[i]),
     masked where one of the four coordinates is *)
  Definition hop (lon lat : list obs) (i : nat) : obs :=
    match getq lat (i - 1), getq lon (i - 1), getq lat i, getq lon i with
    | Some a, Some b, Some c, Some d => Some (geod a b c d)
    | _, _, _, _ => None
    end.

  (* great_circle_distance: dist = zeros(n); dist[1:] = vectorize(gc)(...) *)
  Definition speed_dist (lon lat : list obs) : list obs :=
    tab (length lon) (fun i => if Nat.eqb i 0 then Some 0 else hop lon lat i).

  Definition speed_model (st ft : Q) (lon lat : list obs) (ts : list Z) : outcome :=
    let n := length lon in
    if negb (Nat.eqb n (length lat) && Nat.eqb n (length ts)) then Raises ValueError else
    if Nat.eqb n 0 then Flags [] else
    let f0 := all_flags n GOOD in
    (* mloc = lon.mask & lat.mask *)
    let f1 := set_where (tab n (fun i => missing_at lon i && missing_at lat i)) MISSING f0 in
    if Nat.ltb n 2 then Flags (set_at 0 UNKNOWN f1) else
    let dist := speed_dist lon lat in
    (* speed = zeros(n); speed[1:] = abs(dist[1:] / diff(tinp)[s]) *)
    let speed := tab n (fun i =>
                   if Nat.eqb i 0 then Some 0
                   else option_map (fun d => qabs (d / dsecs ts i)) (getq dist i)) in
    let f2 := set_where (tab n (fun i => otest (Qltb st) (getq speed i))) SUSPECT f1 in
    let f3 := set_where (tab n (fun i => otest (Qltb ft) (getq speed i))) FAIL f2 in
    let f4 := set_at 0 UNKNOWN f3 in
    Flags (set_where (tab n (fun i => is_none (getq dist i))) MISSING f4).  (* flag_arr[dist.mask] *)

  (* the property, per point *)
  Definition speed_of (a b c d dt : Q) : Q := qabs (geod a b c d) / dt.

  Definition speed_pt (st ft : Q) (lon lat : list obs) (ts : list Z) (i : nat) : flag :=
    if Nat.eqb i 0 then UNKNOWN
    else
      match getq lat (i - 1), getq lon (i - 1), getq lat i, getq lon i with
      | Some a, Some b, Some c, Some d => decide2 st ft (speed_of a b c d (dsecs ts i))
      | _, _, _, _ => MISSING
      end.

  Definition speed_spec (st ft : Q) (lon lat : list obs) (ts : list Z) : outcome :=
    let n := length lon in
    if Nat.eqb n (length lat) && Nat.eqb n (length ts)
    then Flags (tab n (speed_pt st ft lon lat ts))
    else Raises ValueError.

End Speed.

(* executable distance oracle for the correspondence harness: the hop distances computed by
   geographiclib, looked up by exact equality of the four coordinates (default 0) *)
Fixpoint geod_of_table (tb : list ((Q * Q * Q * Q) * Q)) (a b c d : Q) : Q :=
  match tb with
  | [] => 0
  | ((a', b', c', d'), v) :: r =>
      if Qeq_bool a a' && Qeq_bool b b' && Qeq_bool c c' && Qeq_bool d d' then v
      else geod_of_table r a b c d
  end.
