(* GenP_rate.v — rate_of_change_test and argo.speed_test assembled from their generated parts = models *)
From IoosQc Require Import Base Skel Arr Gen SkelBase ArrBase GenBase Generated Rate SkelP_rate ArrP_rate.
From Coq Require Import String.
Local Notation length := List.length.
Open Scope string_scope.

(* ------------------------------------------------------------------ rate_of_change_test *)

Theorem gen_roc thr xs ts :
  length xs = length ts -> steps_nonzero ts ->
  exists fl,
    gen_flags (length xs) (bind_tim [("tinp", ts)]) (bind_num [("threshold", Some thr)]) (fun _ => None)
              prog_rate_of_change_test skel_rate_of_change_test ["inp"; "roc"] (bind_store [("inp", xs)]) GOOD
      = Some fl
    /\ roc_model thr xs ts = Flags fl.
Proof.
  intros Hl Hnz. unfold gen_flags.
  set (en0 := {| e_arr := fun _ => None; e_num := _; e_str := _; e_size := _ |}).
  destruct (prog_roc en0 xs ts Hl Hnz) as (s1 & Hrun & Hroc & Hinp).
  rewrite Hrun. eexists. split; [reflexivity|].
  rewrite (skel_roc thr xs ts Hl). f_equal. apply run_steps_ext.
  repeat split; cbn [e_arr e_num e_str e_size env_roc]; try reflexivity.
  apply (restrict_bind s1 [("inp", xs); ("roc", roc_rates xs ts)]). intros p Hp. in_cases Hp.
Qed.

(* ------------------------------------------------------------------ argo.speed_test *)

Section SpeedGen.
  Variable geod : Q -> Q -> Q -> Q -> Q.

  (* `dist = great_circle_distance(lat, lon)` is a call into utils / geographiclib: its result enters the
     generated program as an input array *)
  Theorem gen_speed st ft lon lat ts :
    length lon = length lat -> length lon = length ts -> (2 <= length lon)%nat -> steps_nonzero ts ->
    exists fl,
      gen_flags (length lon) (bind_tim [("tinp", ts)])
                (bind_num [("suspect_threshold", Some st); ("fail_threshold", Some ft)]) (fun _ => None)
                prog_speed_test skel_speed_test ["lon"; "lat"; "dist"; "speed"]
                (bind_store [("lon", lon); ("lat", lat); ("dist", speed_dist geod lon lat)]) GOOD = Some fl
      /\ speed_model geod st ft lon lat ts = Flags fl.
  Proof.
    intros Hl Ht H2 Hnz. unfold gen_flags.
    set (en0 := {| e_arr := fun _ => None; e_num := _; e_str := _; e_size := _ |}).
    destruct (prog_speed geod en0 lon lat ts Hl Ht H2 eq_refl Hnz) as (s1 & Hrun & Hs & Hlon & Hlat & Hd).
    rewrite Hrun. eexists. split; [reflexivity|].
    assert (Hne : lon <> []) by (destruct lon; [cbn in H2; lia|discriminate]).
    rewrite (skel_speed geod st ft lon lat ts Hl Ht Hne). f_equal. apply run_steps_ext.
    repeat split; cbn [e_arr e_num e_str e_size env_speed]; try reflexivity.
    apply (restrict_bind s1 [("lon", lon); ("lat", lat); ("dist", speed_dist geod lon lat);
                             ("speed", speed_arr geod lon lat ts)]).
    intros p Hp. in_cases Hp.
  Qed.
End SpeedGen.
