(* Props_C19.v — C19: the pandas store writes one aligned, uniquely named column per test result.
   Only statements, `exact <lemma>` and Print Assumptions.
   (statements written out by tools/mk_props.py from the lemmas they restate) *)
From IoosQc Require Import Base Generated Compare CompareProofs Store StoreProofs.


(* CF-safe names: only letters, digits and underscores (character classes parsed from the regex literals the translator re-reads from /repo on every run) *)
Theorem C19_cf_legal :
  forall s : name, Forall (fun c : N => legal_char c = true) (cf_safe_name_model s).
Proof. exact (@cf_legal). Qed.
Print Assumptions C19_cf_legal.

(* never starting with a digit *)
Theorem C19_cf_no_leading_digit :
  forall s : name,
         match cf_safe_name_model s with
         | [] => True
         | c :: _ => is_digit c = false
         end.
Proof. exact (@cf_no_leading_digit). Qed.
Print Assumptions C19_cf_no_leading_digit.

Theorem C19_cf_leading_letter :
  forall (c : N) (r : list N),
         legal_char c = true ->
         exists (c' : N) (r' : list N), cf_safe_name_model (c :: r) = c' :: r' /\ is_letter c' = true.
Proof. exact (@cf_leading_letter). Qed.
Print Assumptions C19_cf_leading_letter.

(* names that are already CF-safe are unchanged *)
Theorem C19_cf_identity :
  forall (c : N) (r : list N),
         is_letter c = true ->
         Forall (fun c0 : N => legal_char c0 = true) r -> cf_safe_name_model (c :: r) = c :: r.
Proof. exact (@cf_identity). Qed.
Print Assumptions C19_cf_identity.

Theorem C19_cf_classes_lead :
  forall c : N, cls_match lead_class c = is_digit c || (c =? underscore)%N.
Proof. exact (@lead_class_spec). Qed.
Print Assumptions C19_cf_classes_lead.

Theorem C19_cf_classes_sub :
  forall c : N, cls_match sub_class c = negb (legal_char c).
Proof. exact (@sub_class_spec). Qed.
Print Assumptions C19_cf_classes_sub.

(* the column of a result is <stream>_<module>_<test> made CF-safe *)
Theorem C19_column_name :
  forall s pk ts : name,
         truthy s = true ->
         truthy pk = true ->
         column_name (Some s) pk ts =
         cf_safe_name_model s ++ [underscore] ++ clean pk ++ [underscore] ++ clean ts.
Proof. exact (@column_name_split). Qed.
Print Assumptions C19_column_name.

Theorem C19_column_name_safe :
  forall (c : N) (r : list N) (pk : name) (ts : list N),
         is_letter c = true ->
         Forall (fun c0 : N => legal_char c0 = true) r ->
         truthy pk = true ->
         Forall (fun c0 : N => legal_char c0 = true) pk ->
         Forall (fun c0 : N => legal_char c0 = true) ts ->
         column_name (Some (c :: r)) pk ts = (c :: r) ++ [underscore] ++ pk ++ [underscore] ++ ts.
Proof. exact (@column_name_safe). Qed.
Print Assumptions C19_column_name_safe.

Theorem C19_column_name_legal :
  forall (st : option name) (pk ts : name),
         Forall (fun c : N => legal_char c = true) (column_name st pk ts).
Proof. exact (@column_name_legal). Qed.
Print Assumptions C19_column_name_legal.

(* distinct CF-safe stream ids give distinct columns *)
Theorem C19_column_name_inj :
  forall (c1 : N) (r1 : list N) (c2 : N) (r2 : list N) (pk ts : name),
         is_letter c1 = true ->
         Forall (fun c : N => legal_char c = true) r1 ->
         is_letter c2 = true ->
         Forall (fun c : N => legal_char c = true) r2 ->
         truthy pk = true ->
         column_name (Some (c1 :: r1)) pk ts = column_name (Some (c2 :: r2)) pk ts ->
         c1 :: r1 = c2 :: r2.
Proof. exact (@column_name_inj_safe). Qed.
Print Assumptions C19_column_name_inj.

(* include keeps and exclude drops results by stream id, test name or function *)
Theorem C19_filter :
  forall (inc exc : option (list fitem)) (cr : cres),
         decide_code inc exc cr = Keep <->
         match inc with
         | Some i => matches cr i = true
         | None => True
         end /\ match exc with
                | Some e => matches cr e = false
                | None => True
                end.
Proof. exact (@save_filter). Qed.
Print Assumptions C19_filter.

(* the filter of the code IS the property's rule, for all include / exclude lists *)
Theorem C19_filter_agrees :
  forall (inc exc : option (list fitem)) (cr : cres),
         decide_code inc exc cr = decide_intended inc exc cr.
Proof. exact (@filter_agrees). Qed.
Print Assumptions C19_filter_agrees.

(* exactly one row per input row: every column has n entries, nothing raises, every kept result has its column *)
Theorem C19_rows :
  forall (ax : axes) (wd wa : bool) (inc exc : option (list fitem)) 
           (n : nat) (crs : list cres),
         Forall (wf n) crs ->
         exists f : frame,
           save_model ax wd wa inc exc crs = inr f /\
           cols_len n f /\
           (forall cr : cres,
            In cr crs -> decide_code inc exc cr = Keep -> has_col (column_of cr) f = true).
Proof. exact (@save_rows). Qed.
Print Assumptions C19_rows.

(* for all runs with well-formed arrays and pairwise distinct column names (names_ok): the source's loop equals the specification walk *)
Theorem C19_refines :
  forall (ax : axes) (wd wa : bool) (inc exc : option (list fitem)) 
           (n : nat) (crs : list cres),
         Forall (wf n) crs ->
         names_ok ax wd wa (decide_code inc exc) crs ->
         save_model ax wd wa inc exc crs = save_spec ax wd wa inc exc crs.
Proof. exact (@save_refines). Qed.
Print Assumptions C19_refines.

(* and equals the frame the property describes, for all write_data / write_axes / include / exclude *)
Theorem C19_meets_property :
  forall (ax : axes) (wd wa : bool) (inc exc : option (list fitem)) 
           (n : nat) (crs : list cres),
         Forall (wf n) crs ->
         names_ok ax wd wa (decide_code inc exc) crs ->
         save_model ax wd wa inc exc crs = save_intended ax wd wa inc exc crs.
Proof. exact (@save_meets_property). Qed.
Print Assumptions C19_meets_property.

Theorem C19_store_meets_property :
  forall (ax : axes) (aggs : list name) (wd wa : bool) (inc exc : option (list fitem))
           (n : nat) (crs crs' : list cres),
         aggregates aggs crs = inr crs' ->
         Forall (wf n) crs' ->
         names_ok ax wd wa (decide_code inc exc) crs' ->
         store_model ax aggs wd wa inc exc crs = store_intended ax aggs wd wa inc exc crs.
Proof. exact (@store_meets_property). Qed.
Print Assumptions C19_store_meets_property.

(* result columns = the kept results in order with their flags; axis columns iff write_axes; data columns iff write_data *)
Theorem C19_columns :
  forall (ax : axes) (wd wa : bool) (inc exc : option (list fitem)) 
           (n : nat) (crs : list cres) (f : frame),
         Forall (wf n) crs ->
         names_ok ax wd wa (decide_code inc exc) crs ->
         save_model ax wd wa inc exc crs = inr f ->
         cols_len n f /\
         res_view f =
         map (fun cr : cres => (column_of cr, CFlags (results cr))) (kept (decide_code inc exc) crs) /\
         (forall a : axis,
          ax_view a f =
          (if wa
           then match first_axis a crs with
                | Some l => [(axis_name ax a, CVals l)]
                | None => []
                end
           else [])) /\
         (forall s : name,
          truthy s = true ->
          data_view s f =
          (if wd then map CVals (opt_list (first_data (decide_code inc exc) s crs)) else [])).
Proof. exact (@save_columns). Qed.
Print Assumptions C19_columns.

(* compute_aggregate appends the roll-up (C04) of all collected results *)
Theorem C19_rollup :
  forall (n : nat) (nm : name) (crs : list cres),
         crs <> [] ->
         Forall (wf n) crs ->
         compute_aggregate_model nm crs = inr (crs ++ [agg_cres nm (rollup n (map results crs))]) /\
         Forall (wf n) (crs ++ [agg_cres nm (rollup n (map results crs))]).
Proof. exact (@compute_aggregate_rollup). Qed.
Print Assumptions C19_rollup.

Theorem C19_store_rollup :
  forall (ax : axes) (wd wa : bool) (n : nat) (nm : name) (crs : list cres) (f : frame),
         crs <> [] ->
         Forall (wf n) crs ->
         names_ok ax wd wa (decide_code None None)
           (crs ++ [agg_cres nm (rollup n (map results crs))]) ->
         store_model ax [nm] wd wa None None crs = inr f ->
         cols_len n f /\
         res_view f =
         map (fun cr : cres => (column_of cr, CFlags (results cr))) crs ++
         [(column_name (Some [])
             (codes
                (String.String (Ascii.Ascii true false false false true true true false)
                   (String.String (Ascii.Ascii true false false false false true true false)
                      (String.String (Ascii.Ascii false true false false true true true false)
                         (String.String (Ascii.Ascii false false true false true true true false)
                            (String.String (Ascii.Ascii true true true true false true true false)
                               (String.String
                                  (Ascii.Ascii false false true false false true true false)
                                  String.EmptyString))))))) nm,
           CFlags (lift (rollup n (map results crs))))].
Proof. exact (@store_rollup). Qed.
Print Assumptions C19_store_rollup.

Theorem C19_rollup_not_better :
  forall (n : nat) (crs : list cres) (cr : cres) (i : nat) (f : flag),
         In cr crs ->
         (i < n)%nat ->
         nth i (results cr) None = Some (code f) ->
         (prio f <= prio (nth i (rollup n (map results crs)) MISSING))%nat.
Proof. exact (@rollup_not_better_store). Qed.
Print Assumptions C19_rollup_not_better.

(* WITHOUT names_ok the statement is false: two stream ids that differ only in characters illegal in CF names (a.b / a_b) collide and the second result column is silently dropped — KNOWN_FINDINGS F14b *)
Theorem C19_collision_refuted :
  Forall (wf 2) [wA; wB] /\
         observe (save_model default_axes false false None None [wA; wB]) =
         OFrame
           [(codes
               (String.String (Ascii.Ascii true false false false false true true false)
                  (String.String (Ascii.Ascii true true true true true false true false)
                     (String.String (Ascii.Ascii false true false false false true true false)
                        (String.String (Ascii.Ascii true true true true true false true false)
                           (String.String (Ascii.Ascii true false false false true true true false)
                              (String.String
                                 (Ascii.Ascii true false false false false true true false)
                                 (String.String
                                    (Ascii.Ascii false true false false true true true false)
                                    (String.String
                                       (Ascii.Ascii false false true false true true true false)
                                       (String.String
                                          (Ascii.Ascii true true true true false true true false)
                                          (String.String
                                             (Ascii.Ascii false false true false false true true
                                                false)
                                             (String.String
                                                (Ascii.Ascii true true true true true false true
                                                   false)
                                                (String.String
                                                   (Ascii.Ascii true true true false false true true
                                                      false)
                                                   (String.String
                                                      (Ascii.Ascii false true false false true true
                                                         true false)
                                                      (String.String
                                                         (Ascii.Ascii true true true true false true
                                                            true false)
                                                         (String.String
                                                            (Ascii.Ascii true true false false true
                                                               true true false)
                                                            (String.String
                                                               (Ascii.Ascii true true false false
                                                                  true true true false)
                                                               (String.String
                                                                  (Ascii.Ascii true true true true
                                                                     true false true false)
                                                                  (String.String
                                                                     (Ascii.Ascii false true false
                                                                        false true true true false)
                                                                     (String.String
                                                                        (Ascii.Ascii true false false
                                                                        false false true true false)
                                                                        (String.String
                                                                        (Ascii.Ascii false true true
                                                                        true false true true false)
                                                                        (String.String
                                                                        (Ascii.Ascii true true true
                                                                        false false true true false)
                                                                        (String.String
                                                                        (Ascii.Ascii true false true
                                                                        false false true true false)
                                                                        (String.String
                                                                        (Ascii.Ascii true true true
                                                                        true true false true false)
                                                                        (String.String
                                                                        (Ascii.Ascii false false true
                                                                        false true true true false)
                                                                        (String.String
                                                                        (Ascii.Ascii true false true
                                                                        false false true true false)
                                                                        (String.String
                                                                        (Ascii.Ascii true true false
                                                                        false true true true false)
                                                                        (String.String
                                                                        (Ascii.Ascii false false true
                                                                        false true true true false)
                                                                        String.EmptyString))))))))))))))))))))))))))),
             [Some 1; Some 1])] /\
         observe (save_intended default_axes false false None None [wA; wB]) =
         OFrame
           [(codes
               (String.String (Ascii.Ascii true false false false false true true false)
                  (String.String (Ascii.Ascii true true true true true false true false)
                     (String.String (Ascii.Ascii false true false false false true true false)
                        (String.String (Ascii.Ascii true true true true true false true false)
                           (String.String (Ascii.Ascii true false false false true true true false)
                              (String.String
                                 (Ascii.Ascii true false false false false true true false)
                                 (String.String
                                    (Ascii.Ascii false true false false true true true false)
                                    (String.String
                                       (Ascii.Ascii false false true false true true true false)
                                       (String.String
                                          (Ascii.Ascii true true true true false true true false)
                                          (String.String
                                             (Ascii.Ascii false false true false false true true
                                                false)
                                             (String.String
                                                (Ascii.Ascii true true true true true false true
                                                   false)
                                                (String.String
                                                   (Ascii.Ascii true true true false false true true
                                                      false)
                                                   (String.String
                                                      (Ascii.Ascii false true false false true true
                                                         true false)
                                                      (String.String
                                                         (Ascii.Ascii true true true true false true
                                                            true false)
                                                         (String.String
                                                            (Ascii.Ascii true true false false true
                                                               true true false)
                                                            (String.String
                                                               (Ascii.Ascii true true false false
                                                                  true true true false)
                                                               (String.String
                                                                  (Ascii.Ascii true true true true
                                                                     true false true false)
                                                                  (String.String
                                                                     (Ascii.Ascii false true false
                                                                        false true true true false)
                                                                     (String.String
                                                                        (Ascii.Ascii true false false
                                                                        false false true true false)
                                                                        (String.String
                                                                        (Ascii.Ascii false true true
                                                                        true false true true false)
                                                                        (String.String
                                                                        (Ascii.Ascii true true true
                                                                        false false true true false)
                                                                        (String.String
                                                                        (Ascii.Ascii true false true
                                                                        false false true true false)
                                                                        (String.String
                                                                        (Ascii.Ascii true true true
                                                                        true true false true false)
                                                                        (String.String
                                                                        (Ascii.Ascii false false true
                                                                        false true true true false)
                                                                        (String.String
                                                                        (Ascii.Ascii true false true
                                                                        false false true true false)
                                                                        (String.String
                                                                        (Ascii.Ascii true true false
                                                                        false true true true false)
                                                                        (String.String
                                                                        (Ascii.Ascii false false true
                                                                        false true true true false)
                                                                        String.EmptyString))))))))))))))))))))))))))),
             [Some 1; Some 1]);
            (codes
               (String.String (Ascii.Ascii true false false false false true true false)
                  (String.String (Ascii.Ascii true true true true true false true false)
                     (String.String (Ascii.Ascii false true false false false true true false)
                        (String.String (Ascii.Ascii true true true true true false true false)
                           (String.String (Ascii.Ascii true false false false true true true false)
                              (String.String
                                 (Ascii.Ascii true false false false false true true false)
                                 (String.String
                                    (Ascii.Ascii false true false false true true true false)
                                    (String.String
                                       (Ascii.Ascii false false true false true true true false)
                                       (String.String
                                          (Ascii.Ascii true true true true false true true false)
                                          (String.String
                                             (Ascii.Ascii false false true false false true true
                                                false)
                                             (String.String
                                                (Ascii.Ascii true true true true true false true
                                                   false)
                                                (String.String
                                                   (Ascii.Ascii true true true false false true true
                                                      false)
                                                   (String.String
                                                      (Ascii.Ascii false true false false true true
                                                         true false)
                                                      (String.String
                                                         (Ascii.Ascii true true true true false true
                                                            true false)
                                                         (String.String
                                                            (Ascii.Ascii true true false false true
                                                               true true false)
                                                            (String.String
                                                               (Ascii.Ascii true true false false
                                                                  true true true false)
                                                               (String.String
                                                                  (Ascii.Ascii true true true true
                                                                     true false true false)
                                                                  (String.String
                                                                     (Ascii.Ascii false true false
                                                                        false true true true false)
                                                                     (String.String
                                                                        (Ascii.Ascii true false false
                                                                        false false true true false)
                                                                        (String.String
                                                                        (Ascii.Ascii false true true
                                                                        true false true true false)
                                                                        (String.String
                                                                        (Ascii.Ascii true true true
                                                                        false false true true false)
                                                                        (String.String
                                                                        (Ascii.Ascii true false true
                                                                        false false true true false)
                                                                        (String.String
                                                                        (Ascii.Ascii true true true
                                                                        true true false true false)
                                                                        (String.String
                                                                        (Ascii.Ascii false false true
                                                                        false true true true false)
                                                                        (String.String
                                                                        (Ascii.Ascii true false true
                                                                        false false true true false)
                                                                        (String.String
                                                                        (Ascii.Ascii true true false
                                                                        false true true true false)
                                                                        (String.String
                                                                        (Ascii.Ascii false false true
                                                                        false true true true false)
                                                                        String.EmptyString))))))))))))))))))))))))))),
             [Some 4; None])].
Proof. exact (@save_collision_refuted). Qed.
Print Assumptions C19_collision_refuted.

Theorem C19_column_name_collision :
  exists s1 s2 pk ts : name,
           s1 <> s2 /\ column_name (Some s1) pk ts = column_name (Some s2) pk ts.
Proof. exact (@column_name_collision). Qed.
Print Assumptions C19_column_name_collision.

Theorem C19_cf_not_injective :
  exists a b : name, a <> b /\ cf_safe_name_model a = cf_safe_name_model b.
Proof. exact (@cf_not_injective). Qed.
Print Assumptions C19_cf_not_injective.

