(* Props_C12.v — C12: attenuated-signal flags compare the trailing window's spread with thresholds.
   Only statements, `exact <lemma>` and Print Assumptions.
   (statements written out by tools/mk_props.py from the lemmas they restate) *)
From IoosQc Require Import Base Generated Attenuated AttenuatedProofs Skel SkelBase SkelP_atten.
From Coq Require Import String.

(* rolling mode and whole-series mode, both check types, EVERY placement of missing values: on an increasing axis of the right length with a positive period and an admissible minimum, model = specification (spread of the OBSERVED values of the trailing window (t - P, t]; UNKNOWN below the required number of observations) *)
Theorem C12_refines :
  forall (check : string) (st ft : Q) (tp mo mp : option Z) (xs : list obs) (ts : list Z),
         (forall ct : check_type, parse_check_type check = Some ct -> atten_dom ct tp mo mp xs ts) ->
         atten_model check st ft tp mo mp xs ts = atten_spec check st ft tp mo mp xs ts.
Proof. exact (@atten_refines). Qed.
Print Assumptions C12_refines.

(* whole-series mode: no hypothesis at all (every length, the empty series included) *)
Theorem C12_refines_whole :
  forall (check : string) (st ft : Q) (tp mo mp : option Z) (xs : list obs) (ts : list Z),
         period_of tp = None ->
         atten_model check st ft tp mo mp xs ts = atten_spec check st ft tp mo mp xs ts.
Proof. exact (@atten_refines_whole). Qed.
Print Assumptions C12_refines_whole.

Theorem C12_refines_empty :
  forall (check : string) (st ft : Q) (tp mo mp : option Z) (ts : list Z),
         atten_model check st ft tp mo mp [] ts = atten_spec check st ft tp mo mp [] ts.
Proof. exact (@atten_refines_empty). Qed.
Print Assumptions C12_refines_empty.

(* an unknown check_type is rejected with ValueError *)
Theorem C12_bad_check_type :
  forall (check : string) (st ft : Q) (tp mo mp : option Z) (xs : list obs) (ts : list Z),
         parse_check_type check = None -> atten_model check st ft tp mo mp xs ts = Raises ValueError.
Proof. exact (@atten_bad_check_type). Qed.
Print Assumptions C12_bad_check_type.

Theorem C12_check_type_names :
  parse_check_type "std" = Some Std /\ parse_check_type "range" = Some Range.
Proof. exact (@parse_check_type_names). Qed.
Print Assumptions C12_check_type_names.

(* std < thr is decided through the variance: for any sd >= 0 with sd*sd == v, sd < thr <-> 0 < thr /\ v < thr*thr *)
Theorem C12_std_via_variance :
  forall sd v thr : Q, 0 <= sd -> sd * sd == v -> sd < thr <-> belowP Std thr v.
Proof. exact (@below_std_sound). Qed.
Print Assumptions C12_std_via_variance.

Theorem C12_missing :
  forall (ct : check_type) (st ft : Q) (period : option Z) (minp : Z) 
           (xs : list obs) (ts : list Z) (i : nat),
         atten_pt ct st ft period minp xs ts i = MISSING <-> getq xs i = None.
Proof. exact (@atten_pt_missing_iff). Qed.
Print Assumptions C12_missing.

(* UNKNOWN iff the window holds fewer observations than required or the spread is undefined *)
Theorem C12_unknown :
  forall (ct : check_type) (st ft : Q) (period : option Z) (minp : Z) 
           (xs : list obs) (ts : list Z) (i : nat),
         atten_pt ct st ft period minp xs ts i = UNKNOWN <->
         getq xs i <> None /\ atten_spread ct period minp xs ts i = None.
Proof. exact (@atten_pt_unknown_iff). Qed.
Print Assumptions C12_unknown.

(* FAIL iff the spread is below fail_threshold *)
Theorem C12_fail :
  forall (ct : check_type) (st ft : Q) (period : option Z) (minp : Z) 
           (xs : list obs) (ts : list Z) (i : nat),
         atten_pt ct st ft period minp xs ts i = FAIL <->
         getq xs i <> None /\
         (exists s : Q, atten_spread ct period minp xs ts i = Some s /\ belowP ct ft s).
Proof. exact (@atten_pt_fail_iff). Qed.
Print Assumptions C12_fail.

(* else SUSPECT iff below suspect_threshold *)
Theorem C12_suspect :
  forall (ct : check_type) (st ft : Q) (period : option Z) (minp : Z) 
           (xs : list obs) (ts : list Z) (i : nat),
         atten_pt ct st ft period minp xs ts i = SUSPECT <->
         getq xs i <> None /\
         (exists s : Q,
            atten_spread ct period minp xs ts i = Some s /\ ~ belowP ct ft s /\ belowP ct st s).
Proof. exact (@atten_pt_suspect_iff). Qed.
Print Assumptions C12_suspect.

(* else GOOD *)
Theorem C12_good :
  forall (ct : check_type) (st ft : Q) (period : option Z) (minp : Z) 
           (xs : list obs) (ts : list Z) (i : nat),
         atten_pt ct st ft period minp xs ts i = GOOD <->
         getq xs i <> None /\
         (exists s : Q,
            atten_spread ct period minp xs ts i = Some s /\ ~ belowP ct ft s /\ ~ belowP ct st s).
Proof. exact (@atten_pt_good_iff). Qed.
Print Assumptions C12_good.

(* the trailing window of point i is { j | t_i - P < t_j <= t_i } *)
Theorem C12_window :
  forall (p : Z) (ts : list Z) (n i j : nat),
         In j (window p ts n i) <-> (j < n)%nat /\ (getz ts i - p * NS < getz ts j <= getz ts i)%Z.
Proof. exact (@window_iff). Qed.
Print Assumptions C12_window.

(* pandas' rolling offset window equals it on an increasing axis *)
Theorem C12_window_pandas :
  forall (p : Z) (ts : list Z) (n i : nat),
         increasing ts ->
         (0 < p)%Z -> n = Datatypes.length ts -> (i < n)%nat -> window_pd p ts n i = window p ts n i.
Proof. exact (@window_pd_window). Qed.
Print Assumptions C12_window_pandas.

Theorem C12_minp_min_obs :
  forall (m : Z) (mp : option Z) (ts : list Z), minp_of (Some m) mp ts = m.
Proof. exact (@minp_of_min_obs). Qed.
Print Assumptions C12_minp_min_obs.

(* min_period is converted to a number of observations with the TRUE median sampling step (ns): trunc(min_period * 10^9 / step_ns) = trunc(min_period / step in seconds), whole-second or not *)
Theorem C12_minp_min_period :
  forall (mp : Z) (ts : list Z),
         (2 <= Datatypes.length ts)%nat ->
         time_interval ts <> 0%Z -> minp_of None (Some mp) ts = (mp * NS ÷ time_interval ts)%Z.
Proof. exact (@minp_of_min_period). Qed.
Print Assumptions C12_minp_min_period.

Theorem C12_minp_default :
  forall ts : list Z, minp_of None None ts = 1%Z.
Proof. exact (@minp_of_default). Qed.
Print Assumptions C12_minp_default.

Theorem C12_flat :
  forall (ct : check_type) (st ft s : Q),
         s == 0 ->
         decide_att ct st ft s = (if Qltb 0 ft then FAIL else if Qltb 0 st then SUSPECT else GOOD).
Proof. exact (@decide_att_flat). Qed.
Print Assumptions C12_flat.

(* on EVERY input on which the code returns flags: flag i is MISSING iff x_i is missing *)
Theorem C12_model_missing :
  forall (check : string) (st ft : Q) (tp mo mp : option Z) (xs : list obs) 
           (ts : list Z) (l : list flag) (i : nat),
         atten_model check st ft tp mo mp xs ts = Flags l ->
         (i < Datatypes.length xs)%nat -> nth i l GOOD = MISSING <-> getq xs i = None.
Proof. exact (@atten_model_missing). Qed.
Print Assumptions C12_model_missing.

Theorem C12_model_length :
  forall (check : string) (st ft : Q) (tp mo mp : option Z) (xs : list obs) 
           (ts : list Z) (l : list flag),
         atten_model check st ft tp mo mp xs ts = Flags l -> Datatypes.length l = Datatypes.length xs.
Proof. exact (@atten_model_length). Qed.
Print Assumptions C12_model_length.

(* TRANSLATOR TIE: the skeleton generated from the current source of attenuated_signal_test (>= suspect GOOD, < suspect SUSPECT, isnan UNKNOWN, < fail FAIL, mask MISSING, after the empty-input return) run on the spread array yields exactly the model's flag overwrites (stated for check_type range, where the array holds the spread itself; for std the model compares variances) *)
Theorem C12_source_skeleton :
  forall (st ft : Q) (xs : list obs) (cv : list (option Q)),
         xs <> [] ->
         atten_flags Range st ft xs cv =
         run_steps (env_atten st ft xs cv) skel_attenuated_signal_test
           (all_flags (Datatypes.length xs) UNKNOWN).
Proof. exact (@skel_atten_range). Qed.
Print Assumptions C12_source_skeleton.

(* the witness of the former deviation F19 (rolling range with a missing value inside the window) now follows the property: the point is judged on the observed values of its window *)
Theorem C12_range_with_missing_value :
  atten_model "range" 5 1 (Some 3%Z) None None [Some 0; None; Some 3]
           [0%Z; 1000000000%Z; 2000000000%Z] = Flags [FAIL; MISSING; SUSPECT] /\
         atten_spec "range" 5 1 (Some 3%Z) None None [Some 0; None; Some 3]
           [0%Z; 1000000000%Z; 2000000000%Z] = Flags [FAIL; MISSING; SUSPECT].
Proof. exact (@atten_range_nan_ok). Qed.
Print Assumptions C12_range_with_missing_value.

(* the rolling instance spelled out: either check type, any placement of missing values *)
Theorem C12_refines_rolling :
  forall (check : string) (ct : check_type) (st ft : Q) (p : Z) (mo mp : option Z)
           (xs : list obs) (ts : list Z) (m : Z),
         parse_check_type check = Some ct ->
         (0 < p)%Z ->
         Datatypes.length ts = Datatypes.length xs ->
         increasing ts ->
         min_periods mo mp ts = Some m ->
         (0 <= m)%Z ->
         atten_model check st ft (Some p) mo mp xs ts = atten_spec check st ft (Some p) mo mp xs ts.
Proof. exact (@atten_refines_rolling). Qed.
Print Assumptions C12_refines_rolling.

Theorem C12_assign_order : assign_order_attenuated_signal_test = [UNKNOWN; GOOD; SUSPECT; UNKNOWN; FAIL; MISSING].
Proof. reflexivity. Qed.
Print Assumptions C12_assign_order.

Theorem C12_default_check_type : parse_check_type attenuated_default_check_type = Some Std.
Proof. reflexivity. Qed.
Print Assumptions C12_default_check_type.
