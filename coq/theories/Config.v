(* Config.v — model of configuration parsing (config.py: Config.__init__, ContextConfig.__init__,
   Context, Call, tw; utils.py: dict_depth, dict_update, load_config_from_xarray) and the intended
   meaning of a well-formed configuration.  Definitions only.

   A configuration, once loaded by load_config_as_dict (ruamel / json / xarray attributes: trusted,
   see Section Carriers in ConfigProofs.v), is a JSON-like tree `cfg`; Python dicts are association
   lists in insertion order (`CDict`; Python dicts never carry a key twice, the model reads the FIRST
   binding).  `Config(source).calls` is modelled as a list of `callrec`: stream id, module, test
   name, keyword parameters, window and region of the enclosing context.

   Outside the modelled domain (the Python raises there; the total model iterates nothing):
   a non-mapping where `.items()` is called, a context without "streams", a window that is not a
   mapping, "features" that is not a list, a feature without "geometry", test parameters that are
   truthy non-mappings. *)
From IoosQc Require Import Base Generated.
From Coq Require Import String.
Local Notation length := List.length.
Open Scope string_scope.
Open Scope list_scope.

(* ---------------------------------------------------------------- configuration trees *)

Inductive cfg :=
  | CNull
  | CBool (b : bool)
  | CNum (q : Q)
  | CStr (s : string)
  | CList (l : list cfg)
  | CDict (l : list (string * cfg)).

Definition is_dict (c : cfg) : bool := match c with CDict _ => true | _ => false end.

(* d.items() *)
Definition items (c : cfg) : list (string * cfg) := match c with CDict l => l | _ => [] end.

(* utils.dict_depth:  1 + max(depths of the values) for a dict (1 when empty), 0 for anything else —
   lists and what they contain do not count *)
Fixpoint dict_depth (c : cfg) : nat :=
  match c with
  | CDict l =>
      S ((fix mx (l : list (string * cfg)) : nat :=
            match l with
            | [] => 0%nat
            | (_, v) :: r => Nat.max (dict_depth v) (mx r)
            end) l)
  | _ => 0%nat
  end.

(* the same maximum as a stand-alone function (dict_depth (CDict l) = S (depth_vals l)) *)
Fixpoint depth_vals (l : list (string * cfg)) : nat :=
  match l with
  | [] => 0%nat
  | (_, v) :: r => Nat.max (dict_depth v) (depth_vals r)
  end.

(* structural equality, numbers by Qeq_bool (1 = 1.0); dict entries compared in order *)
Fixpoint cfg_eqb (a b : cfg) : bool :=
  match a, b with
  | CNull, CNull => true
  | CBool x, CBool y => Bool.eqb x y
  | CNum x, CNum y => Qeq_bool x y
  | CStr x, CStr y => String.eqb x y
  | CList la, CList lb =>
      (fix go (la lb : list cfg) : bool :=
         match la, lb with
         | [], [] => true
         | x :: ra, y :: rb => (cfg_eqb x y && go ra rb)%bool
         | _, _ => false
         end) la lb
  | CDict la, CDict lb =>
      (fix go (la lb : list (string * cfg)) : bool :=
         match la, lb with
         | [], [] => true
         | (k, x) :: ra, (k', y) :: rb => (String.eqb k k' && cfg_eqb x y && go ra rb)%bool
         | _, _ => false
         end) la lb
  | _, _ => false
  end.

(* Python truthiness: `kwargs or {}`, `config["region"] and ...` *)
Definition truthy (c : cfg) : bool :=
  match c with
  | CNull => false
  | CBool b => b
  | CNum q => negb (Qeq_bool q 0)
  | CStr s => negb (String.eqb s "")
  | CList l => match l with [] => false | _ => true end
  | CDict l => match l with [] => false | _ => true end
  end.

(* ---------------------------------------------------------------- insertion-ordered dicts *)

Section Assoc.
  Context {V : Type}.

  (* d[k] / d.get(k): first binding *)
  Fixpoint lookup (k : string) (l : list (string * V)) : option V :=
    match l with
    | [] => None
    | (k', v) :: r => if String.eqb k' k then Some v else lookup k r
    end.

  (* k in d *)
  Definition has_key (k : string) (l : list (string * V)) : bool := is_some (lookup k l).

  (* d[k] = v : an existing key keeps its position, a new key goes last *)
  Fixpoint aset (k : string) (v : V) (l : list (string * V)) : list (string * V) :=
    match l with
    | [] => [(k, v)]
    | (k', v') :: r => if String.eqb k' k then (k', v) :: r else (k', v') :: aset k v r
    end.
End Assoc.

(* d.get(k) with None for an absent key (also the default of the tw fields) *)
Definition get (k : string) (c : cfg) : cfg :=
  match lookup k (items c) with Some v => v | None => CNull end.

Definition get_dict (k : string) (l : list (string * cfg)) : cfg :=
  match lookup k l with Some v => v | None => CDict [] end.

(* utils.dict_update(d, u): nested merge of u into d *)
Fixpoint dict_update (d u : cfg) {struct u} : cfg :=
  match u with
  | CDict ul =>
      (fix go (ul : list (string * cfg)) (d : cfg) {struct ul} : cfg :=
         match ul with
         | [] => d
         | (k, v) :: r =>
             go r (match d with
                   | CDict dl =>
                       if is_dict v
                       then CDict (aset k (dict_update (get_dict k dl) v) dl)
                       else CDict (aset k v dl)
                   | _ => CDict [(k, v)]
                   end)
         end) ul d
  | _ => d
  end.

(* ---------------------------------------------------------------- calls *)

Record callrec := {
  k_stream : string;
  k_module : string;
  k_test : string;
  k_kwargs : cfg;
  k_window : cfg * cfg;          (* starting, ending; CNull when absent *)
  k_region : cfg                 (* CNull, or CList of the geometries of the GeometryCollection *)
}.

Definition callrec_eqb (a b : callrec) : bool :=
  (String.eqb (k_stream a) (k_stream b) && String.eqb (k_module a) (k_module b) &&
   String.eqb (k_test a) (k_test b) && cfg_eqb (k_kwargs a) (k_kwargs b) &&
   cfg_eqb (fst (k_window a)) (fst (k_window b)) && cfg_eqb (snd (k_window a)) (snd (k_window b)) &&
   cfg_eqb (k_region a) (k_region b))%bool.

Fixpoint calls_eqb (a b : list callrec) : bool :=
  match a, b with
  | [], [] => true
  | x :: a', y :: b' => (callrec_eqb x y && calls_eqb a' b')%bool
  | _, _ => false
  end.

Definition call_key (c : callrec) : string * string * string := (k_stream c, k_module c, k_test c).

(* `kwargs = kwargs or {}` *)
Definition norm_kwargs (kw : cfg) : cfg := if truthy kw then kw else CDict [].

Definition mk_call (win : cfg * cfg) (reg : cfg) (e : string * string * string * cfg) : callrec :=
  let '(sid, pkg, t, kw) := e in
  {| k_stream := sid; k_module := pkg; k_test := t; k_kwargs := norm_kwargs kw;
     k_window := win; k_region := reg |}.

(* import_module("ioos_qc." + pkg) succeeds and hasattr(pkg, name), restricted to the three test
   modules and the names of Generated.known_* *)
Definition mem_str (s : string) (l : list string) : bool := existsb (String.eqb s) l.

Definition real_known (pkg t : string) : bool :=
  if String.eqb pkg "qartod" then mem_str t known_qartod
  else if String.eqb pkg "argo" then mem_str t known_argo
  else if String.eqb pkg "axds" then mem_str t known_axds
  else false.

(* ---------------------------------------------------------------- ContextConfig.__init__ *)

(* region: Feature-collection GeoJSON -> geometries of the features; Feature GeoJSON -> its geometry;
   anything else (a bare geometry object too) is ignored with a warning *)
Definition parse_region (cl : list (string * cfg)) : cfg :=
  match lookup "region" cl with
  | None => CNull
  | Some r =>
      if (truthy r && has_key "features" (items r))%bool
      then match get "features" r with
           | CList fs => CList (map (get "geometry") fs)
           | _ => CNull
           end
      else if (truthy r && has_key "geometry" (items r))%bool
      then CList [get "geometry" r]
      else CNull
  end.

(* window: the mapping config["window"] unpacked into the tw fields starting / ending *)
Definition parse_window (cl : list (string * cfg)) : cfg * cfg :=
  match lookup "window" cl with
  | Some w => (get "starting" w, get "ending" w)
  | None => (CNull, CNull)
  end.

Section Calls.
  Variable known : string -> string -> bool.

  Definition test_calls (win : cfg * cfg) (reg : cfg) (sid pkg : string) (tk : string * cfg) : list callrec :=
    if known pkg (fst tk) then [mk_call win reg (sid, pkg, fst tk, snd tk)] else [].

  Definition pkg_calls (win : cfg * cfg) (reg : cfg) (sid : string) (pm : string * cfg) : list callrec :=
    flat_map (test_calls win reg sid (fst pm)) (items (snd pm)).

  Definition stream_calls (win : cfg * cfg) (reg : cfg) (ss : string * cfg) : list callrec :=
    flat_map (pkg_calls win reg (fst ss)) (items (snd ss)).

  Definition context_calls (c : cfg) : list callrec :=
    let cl := items c in
    match lookup "streams" cl with
    | None => []
    | Some st => flat_map (stream_calls (parse_window cl) (parse_region cl)) (items st)
    end.

  (* ---------------------------------------------------------------- Config.__init__ *)

  Definition key_contexts : string := nth 0 layout_keys "".
  Definition key_streams : string := nth 1 layout_keys "".

  Definition config_calls (default_stream : string) (c : cfg) : list callrec :=
    let cl := items c in
    if has_key key_contexts cl then
      match get key_contexts c with
      | CList ctxs => flat_map context_calls ctxs
      | _ => []
      end
    else if has_key key_streams cl then context_calls c
    else if (depth_threshold <=? dict_depth c)%nat then context_calls (CDict [(key_streams, c)])
    else context_calls (CDict [(key_streams, CDict [(default_stream, c)])]).

  (* ---------------------------------------------------------------- well-formed configurations *)

  Definition wtests := list (string * cfg).            (* test name -> parameters *)
  Definition wmods := list (string * wtests).          (* module -> tests *)
  Definition wstreams := list (string * wmods).        (* stream id -> modules *)

  Inductive wregion :=
    | RNone
    | RFeatures (gs : list cfg)      (* GeoJSON FeatureCollection with these geometries *)
    | RFeature (g : cfg)             (* GeoJSON Feature *)
    | RBare (g : cfg).               (* GeoJSON geometry object *)

  Record wctx := {
    w_window : option (cfg * cfg);
    w_region : wregion;
    w_streams : wstreams
  }.

  Definition window_meaning (w : option (cfg * cfg)) : cfg * cfg :=
    match w with Some p => p | None => (CNull, CNull) end.

  Definition region_meaning (r : wregion) : cfg :=
    match r with
    | RNone => CNull
    | RFeatures gs => CList gs
    | RFeature g => CList [g]
    | RBare g => CList [g]
    end.

  (* the configured (stream id, module, test, parameters) entries in configuration order *)
  Definition entries (ss : wstreams) : list (string * string * string * cfg) :=
    flat_map (fun s => flat_map (fun pm => map (fun tk => (fst s, fst pm, fst tk, snd tk)) (snd pm)) (snd s)) ss.

  Definition entry_known (e : string * string * string * cfg) : bool :=
    let '(_, pkg, t, _) := e in known pkg t.

  Definition entry_key (e : string * string * string * cfg) : string * string * string :=
    let '(sid, pkg, t, _) := e in (sid, pkg, t).

  (* the intended meaning: one call per configured entry whose module and test exist *)
  Definition ctx_calls (w : wctx) : list callrec :=
    map (mk_call (window_meaning (w_window w)) (region_meaning (w_region w)))
        (filter entry_known (entries (w_streams w))).

  Definition calls_of (W : list wctx) : list callrec := flat_map ctx_calls W.

  (* ---------------------------------------------------------------- the four spellings *)

  Definition emb_mods (mods : wmods) : cfg := CDict (map (fun pm => (fst pm, CDict (snd pm))) mods).
  Definition emb_streams (ss : wstreams) : cfg := CDict (map (fun s => (fst s, emb_mods (snd s))) ss).

  Definition spell_window (w : option (cfg * cfg)) : list (string * cfg) :=
    match w with
    | Some (s, e) => [("window", CDict [("starting", s); ("ending", e)])]
    | None => []
    end.

  Definition feature_of (g : cfg) : cfg := CDict [("type", CStr "Feature"); ("geometry", g)].

  Definition spell_region (r : wregion) : list (string * cfg) :=
    match r with
    | RNone => []
    | RFeatures gs =>
        [("region", CDict [("type", CStr "FeatureCollection"); ("features", CList (map feature_of gs))])]
    | RFeature g => [("region", feature_of g)]
    | RBare g => [("region", g)]
    end.

  Definition spell_ctx (w : wctx) : cfg :=
    CDict (spell_window (w_window w) ++ spell_region (w_region w) ++ [("streams", emb_streams (w_streams w))]).

  Definition spell_contexts (W : list wctx) : cfg := CDict [("contexts", CList (map spell_ctx W))].
  Definition spell_streams (w : wctx) : cfg := spell_ctx w.
  Definition spell_bare_streams (w : wctx) : cfg := emb_streams (w_streams w).
  Definition spell_bare_module (w : wctx) : cfg :=
    emb_mods (match w_streams w with (_, mods) :: _ => mods | [] => [] end).

End Calls.

(* ---------------------------------------------------------------- load_config_from_xarray,
   per-variable attributes ioos_qc_target / ioos_qc_module / ioos_qc_test / ioos_qc_config *)

Definition xvar := (string * string * string * cfg)%type.     (* target, module, test, parameters *)

(* one data variable: y[target] = dict_update(y.get(target, {}), {module: {test: OrderedDict(config)}});
   a config that is not a JSON object makes OrderedDict(...) raise: the variable is skipped *)
Definition xarray_step (y : list (string * cfg)) (v : xvar) : list (string * cfg) :=
  let '(tg, m, t, kw) := v in
  if is_dict kw
  then aset tg (dict_update (get_dict tg y) (CDict [(m, CDict [(t, kw)])])) y
  else y.

Definition from_xarray_vars (vs : list xvar) : cfg := CDict (fold_left xarray_step vs []).

(* hereditarily duplicate-free keys: the trees that are values of Python objects *)
Fixpoint wf_cfg (c : cfg) : Prop :=
  match c with
  | CList l => (fix all (l : list cfg) : Prop := match l with [] => True | x :: r => wf_cfg x /\ all r end) l
  | CDict l =>
      NoDup (map fst l) /\
      (fix all (l : list (string * cfg)) : Prop :=
         match l with [] => True | (_, v) :: r => wf_cfg v /\ all r end) l
  | _ => True
  end.
