(* Props_C08.v — C08: climatology flags follow the last matching member; unmatched points are UNKNOWN.
   Only statements, `exact <lemma>` and Print Assumptions.
   (statements written out by tools/mk_props.py from the lemmas they restate) *)
From IoosQc Require Import Base Generated Calendar Climatology ClimatologyProofs Skel SkelBase SkelP_clim.


(* for EVERY member list (any number, overlapping, every period kind, with/without fail and depth spans, spans in either order), every series, time axis and depth pattern — no hypothesis: the operational model of ClimatologyConfig.check (per member: time index, depth index, the three ordered overwrites FAIL / SUSPECT / GOOD; members with a depth span skipped when no depth is present; MISSING written before and after the loop) equals the specification 'the LAST matching member classifies the value, UNKNOWN if none, MISSING if the value is missing' *)
Theorem C08_refines :
  forall (config : list member) (xs : list obs) (ts : list Z) (zs : list obs),
         clim_model config xs ts zs = clim_spec config xs ts zs.
Proof. exact (@clim_refines). Qed.
Print Assumptions C08_refines.

(* ordered overwrite = last match wins *)
Theorem C08_last_wins :
  forall (ms1 : list member) (m : member) (ms2 : list member) (v : Q) (t : Z) (z : obs),
         matches t z m = true ->
         (forall m' : member, In m' ms2 -> matches t z m' = false) ->
         clim_pt (ms1 ++ m :: ms2) (Some v) t z = classify m v.
Proof. exact (@clim_last_wins). Qed.
Print Assumptions C08_last_wins.

Theorem C08_no_match :
  forall (ms : list member) (v : Q) (t : Z) (z : obs),
         (forall m : member, In m ms -> matches t z m = false) -> clim_pt ms (Some v) t z = UNKNOWN.
Proof. exact (@clim_no_match). Qed.
Print Assumptions C08_no_match.

(* UNKNOWN iff no member matches *)
Theorem C08_unknown_iff :
  forall (ms : list member) (v : Q) (t : Z) (z : obs),
         clim_pt ms (Some v) t z = UNKNOWN <-> (forall m : member, In m ms -> matches t z m = false).
Proof. exact (@clim_pt_unknown_iff). Qed.
Print Assumptions C08_unknown_iff.

Theorem C08_evaluated :
  forall (ms : list member) (v : Q) (t : Z) (z : obs) (f : flag),
         clim_pt ms (Some v) t z = f ->
         f <> UNKNOWN ->
         exists (ms1 : list member) (m : member) (ms2 : list member),
           ms = ms1 ++ m :: ms2 /\
           matches t z m = true /\
           (forall m' : member, In m' ms2 -> matches t z m' = false) /\ f = classify m v.
Proof. exact (@clim_pt_evaluated). Qed.
Print Assumptions C08_evaluated.

Theorem C08_missing_iff :
  forall (ms : list member) (x : obs) (t : Z) (z : obs),
         clim_pt ms x t z = MISSING <-> x = None.
Proof. exact (@clim_pt_missing_iff). Qed.
Print Assumptions C08_missing_iff.

(* absolute time span: both ends inclusive, either order *)
Theorem C08_time_abs :
  forall (a b : Z) (f : option (Q * Q)) (v : Q * Q) (zsp : option (Q * Q)) (t : Z),
         tmatch (add {| m_tspan := TAbs a b; m_fspan := f; m_vspan := v; m_zspan := zsp |}) t = true <->
         (Z.min a b <= t <= Z.max a b)%Z.
Proof. exact (@tmatch_abs_iff). Qed.
Print Assumptions C08_time_abs.

Theorem C08_time_abs_ends :
  forall (a b : Z) (f : option (Q * Q)) (v : Q * Q) (zsp : option (Q * Q)),
         tmatch (add {| m_tspan := TAbs a b; m_fspan := f; m_vspan := v; m_zspan := zsp |}) a = true /\
         tmatch (add {| m_tspan := TAbs a b; m_fspan := f; m_vspan := v; m_zspan := zsp |}) b = true.
Proof. exact (@tmatch_abs_ends). Qed.
Print Assumptions C08_time_abs_ends.

(* named calendar period: the period value of the timestamp within the numeric span, both ends inclusive, either order *)
Theorem C08_time_period :
  forall (p : period) (a b : Q) (f : option (Q * Q)) (v : Q * Q) (zsp : option (Q * Q))
           (t : Z),
         tmatch (add {| m_tspan := TPer p a b; m_fspan := f; m_vspan := v; m_zspan := zsp |}) t =
         true <-> qmin a b <= inject_Z (period_value p t) <= qmax a b.
Proof. exact (@tmatch_per_iff). Qed.
Print Assumptions C08_time_period.

Theorem C08_time_period_ends :
  forall (p : period) (a b : Q) (f : option (Q * Q)) (v : Q * Q) (zsp : option (Q * Q))
           (t : Z),
         inject_Z (period_value p t) == a \/ inject_Z (period_value p t) == b ->
         tmatch (add {| m_tspan := TPer p a b; m_fspan := f; m_vspan := v; m_zspan := zsp |}) t =
         true.
Proof. exact (@tmatch_per_ends). Qed.
Print Assumptions C08_time_period_ends.

(* depth span: a PRESENT depth within the span, both ends inclusive, either order *)
Theorem C08_depth_span :
  forall (t : tspan) (f : option (Q * Q)) (v : Q * Q) (a b : Q) (z : obs),
         zmatch (add {| m_tspan := t; m_fspan := f; m_vspan := v; m_zspan := Some (a, b) |}) z = true <->
         (exists d : Q, z = Some d /\ qmin a b <= d <= qmax a b).
Proof. exact (@zmatch_span_iff). Qed.
Print Assumptions C08_depth_span.

(* a missing depth never matches a member with a depth span *)
Theorem C08_depth_missing :
  forall (t : tspan) (f : option (Q * Q)) (v : Q * Q) (a b : Q),
         zmatch (add {| m_tspan := t; m_fspan := f; m_vspan := v; m_zspan := Some (a, b) |}) None =
         false.
Proof. exact (@zmatch_span_missing). Qed.
Print Assumptions C08_depth_missing.

(* members without a depth span apply at any depth *)
Theorem C08_depth_none :
  forall (t : tspan) (f : option (Q * Q)) (v : Q * Q) (z : obs),
         zmatch (add {| m_tspan := t; m_fspan := f; m_vspan := v; m_zspan := None |}) z = true.
Proof. exact (@zmatch_none_span). Qed.
Print Assumptions C08_depth_none.

(* FAIL iff outside the fail span; else SUSPECT iff outside the valid span; else GOOD; bounds inclusive *)
Theorem C08_classify_fail :
  forall (m : member) (v : Q),
         classify m v = FAIL <-> (exists lo hi : Q, m_fspan m = Some (lo, hi) /\ (v < lo \/ hi < v)).
Proof. exact (@classify_fail). Qed.
Print Assumptions C08_classify_fail.

Theorem C08_classify_suspect :
  forall (m : member) (v : Q),
         classify m v = SUSPECT <->
         (forall lo hi : Q, m_fspan m = Some (lo, hi) -> lo <= v <= hi) /\
         (v < fst (m_vspan m) \/ snd (m_vspan m) < v).
Proof. exact (@classify_suspect). Qed.
Print Assumptions C08_classify_suspect.

Theorem C08_classify_good :
  forall (m : member) (v : Q),
         classify m v = GOOD <->
         (forall lo hi : Q, m_fspan m = Some (lo, hi) -> lo <= v <= hi) /\
         fst (m_vspan m) <= v <= snd (m_vspan m).
Proof. exact (@classify_good). Qed.
Print Assumptions C08_classify_good.

Theorem C08_classify_on_bounds :
  forall (m : member) (v : Q),
         (forall lo hi : Q, m_fspan m = Some (lo, hi) -> lo <= v <= hi) ->
         v == fst (m_vspan m) \/ v == snd (m_vspan m) ->
         fst (m_vspan m) <= snd (m_vspan m) -> classify m v = GOOD.
Proof. exact (@classify_on_bounds). Qed.
Print Assumptions C08_classify_on_bounds.

Theorem C08_model_missing :
  forall (config : list member) (xs : list obs) (ts : list Z) (zs : list obs) (i : nat),
         (i < length xs)%nat ->
         nth i (flags_of (clim_model config xs ts zs)) UNKNOWN = MISSING <-> getq xs i = None.
Proof. exact (@clim_model_missing). Qed.
Print Assumptions C08_model_missing.

Theorem C08_model_nth :
  forall (config : list member) (xs : list obs) (ts : list Z) (zs : list obs) (i : nat),
         (i < length xs)%nat ->
         nth i (flags_of (clim_model config xs ts zs)) UNKNOWN =
         clim_pt (map add config) (getq xs i) (getz ts i) (getq zs i).
Proof. exact (@clim_model_nth). Qed.
Print Assumptions C08_model_nth.

(* calendar arithmetic (proleptic Gregorian on Z nanoseconds): ranges of the period extractors *)
Theorem C08_month_range :
  forall t : Z, (1 <= month t <= 12)%Z.
Proof. exact (@month_range). Qed.
Print Assumptions C08_month_range.

Theorem C08_dayofyear_range :
  forall t : Z, (1 <= dayofyear t <= 366)%Z.
Proof. exact (@dayofyear_range). Qed.
Print Assumptions C08_dayofyear_range.

Theorem C08_dayofweek_range :
  forall t : Z, (0 <= dayofweek t <= 6)%Z.
Proof. exact (@dayofweek_range). Qed.
Print Assumptions C08_dayofweek_range.

Theorem C08_quarter_range :
  forall t : Z, (1 <= quarter t <= 4)%Z.
Proof. exact (@quarter_range). Qed.
Print Assumptions C08_quarter_range.

Theorem C08_iso_week_range :
  forall t : Z, (1 <= iso_week t <= 53)%Z.
Proof. exact (@iso_week_range). Qed.
Print Assumptions C08_iso_week_range.

Theorem C08_hour_range :
  forall t : Z, (0 <= hour t <= 23)%Z.
Proof. exact (@hour_range). Qed.
Print Assumptions C08_hour_range.

(* days <-> civil date round trips for every valid date *)
Theorem C08_civil_roundtrip :
  forall y m d : Z, valid_date y m d = true -> civil_of_days (days_of_civil y m d) = (y, m, d).
Proof. exact (@civil_roundtrip). Qed.
Print Assumptions C08_civil_roundtrip.

Theorem C08_days_roundtrip :
  forall n : Z, let '(y, m, d) := civil_of_days n in days_of_civil y m d = n.
Proof. exact (@days_of_civil_of_days). Qed.
Print Assumptions C08_days_roundtrip.

(* every day 1968-2040: valid date, round trip, day-of-year and successor consistent (finite domain, stated in the theorem, by vm_compute) *)
Theorem C08_calendar_1968_2040 :
  forallb day_check (zrange D1968 26664) = true.
Proof. exact (@calendar_days_1968_2040). Qed.
Print Assumptions C08_calendar_1968_2040.

(* TRANSLATOR TIE: the flag-assignment skeleton generated from the CURRENT source of ClimatologyConfig.check - MISSING before the member loop, the three guarded assignments of one iteration (values_idx & fail_idx -> FAIL, values_idx & ~fail_idx & suspect_idx -> SUSPECT, values_idx & ~fail_idx & ~suspect_idx -> GOOD, skipped when the member is), MISSING after the loop - folded over the members in order, yields exactly the model's flags *)
Theorem C08_source_skeleton :
  forall (config : list member) (xs : list obs) (ts : list Z) (zs : list obs),
         clim_model config xs ts zs =
         Flags
           (run_steps (env_clim_outer xs) skel_climatology_check_post
              (fold_left
                 (fun (acc : list flag) (m : member) =>
                  run_steps (env_clim_member m xs ts zs) skel_climatology_check_member acc)
                 (map add config)
                 (run_steps (env_clim_outer xs) skel_climatology_check_pre
                    (all_flags (length xs) UNKNOWN)))).
Proof. exact (@skel_clim_model). Qed.
Print Assumptions C08_source_skeleton.

(* one iteration of the member loop: generated skeleton = clim_step *)
Theorem C08_source_skeleton_member :
  forall (m : member) (xs : list obs) (ts : list Z) (zs : list obs) (acc : list flag),
         clim_step xs ts zs acc m =
         run_steps (env_clim_member m xs ts zs) skel_climatology_check_member acc.
Proof. exact (@skel_clim_member). Qed.
Print Assumptions C08_source_skeleton_member.

Theorem C08_assign_order : assign_order_climatology_check = [UNKNOWN; MISSING; FAIL; SUSPECT; GOOD; MISSING].
Proof. reflexivity. Qed.
Print Assumptions C08_assign_order.

From Coq Require Import String.
Theorem C08_week_periods : week_periods = ["week"%string; "weekofyear"%string].
Proof. reflexivity. Qed.
Print Assumptions C08_week_periods.
