(* Compare.v — model and specification of qartod.qartod_compare (and hence aggregate,
   PandasStore.compute_aggregate, which call it on the collected result columns). *)
From IoosQc Require Import Base.

(* one entry of an input vector: masked (not evaluated) or any integer, flag or not *)
Definition cell := option Z.

Definition cell_is (p : flag) (c : cell) : bool :=
  match c with Some z => (z =? code p)%Z | None => false end.   (* (v == p), masked -> False *)

(* the source's double loop, parametrised by the priority list it iterates over *)
Definition compare_model (prios : list flag) (vs : list (list cell)) : outcome :=
  match vs with
  | [] => Raises IndexError                                  (* shapes[0] *)
  | v0 :: _ =>
      let n := length v0 in
      if forallb (fun v => Nat.eqb (length v) n) vs then
        Flags (fold_left
                 (fun acc p =>
                    fold_left (fun acc v => set_where (map (cell_is p) v) p acc) vs acc)
                 prios (all_flags n MISSING))                (* result.fill(MISSING) *)
      else Raises AssertionError
  end.

(* column i of the inputs *)
Definition column (vs : list (list cell)) (i : nat) : list cell := map (fun v => nth i v None) vs.

Definition has (p : flag) (col : list cell) : bool := existsb (cell_is p) col.

(* the property: the flag of highest precedence present, MISSING if none *)
Definition compare_pt (col : list cell) : flag :=
  if has FAIL col then FAIL else
  if has SUSPECT col then SUSPECT else
  if has GOOD col then GOOD else
  if has UNKNOWN col then UNKNOWN else MISSING.

Definition compare_spec (vs : list (list cell)) : outcome :=
  match vs with
  | [] => Raises IndexError
  | v0 :: _ =>
      let n := length v0 in
      if forallb (fun v => Nat.eqb (length v) n) vs
      then Flags (tab n (fun i => compare_pt (column vs i)))
      else Raises AssertionError
  end.

(* feeding a roll-up back in: a flag vector seen as cells *)
Definition lift (l : list flag) : list cell := map (fun f => Some (code f)) l.
