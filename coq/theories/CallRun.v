(* CallRun.v — config.Call.run: the configured keyword arguments are merged with the ones the stream
   passes (inp, tinp, zinp, lon, lat; the passed ones win), the result is filtered by the names of the
   test's POSITIONAL_OR_KEYWORD parameters, the test is called, and any Exception means "no result". *)
From IoosQc Require Import Base.
From Coq Require Import String.
Local Notation length := List.length.

Section CallRun.
  Variables V R : Type.

  Definition kwargs := list (string * V).

  Fixpoint klookup (k : string) (kw : kwargs) : option V :=
    match kw with
    | [] => None
    | (k', v) :: r => if String.eqb k' k then Some v else klookup k r
    end.

  Definition kmem (k : string) (names : list string) : bool := existsb (String.eqb k) names.

  (* {**configured, **passed}: configured keys keep their position, a passed value replaces the
     configured one, new passed keys are appended *)
  Fixpoint kset (k : string) (v : V) (kw : kwargs) : kwargs :=
    match kw with
    | [] => [(k, v)]
    | (k', v') :: r => if String.eqb k' k then (k', v) :: r else (k', v') :: kset k v r
    end.

  Definition merge_kwargs (configured passed : kwargs) : kwargs :=
    fold_left (fun acc p => kset (fst p) (snd p) acc) passed configured.

  Definition filter_sig (sig : list string) (kw : kwargs) : kwargs :=
    filter (fun p => kmem (fst p) sig) kw.

  (* the test as a function of the keyword arguments it finally receives; None = it raised *)
  Definition call_run (sig : list string) (f : kwargs -> option R) (configured passed : kwargs) : list R :=
    match f (filter_sig sig (merge_kwargs configured passed)) with
    | Some r => [r]
    | None => []                                   (* except Exception: logged, no CallResult *)
    end.
End CallRun.

Arguments klookup {V}.
Arguments kset {V}.
Arguments merge_kwargs {V}.
Arguments filter_sig {V}.
Arguments call_run {V R}.

(* ---------------------------------------------------------------- for the correspondence files *)
Definition kw_eqb (a b : list (string * Z)) : bool :=
  (Nat.eqb (List.length a) (List.length b) &&
   forallb (fun p => (String.eqb (fst (fst p)) (fst (snd p)) && Z.eqb (snd (fst p)) (snd (snd p)))%bool) (combine a b))%bool.

Definition kwl_eqb (a b : list (list (string * Z))) : bool :=
  (Nat.eqb (List.length a) (List.length b) && forallb (fun p => kw_eqb (fst p) (snd p)) (combine a b))%bool.

(* the recording test of the harness: raises (None) when a required name is missing or boom = 1,
   otherwise echoes the keyword arguments it received *)
Definition echo_test (required : list string) (kw : list (string * Z)) : option (list (string * Z)) :=
  if (forallb (fun k => match klookup k kw with Some _ => true | None => false end) required
      && negb (match klookup "boom" kw with Some 1%Z => true | _ => false end))%bool
  then Some kw else None.
