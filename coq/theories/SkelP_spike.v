(* SkelP_spike.v — generated flag skeleton of spike_test = model *)
From IoosQc Require Import Base Skel SkelBase Generated Spike.
From Coq Require Import String.
Local Notation length := List.length.
Open Scope string_scope.

(* ------------------------------------------------------------------ spike_test *)


Definition method_name (m : spike_method) : string :=
  match m with Average => "average" | Differential => "differential" end.

Lemma parse_method_name method m : parse_method method = Some m -> method = method_name m.
Proof.
  unfold parse_method. destruct (String.eqb method "average") eqn:Ea.
  - intros H. injection H as <-. apply String.eqb_eq. exact Ea.
  - destruct (String.eqb method "differential") eqn:Ed; [|discriminate].
    intros H. injection H as <-. apply String.eqb_eq. exact Ed.
Qed.

Definition env_spike (m : spike_method) (st ft : option Q) (xs : list obs) : env :=
  {| e_arr := bind_arr [("inp", xs); ("diff", spike_diff m xs)];
     e_num := bind_num [("suspect_threshold", st); ("fail_threshold", ft)];
     e_str := bind_str [("method", method_name m)]; e_bool := (fun _ => None);
     e_size := length xs |}.

Lemma spike_diff_length m xs : length (spike_diff m xs) = length xs.
Proof. destruct m; unfold spike_diff; apply tab_length. Qed.

Theorem skel_spike method m st ft xs :
  parse_method method = Some m ->
  spike_model method st ft xs =
  Flags (run_steps (env_spike m st ft xs) skel_spike_test (all_flags (length xs) GOOD)).
Proof.
  intros Hm. unfold spike_model. rewrite Hm. f_equal.
  unfold skel_spike_test, all_flags. steps.
  change (SNum (0 # 1)) with (SNum (inject_Z (Z.of_nat 0))).
  unfold guards_hold, forallb. rewrite !size_gt_guard, !andb_true_r.
  cbn [e_size env_spike].
  assert (G1 : eval_g (env_spike m st ft xs) (SCmp "isnot" (SName "suspect_threshold") SNone) = is_some st)
    by (destruct st; reflexivity).
  assert (G2 : eval_g (env_spike m st ft xs) (SCmp "isnot" (SName "fail_threshold") SNone) = is_some ft)
    by (destruct ft; reflexivity).
  rewrite G1, G2. clear G1 G2.
  assert (E1 : forall i, eval_b (env_spike m st ft xs) (SCmp ">" (SName "diff") (SName "suspect_threshold")) i
                         = exceeds st (getq (spike_diff m xs) i)).
  { intros i. cbn. unfold getq. destruct (nth i (spike_diff m xs) None), st; reflexivity. }
  assert (E2 : forall i, eval_b (env_spike m st ft xs) (SCmp ">" (SName "diff") (SName "fail_threshold")) i
                         = exceeds ft (getq (spike_diff m xs) i)).
  { intros i. cbn. unfold getq. destruct (nth i (spike_diff m xs) None), ft; reflexivity. }
  assert (E3 : forall i, eval_b (env_spike m st ft xs) (SAttr (SName "diff") "mask") i
                         = is_none (getq (spike_diff m xs) i)) by reflexivity.
  destruct xs as [|x0 xs']; [destruct st, ft; reflexivity|].
  remember (x0 :: xs') as xs eqn:Exs.
  assert (Hn : Nat.ltb 0 (length xs) = true) by (subst; reflexivity).
  assert (Hn0 : Nat.eqb (length xs) 0 = false) by (subst; reflexivity).
  rewrite Hn, Hn0.
  assert (P0 : py_index (length xs) 0 = 0%nat) by reflexivity.
  assert (P1 : py_index (length xs) (-1) = (length xs - 1)%nat) by reflexivity.
  rewrite P0, P1.
  destruct st as [su|], ft as [fa|]; cbn [is_some is_none negb];
    rewrite !set_where_tab, !set_at_tab, ?set_where_tab; apply tab_ext; intros i Hi;
    rewrite ?E1, ?E2, ?E3; cbn [exceeds];
    destruct (Nat.eqb (length xs - 1) i), (Nat.eqb 0 i), (is_none (getq (spike_diff m xs) i)); try reflexivity;
    destruct (getq (spike_diff m xs) i); reflexivity.
Qed.
