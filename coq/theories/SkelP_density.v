(* SkelP_density.v — generated flag skeleton of density_inversion_test = model *)
From IoosQc Require Import Base Skel SkelBase Generated Density.
From Coq Require Import String.
Local Notation length := List.length.
Open Scope string_scope.

(* ------------------------------------------------------------------ density_inversion_test *)



Definition env_density (st ft : option Q) (rho z : list obs) : env :=
  {| e_arr := bind_arr [("inp", rho); ("zinp", z); ("delta", density_delta rho z)];
     e_num := bind_num [("suspect_threshold", st); ("fail_threshold", ft); ("True", Some 1)];
     e_str := (fun _ => None); e_bool := (fun _ => None);
     e_size := length rho |}.

Theorem skel_density st ft rho z :
  length rho = length z -> rho <> [] ->
  density_model st ft rho z =
  Flags (run_steps (env_density st ft rho z) skel_density_inversion_test (all_flags (length rho) GOOD)).
Proof.
  intros Hl Hne. unfold density_model. rewrite <- Hl, Nat.eqb_refl. cbn [negb].
  assert (Hn0 : Nat.eqb (length rho) 0 = false) by (destruct rho; [congruence|reflexivity]).
  rewrite Hn0.
  unfold skel_density_inversion_test. steps.
  change (SNum (2 # 1)) with (SNum (inject_Z (Z.of_nat 2))).
  unfold guards_hold, forallb. rewrite !eval_g_inv, !size_eq0_guard, !size_lt_guard, !andb_true_r.
  cbn [e_size env_density]. rewrite Hn0. cbn [negb andb].
  assert (P0 : py_index (length rho) 0 = 0%nat) by reflexivity. rewrite P0.
  destruct (Nat.ltb (length rho) 2) eqn:H2; cbn [negb andb]; [reflexivity|].
  apply Nat.ltb_ge in H2.
  f_equal.
  set (en := env_density st ft rho z).
  set (cS := SCmp "<" (SName "delta") (SName "suspect_threshold")).
  set (cF := SCmp "<" (SName "delta") (SName "fail_threshold")).
  pose proof (any_false en cS) as AS. pose proof (any_false en cF) as AF.
  assert (ES : forall i, eval_b en (SCmp "==" cS (SName "True")) i = below_thr st (getq (density_delta rho z) i)).
  { intros i. cbn. unfold getq. destruct (nth i (density_delta rho z) None), st; reflexivity. }
  assert (EF : forall i, eval_b en (SCmp "==" cF (SName "True")) i = below_thr ft (getq (density_delta rho z) i)).
  { intros i. cbn. unfold getq. destruct (nth i (density_delta rho z) None), ft; reflexivity. }
  assert (ES' : forall i, eval_b en cS i = below_thr st (getq (density_delta rho z) i)).
  { intros i. cbn. unfold getq. destruct (nth i (density_delta rho z) None), st; reflexivity. }
  assert (EF' : forall i, eval_b en cF i = below_thr ft (getq (density_delta rho z) i)).
  { intros i. cbn. unfold getq. destruct (nth i (density_delta rho z) None), ft; reflexivity. }
  assert (GS : eval_g en (SCmp "isnot" (SName "suspect_threshold") SNone) = is_some st) by (destruct st; reflexivity).
  assert (GF : eval_g en (SCmp "isnot" (SName "fail_threshold") SNone) = is_some ft) by (destruct ft; reflexivity).
  rewrite GS, GF. cbn [e_size en env_density].
  unfold all_flags.
  assert (EM : forall i, eval_b en (SBin "|" (SAttr (SName "inp") "mask") (SAttr (SName "zinp") "mask")) i
                         = rec_missing rho z i) by reflexivity.
  assert (SS : is_some st && eval_g en (SCall "any" cS) = false ->
               forall i, (i < length rho)%nat -> below_thr st (getq (density_delta rho z) i) = false).
  { intros H i Hi. destruct st as [t|]; [|reflexivity]. cbn [is_some andb] in H. rewrite <- ES'. apply (AS H). exact Hi. }
  assert (SF : is_some ft && eval_g en (SCall "any" cF) = false ->
               forall i, (i < length rho)%nat -> below_thr ft (getq (density_delta rho z) i) = false).
  { intros H i Hi. destruct ft as [t|]; [|reflexivity]. cbn [is_some andb] in H. rewrite <- EF'. apply (AF H). exact Hi. }
  rewrite where_guard by (intros H i Hi; rewrite ES, (SS H i Hi); apply andb_false_r).
  rewrite where_guard by (intros H i Hi; rewrite ES; destruct i as [|i]; [reflexivity|];
                          rewrite (SS H (S i - 1)%nat) by lia; apply andb_false_r).
  rewrite where_guard by (intros H i Hi; rewrite EF, (SF H i Hi); apply andb_false_r).
  rewrite where_guard by (intros H i Hi; rewrite EF; destruct i as [|i]; [reflexivity|];
                          rewrite (SF H (S i - 1)%nat) by lia; apply andb_false_r).
  rewrite !set_where_tab.
  apply tab_ext. intros i Hi.
  assert (EM1 : eval_b en (SSl false (SBin "|" (SAttr (SName "inp") "mask") (SAttr (SName "zinp") "mask"))) (i - 1)
                = (Nat.ltb (S (i - 1)) (length rho) && rec_missing rho z (i - 1))%bool) by reflexivity.
  rewrite EM1, EM, !ES, !EF.
  destruct i as [|i]; cbn [Nat.eqb negb andb].
  - assert (L1 : Nat.ltb 1 (length rho) = true) by (apply Nat.ltb_lt; lia).
    rewrite L1. reflexivity.
  - replace (S i - 1)%nat with i by lia.
    assert (L1 : Nat.ltb (S i) (length rho) = true) by (apply Nat.ltb_lt; lia).
    rewrite L1. cbn [andb].
    destruct (Nat.ltb (S (S i)) (length rho)) eqn:L2; cbn [andb].
    + reflexivity.
    + (* the last point: delta has no entry there *)
      apply Nat.ltb_ge in L2.
      assert (D : getq (density_delta rho z) (S i) = None).
      { unfold getq, density_delta. apply nth_overflow. rewrite tab_length. lia. }
      rewrite D. destruct st, ft; reflexivity.
Qed.
