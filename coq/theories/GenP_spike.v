(* GenP_spike.v — spike_test assembled from its generated parts = model *)
From IoosQc Require Import Base Skel Arr Gen SkelBase ArrBase GenBase Generated Spike SkelP_spike ArrP_spike.
From Coq Require Import String.
Local Notation length := List.length.
Open Scope string_scope.

(* ------------------------------------------------------------------ spike_test *)

Theorem gen_spike method m st ft xs :
  parse_method method = Some m ->
  exists fl,
    gen_flags (length xs) (fun _ => None)
              (bind_num [("suspect_threshold", st); ("fail_threshold", ft)]) (bind_str [("method", method)])
              prog_spike_test skel_spike_test ["inp"; "diff"] (bind_store [("inp", xs)]) GOOD = Some fl
    /\ spike_model method st ft xs = Flags fl.
Proof.
  intros Hm. unfold gen_flags.
  set (en0 := {| e_arr := fun _ => None; e_num := _; e_str := _; e_size := _ |}).
  destruct (prog_spike en0 method m xs Hm eq_refl) as (s1 & Hrun & Hdiff & Hinp).
  rewrite Hrun. eexists. split; [reflexivity|].
  rewrite (skel_spike method m st ft xs Hm). f_equal. apply run_steps_ext.
  repeat split; cbn [e_arr e_num e_str e_size env_spike]; try reflexivity.
  - apply (restrict_bind s1 [("inp", xs); ("diff", spike_diff m xs)]). intros p Hp. in_cases Hp.
  - intros s. rewrite (parse_method_name method m Hm). reflexivity.
Qed.
