(* Props_C16.v — C16: stricter thresholds never produce a better flag.
   Only statements, `exact <lemma>` and Print Assumptions.
   (statements written out by tools/mk_props.py from the lemmas they restate) *)
From IoosQc Require Import Base Generated Range RangeProofs Spike SpikeProofs Rate RateProofs Location LocationProofs Density DensityProofs FlatLine FlatLineProofs Attenuated AttenuatedProofs Calendar Climatology ClimatologyProofs ClimStricter.


(* gross_range_test: fail span and suspect span nested inside the old ones (a suspect span may be added): severity GOOD < SUSPECT < FAIL never decreases and the UNKNOWN/MISSING positions are unchanged *)
Theorem C16_gross :
  forall (flo fhi : Q) (s : option (Q * Q)) (flo' fhi' : Q) (s' : option (Q * Q)) (x : obs),
         flo <= flo' ->
         fhi' <= fhi ->
         span_nested s' s ->
         (sev (gross_pt flo fhi s x) <= sev (gross_pt flo' fhi' s' x))%nat /\
         not_evaluated (gross_pt flo fhi s x) = not_evaluated (gross_pt flo' fhi' s' x).
Proof. exact (@gross_pt_mono). Qed.
Print Assumptions C16_gross.

(* valid_range_test: bounds moved inwards or added *)
Theorem C16_valid :
  forall (lo hi lo' hi' : option Q) (si ei : bool) (x : obs),
         bound_le_lo lo' lo ->
         bound_le_hi hi' hi ->
         (sev (valid_pt lo hi si ei x) <= sev (valid_pt lo' hi' si ei x))%nat /\
         not_evaluated (valid_pt lo hi si ei x) = not_evaluated (valid_pt lo' hi' si ei x).
Proof. exact (@valid_pt_mono). Qed.
Print Assumptions C16_valid.

(* spike_test: thresholds not larger, or a threshold added (thr_le (Some _) None): in particular adding a suspect threshold never downgrades a FAIL *)
Theorem C16_spike :
  forall (m : spike_method) (st ft st' ft' : option Q) (xs : list obs) (i : nat),
         thr_le st' st ->
         thr_le ft' ft ->
         (sev (spike_pt m st ft xs i) <= sev (spike_pt m st' ft' xs i))%nat /\
         not_evaluated (spike_pt m st ft xs i) = not_evaluated (spike_pt m st' ft' xs i).
Proof. exact (@spike_pt_mono). Qed.
Print Assumptions C16_spike.

Theorem C16_spike_decide :
  forall (st ft st' ft' : option Q) (d : Q),
         thr_le st' st -> thr_le ft' ft -> (sev (decide3 st ft d) <= sev (decide3 st' ft' d))%nat.
Proof. exact (@decide3_mono). Qed.
Print Assumptions C16_spike_decide.

(* rate_of_change_test: threshold not larger *)
Theorem C16_roc :
  forall (thr thr' : Q) (xs : list obs) (ts : list Z) (i : nat),
         thr' <= thr ->
         (sev (roc_pt thr xs ts i) <= sev (roc_pt thr' xs ts i))%nat /\
         not_evaluated (roc_pt thr xs ts i) = not_evaluated (roc_pt thr' xs ts i).
Proof. exact (@roc_pt_mono). Qed.
Print Assumptions C16_roc.

(* speed_test: both thresholds not larger (for every geodesic function) *)
Theorem C16_speed :
  forall (geod : Q -> Q -> Q -> Q -> Q) (st ft st' ft' : Q) (lon lat : list obs) 
           (ts : list Z) (i : nat),
         st' <= st ->
         ft' <= ft ->
         (sev (speed_pt geod st ft lon lat ts i) <= sev (speed_pt geod st' ft' lon lat ts i))%nat /\
         not_evaluated (speed_pt geod st ft lon lat ts i) =
         not_evaluated (speed_pt geod st' ft' lon lat ts i).
Proof. exact (@speed_pt_mono). Qed.
Print Assumptions C16_speed.

(* location_test: box nested inside the old one, range_max not larger or added *)
Theorem C16_location :
  forall (geod : Q -> Q -> Q -> Q -> Q) (minx miny maxx maxy minx' miny' maxx' maxy' : Q)
           (rm rm' : option Q) (lon lat : list obs) (i : nat),
         minx <= minx' ->
         miny <= miny' ->
         maxx' <= maxx ->
         maxy' <= maxy ->
         thr_le rm' rm ->
         (sev (location_pt geod minx miny maxx maxy rm lon lat i) <=
          sev (location_pt geod minx' miny' maxx' maxy' rm' lon lat i))%nat /\
         not_evaluated (location_pt geod minx miny maxx maxy rm lon lat i) =
         not_evaluated (location_pt geod minx' miny' maxx' maxy' rm' lon lat i).
Proof. exact (@location_pt_mono). Qed.
Print Assumptions C16_location.

(* flat_line_test: durations not longer, tolerance not smaller (shorter trailing windows have smaller ranges) *)
Theorem C16_flat :
  forall (n : nat) (D st ft tol st' ft' tol' : Q) (xs : list obs) (i : nat),
         0 < D ->
         st' <= st ->
         ft' <= ft ->
         tol <= tol' ->
         (sev (flat_flag n D st ft tol xs i) <= sev (flat_flag n D st' ft' tol' xs i))%nat /\
         not_evaluated (flat_flag n D st ft tol xs i) =
         not_evaluated (flat_flag n D st' ft' tol' xs i).
Proof. exact (@flat_flag_mono). Qed.
Print Assumptions C16_flat.

Theorem C16_flat_window :
  forall (xs : list obs) (i k k' : nat) (r r' : Q),
         (k' <= k)%nat ->
         (k <= i)%nat -> wspan xs (i - k') k' = Some r' -> wspan xs (i - k) k = Some r -> r' <= r.
Proof. exact (@wspan_incl). Qed.
Print Assumptions C16_flat_window.

Theorem C16_flat_k :
  forall thr thr' D : Q, 0 < D -> thr' <= thr -> (kof thr' D <= kof thr D)%nat.
Proof. exact (@kof_mono). Qed.
Print Assumptions C16_flat_k.

(* attenuated_signal_test: thresholds not smaller *)
Theorem C16_atten :
  forall (ct : check_type) (st ft st' ft' : Q) (period : option Z) 
           (minp : Z) (xs : list obs) (ts : list Z) (i : nat),
         st <= st' ->
         ft <= ft' ->
         (sev (atten_pt ct st ft period minp xs ts i) <=
          sev (atten_pt ct st' ft' period minp xs ts i))%nat /\
         not_evaluated (atten_pt ct st ft period minp xs ts i) =
         not_evaluated (atten_pt ct st' ft' period minp xs ts i).
Proof. exact (@atten_pt_mono). Qed.
Print Assumptions C16_atten.

(* density_inversion_test: thresholds not smaller, or a threshold added *)
Theorem C16_density :
  forall (st ft st' ft' : option Q) (rho z : list obs) (i : nat),
         thr_ge st' st ->
         thr_ge ft' ft ->
         (sev (density_pt st ft rho z i) <= sev (density_pt st' ft' rho z i))%nat /\
         not_evaluated (density_pt st ft rho z i) = not_evaluated (density_pt st' ft' rho z i).
Proof. exact (@density_pt_mono). Qed.
Print Assumptions C16_density.

(* climatology_test, on the flags the code returns: every member's valid span nested inside the old one and its fail span nested inside the old one or newly given (members compared as stored by ClimatologyConfig.add, i.e. spans sorted; time / depth spans unchanged): severity never decreases, UNKNOWN / MISSING positions unchanged *)
Theorem C16_climatology :
  forall (config' config : list member) (xs : list obs) (ts : list Z) 
           (zs : list obs) (i : nat),
         Forall2 member_stricter (map add config') (map add config) ->
         (i < length xs)%nat ->
         let f := nth i (flags_of (clim_model config xs ts zs)) UNKNOWN in
         let f' := nth i (flags_of (clim_model config' xs ts zs)) UNKNOWN in
         (sev f <= sev f')%nat /\ not_evaluated f = not_evaluated f'.
Proof. exact (@clim_model_stricter). Qed.
Print Assumptions C16_climatology.

(* the same per point: the last matching member of the strict list sits where the last matching member of the loose list sits *)
Theorem C16_climatology_point :
  forall (ms' ms : list member) (x : obs) (t : Z) (z : obs),
         Forall2 member_stricter ms' ms ->
         (sev (clim_pt ms x t z) <= sev (clim_pt ms' x t z))%nat /\
         not_evaluated (clim_pt ms x t z) = not_evaluated (clim_pt ms' x t z).
Proof. exact (@clim_pt_stricter). Qed.
Print Assumptions C16_climatology_point.

(* the hypothesis is satisfiable: a member gains a fail span and a narrower valid span (spans written in either order) *)
Theorem C16_climatology_example :
  member_stricter
           (add
              {|
                m_tspan := TAbs 0 10; m_fspan := Some (0, 50); m_vspan := (12, 38); m_zspan := None
              |})
           (add {| m_tspan := TAbs 10 0; m_fspan := None; m_vspan := (40, 10); m_zspan := None |}).
Proof. exact (@member_stricter_example). Qed.
Print Assumptions C16_climatology_example.

Theorem C16_suspect_before_fail :
  assign_order_gross_range_test = [MISSING; SUSPECT; FAIL] /\ assign_order_spike_test = [SUSPECT; FAIL; UNKNOWN; UNKNOWN; MISSING] /\
  assign_order_speed_test = [MISSING; UNKNOWN; SUSPECT; FAIL; UNKNOWN; MISSING] /\ assign_order_flat_line_test = [GOOD; MISSING; SUSPECT; FAIL; MISSING].
Proof. repeat split; reflexivity. Qed.
Print Assumptions C16_suspect_before_fail.
