(* SkelProofs.v — the skeletons GENERATED from the source (the skel_ definitions of Generated.v), run in the environment of
   the hand-written models, produce exactly the models' flags. *)
From IoosQc Require Import Base Skel Generated Range Spike Rate Location Attenuated.
From Coq Require Import String.
Local Notation length := List.length.
Open Scope string_scope.

Definition bind_num (l : list (string * option Q)) (n : string) : option (option Q) :=
  match find (fun p => String.eqb (fst p) n) l with Some p => Some (snd p) | None => None end.

Definition bind_arr (l : list (string * list obs)) (n : string) : option (list obs) :=
  match find (fun p => String.eqb (fst p) n) l with Some p => Some (snd p) | None => None end.

(* ------------------------------------------------------------------ gross_range_test *)

Definition env_gross (flo fhi : Q) (s : option (Q * Q)) (xs : list obs) : env :=
  {| e_arr := bind_arr [("inp", xs)];
     e_num := bind_num [("sspan.minv", Some flo); ("sspan.maxv", Some fhi);
                        ("uspan.minv", option_map fst s); ("uspan.maxv", option_map snd s);
                        ("suspect_span", option_map fst s)];
     e_size := length xs |}.

(* evaluate the (closed) guards of the generated steps *)
Ltac eval_guards :=
  repeat match goal with
  | |- context [guards_hold ?e ?g] =>
      let b := eval vm_compute in (guards_hold e g) in
      change (guards_hold e g) with b; cbv iota
  end.

Ltac steps := unfold run_steps; cbn [fold_left]; unfold run_step.

Lemma skel_gross_flags flo fhi s xs :
  run_steps (env_gross flo fhi s xs) skel_gross_range_test (all_flags (length xs) GOOD)
  = map (gross_pt flo fhi s) xs.
Proof.
  unfold skel_gross_range_test, all_flags. steps.
  destruct s as [[slo shi]|]; eval_guards; cbn [e_size env_gross];
    rewrite !set_where_tab; rewrite (map_as_tab _ xs None); apply tab_ext; intros i _;
    unfold gross_pt, outside, getq; cbn; destruct (nth i xs None) as [v|]; cbn; reflexivity.
Qed.

(* ------------------------------------------------------------------ generic facts *)

Lemma set_where_false {A} n (v : A) f : set_where (tab n (fun _ => false)) v (tab n f) = tab n f.
Proof. rewrite set_where_tab. apply tab_ext. reflexivity. Qed.

Lemma size_gt_guard en a k :
  eval_g en (SCmp ">" (SAttr (SName a) "size") (SNum (inject_Z (Z.of_nat k)))) = Nat.ltb k (e_size en).
Proof.
  assert (E : eval_g en (SCmp ">" (SAttr (SName a) "size") (SNum (inject_Z (Z.of_nat k))))
              = negb (Z.of_nat (e_size en) <=? Z.of_nat k)%Z).
  { cbn. unfold cmp_q. cbn. unfold Qltb, Qle_bool. cbn. rewrite !Z.mul_1_r. reflexivity. }
  rewrite E. destruct (Nat.ltb_spec k (e_size en)) as [H|H].
  - apply negb_true_iff. apply Z.leb_gt. lia.
  - apply negb_false_iff. apply Z.leb_le. lia.
Qed.

Lemma size_eq0_guard en a :
  eval_g en (SCmp "==" (SAttr (SName a) "size") (SNum 0)) = Nat.eqb (e_size en) 0.
Proof.
  cbn. unfold cmp_q. cbn. unfold Qeqb, Qeq_bool. cbn. rewrite Z.mul_1_r.
  destruct (e_size en); reflexivity.
Qed.

Lemma eval_g_and en a b : eval_g en (SBin "and" a b) = (eval_g en a && eval_g en b)%bool.
Proof. reflexivity. Qed.

Lemma eval_g_inv en a : eval_g en (SInv a) = negb (eval_g en a).
Proof. reflexivity. Qed.

(* ------------------------------------------------------------------ spike_test *)

Definition env_spike (m : spike_method) (st ft : option Q) (xs : list obs) : env :=
  {| e_arr := bind_arr [("inp", xs); ("diff", spike_diff m xs)];
     e_num := bind_num [("suspect_threshold", st); ("fail_threshold", ft)];
     e_size := length xs |}.

Lemma spike_diff_length m xs : length (spike_diff m xs) = length xs.
Proof. destruct m; unfold spike_diff; apply tab_length. Qed.

Theorem skel_spike method m st ft xs :
  parse_method method = Some m ->
  spike_model method st ft xs =
  Flags (run_steps (env_spike m st ft xs) skel_spike_test (all_flags (length xs) GOOD)).
Proof.
  intros Hm. unfold spike_model. rewrite Hm. f_equal.
  unfold skel_spike_test, all_flags. steps.
  change (SNum (0 # 1)) with (SNum (inject_Z (Z.of_nat 0))).
  unfold guards_hold, forallb. rewrite !size_gt_guard, !andb_true_r.
  cbn [e_size env_spike].
  assert (G1 : eval_g (env_spike m st ft xs) (SCmp "isnot" (SName "suspect_threshold") SNone) = is_some st)
    by (destruct st; reflexivity).
  assert (G2 : eval_g (env_spike m st ft xs) (SCmp "isnot" (SName "fail_threshold") SNone) = is_some ft)
    by (destruct ft; reflexivity).
  rewrite G1, G2. clear G1 G2.
  assert (E1 : forall i, eval_b (env_spike m st ft xs) (SCmp ">" (SName "diff") (SName "suspect_threshold")) i
                         = exceeds st (getq (spike_diff m xs) i)).
  { intros i. cbn. unfold getq. destruct (nth i (spike_diff m xs) None), st; reflexivity. }
  assert (E2 : forall i, eval_b (env_spike m st ft xs) (SCmp ">" (SName "diff") (SName "fail_threshold")) i
                         = exceeds ft (getq (spike_diff m xs) i)).
  { intros i. cbn. unfold getq. destruct (nth i (spike_diff m xs) None), ft; reflexivity. }
  assert (E3 : forall i, eval_b (env_spike m st ft xs) (SAttr (SName "diff") "mask") i
                         = is_none (getq (spike_diff m xs) i)) by reflexivity.
  destruct xs as [|x0 xs']; [destruct st, ft; reflexivity|].
  remember (x0 :: xs') as xs eqn:Exs.
  assert (Hn : Nat.ltb 0 (length xs) = true) by (subst; reflexivity).
  assert (Hn0 : Nat.eqb (length xs) 0 = false) by (subst; reflexivity).
  rewrite Hn, Hn0.
  assert (P0 : py_index (length xs) 0 = 0%nat) by reflexivity.
  assert (P1 : py_index (length xs) (-1) = (length xs - 1)%nat) by reflexivity.
  rewrite P0, P1.
  destruct st as [su|], ft as [fa|]; cbn [is_some is_none negb];
    rewrite !set_where_tab, !set_at_tab, ?set_where_tab; apply tab_ext; intros i Hi;
    rewrite ?E1, ?E2, ?E3; cbn [exceeds];
    destruct (Nat.eqb (length xs - 1) i), (Nat.eqb 0 i), (is_none (getq (spike_diff m xs) i)); try reflexivity;
    destruct (getq (spike_diff m xs) i); reflexivity.
Qed.

(* ------------------------------------------------------------------ rate_of_change_test *)

Definition env_roc (thr : Q) (xs : list obs) (ts : list Z) : env :=
  {| e_arr := bind_arr [("inp", xs); ("roc", roc_rates xs ts)];
     e_num := bind_num [("threshold", Some thr)];
     e_size := length xs |}.

Theorem skel_roc thr xs ts :
  length xs = length ts ->
  roc_model thr xs ts =
  Flags (run_steps (env_roc thr xs ts) skel_rate_of_change_test (all_flags (length xs) GOOD)).
Proof.
  intros Hl. unfold roc_model. rewrite Hl, Nat.eqb_refl. cbn [negb]. rewrite <- Hl.
  (* model and generated skeleton are convertible: same masks, same flags, same order *)
  reflexivity.
Qed.

(* ------------------------------------------------------------------ location_test *)

Section Loc.
  Variable geod : Q -> Q -> Q -> Q -> Q.

  Definition env_loc (minx miny maxx maxy : Q) (rm : option Q) (lon lat : list obs) : env :=
    {| e_arr := bind_arr [("lon", lon); ("lat", lat); ("d", great_circle_distance geod lon lat)];
       e_num := bind_num [("range_max", rm); ("bbox.minx", Some minx); ("bbox.miny", Some miny);
                          ("bbox.maxx", Some maxx); ("bbox.maxy", Some maxy)];
       e_size := length lon |}.

  Theorem skel_location minx miny maxx maxy rm lon lat :
    length lon = length lat ->
    location_model geod [minx; miny; maxx; maxy] rm lon lat =
    Flags (run_steps (env_loc minx miny maxx maxy rm lon lat) skel_location_test (all_flags (length lon) GOOD)).
  Proof.
    intros Hl. unfold location_model. rewrite Hl, Nat.eqb_refl. cbn [negb]. rewrite <- Hl. f_equal.
    unfold skel_location_test, all_flags. steps.
    change (SNum (1 # 1)) with (SNum (inject_Z (Z.of_nat 1))).
    unfold guards_hold, forallb. rewrite eval_g_and, size_gt_guard.
    cbn [e_size env_loc].
    assert (G : eval_g (env_loc minx miny maxx maxy rm lon lat) (SCmp "isnot" (SName "range_max") SNone) = is_some rm)
      by (destruct rm; reflexivity).
    rewrite G, !andb_true_r. clear G.
    destruct rm as [r|]; cbn [is_some is_none negb andb].
    - destruct (Nat.ltb 1 (length lon)); rewrite !set_where_tab; apply tab_ext; intros i _;
        cbn; unfold box_mask, missing_at, getq;
        destruct (nth i lon None), (nth i lat None), (nth i (great_circle_distance geod lon lat) None); reflexivity.
    - rewrite !set_where_tab. apply tab_ext. intros i _.
      cbn. unfold box_mask, missing_at, getq. destruct (nth i lon None), (nth i lat None); reflexivity.
  Qed.
End Loc.

(* ------------------------------------------------------------------ attenuated_signal_test (range) *)

Definition env_atten (st ft : Q) (xs : list obs) (cv : list (option Q)) : env :=
  {| e_arr := bind_arr [("inp", xs); ("check_val", cv)];
     e_num := bind_num [("suspect_threshold", Some st); ("fail_threshold", Some ft)];
     e_size := length xs |}.

Theorem skel_atten_range st ft xs cv :
  xs <> [] ->
  atten_flags Range st ft xs cv =
  run_steps (env_atten st ft xs cv) skel_attenuated_signal_test (all_flags (length xs) UNKNOWN).
Proof.
  intros Hne. unfold atten_flags, skel_attenuated_signal_test, all_flags. steps.
  unfold guards_hold, forallb. rewrite !eval_g_inv, !size_eq0_guard. cbn [e_size env_atten].
  assert (Hn : Nat.eqb (length xs) 0 = false) by (destruct xs; [congruence|reflexivity]).
  rewrite Hn. cbn [negb andb].
  rewrite !set_where_tab. apply tab_ext. intros i _.
  cbn. unfold missing_at, getq, below, obs in *. destruct (nth i xs None), (nth i cv None); cbn; try reflexivity;
    unfold Qleb, Qltb; repeat match goal with |- context [Qle_bool ?a ?b] => destruct (Qle_bool a b) end; reflexivity.
Qed.

(* ------------------------------------------------------------------ axds.valid_range_test *)

Definition qbool (b : bool) : option Q := Some (if b then 1 else 0).

Definition env_valid (lo hi : option Q) (si ei : bool) (xs : list obs) : env :=
  {| e_arr := bind_arr [("inp", xs)];
     e_num := bind_num [("valid_span.0", lo); ("valid_span.1", hi); ("True", Some 1); ("False", Some 0);
                        ("start_inclusive", qbool si); ("end_inclusive", qbool ei)];
     e_size := length xs |}.

Theorem skel_valid lo hi si ei xs :
  valid_model lo hi si ei xs =
  Flags (run_steps (env_valid lo hi si ei xs) skel_valid_range_test (all_flags (length xs) GOOD)).
Proof.
  unfold valid_model. f_equal. unfold skel_valid_range_test, all_flags. steps.
  destruct lo as [l|], hi as [h|], si, ei; eval_guards; cbn [e_size env_valid];
    rewrite !set_where_tab; apply tab_ext; intros i _;
    cbn; unfold missing_at, below, above, getq; destruct (nth i xs None) as [v|]; cbn; try reflexivity;
    unfold Qleb, Qltb; repeat match goal with |- context [Qle_bool ?a ?b] => destruct (Qle_bool a b) end; reflexivity.
Qed.

(* ------------------------------------------------------------------ argo.speed_test *)

Lemma size_lt_guard en a k :
  eval_g en (SCmp "<" (SAttr (SName a) "size") (SNum (inject_Z (Z.of_nat k)))) = Nat.ltb (e_size en) k.
Proof.
  assert (E : eval_g en (SCmp "<" (SAttr (SName a) "size") (SNum (inject_Z (Z.of_nat k))))
              = negb (Z.of_nat k <=? Z.of_nat (e_size en))%Z).
  { cbn. unfold cmp_q. cbn. unfold Qltb, Qle_bool. cbn. rewrite !Z.mul_1_r. reflexivity. }
  rewrite E. destruct (Nat.ltb_spec (e_size en) k) as [H|H].
  - apply negb_true_iff. apply Z.leb_gt. lia.
  - apply negb_false_iff. apply Z.leb_le. lia.
Qed.

Section Speed.
  Variable geod : Q -> Q -> Q -> Q -> Q.

  Definition speed_arr (lon lat : list obs) (ts : list Z) : list obs :=
    tab (length lon) (fun i => if Nat.eqb i 0 then Some 0
                               else option_map (fun d => qabs (d / dsecs ts i)) (getq (speed_dist geod lon lat) i)).

  Definition env_speed (st ft : Q) (lon lat : list obs) (ts : list Z) : env :=
    {| e_arr := bind_arr [("lon", lon); ("lat", lat); ("dist", speed_dist geod lon lat); ("speed", speed_arr lon lat ts)];
       e_num := bind_num [("suspect_threshold", Some st); ("fail_threshold", Some ft)];
       e_size := length lon |}.

  Theorem skel_speed st ft lon lat ts :
    length lon = length lat -> length lon = length ts -> lon <> [] ->
    speed_model geod st ft lon lat ts =
    Flags (run_steps (env_speed st ft lon lat ts) skel_speed_test (all_flags (length lon) GOOD)).
  Proof.
    intros Hl Ht Hne. unfold speed_model. rewrite <- Hl, <- Ht, Nat.eqb_refl. cbn [andb negb].
    assert (Hn0 : Nat.eqb (length lon) 0 = false) by (destruct lon; [congruence|reflexivity]).
    rewrite Hn0.
    unfold skel_speed_test, all_flags. steps.
    change (SNum (2 # 1)) with (SNum (inject_Z (Z.of_nat 2))).
    unfold guards_hold, forallb. rewrite !eval_g_inv, !size_eq0_guard, !size_lt_guard, !andb_true_r.
    cbn [e_size env_speed]. rewrite Hn0. cbn [negb andb].
    assert (P0 : py_index (length lon) 0 = 0%nat) by reflexivity. rewrite P0.
    destruct (Nat.ltb (length lon) 2); cbn [negb]; [reflexivity|].
    f_equal.
  Qed.
End Speed.

(* ------------------------------------------------------------------ density_inversion_test *)
From IoosQc Require Import Density.

Lemma where_guard (b : bool) n c v (f : nat -> flag) :
  (b = false -> forall i, (i < n)%nat -> c i = false) ->
  (if b then set_where (tab n c) v (tab n f) else tab n f) = tab n (fun i => if c i then v else f i).
Proof.
  intros H. destruct b; [apply set_where_tab|].
  apply tab_ext. intros i Hi. rewrite (H eq_refl i Hi). reflexivity.
Qed.

Lemma any_false en c :
  eval_g en (SCall "any" c) = false -> forall i, (i < e_size en)%nat -> eval_b en c i = false.
Proof.
  intros H i Hi. change (existsb (eval_b en c) (seq 0 (e_size en)) = false) in H.
  destruct (eval_b en c i) eqn:E; [|reflexivity].
  assert (X : existsb (eval_b en c) (seq 0 (e_size en)) = true).
  { apply existsb_exists. exists i. split; [apply in_seq; lia|exact E]. }
  congruence.
Qed.

Definition env_density (st ft : option Q) (rho z : list obs) : env :=
  {| e_arr := bind_arr [("inp", rho); ("zinp", z); ("delta", density_delta rho z)];
     e_num := bind_num [("suspect_threshold", st); ("fail_threshold", ft); ("True", Some 1)];
     e_size := length rho |}.

Theorem skel_density st ft rho z :
  length rho = length z -> rho <> [] ->
  density_model st ft rho z =
  Flags (run_steps (env_density st ft rho z) skel_density_inversion_test (all_flags (length rho) GOOD)).
Proof.
  intros Hl Hne. unfold density_model. rewrite <- Hl, Nat.eqb_refl. cbn [negb].
  assert (Hn0 : Nat.eqb (length rho) 0 = false) by (destruct rho; [congruence|reflexivity]).
  rewrite Hn0.
  unfold skel_density_inversion_test. steps.
  change (SNum (2 # 1)) with (SNum (inject_Z (Z.of_nat 2))).
  unfold guards_hold, forallb. rewrite !eval_g_inv, !size_eq0_guard, !size_lt_guard, !andb_true_r.
  cbn [e_size env_density]. rewrite Hn0. cbn [negb andb].
  assert (P0 : py_index (length rho) 0 = 0%nat) by reflexivity. rewrite P0.
  destruct (Nat.ltb (length rho) 2) eqn:H2; cbn [negb andb]; [reflexivity|].
  apply Nat.ltb_ge in H2.
  f_equal.
  set (en := env_density st ft rho z).
  set (cS := SCmp "<" (SName "delta") (SName "suspect_threshold")).
  set (cF := SCmp "<" (SName "delta") (SName "fail_threshold")).
  pose proof (any_false en cS) as AS. pose proof (any_false en cF) as AF.
  assert (ES : forall i, eval_b en (SCmp "==" cS (SName "True")) i = below_thr st (getq (density_delta rho z) i)).
  { intros i. cbn. unfold getq. destruct (nth i (density_delta rho z) None), st; reflexivity. }
  assert (EF : forall i, eval_b en (SCmp "==" cF (SName "True")) i = below_thr ft (getq (density_delta rho z) i)).
  { intros i. cbn. unfold getq. destruct (nth i (density_delta rho z) None), ft; reflexivity. }
  assert (ES' : forall i, eval_b en cS i = below_thr st (getq (density_delta rho z) i)).
  { intros i. cbn. unfold getq. destruct (nth i (density_delta rho z) None), st; reflexivity. }
  assert (EF' : forall i, eval_b en cF i = below_thr ft (getq (density_delta rho z) i)).
  { intros i. cbn. unfold getq. destruct (nth i (density_delta rho z) None), ft; reflexivity. }
  assert (GS : eval_g en (SCmp "isnot" (SName "suspect_threshold") SNone) = is_some st) by (destruct st; reflexivity).
  assert (GF : eval_g en (SCmp "isnot" (SName "fail_threshold") SNone) = is_some ft) by (destruct ft; reflexivity).
  rewrite GS, GF. cbn [e_size en env_density].
  unfold all_flags.
  assert (EM : forall i, eval_b en (SBin "|" (SAttr (SName "inp") "mask") (SAttr (SName "zinp") "mask")) i
                         = rec_missing rho z i) by reflexivity.
  assert (SS : is_some st && eval_g en (SCall "any" cS) = false ->
               forall i, (i < length rho)%nat -> below_thr st (getq (density_delta rho z) i) = false).
  { intros H i Hi. destruct st as [t|]; [|reflexivity]. cbn [is_some andb] in H. rewrite <- ES'. apply (AS H). exact Hi. }
  assert (SF : is_some ft && eval_g en (SCall "any" cF) = false ->
               forall i, (i < length rho)%nat -> below_thr ft (getq (density_delta rho z) i) = false).
  { intros H i Hi. destruct ft as [t|]; [|reflexivity]. cbn [is_some andb] in H. rewrite <- EF'. apply (AF H). exact Hi. }
  rewrite where_guard by (intros H i Hi; rewrite ES, (SS H i Hi); apply andb_false_r).
  rewrite where_guard by (intros H i Hi; rewrite ES; destruct i as [|i]; [reflexivity|];
                          rewrite (SS H (S i - 1)%nat) by lia; apply andb_false_r).
  rewrite where_guard by (intros H i Hi; rewrite EF, (SF H i Hi); apply andb_false_r).
  rewrite where_guard by (intros H i Hi; rewrite EF; destruct i as [|i]; [reflexivity|];
                          rewrite (SF H (S i - 1)%nat) by lia; apply andb_false_r).
  rewrite !set_where_tab.
  apply tab_ext. intros i Hi.
  assert (EM1 : eval_b en (SSl false (SBin "|" (SAttr (SName "inp") "mask") (SAttr (SName "zinp") "mask"))) (i - 1)
                = (Nat.ltb (S (i - 1)) (length rho) && rec_missing rho z (i - 1))%bool) by reflexivity.
  rewrite EM1, EM, !ES, !EF.
  destruct i as [|i]; cbn [Nat.eqb negb andb].
  - assert (L1 : Nat.ltb 1 (length rho) = true) by (apply Nat.ltb_lt; lia).
    rewrite L1. reflexivity.
  - replace (S i - 1)%nat with i by lia.
    assert (L1 : Nat.ltb (S i) (length rho) = true) by (apply Nat.ltb_lt; lia).
    rewrite L1. cbn [andb].
    destruct (Nat.ltb (S (S i)) (length rho)) eqn:L2; cbn [andb].
    + reflexivity.
    + (* the last point: delta has no entry there *)
      apply Nat.ltb_ge in L2.
      assert (D : getq (density_delta rho z) (S i) = None).
      { unfold getq, density_delta. apply nth_overflow. rewrite tab_length. lia. }
      rewrite D. destruct st, ft; reflexivity.
Qed.
