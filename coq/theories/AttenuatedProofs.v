(* AttenuatedProofs.v — attenuated_signal_test: refinement of the operational model to the pointwise
   specification (C12) and the laws used by C02 (missing), C16 (monotone in thresholds),
   C17 (value shift / negation, time shift, locality of the rolling mode). *)
From IoosQc Require Import Base Attenuated.
From Coq Require Import String.
Local Notation length := List.length.

Ltac tabs := unfold all_flags; repeat rewrite set_where_tab.

(* ---------------------------------------------------------------- the overwrites, per index *)

Lemma atten_flags_tab ct st ft xs (s : nat -> option Q) :
  atten_flags ct st ft xs (tab (length xs) s) =
  tab (length xs) (fun i => flag_of ct st ft (getq xs i) (s i)).
Proof.
  unfold atten_flags. tabs. apply tab_ext. intros i Hi.
  rewrite getq_tab by exact Hi.
  unfold missing_at, flag_of, decide_att.
  destruct (getq xs i) as [x|]; simpl; destruct (s i) as [v|]; simpl; try reflexivity;
    destruct (below ct ft v), (below ct st v); reflexivity.
Qed.

(* ---------------------------------------------------------------- time axis *)

Definition increasing (ts : list Z) : Prop :=
  forall i j, (i < j)%nat -> (j < length ts)%nat -> (getz ts i < getz ts j)%Z.

Lemma increasing_le ts i j :
  increasing ts -> (i <= j)%nat -> (j < length ts)%nat -> (getz ts i <= getz ts j)%Z.
Proof.
  intros H Hij Hj. destruct (Nat.eq_dec i j) as [->|Hne]; [lia|].
  assert (getz ts i < getz ts j)%Z by (apply H; lia). lia.
Qed.

Lemma increasing_mono_inc ts : increasing ts -> mono_inc ts = true.
Proof.
  intros H. unfold mono_inc. apply forallb_forall. intros k Hk. apply in_seq in Hk.
  apply Z.leb_le. apply increasing_le; [exact H|lia|lia].
Qed.

Lemma increasing_growth_sign ts : increasing ts -> growth_sign ts = 1%Z.
Proof.
  intros H. unfold growth_sign.
  destruct (Z.ltb_spec (getz ts (length ts - 1)) (getz ts 0)) as [L|L]; [|reflexivity].
  exfalso. destruct (length ts) as [|n] eqn:E.
  - simpl in L. lia.
  - assert (getz ts 0 <= getz ts (S n - 1))%Z by (apply increasing_le; [exact H|lia|lia]). lia.
Qed.

(* on an increasing axis the pandas window (positions start..i) is the time window (t_i - P, t_i] *)
Lemma window_pd_window p ts n i :
  increasing ts -> (0 < p)%Z -> n = length ts -> (i < n)%nat ->
  window_pd p ts n i = window p ts n i.
Proof.
  intros Hinc Hp Hn Hi. unfold window_pd, window. rewrite (increasing_growth_sign ts Hinc).
  apply filter_ext_in. intros j Hj. apply in_seq in Hj.
  unfold in_window_pd, in_window.
  assert (HNS : (0 < p * NS)%Z) by (unfold NS; lia).
  set (pn := (p * NS)%Z) in *. clearbody pn. rewrite Z.mul_1_l.
  destruct (Nat.leb_spec j i) as [L|L]; cbn [andb].
  - assert (getz ts j <= getz ts i)%Z by (apply increasing_le; [exact Hinc|exact L|lia]).
    destruct (Nat.eqb_spec j i) as [->|Hne]; cbn [orb].
    + symmetry. apply andb_true_iff. split; [apply Z.ltb_lt|apply Z.leb_le]; lia.
    + replace (getz ts j <=? getz ts i)%Z with true by (symmetry; apply Z.leb_le; assumption).
      rewrite andb_true_r.
      destruct (Z.ltb_spec 0 (getz ts j - getz ts i + pn)),
               (Z.ltb_spec (getz ts i - pn) (getz ts j)); try reflexivity; lia.
  - assert (getz ts i < getz ts j)%Z by (apply Hinc; lia).
    symmetry. apply andb_false_iff. right. apply Z.leb_gt. assumption.
Qed.

Lemma window_self p ts n i : (0 < p)%Z -> (i < n)%nat -> In i (window p ts n i).
Proof.
  intros Hp Hi. unfold window. apply filter_In. split; [apply in_seq; lia|].
  unfold in_window. assert (0 < p * NS)%Z by (unfold NS; lia).
  set (pn := (p * NS)%Z) in *. clearbody pn.
  apply andb_true_iff. split; [apply Z.ltb_lt|apply Z.leb_le]; lia.
Qed.

(* ---------------------------------------------------------------- observed values *)

Lemma present_all (w : list obs) : (forall o, In o w -> o <> None) -> existsb is_none w = false.
Proof.
  induction w as [|o w IH]; intros H; [reflexivity|]. simpl.
  destruct o as [v|]; simpl.
  - apply IH. intros o Ho. apply H. right. exact Ho.
  - exfalso. apply (H None); [left; reflexivity|reflexivity].
Qed.

Lemma present_in v (w : list obs) : In (Some v) w -> (1 <= length (present w))%nat.
Proof.
  induction w as [|o w IH]; intros H; [destruct H|].
  destruct H as [->|H]; simpl.
  - lia.
  - destruct o; simpl; [lia|apply IH; exact H].
Qed.

Lemma present_map (f : Q -> Q) (w : list obs) : present (map (option_map f) w) = map f (present w).
Proof.
  induction w as [|o w IH]; [reflexivity|]. destruct o; simpl; rewrite IH; reflexivity.
Qed.

(* ---------------------------------------------------------------- refinement *)

Definition atten_dom (ct : check_type) (test_period min_obs min_period : option Z)
    (xs : list obs) (ts : list Z) : Prop :=
  xs <> [] ->                                      (* the empty series is returned as is *)
  match period_of test_period with
  | None => True                                   (* whole-series mode: no condition *)
  | Some p =>
      (0 < p)%Z /\ length ts = length xs /\ increasing ts /\
      (exists m, min_periods min_obs min_period ts = Some m /\ (0 <= m)%Z)
  end.

(* atten_dom only states the validity of the parameters and of the time axis (positive period, increasing axis
   of the right length, admissible minimum): every placement of missing values is covered, for both check types.
   (Before the repair of F19 the range mode also needed "no missing value inside the window of a present point".) *)
Lemma atten_refines check st ft tp mo mp xs ts :
  (forall ct, parse_check_type check = Some ct -> atten_dom ct tp mo mp xs ts) ->
  atten_model check st ft tp mo mp xs ts = atten_spec check st ft tp mo mp xs ts.
Proof.
  unfold atten_model, atten_spec. intros Hdom.
  destruct (parse_check_type check) as [ct|]; [|reflexivity].
  specialize (Hdom ct eq_refl). unfold atten_dom in Hdom.
  destruct xs as [|x0 xs']; [reflexivity|].
  remember (x0 :: xs') as xs eqn:Exs.
  assert (Hne : xs <> []) by (subst; discriminate).
  assert (Hn0 : Nat.eqb (length xs) 0 = false) by (subst; reflexivity).
  rewrite Hn0. specialize (Hdom Hne). clear Exs.
  destruct (period_of tp) as [p|].
  - destruct Hdom as (Hp & Hlen & Hinc & (m & Hm & Hm0)).
    unfold minp_of. rewrite Hm. rewrite Hlen, Nat.eqb_refl. simpl negb.
    rewrite (increasing_mono_inc ts Hinc). simpl.
    replace (m <? 0)%Z with false by (symmetry; apply Z.ltb_ge; exact Hm0).
    rewrite atten_flags_tab. f_equal. apply tab_ext. intros i Hi.
    unfold atten_pt, atten_spread.
    rewrite (window_pd_window p ts (length xs) i Hinc Hp (eq_sym Hlen) Hi).
    destruct (getq xs i) as [x|] eqn:Ex; [|reflexivity].
    reflexivity.                   (* win_spread_pd is now win_spread *)
  - rewrite atten_flags_tab. reflexivity.
Qed.

Lemma atten_bad_check_type check st ft tp mo mp xs ts :
  parse_check_type check = None -> atten_model check st ft tp mo mp xs ts = Raises ValueError.
Proof. intros H. unfold atten_model. rewrite H. reflexivity. Qed.

Lemma parse_check_type_names :
  parse_check_type "std" = Some Std /\ parse_check_type "range" = Some Range.
Proof. split; reflexivity. Qed.

(* the witness of the former deviation F19 (rolling range, a missing value inside the window): the present
   point is now judged on the two observed values of its window (range 3: >= fail 1, < suspect 5) *)
Example atten_range_nan_ok :
  atten_model "range" 5 1 (Some 3%Z) None None [Some 0; None; Some 3] [0; 1000000000; 2000000000]%Z
    = Flags [FAIL; MISSING; SUSPECT] /\
  atten_spec "range" 5 1 (Some 3%Z) None None [Some 0; None; Some 3] [0; 1000000000; 2000000000]%Z
    = Flags [FAIL; MISSING; SUSPECT].
Proof. split; vm_compute; reflexivity. Qed.

(* ---------------------------------------------------------------- decision list *)

Definition belowP (ct : check_type) (thr s : Q) : Prop :=
  match ct with
  | Std => 0 < thr /\ s < thr * thr
  | Range => s < thr
  end.

Lemma below_iff ct thr s : below ct thr s = true <-> belowP ct thr s.
Proof.
  unfold below, belowP. destruct ct.
  - rewrite andb_true_iff, !Qltb_true. tauto.
  - apply Qltb_true.
Qed.

Lemma below_false_iff ct thr s : below ct thr s = false <-> ~ belowP ct thr s.
Proof.
  rewrite <- below_iff. destruct (below ct thr s); split; intros; congruence.
Qed.

(* the encoding of "standard deviation < thr": for ANY sd >= 0 with sd^2 = var *)
Lemma below_std_sound sd v thr :
  0 <= sd -> sd * sd == v -> (sd < thr <-> belowP Std thr v).
Proof.
  intros H0 Hv. unfold belowP. split.
  - intros H. split; [lra|]. rewrite <- Hv. nra.
  - intros [Ht H]. rewrite <- Hv in H.
    destruct (Qlt_le_dec sd thr) as [L|L]; [exact L|]. exfalso. nra.
Qed.

Lemma decide_att_fail ct st ft s : decide_att ct st ft s = FAIL <-> belowP ct ft s.
Proof.
  rewrite <- below_iff. unfold decide_att.
  destruct (below ct ft s); [tauto|]. destruct (below ct st s); split; congruence.
Qed.

Lemma decide_att_suspect ct st ft s :
  decide_att ct st ft s = SUSPECT <-> ~ belowP ct ft s /\ belowP ct st s.
Proof.
  rewrite <- below_false_iff, <- below_iff. unfold decide_att.
  destruct (below ct ft s); [split; [congruence|intros [? _]; congruence]|].
  destruct (below ct st s); split; try congruence; try tauto. intros [_ ?]; congruence.
Qed.

Lemma decide_att_good ct st ft s :
  decide_att ct st ft s = GOOD <-> ~ belowP ct ft s /\ ~ belowP ct st s.
Proof.
  rewrite <- !below_false_iff. unfold decide_att.
  destruct (below ct ft s); [split; [congruence|intros [? _]; congruence]|].
  destruct (below ct st s); split; try congruence; try tauto. intros [_ ?]; congruence.
Qed.

Lemma decide_att_evaluated ct st ft s : not_evaluated (decide_att ct st ft s) = false.
Proof. unfold decide_att. destruct (below ct ft s), (below ct st s); reflexivity. Qed.

Lemma decide_att_not_missing ct st ft s :
  decide_att ct st ft s <> MISSING /\ decide_att ct st ft s <> UNKNOWN.
Proof. unfold decide_att. destruct (below ct ft s), (below ct st s); split; discriminate. Qed.

Global Instance below_Proper ct thr : Proper (Qeq ==> eq) (below ct thr).
Proof. intros a b H. unfold below. destruct ct; rewrite H; reflexivity. Qed.

Global Instance decide_att_Proper ct st ft : Proper (Qeq ==> eq) (decide_att ct st ft).
Proof.
  intros a b H. unfold decide_att.
  rewrite (below_Proper ct ft a b H), (below_Proper ct st a b H). reflexivity.
Qed.

(* the per-point flag, clause by clause *)
Lemma atten_pt_missing_iff ct st ft period minp xs ts i :
  atten_pt ct st ft period minp xs ts i = MISSING <-> getq xs i = None.
Proof.
  unfold atten_pt, flag_of. destruct (getq xs i) as [x|]; [|tauto].
  split; [|discriminate]. destruct (atten_spread ct period minp xs ts i) as [s|]; [|discriminate].
  intros H. destruct (decide_att_not_missing ct st ft s) as [N _]. contradiction.
Qed.

Lemma atten_pt_unknown_iff ct st ft period minp xs ts i :
  atten_pt ct st ft period minp xs ts i = UNKNOWN <->
  getq xs i <> None /\ atten_spread ct period minp xs ts i = None.
Proof.
  unfold atten_pt, flag_of. destruct (getq xs i) as [x|].
  - destruct (atten_spread ct period minp xs ts i) as [s|].
    + split; [|intros [_ ?]; discriminate]. intros H.
      destruct (decide_att_not_missing ct st ft s) as [_ N]. contradiction.
    + split; [intros _; split; [discriminate|reflexivity]|reflexivity].
  - split; [discriminate|]. intros [N _]. congruence.
Qed.

Lemma atten_pt_fail_iff ct st ft period minp xs ts i :
  atten_pt ct st ft period minp xs ts i = FAIL <->
  getq xs i <> None /\ exists s, atten_spread ct period minp xs ts i = Some s /\ belowP ct ft s.
Proof.
  unfold atten_pt, flag_of. destruct (getq xs i) as [x|].
  - destruct (atten_spread ct period minp xs ts i) as [s|].
    + rewrite decide_att_fail. split.
      * intros H. split; [discriminate|]. exists s. auto.
      * intros [_ (s' & E & H)]. inversion E; subst. exact H.
    + split; [discriminate|]. intros [_ (s' & E & _)]. discriminate.
  - split; [discriminate|]. intros [N _]. congruence.
Qed.

Lemma atten_pt_suspect_iff ct st ft period minp xs ts i :
  atten_pt ct st ft period minp xs ts i = SUSPECT <->
  getq xs i <> None /\
  exists s, atten_spread ct period minp xs ts i = Some s /\ ~ belowP ct ft s /\ belowP ct st s.
Proof.
  unfold atten_pt, flag_of. destruct (getq xs i) as [x|].
  - destruct (atten_spread ct period minp xs ts i) as [s|].
    + rewrite decide_att_suspect. split.
      * intros H. split; [discriminate|]. exists s. auto.
      * intros [_ (s' & E & H)]. inversion E; subst. exact H.
    + split; [discriminate|]. intros [_ (s' & E & _)]. discriminate.
  - split; [discriminate|]. intros [N _]. congruence.
Qed.

Lemma atten_pt_good_iff ct st ft period minp xs ts i :
  atten_pt ct st ft period minp xs ts i = GOOD <->
  getq xs i <> None /\
  exists s, atten_spread ct period minp xs ts i = Some s /\ ~ belowP ct ft s /\ ~ belowP ct st s.
Proof.
  unfold atten_pt, flag_of. destruct (getq xs i) as [x|].
  - destruct (atten_spread ct period minp xs ts i) as [s|].
    + rewrite decide_att_good. split.
      * intros H. split; [discriminate|]. exists s. auto.
      * intros [_ (s' & E & H)]. inversion E; subst. exact H.
    + split; [discriminate|]. intros [_ (s' & E & _)]. discriminate.
  - split; [discriminate|]. intros [N _]. congruence.
Qed.

(* when the spread is undefined *)
Lemma win_spread_none_iff ct minp w :
  win_spread ct minp w = None <->
  (Z.of_nat (length (present w)) < minp)%Z \/
  (length (present w) < match ct with Std => 2 | Range => 1 end)%nat.
Proof.
  unfold win_spread.
  destruct (Z.ltb_spec (Z.of_nat (length (present w))) minp) as [L|L]; [tauto|].
  destruct ct.
  - destruct (Nat.ltb_spec (length (present w)) 2); split; try tauto; try discriminate.
    intros [?|?]; lia.
  - destruct (Nat.ltb_spec (length (present w)) 1); split; try tauto; try discriminate.
    intros [?|?]; lia.
Qed.

Lemma win_spread_some ct minp w :
  (minp <= Z.of_nat (length (present w)))%Z ->
  (match ct with Std => 2 | Range => 1 end <= length (present w))%nat ->
  win_spread ct minp w = Some (stat ct true (present w)).
Proof.
  intros H1 H2. unfold win_spread.
  destruct (Z.ltb_spec (Z.of_nat (length (present w))) minp) as [L|L]; [lia|].
  destruct ct.
  - destruct (Nat.ltb_spec (length (present w)) 2); [lia|reflexivity].
  - destruct (Nat.ltb_spec (length (present w)) 1); [lia|reflexivity].
Qed.

Lemma whole_spread_some ct xs :
  present xs <> [] -> whole_spread ct xs = Some (stat ct false (present xs)).
Proof.
  intros H. unfold whole_spread. destruct (present xs); [congruence|reflexivity].
Qed.

Lemma whole_spread_none ct xs : present xs = [] -> whole_spread ct xs = None.
Proof. intros H. unfold whole_spread. rewrite H. reflexivity. Qed.

(* which statistic: population variance / range of all observed values without test_period,
   sample variance / range of the observed values of the window with it *)
Lemma stat_cases l :
  stat Std false l = var_pop l /\ stat Std true l = var_samp l /\
  stat Range false l = qrange l /\ stat Range true l = qrange l.
Proof. repeat split; reflexivity. Qed.

(* membership in the window is membership of the time stamp in (t_i - P, t_i] *)
Lemma window_iff p ts n i j :
  In j (window p ts n i) <->
  (j < n)%nat /\ (getz ts i - p * NS < getz ts j)%Z /\ (getz ts j <= getz ts i)%Z.
Proof.
  unfold window. rewrite filter_In, in_seq. unfold in_window.
  rewrite andb_true_iff, Z.ltb_lt, Z.leb_le. lia.
Qed.

(* required number of observations *)
Lemma minp_of_min_obs m mp ts : minp_of (Some m) mp ts = m.
Proof. reflexivity. Qed.
Lemma minp_of_default ts : minp_of None None ts = 1%Z.
Proof. reflexivity. Qed.
Lemma minp_of_min_period mp ts :
  (2 <= length ts)%nat -> time_interval ts <> 0%Z ->
  minp_of None (Some mp) ts = Z.quot (mp * NS) (time_interval ts).
Proof.
  intros H1 H2. unfold minp_of, min_periods.
  destruct (Nat.leb_spec (length ts) 1); [lia|].
  destruct (Z.eqb_spec (time_interval ts) 0); [contradiction|reflexivity].
Qed.

(* ---------------------------------------------------------------- C02: missing values *)

Lemma atten_pt_missing ct st ft period minp xs ts i :
  getq xs i = None -> atten_pt ct st ft period minp xs ts i = MISSING.
Proof. apply atten_pt_missing_iff. Qed.

Lemma atten_pt_present ct st ft period minp xs ts i x :
  getq xs i = Some x -> atten_pt ct st ft period minp xs ts i <> MISSING.
Proof. intros H N. apply atten_pt_missing_iff in N. congruence. Qed.

(* ---------------------------------------------------------------- C16: monotone in the thresholds *)

Lemma belowP_mono ct t t' s : t <= t' -> belowP ct t s -> belowP ct t' s.
Proof.
  unfold belowP. destruct ct; intros H.
  - intros [H0 H1]. split; [lra|]. nra.
  - intros H1. lra.
Qed.

Lemma decide_att_mono ct st ft st' ft' s :
  st <= st' -> ft <= ft' -> (sev (decide_att ct st ft s) <= sev (decide_att ct st' ft' s))%nat.
Proof.
  intros Hs Hf. unfold decide_att.
  destruct (below ct ft s) eqn:F.
  - apply below_iff in F. apply (belowP_mono ct ft ft' s Hf) in F. apply below_iff in F.
    rewrite F. simpl. lia.
  - destruct (below ct st s) eqn:S.
    + apply below_iff in S. apply (belowP_mono ct st st' s Hs) in S. apply below_iff in S.
      rewrite S. destruct (below ct ft' s); simpl; lia.
    + destruct (below ct ft' s), (below ct st' s); simpl; lia.
Qed.

Lemma atten_pt_mono ct st ft st' ft' period minp xs ts i :
  st <= st' -> ft <= ft' ->
  (sev (atten_pt ct st ft period minp xs ts i) <= sev (atten_pt ct st' ft' period minp xs ts i))%nat /\
  not_evaluated (atten_pt ct st ft period minp xs ts i) =
  not_evaluated (atten_pt ct st' ft' period minp xs ts i).
Proof.
  intros Hs Hf. unfold atten_pt, flag_of.
  destruct (getq xs i); [|simpl; auto].
  destruct (atten_spread ct period minp xs ts i) as [s|]; [|simpl; auto].
  split; [apply decide_att_mono; assumption|]. rewrite !decide_att_evaluated. reflexivity.
Qed.

(* ---------------------------------------------------------------- statistics under shift / negation *)

Lemma qlen_cons x l : qlen (x :: l) == 1 + qlen l.
Proof.
  unfold qlen. simpl length. rewrite Nat2Z.inj_succ. unfold Z.succ.
  rewrite inject_Z_plus. simpl. ring.
Qed.

Lemma qlen_nonneg l : 0 <= qlen l.
Proof.
  unfold qlen. change 0 with (inject_Z 0). rewrite <- Zle_Qle. lia.
Qed.

Lemma qlen_pos l : l <> [] -> 0 < qlen l.
Proof.
  destruct l as [|x l]; [congruence|]. intros _. rewrite qlen_cons.
  pose proof (qlen_nonneg l). lra.
Qed.

Lemma qlen_map (f : Q -> Q) l : qlen (map f l) = qlen l.
Proof. unfold qlen. rewrite map_length. reflexivity. Qed.

Lemma qsum_shift c l : qsum (map (fun v => v + c) l) == qsum l + qlen l * c.
Proof.
  induction l as [|x l IH].
  - simpl. unfold qlen. simpl. ring.
  - simpl map. simpl qsum. rewrite IH, qlen_cons. ring.
Qed.

Lemma qsum_neg l : qsum (map Qopp l) == - qsum l.
Proof. induction l as [|x l IH]; simpl; [ring|rewrite IH; ring]. Qed.

Lemma qmean_shift c l : l <> [] -> qmean (map (fun v => v + c) l) == qmean l + c.
Proof.
  intros H. unfold qmean. rewrite qsum_shift, qlen_map.
  pose proof (qlen_pos l H). field. lra.
Qed.

Lemma qmean_neg l : qmean (map Qopp l) == - qmean l.
Proof. unfold qmean. rewrite qsum_neg, qlen_map. unfold Qdiv. ring. Qed.

Lemma devsq_shift c m m' l : m' == m + c -> devsq m' (map (fun v => v + c) l) == devsq m l.
Proof.
  intros H. induction l as [|x l IH]; [reflexivity|].
  simpl. rewrite IH.
  assert (E : (x + c - m') * (x + c - m') == (x - m) * (x - m)) by (rewrite H; ring).
  rewrite E. reflexivity.
Qed.

Lemma devsq_neg m m' l : m' == - m -> devsq m' (map Qopp l) == devsq m l.
Proof.
  intros H. induction l as [|x l IH]; [reflexivity|].
  simpl. rewrite IH.
  assert (E : (- x - m') * (- x - m') == (x - m) * (x - m)) by (rewrite H; ring).
  rewrite E. reflexivity.
Qed.

Lemma qmax_shift a b c : qmax (a + c) (b + c) == qmax a b + c.
Proof.
  destruct (qmax_case a b) as [[? ->]|[? ->]], (qmax_case (a + c) (b + c)) as [[? ->]|[? ->]]; lra.
Qed.
Lemma qmin_shift a b c : qmin (a + c) (b + c) == qmin a b + c.
Proof.
  destruct (qmin_case a b) as [[? ->]|[? ->]], (qmin_case (a + c) (b + c)) as [[? ->]|[? ->]]; lra.
Qed.
Lemma qmax_neg a b : qmax (- a) (- b) == - qmin a b.
Proof.
  destruct (qmin_case a b) as [[? ->]|[? ->]], (qmax_case (- a) (- b)) as [[? ->]|[? ->]]; lra.
Qed.
Lemma qmin_neg a b : qmin (- a) (- b) == - qmax a b.
Proof.
  destruct (qmax_case a b) as [[? ->]|[? ->]], (qmin_case (- a) (- b)) as [[? ->]|[? ->]]; lra.
Qed.

Lemma qmaxl_shift c l : l <> [] -> qmaxl (map (fun v => v + c) l) == qmaxl l + c.
Proof.
  induction l as [|x r IH]; [congruence|]. intros _.
  destruct r as [|y r']; [simpl; reflexivity|].
  change (qmax (x + c) (qmaxl (map (fun v => v + c) (y :: r'))) == qmax x (qmaxl (y :: r')) + c).
  rewrite IH by congruence. apply qmax_shift.
Qed.

Lemma qminl_shift c l : l <> [] -> qminl (map (fun v => v + c) l) == qminl l + c.
Proof.
  induction l as [|x r IH]; [congruence|]. intros _.
  destruct r as [|y r']; [simpl; reflexivity|].
  change (qmin (x + c) (qminl (map (fun v => v + c) (y :: r'))) == qmin x (qminl (y :: r')) + c).
  rewrite IH by congruence. apply qmin_shift.
Qed.

Lemma qmaxl_neg l : qmaxl (map Qopp l) == - qminl l.
Proof.
  induction l as [|x r IH]; [simpl; ring|].
  destruct r as [|y r']; [simpl; reflexivity|].
  change (qmax (- x) (qmaxl (map Qopp (y :: r'))) == - qmin x (qminl (y :: r'))).
  rewrite IH. apply qmax_neg.
Qed.

Lemma qminl_neg l : qminl (map Qopp l) == - qmaxl l.
Proof.
  induction l as [|x r IH]; [simpl; ring|].
  destruct r as [|y r']; [simpl; reflexivity|].
  change (qmin (- x) (qminl (map Qopp (y :: r'))) == - qmax x (qmaxl (y :: r'))).
  rewrite IH. apply qmin_neg.
Qed.

(* variance and range are unchanged by adding a constant to, or negating, every value *)
Lemma stat_shift ct b c l : stat ct b (map (fun v => v + c) l) == stat ct b l.
Proof.
  destruct l as [|x l]; [reflexivity|].
  assert (Hne : x :: l <> []) by congruence.
  set (L := x :: l) in *.
  assert (Hd : devsq (qmean (map (fun v => v + c) L)) (map (fun v => v + c) L) == devsq (qmean L) L)
    by (apply devsq_shift, qmean_shift; exact Hne).
  unfold stat. destruct ct.
  - destruct b; unfold var_samp, var_pop; rewrite Hd, qlen_map; reflexivity.
  - unfold qrange. rewrite qmaxl_shift, qminl_shift by exact Hne. ring.
Qed.

Lemma stat_neg ct b l : stat ct b (map Qopp l) == stat ct b l.
Proof.
  assert (Hd : devsq (qmean (map Qopp l)) (map Qopp l) == devsq (qmean l) l)
    by (apply devsq_neg, qmean_neg).
  unfold stat. destruct ct.
  - destruct b; unfold var_samp, var_pop; rewrite Hd, qlen_map; reflexivity.
  - unfold qrange. rewrite qmaxl_neg, qminl_neg. ring.
Qed.

(* ---------------------------------------------------------------- C17: value shift / negation *)

Definition oeq (a b : option Q) : Prop :=
  match a, b with
  | Some x, Some y => x == y
  | None, None => True
  | _, _ => False
  end.

Lemma flag_of_oeq ct st ft x x' s s' :
  is_none x = is_none x' -> oeq s s' -> flag_of ct st ft x s = flag_of ct st ft x' s'.
Proof.
  unfold flag_of. destruct x, x'; simpl; try discriminate; try reflexivity. intros _.
  destruct s as [v|], s' as [v'|]; simpl; try tauto. intros H. apply decide_att_Proper. exact H.
Qed.

Section ValueMap.
  Variable f : Q -> Q.
  Hypothesis f_stat : forall ct b l, stat ct b (map f l) == stat ct b l.

  Lemma win_spread_map ct minp w :
    oeq (win_spread ct minp (map (option_map f) w)) (win_spread ct minp w).
  Proof.
    unfold win_spread. rewrite present_map, map_length.
    destruct (Z.of_nat (length (present w)) <? minp)%Z; [exact I|].
    destruct ct.
    - destruct (length (present w) <? 2)%nat; [exact I|]. exact (f_stat Std true (present w)).
    - destruct (length (present w) <? 1)%nat; [exact I|]. exact (f_stat Range true (present w)).
  Qed.

  Lemma whole_spread_map ct xs :
    oeq (whole_spread ct (map (option_map f) xs)) (whole_spread ct xs).
  Proof.
    unfold whole_spread. rewrite present_map, map_length.
    destruct (Nat.eqb (length (present xs)) 0); [exact I|]. exact (f_stat ct false (present xs)).
  Qed.

  Lemma atten_pt_map ct st ft period minp xs ts i :
    atten_pt ct st ft period minp (map (option_map f) xs) ts i = atten_pt ct st ft period minp xs ts i.
  Proof.
    unfold atten_pt. unfold obs in *. apply flag_of_oeq.
    - rewrite getq_map. destruct (getq xs i); reflexivity.
    - unfold atten_spread. destruct period as [p|].
      + rewrite map_length.
        assert (E : map (getq (map (option_map f) xs)) (window p ts (length xs) i) =
                    map (option_map f) (map (getq xs) (window p ts (length xs) i))).
        { rewrite map_map. apply map_ext. intros j. apply getq_map. }
        rewrite E. apply win_spread_map.
      + apply whole_spread_map.
  Qed.
End ValueMap.

Lemma atten_pt_shift ct st ft period minp c xs ts i :
  atten_pt ct st ft period minp (map (option_map (fun v => v + c)) xs) ts i =
  atten_pt ct st ft period minp xs ts i.
Proof. apply atten_pt_map. intros. apply stat_shift. Qed.

Lemma atten_pt_neg ct st ft period minp xs ts i :
  atten_pt ct st ft period minp (map (option_map Qopp) xs) ts i =
  atten_pt ct st ft period minp xs ts i.
Proof. apply atten_pt_map. intros. apply stat_neg. Qed.

Lemma atten_spec_shift check st ft tp mo mp c xs ts :
  atten_spec check st ft tp mo mp (map (option_map (fun v => v + c)) xs) ts =
  atten_spec check st ft tp mo mp xs ts.
Proof.
  unfold atten_spec. destruct (parse_check_type check); [|reflexivity].
  rewrite map_length. f_equal. apply tab_ext. intros i _. apply atten_pt_shift.
Qed.

Lemma atten_spec_neg check st ft tp mo mp xs ts :
  atten_spec check st ft tp mo mp (map (option_map Qopp) xs) ts =
  atten_spec check st ft tp mo mp xs ts.
Proof.
  unfold atten_spec. destruct (parse_check_type check); [|reflexivity].
  rewrite map_length. f_equal. apply tab_ext. intros i _. apply atten_pt_neg.
Qed.

(* ---------------------------------------------------------------- C17: time shift *)

Lemma getz_map_add c ts i :
  (i < length ts)%nat -> getz (map (fun t => (t + c)%Z) ts) i = (getz ts i + c)%Z.
Proof.
  intros H. unfold getz.
  rewrite (nth_indep _ 0%Z (0 + c)%Z) by (rewrite map_length; exact H).
  apply (map_nth (fun t => (t + c)%Z)).
Qed.

Lemma diffs_shift c ts : diffs (map (fun t => (t + c)%Z) ts) = diffs ts.
Proof.
  unfold diffs. rewrite map_length. apply tab_ext. intros k Hk.
  rewrite !getz_map_add by lia. lia.
Qed.

Lemma min_periods_shift mo mp c ts :
  min_periods mo mp (map (fun t => (t + c)%Z) ts) = min_periods mo mp ts.
Proof.
  unfold min_periods, time_interval. rewrite diffs_shift, map_length. reflexivity.
Qed.

Lemma window_shift p c ts n i :
  (n <= length ts)%nat -> (i < length ts)%nat ->
  window p (map (fun t => (t + c)%Z) ts) n i = window p ts n i.
Proof.
  intros Hn Hi. unfold window. apply filter_ext_in. intros j Hj. apply in_seq in Hj.
  unfold in_window. rewrite !getz_map_add by lia.
  f_equal.
  - destruct (Z.ltb_spec (getz ts i + c - p * NS) (getz ts j + c)),
             (Z.ltb_spec (getz ts i - p * NS) (getz ts j)); try reflexivity; lia.
  - destruct (Z.leb_spec (getz ts j + c) (getz ts i + c)),
             (Z.leb_spec (getz ts j) (getz ts i)); try reflexivity; lia.
Qed.

Lemma atten_pt_time_shift ct st ft period minp c xs ts i :
  (length xs <= length ts)%nat -> (i < length ts)%nat ->
  atten_pt ct st ft period minp xs (map (fun t => (t + c)%Z) ts) i =
  atten_pt ct st ft period minp xs ts i.
Proof.
  intros Hn Hi. unfold atten_pt, atten_spread. destruct period as [p|]; [|reflexivity].
  rewrite window_shift by assumption. reflexivity.
Qed.

Lemma atten_spec_time_shift check st ft tp mo mp c xs ts :
  (length xs <= length ts)%nat ->
  atten_spec check st ft tp mo mp xs (map (fun t => (t + c)%Z) ts) =
  atten_spec check st ft tp mo mp xs ts.
Proof.
  intros Hn. unfold atten_spec. destruct (parse_check_type check); [|reflexivity].
  unfold minp_of. rewrite min_periods_shift. f_equal. apply tab_ext. intros i Hi.
  apply atten_pt_time_shift; lia.
Qed.

Lemma increasing_shift c ts : increasing ts -> increasing (map (fun t => (t + c)%Z) ts).
Proof.
  intros H i j Hij Hj. rewrite map_length in Hj. rewrite !getz_map_add by lia.
  specialize (H i j Hij Hj). lia.
Qed.

(* ---------------------------------------------------------------- C17: locality (rolling mode) *)

(* the flag of point i is a function of the values inside its window (and of the axis) *)
Lemma atten_pt_window_ext ct st ft p minp xs ys ts i :
  length xs = length ys ->
  getq xs i = getq ys i ->
  (forall j, In j (window p ts (length xs) i) -> getq xs j = getq ys j) ->
  atten_pt ct st ft (Some p) minp xs ts i = atten_pt ct st ft (Some p) minp ys ts i.
Proof.
  intros Hl Hi Hw. unfold atten_pt, atten_spread. rewrite <- Hl, Hi.
  rewrite (map_ext_in _ _ _ Hw). reflexivity.
Qed.

(* changing x_k only affects the positions whose trailing window (t_i - P, t_i] contains t_k *)
Lemma atten_pt_local ct st ft p minp xs ys ts k i :
  length xs = length ys ->
  (forall j, j <> k -> getq xs j = getq ys j) ->
  i <> k -> in_window p ts i k = false ->
  atten_pt ct st ft (Some p) minp xs ts i = atten_pt ct st ft (Some p) minp ys ts i.
Proof.
  intros Hl Hag Hik Hout. apply atten_pt_window_ext; [exact Hl|apply Hag; exact Hik|].
  intros j Hj. apply Hag. intros ->. unfold window in Hj. apply filter_In in Hj.
  destruct Hj as [_ Hj]. congruence.
Qed.

(* in particular: a later point never influences an earlier one, nor does a point at least
   test_period older *)
Lemma atten_pt_local_time ct st ft p minp xs ys ts k i :
  length xs = length ys ->
  (forall j, j <> k -> getq xs j = getq ys j) ->
  i <> k -> (getz ts i < getz ts k \/ getz ts k <= getz ts i - p * NS)%Z ->
  atten_pt ct st ft (Some p) minp xs ts i = atten_pt ct st ft (Some p) minp ys ts i.
Proof.
  intros Hl Hag Hik Ht. apply (atten_pt_local ct st ft p minp xs ys ts k i Hl Hag Hik).
  unfold in_window. apply andb_false_iff.
  destruct Ht as [Ht|Ht]; [right; apply Z.leb_gt|left; apply Z.ltb_ge]; lia.
Qed.

(* whole-series mode is the opposite extreme: every observed value enters every flag, but only
   through the multiset statistics; a missing value contributes nothing *)
Lemma atten_pt_whole_same ct st ft minp xs ts i j x y :
  getq xs i = Some x -> getq xs j = Some y ->
  atten_pt ct st ft None minp xs ts i = atten_pt ct st ft None minp xs ts j.
Proof. intros Hi Hj. unfold atten_pt, atten_spread. rewrite Hi, Hj. reflexivity. Qed.

(* ---------------------------------------------------------------- the model, pointwise, without domain *)

(* whenever the model returns flags they are computed point by point by flag_of from the point's own
   value and some spread: the missing-value clauses hold for the code model on every input *)
Lemma atten_model_pointwise check st ft tp mo mp xs ts l :
  atten_model check st ft tp mo mp xs ts = Flags l ->
  exists ct (s : nat -> option Q),
    parse_check_type check = Some ct /\
    l = tab (length xs) (fun i => flag_of ct st ft (getq xs i) (s i)).
Proof.
  unfold atten_model. destruct (parse_check_type check) as [ct|]; [|discriminate].
  destruct (Nat.eqb_spec (length xs) 0) as [E0|_].
  { intros H. inversion H. exists ct, (fun _ => None). rewrite E0. split; reflexivity. }
  destruct (period_of tp) as [p|].
  - destruct (min_periods mo mp ts) as [m|]; [|discriminate].
    destruct (negb (Nat.eqb (length ts) (length xs))); [discriminate|].
    destruct (negb (mono_inc ts || mono_dec ts)); [discriminate|].
    destruct (m <? 0)%Z; [discriminate|].
    rewrite atten_flags_tab. intros H. inversion H. eexists ct, _. split; reflexivity.
  - rewrite atten_flags_tab. intros H. inversion H. eexists ct, _. split; reflexivity.
Qed.

Lemma flag_of_missing_iff ct st ft x s : flag_of ct st ft x s = MISSING <-> x = None.
Proof.
  unfold flag_of. destruct x as [v|]; [|tauto]. split; [|discriminate].
  destruct s as [w|]; [|discriminate]. intros H.
  destruct (decide_att_not_missing ct st ft w) as [N _]. contradiction.
Qed.

Lemma atten_model_missing check st ft tp mo mp xs ts l i :
  atten_model check st ft tp mo mp xs ts = Flags l -> (i < length xs)%nat ->
  (nth i l GOOD = MISSING <-> getq xs i = None).
Proof.
  intros H Hi. apply atten_model_pointwise in H. destruct H as (ct & s & _ & ->).
  rewrite nth_tab by exact Hi. apply flag_of_missing_iff.
Qed.

Lemma atten_model_length check st ft tp mo mp xs ts l :
  atten_model check st ft tp mo mp xs ts = Flags l -> length l = length xs.
Proof.
  intros H. apply atten_model_pointwise in H. destruct H as (ct & s & _ & ->). apply tab_length.
Qed.

(* ---------------------------------------------------------------- flat windows *)

Lemma qsum_const c l : (forall x, In x l -> x == c) -> qsum l == qlen l * c.
Proof.
  induction l as [|x l IH]; intros H.
  - simpl. unfold qlen. simpl. ring.
  - simpl qsum. rewrite qlen_cons, IH by (intros y Hy; apply H; right; exact Hy).
    rewrite (H x) by (left; reflexivity). ring.
Qed.

Lemma devsq_const c m l : m == c -> (forall x, In x l -> x == c) -> devsq m l == 0.
Proof.
  intros Hm. induction l as [|x l IH]; intros H; [reflexivity|].
  simpl. rewrite IH by (intros y Hy; apply H; right; exact Hy).
  assert (E : (x - m) * (x - m) == 0) by (rewrite (H x) by (left; reflexivity); rewrite Hm; ring).
  rewrite E. ring.
Qed.

Lemma qmaxl_const c l : l <> [] -> (forall x, In x l -> x == c) -> qmaxl l == c.
Proof.
  induction l as [|x r IH]; [congruence|]. intros _ H.
  destruct r as [|y r']; [simpl; apply H; left; reflexivity|].
  change (qmax x (qmaxl (y :: r')) == c).
  rewrite IH by (try congruence; intros z Hz; apply H; right; exact Hz).
  rewrite (H x) by (left; reflexivity).
  destruct (qmax_case c c) as [[? ->]|[? ->]]; reflexivity.
Qed.

Lemma qminl_const c l : l <> [] -> (forall x, In x l -> x == c) -> qminl l == c.
Proof.
  induction l as [|x r IH]; [congruence|]. intros _ H.
  destruct r as [|y r']; [simpl; apply H; left; reflexivity|].
  change (qmin x (qminl (y :: r')) == c).
  rewrite IH by (try congruence; intros z Hz; apply H; right; exact Hz).
  rewrite (H x) by (left; reflexivity).
  destruct (qmin_case c c) as [[? ->]|[? ->]]; reflexivity.
Qed.

(* a flat line has spread exactly 0, whichever statistic *)
Lemma stat_const ct b c l : (forall x, In x l -> x == c) -> stat ct b l == 0.
Proof.
  intros H. destruct l as [|x0 l0]; [destruct ct, b; reflexivity|].
  set (l := x0 :: l0) in *. assert (Hne : l <> []) by (unfold l; congruence).
  assert (Hm : qmean l == c).
  { unfold qmean. rewrite qsum_const by exact H. pose proof (qlen_pos l Hne). field. lra. }
  unfold stat. destruct ct.
  - destruct b; unfold var_samp, var_pop; rewrite (devsq_const c) by assumption; unfold Qdiv; ring.
  - unfold qrange. rewrite (qmaxl_const c), (qminl_const c) by assumption. ring.
Qed.

Lemma belowP_zero ct thr : belowP ct thr 0 <-> 0 < thr.
Proof.
  unfold belowP. destruct ct; [|tauto]. split; [tauto|]. intros H. split; [exact H|nra].
Qed.

(* ... and is flagged FAIL exactly when the fail threshold is positive, else SUSPECT exactly when
   the suspect threshold is positive, else GOOD *)
Lemma decide_att_flat ct st ft s :
  s == 0 ->
  decide_att ct st ft s = if Qltb 0 ft then FAIL else if Qltb 0 st then SUSPECT else GOOD.
Proof.
  intros H. rewrite (decide_att_Proper ct st ft s 0 H). unfold decide_att.
  assert (E : forall thr, below ct thr 0 = Qltb 0 thr).
  { intros thr. destruct (Qltb_spec 0 thr) as [L|L].
    - apply below_iff, belowP_zero. exact L.
    - apply below_false_iff. rewrite belowP_zero. exact L. }
  rewrite !E. reflexivity.
Qed.

(* ---------------------------------------------------------------- instances of the refinement *)

(* no test_period (None or 0): no hypothesis at all *)
Lemma atten_refines_whole check st ft tp mo mp xs ts :
  period_of tp = None ->
  atten_model check st ft tp mo mp xs ts = atten_spec check st ft tp mo mp xs ts.
Proof.
  intros Hp. apply atten_refines. intros ct _. unfold atten_dom. rewrite Hp. intros _. exact I.
Qed.

(* the empty series: no hypothesis at all (not even on the parameters) *)
Lemma atten_refines_empty check st ft tp mo mp ts :
  atten_model check st ft tp mo mp [] ts = atten_spec check st ft tp mo mp [] ts.
Proof. apply atten_refines. intros ct _ H. congruence. Qed.

Lemma atten_model_empty check st ft tp mo mp ts ct :
  parse_check_type check = Some ct -> atten_model check st ft tp mo mp [] ts = Flags [].
Proof. intros H. unfold atten_model. rewrite H. reflexivity. Qed.

(* rolling mode, either check type: increasing axis, positive period, admissible min_periods; any
   placement of missing values *)
Lemma atten_refines_rolling check ct st ft p mo mp xs ts m :
  parse_check_type check = Some ct ->
  (0 < p)%Z -> length ts = length xs -> increasing ts ->
  min_periods mo mp ts = Some m -> (0 <= m)%Z ->
  atten_model check st ft (Some p) mo mp xs ts = atten_spec check st ft (Some p) mo mp xs ts.
Proof.
  intros Hc Hp Hl Hi Hm Hm0. apply atten_refines. intros ct' _.
  unfold atten_dom, period_of. intros _. destruct (Z.eqb_spec p 0) as [->|_]; [lia|].
  repeat split; try assumption. exists m. split; assumption.
Qed.
