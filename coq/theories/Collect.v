(* Collect.v — model and specification of results.collect_results (list and dict forms).

   A run yields a sequence of ContextResults; each carries the stream id, the CallResults
   (package, test, flag array for the subset rows), the boolean subset mask over ALL input rows and
   the subset's data / time / depth / lat / lon arrays (an empty array when the stream has no such
   axis).  collect_results_list keeps, per key stream:package.test, an accumulator of masked
   entries and scatters each context's flags through its mask; the data/axis arrays are stored under
   the key of the LAST CallResult of each ContextResult (replaced wholesale when the mask covers
   every row).  collect_results_dict does the same for flags with UNKNOWN-filled accumulators. *)
From IoosQc Require Import Base.
From Coq Require Import String.
Local Notation length := List.length.

Definition key := (string * string * string)%type.   (* stream id, package, test *)

Definition key_eqb (a b : key) : bool :=
  let '(a1, a2, a3) := a in let '(b1, b2, b3) := b in
  (String.eqb a1 b1 && String.eqb a2 b2 && String.eqb a3 b3)%bool.

Record callres := { c_pkg : string; c_test : string; c_flags : list flag }.

Record ctxres := {
  r_stream : string;
  r_calls : list callres;
  r_mask : list bool;                 (* subset_indexes, one entry per input row *)
  r_pay : list (list obs)             (* data, tinp, zinp, lat, lon of the subset (or empty) *)
}.

(* ---------------------------------------------------------------- boolean-mask scatter *)

Definition count_true (m : list bool) : nat := length (filter (fun b => b) m).
(* number of selected rows strictly before row i *)
Definition rank (m : list bool) (i : nat) : nat := count_true (firstn i m).

(* numpy: a[mask] = vals needs len(vals) = mask.sum(), or a single value that is broadcast *)
Definition scatter_ok {A} (m : list bool) (vals : list A) : bool :=
  (Nat.eqb (length vals) (count_true m) || Nat.eqb (length vals) 1)%bool.

Definition scatter {A} (m : list bool) (vals : list A) (acc : list (option A)) : list (option A) :=
  tab (length acc) (fun i =>
    if nth i m false
    then (if Nat.eqb (length vals) (count_true m) then nth_error vals (rank m i) else hd_error vals)
    else nth i acc None).

(* ---------------------------------------------------------------- association lists *)

Section Assoc.
  Context {V : Type}.
  Fixpoint find (k : key) (st : list (key * V)) : option V :=
    match st with
    | [] => None
    | (k', v) :: r => if key_eqb k' k then Some v else find k r
    end.
  Fixpoint upd (k : key) (v : V) (st : list (key * V)) : list (key * V) :=
    match st with
    | [] => [(k, v)]
    | (k', v') :: r => if key_eqb k' k then (k', v) :: r else (k', v') :: upd k v r
    end.
End Assoc.

(* ---------------------------------------------------------------- flags, list and dict form *)

(* one "write": key, mask, flags — the flattened sequence of (context, call) pairs *)
Definition write := (key * list bool * list flag)%type.

Definition writes_of (rs : list ctxres) : list write :=
  flat_map (fun r => map (fun c => ((r_stream r, c_pkg c, c_test c), r_mask r, c_flags c)) (r_calls r)) rs.

(* accumulators: `fill` = None (masked_all, list form) or Some UNKNOWN (dict form) *)
Definition flags_step (fill : option flag) (st : option (list (key * list (option flag)))) (w : write)
  : option (list (key * list (option flag))) :=
  match st with
  | None => None
  | Some s =>
      let '(k, m, fl) := w in
      let acc := match find k s with Some a => a | None => tab (length m) (fun _ => fill) end in
      if scatter_ok m fl then Some (upd k (scatter m fl acc) s) else None
  end.

Definition collect_flags (fill : option flag) (rs : list ctxres) : option (list (key * list (option flag))) :=
  fold_left (flags_step fill) (writes_of rs) (Some []).

(* ---------------------------------------------------------------- payload (list form only) *)

Definition last_key (r : ctxres) : option key :=
  match rev (r_calls r) with
  | [] => None
  | c :: _ => Some (r_stream r, c_pkg c, c_test c)
  end.

Definition all_true (m : list bool) : bool := forallb (fun b => b) m.

(* one array of the payload: data (unguarded) or an axis (guarded: `if r.tinp.size:` — an axis the
   stream does not have arrives as an empty array and is skipped).  numpy: the boolean index must be
   as long as the accumulator (IndexError otherwise: it may have been replaced by an empty array) and
   the values must fit (ValueError otherwise). *)
Definition is_nil {A} (l : list A) : bool := match l with [] => true | _ => false end.

Definition place (guarded : bool) (m : list bool) (vals : list obs) (old : list (option obs))
  : option (list (option obs)) :=
  if (guarded && is_nil vals)%bool then Some old
  else if (scatter_ok m vals && Nat.eqb (length old) (length m))%bool then Some (scatter m vals old)
  else None.

Fixpoint place_all (guarded : bool) (m : list bool) (pay : list (list obs)) (old : list (list (option obs)))
  : option (list (list (option obs))) :=
  match pay, old with
  | v :: pay', o :: old' =>
      match place guarded m v o, place_all true m pay' old' with
      | Some x, Some r => Some (x :: r)
      | _, _ => None
      end
  | [], [] => Some []
  | _, _ => None
  end.

Definition pay_step (st : option (list (key * list (list (option obs))))) (r : ctxres)
  : option (list (key * list (list (option obs)))) :=
  match st with
  | None => None
  | Some s =>
      match last_key r with
      | None => Some s
      | Some k =>
          if all_true (r_mask r)
          then Some (upd k (map (map Some) (r_pay r)) s)         (* arrays replaced wholesale *)
          else
            let n := length (r_mask r) in
            let old := match find k s with Some a => a | None => map (fun _ => tab n (fun _ => None)) (r_pay r) end in
            match place_all false (r_mask r) (r_pay r) old with   (* data first, then the four axes *)
            | Some a => Some (upd k a s)
            | None => None
            end
      end
  end.

(* the payload accumulators of a key are created (masked) when the key is first seen, by any
   context; the model below re-creates them lazily, which is unobservable *)
Definition collect_pay (rs : list ctxres) : option (list (key * list (list (option obs)))) :=
  fold_left pay_step rs (Some []).

Inductive collected :=
  | CList (fl : list (key * list (option flag))) (pay : list (key * list (list (option obs))))
  | CRaises (e : exn).

Definition collect_list_model (rs : list ctxres) : collected :=
  match collect_flags None rs, collect_pay rs with
  | Some f, Some p => CList f p
  | _, _ => CRaises ValueError
  end.

Definition collect_dict_model (rs : list ctxres) : collected :=
  match collect_flags (Some UNKNOWN) rs with
  | Some f => CList f []
  | None => CRaises ValueError
  end.

(* ---------------------------------------------------------------- specification *)

(* flag of row i under key k: the last write with that key whose mask covers row i *)
Definition flag_spec (fill : option flag) (ws : list write) (k : key) (i : nat) : option flag :=
  fold_left (fun acc (w : write) =>
               let '(k', m, fl) := w in
               if (key_eqb k' k && nth i m false)%bool
               then (if Nat.eqb (length fl) (count_true m) then nth_error fl (rank m i) else hd_error fl)
               else acc)
            ws fill.

(* keys in first-seen order *)
Fixpoint first_seen (ks : list key) (seen : list key) : list key :=
  match ks with
  | [] => []
  | k :: r => if existsb (key_eqb k) seen then first_seen r seen else k :: first_seen r (k :: seen)
  end.

Definition write_key (w : write) : key := fst (fst w).
Definition write_mask (w : write) : list bool := snd (fst w).
Definition write_flags (w : write) : list flag := snd w.

(* well-formed run over n input rows: every mask has n entries, every call produced one flag per
   selected row *)
Definition wf_write (n : nat) (w : write) : Prop :=
  length (write_mask w) = n /\ length (write_flags w) = count_true (write_mask w).

(* ---------------------------------------------------------------- decidable equality of results
   (used only by the correspondence files) *)

Definition oflag_eqb (a b : option flag) : bool :=
  match a, b with Some x, Some y => flag_eqb x y | None, None => true | _, _ => false end.

Definition oobs_eqb (a b : option obs) : bool :=
  match a, b with
  | None, None => true
  | Some None, Some None => true
  | Some (Some x), Some (Some y) => Qeq_bool x y
  | _, _ => false
  end.

Fixpoint list_eqb {A} (e : A -> A -> bool) (a b : list A) : bool :=
  match a, b with
  | [], [] => true
  | x :: a', y :: b' => (e x y && list_eqb e a' b')%bool
  | _, _ => false
  end.

Definition flags_assoc_eqb (a b : list (key * list (option flag))) : bool :=
  list_eqb (fun x y => (key_eqb (fst x) (fst y) && list_eqb oflag_eqb (snd x) (snd y))%bool) a b.

(* payload of every key of the flags list, all-masked when the key never received any *)
Definition norm_pay (npay : nat) (f : list (key * list (option flag)))
                    (p : list (key * list (list (option obs)))) : list (key * list (list (option obs))) :=
  map (fun ka => (fst ka,
                  match find (fst ka) p with
                  | Some x => x
                  | None => tab npay (fun _ => tab (length (snd ka)) (fun _ => None))
                  end)) f.

Definition pay_assoc_eqb (a b : list (key * list (list (option obs)))) : bool :=
  list_eqb (fun x y => (key_eqb (fst x) (fst y) && list_eqb (list_eqb oobs_eqb) (snd x) (snd y))%bool) a b.

(* order-insensitive comparison (dict form: nested dictionaries have no global key order) *)
Definition flags_assoc_eqb_unordered (a b : list (key * list (option flag))) : bool :=
  (Nat.eqb (length a) (length b) &&
   forallb (fun y => match find (fst y) a with
                     | Some arr => list_eqb oflag_eqb arr (snd y)
                     | None => false end) b)%bool.

Definition collected_eqb_unordered (got want : collected) : bool :=
  match got, want with
  | CList f _, CList f' _ => flags_assoc_eqb_unordered f f'
  | CRaises _, CRaises _ => true
  | _, _ => false
  end.

Definition collected_eqb (npay : nat) (got want : collected) : bool :=
  match got, want with
  | CList f p, CList f' p' =>
      (flags_assoc_eqb f f' && pay_assoc_eqb (norm_pay npay f p) (norm_pay npay f' p'))%bool
  | CRaises _, CRaises _ => true
  | _, _ => false
  end.

(* the property as a function (flags only), used by the correspondence as the specification side *)
Definition collect_spec (fill : option flag) (n : nat) (rs : list ctxres) : collected :=
  let ws := writes_of rs in
  CList (map (fun k => (k, tab n (flag_spec fill ws k))) (first_seen (map write_key ws) [])) [].

Definition collected_flags_eqb (ordered : bool) (got want : collected) : bool :=
  match got, want with
  | CList f _, CList f' _ => if ordered then flags_assoc_eqb f f' else flags_assoc_eqb_unordered f f'
  | CRaises _, CRaises _ => true
  | _, _ => false
  end.
