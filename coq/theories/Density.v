(* Density.v — models and pointwise specifications of
     qartod.density_inversion_test   (qartod.py)
     argo.pressure_increasing_test   (argo.py)
   The models follow the source step by step (same arrays, same overwrites in the same order). *)
From IoosQc Require Import Base.

(* ------------------------------------------------------------------ density inversion *)

(* np.diff on a masked array: one entry per adjacent pair, masked where an operand is *)
Definition odiff (xs : list obs) : list obs :=
  tab (length xs - 1) (fun i => olift2 Qminus (getq xs (i + 1)) (getq xs i)).

(* delta = np.sign(np.diff(zinp)) * np.diff(inp) *)
Definition density_delta (rho z : list obs) : list obs :=
  let dz := odiff z in
  let dr := odiff rho in
  tab (length rho - 1) (fun i => olift2 Qmult (option_map qsign (getq dz i)) (getq dr i)).

(* delta < threshold: False where delta is masked, no test when the threshold is None *)
Definition below_thr (thr : option Q) (d : obs) : bool :=
  match thr, d with Some t, Some v => Qltb v t | _, _ => false end.

(* inp.mask | zinp.mask *)
Definition rec_missing (rho z : list obs) (i : nat) : bool := missing_at rho i || missing_at z i.

Definition density_model (st ft : option Q) (rho z : list obs) : outcome :=
  let n := length rho in
  if negb (Nat.eqb n (length z)) then Raises ValueError else      (* inp.shape != zinp.shape *)
  if Nat.eqb n 0 then Flags [] else                               (* np.ma.masked_array([]) *)
  if Nat.ltb n 2 then Flags (set_at 0 UNKNOWN (all_flags n GOOD)) else
  let delta := density_delta rho z in
  let f0 := all_flags n GOOD in
  (* flag_arr[:-1][is_suspect] = SUSPECT ; flag_arr[1:][is_suspect] = SUSPECT
     (delta has n-1 entries: reading it at n-1 gives "no entry") *)
  let f1 := set_where (tab n (fun i => below_thr st (getq delta i))) SUSPECT f0 in
  let f2 := set_where (tab n (fun i => negb (Nat.eqb i 0) && below_thr st (getq delta (i - 1)))) SUSPECT f1 in
  let f3 := set_where (tab n (fun i => below_thr ft (getq delta i))) FAIL f2 in
  let f4 := set_where (tab n (fun i => negb (Nat.eqb i 0) && below_thr ft (getq delta (i - 1)))) FAIL f3 in
  (* flag_arr[is_missing] = MISSING ; flag_arr[1:][is_missing[:-1]] = MISSING *)
  let f5 := set_where (tab n (rec_missing rho z)) MISSING f4 in
  Flags (set_where (tab n (fun i => negb (Nat.eqb i 0) && rec_missing rho z (i - 1))) MISSING f5).

(* ---- the property, per point *)

(* density change of the pair (j, j+1) in the direction of increasing depth; zero at constant
   depth; undefined when one of the four numbers is missing (or j+1 is beyond the profile) *)
Definition pair_delta (rho z : list obs) (j : nat) : obs :=
  olift2 Qmult (option_map qsign (olift2 Qminus (getq z (j + 1)) (getq z j)))
               (olift2 Qminus (getq rho (j + 1)) (getq rho j)).

Definition dens_decide (st ft : option Q) (d : Q) : flag :=
  if match ft with Some t => Qltb d t | None => false end then FAIL
  else if match st with Some t => Qltb d t | None => false end then SUSPECT
  else GOOD.

(* verdict on a pair; a pair that cannot be evaluated accuses nobody *)
Definition pair_flag (st ft : option Q) (rho z : list obs) (j : nat) : flag :=
  match pair_delta rho z j with Some d => dens_decide st ft d | None => GOOD end.

(* the worse of two pair verdicts (each GOOD, SUSPECT or FAIL) *)
Definition worse (a b : flag) : flag :=
  match a, b with
  | FAIL, _ | _, FAIL => FAIL
  | SUSPECT, _ | _, SUSPECT => SUSPECT
  | _, _ => GOOD
  end.

Definition density_pt (st ft : option Q) (rho z : list obs) (i : nat) : flag :=
  if Nat.eqb (length rho) 1 then UNKNOWN
  else if rec_missing rho z i || (negb (Nat.eqb i 0) && rec_missing rho z (i - 1)) then MISSING
  else worse (if Nat.eqb i 0 then GOOD else pair_flag st ft rho z (i - 1)) (pair_flag st ft rho z i).

Definition density_spec (st ft : option Q) (rho z : list obs) : outcome :=
  if negb (Nat.eqb (length rho) (length z)) then Raises ValueError
  else Flags (tab (length rho) (density_pt st ft rho z)).

(* ------------------------------------------------------------------ pressure increasing *)

(* plain numpy: a NaN operand makes the difference NaN; a NaN anywhere makes the sum NaN *)
Fixpoint osum (l : list obs) : obs :=
  match l with
  | [] => Some 0
  | x :: r => olift2 Qplus x (osum r)
  end.

(* np.mean: NaN (None) for an empty array *)
Definition omean (l : list obs) : obs :=
  match l with
  | [] => None
  | _ => option_map (fun s => s / inject_Z (Z.of_nat (length l))) (osum l)
  end.

Definition pressure_model (ps : list obs) : outcome :=
  let n := length ps in
  let delta := odiff ps in                                       (* np.diff(inp) *)
  let f0 := all_flags n GOOD in
  let sign := option_map qsign (omean delta) in                  (* np.sign(np.mean(delta)) *)
  let delta' := match sign with                                  (* if sign < 0 (False for NaN) *)
                | Some s => if Qltb s 0 then map (option_map (Qmult s)) delta else delta
                | None => delta
                end in
  (* flags[np.where(delta <= 0)[0] + 1] = SUSPECT ; NaN <= 0 is False *)
  Flags (set_where (tab n (fun i => negb (Nat.eqb i 0) && otest (fun d => Qleb d 0) (getq delta' (i - 1))))
                   SUSPECT f0).

(* ---- the property, per point: overall direction = sign of the mean step = sign (last - first) *)
Definition net_dir (ps : list obs) : obs :=
  option_map qsign (olift2 Qminus (getq ps (length ps - 1)) (getq ps 0)).

Definition pressure_pt (ps : list obs) (i : nat) : flag :=
  if Nat.eqb i 0 then GOOD
  else match net_dir ps, getq ps (i - 1), getq ps i with
       | Some s, Some a, Some b => if Qltb 0 (s * (b - a)) then GOOD else SUSPECT
       | _, _, _ => GOOD
       end.

Definition pressure_spec (ps : list obs) : outcome := Flags (tab (length ps) (pressure_pt ps)).

(* what the code does on every input, NaN included (proved in DensityProofs.pressure_model_char):
   the profile counts as descending only if every value is present and last < first; then a point is
   SUSPECT iff it is not below_thr its predecessor; otherwise (ascending, zero net change, or any NaN
   in a profile of two or more points) a point is SUSPECT iff both it and its predecessor are present
   and it is not above its predecessor. NaN points themselves are GOOD. *)
Definition descending (ps : list obs) : bool :=
  forallb is_some ps && otest (fun d => Qltb d 0) (olift2 Qminus (getq ps (length ps - 1)) (getq ps 0)).

Definition pressure_code_pt (ps : list obs) (i : nat) : flag :=
  if Nat.eqb i 0 then GOOD
  else match getq ps (i - 1), getq ps i with
       | Some a, Some b =>
           if descending ps then (if Qltb b a then GOOD else SUSPECT)
           else (if Qltb a b then GOOD else SUSPECT)
       | _, _ => GOOD
       end.

(* ------------------------------------------------------------------ threshold order for C16 *)

(* density thresholds: a larger threshold is stricter, None = absent (loosest).
   thr_ge a b: a is at least as strict as b *)
Definition thr_ge (a b : option Q) : Prop :=
  match a, b with
  | Some x, Some y => y <= x
  | _, None => True
  | None, Some _ => False
  end.
