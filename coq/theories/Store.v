(* Store.v — models of utils.cf_safe_name, stores.column_from_collected_result and
   PandasStore.save / PandasStore.compute_aggregate (stores.py), operating on the list of
   CollectedResult objects the store holds (results.py).  Definitions only.

   Strings are lists of Unicode code points (`name := list N`), so that stream ids with
   characters outside ASCII can be written.  The two character classes of cf_safe_name are
   parsed from the regex literals the translator re-reads from /repo
   (Generated.cf_regex_literals), so an edit of a literal changes the model.

   A data frame is the ordered list of its columns; a column has a name, a kind (where it came
   from: not observable in pandas, used by the theorems) and its values.  `df[name] = values`
   is `add_col` (pandas: the first non-empty column fixes the number of rows, a later column of
   another length raises ValueError), `name in df` is `has_col`.

   Modelled, not verified: the regex engine (a class matches one code point; `re.match` looks
   at the first character, `re.sub` at every character), pandas' DataFrame assembly (column
   order = insertion order, masked entries become NaN/NaT, length check), function objects
   compared by identity (fn_id).  results.collect_results (called by PandasStore.__init__) is
   not modelled: the model starts from the CollectedResult list the store holds. *)
From IoosQc Require Import Base Generated Compare.
From Coq Require Import String Ascii NArith.
Local Notation length := List.length.
Local Open Scope bool_scope.
Local Open Scope list_scope.   (* Generated opens string_scope: keep ++ on lists *)

(* ---------------------------------------------------------------- strings *)

Definition name := list N.

Fixpoint codes (s : string) : name :=
  match s with
  | EmptyString => []
  | String a r => N_of_ascii a :: codes r
  end.

Fixpoint name_eqb (a b : name) : bool :=
  match a, b with
  | [], [] => true
  | x :: a', y :: b' => N.eqb x y && name_eqb a' b'
  | _, _ => false
  end.

Definition truthy (s : name) : bool := match s with [] => false | _ => true end.

(* ---------------------------------------------------------------- character classes *)

(* "[...]" or "[^...]", optionally anchored with a leading "^"; items are single characters
   or ranges "a-z".  Escapes are not supported (the literal is then rejected). *)
Record cclass := { anchored : bool; negated : bool; ranges : list (N * N) }.

Definition ch_caret : N := 94%N.
Definition ch_lbrack : N := 91%N.
Definition ch_rbrack : N := 93%N.
Definition ch_dash : N := 45%N.
Definition ch_bslash : N := 92%N.

Fixpoint parse_items (l : list N) : option (list (N * N)) :=
  match l with
  | [] => None                                             (* no closing bracket *)
  | c :: r =>
      if N.eqb c ch_rbrack then match r with [] => Some [] | _ => None end
      else if N.eqb c ch_bslash then None
      else
        match r with
        | d :: e :: r' =>
            if N.eqb d ch_dash && negb (N.eqb e ch_rbrack) then
              if N.eqb e ch_bslash then None
              else option_map (cons (c, e)) (parse_items r')
            else option_map (cons (c, c)) (parse_items r)
        | _ => option_map (cons (c, c)) (parse_items r)
        end
  end.

Definition parse_class (s : string) : option cclass :=
  let l := codes s in
  let anch := match l with c :: _ => N.eqb c ch_caret | [] => false end in
  let l1 := if anch then tl l else l in
  match l1 with
  | c :: r =>
      if N.eqb c ch_lbrack then
        let neg := match r with d :: _ => N.eqb d ch_caret | [] => false end in
        let l2 := if neg then tl r else r in
        option_map (fun it => {| anchored := anch; negated := neg; ranges := it |}) (parse_items l2)
      else None
  | [] => None
  end.

Definition in_range (c : N) (r : N * N) : bool := N.leb (fst r) c && N.leb c (snd r).

Definition cls_match (cl : cclass) (c : N) : bool :=
  xorb (negated cl) (existsb (in_range c) (ranges cl)).

(* re.match(lit, s): the class must match the first character *)
Definition re_match (cl : cclass) (s : name) : bool :=
  match s with [] => false | c :: _ => cls_match cl c end.

(* re.sub(lit, "_", s): every matching character (only the first one, were the literal
   anchored) is replaced *)
Definition underscore : N := 95%N.
Definition repl (cl : cclass) (c : N) : N := if cls_match cl c then underscore else c.
Definition re_sub (cl : cclass) (s : name) : name :=
  if anchored cl then match s with [] => [] | c :: r => repl cl c :: r end
  else map (repl cl) s.

Definition cf_classes : option (cclass * cclass) :=
  match cf_regex_literals with
  | [a; b] => match parse_class a, parse_class b with
              | Some ca, Some cb => Some (ca, cb)
              | _, _ => None
              end
  | _ => None
  end.

Definition lead_class : cclass :=
  match cf_classes with Some p => fst p | None => {| anchored := true; negated := false; ranges := [] |} end.
Definition sub_class : cclass :=
  match cf_classes with Some p => snd p | None => {| anchored := false; negated := false; ranges := [] |} end.

Definition v_prefix : name := codes "v_".

(* utils.cf_safe_name on a str *)
Definition cf_safe_name_model (s : name) : name :=
  let s1 := if re_match lead_class s then v_prefix ++ s else s in
  re_sub sub_class s1.

(* what a CF-safe name may contain *)
Definition is_digit (c : N) : bool := N.leb 48 c && N.leb c 57.
Definition is_letter (c : N) : bool := (N.leb 65 c && N.leb c 90) || (N.leb 97 c && N.leb c 122).
Definition legal_char (c : N) : bool := is_letter c || is_digit c || N.eqb c underscore.

(* ---------------------------------------------------------------- collected results *)

(* one CollectedResult.  stream = None for stream_id None; Some [] is the empty string (what
   compute_aggregate uses).  fn_id identifies the function object (0 = qartod.aggregate).
   results: None = masked (row not evaluated).  An axis array that is None in Python is None. *)
Record cres := {
  stream : option name;
  pkg : name;
  test : name;
  fn_id : nat;
  results : list cell;
  data : list obs;
  tinp : option (list obs);
  zinp : option (list obs);
  lat : option (list obs);
  lon : option (list obs)
}.

Definition dot : N := 46%N.
Definition label (s : name) : name := if truthy s then s ++ [dot] else [].
Definition stream_str (o : option name) : name := match o with Some s => s | None => [] end.

Definition column_name (st : option name) (pk ts : name) : name :=
  cf_safe_name_model (label (stream_str st) ++ label pk ++ ts).

(* stores.column_from_collected_result *)
Definition column_of (cr : cres) : name := column_name (stream cr) (pkg cr) (test cr).

(* ---------------------------------------------------------------- include / exclude *)

Inductive fitem := FStr (s : name) | FFn (f : nat).

Definition in_fn (f : nat) (l : list fitem) : bool :=
  existsb (fun x => match x with FFn g => Nat.eqb f g | FStr _ => false end) l.
Definition in_str (s : name) (l : list fitem) : bool :=
  existsb (fun x => match x with FStr t => name_eqb s t | FFn _ => false end) l.
Definition in_stream (o : option name) (l : list fitem) : bool :=
  match o with Some s => in_str s l | None => false end.

Inductive decision := Keep | Skip | Raise (e : exn).

(* what the two `if ... continue` of the source decide:
     include is not None and (function not in include and stream_id not in include and test not in include)
     exclude is not None and (function in exclude or stream_id in exclude or test in exclude)
   (Raise stays in the decision type for the loop; this filter never raises.) *)
Definition decide_code (inc exc : option (list fitem)) (cr : cres) : decision :=
  let skip_inc :=
    match inc with
    | None => false
    | Some i => negb (in_fn (fn_id cr) i) && negb (in_stream (stream cr) i) && negb (in_str (test cr) i)
    end in
  if skip_inc then Skip else
  match exc with
  | None => Keep
  | Some e =>
      if in_fn (fn_id cr) e || in_stream (stream cr) e || in_str (test cr) e then Skip else Keep
  end.

(* the rule the property states: include keeps and exclude drops results by stream id, test
   name or function *)
Definition matches (cr : cres) (l : list fitem) : bool :=
  in_fn (fn_id cr) l || in_stream (stream cr) l || in_str (test cr) l.

Definition decide_intended (inc exc : option (list fitem)) (cr : cres) : decision :=
  let keep_inc := match inc with None => true | Some i => matches cr i end in
  let drop_exc := match exc with None => false | Some e => matches cr e end in
  if keep_inc && negb drop_exc then Keep else Skip.

(* ---------------------------------------------------------------- data frames *)

Inductive axis := AxT | AxZ | AxX | AxY.
Definition axis_order : list axis := [AxT; AxZ; AxX; AxY].     (* order of the four blocks *)

Definition axis_eqb (a b : axis) : bool :=
  match a, b with AxT, AxT | AxZ, AxZ | AxX, AxX | AxY, AxY => true | _, _ => false end.

Record axes := { ax_t : name; ax_z : name; ax_y : name; ax_x : name }.
Definition default_axes : axes :=
  {| ax_t := codes "time"; ax_z := codes "z"; ax_y := codes "lat"; ax_x := codes "lon" |}.

Definition axis_name (ax : axes) (a : axis) : name :=
  match a with AxT => ax_t ax | AxZ => ax_z ax | AxX => ax_x ax | AxY => ax_y ax end.
Definition axis_arr (a : axis) (cr : cres) : option (list obs) :=
  match a with AxT => tinp cr | AxZ => zinp cr | AxX => lon cr | AxY => lat cr end.

Inductive colv := CFlags (l : list cell) | CVals (l : list obs).
Definition colv_len (v : colv) : nat := match v with CFlags l => length l | CVals l => length l end.
(* reindexing an empty column to n rows: all NaN *)
Definition colv_blank (n : nat) (v : colv) : colv :=
  match v with CFlags _ => CFlags (tab n (fun _ => None)) | CVals _ => CVals (tab n (fun _ => None)) end.

(* src = position of the CollectedResult the column was taken from *)
Inductive kind := KAxis (a : axis) (src : nat) | KData (src : nat) | KResult (src : nat).

Record column := { cname : name; ckind : kind; cvals : colv }.
Definition frame := list column.

Definition has_col (nm : name) (df : frame) : bool := existsb (fun c => name_eqb nm (cname c)) df.
Definition nrows (df : frame) : nat := match df with [] => 0%nat | c :: _ => colv_len (cvals c) end.

(* df[name] = values, name not yet a column *)
Definition add_col (c : column) (df : frame) : exn + frame :=
  let n := colv_len (cvals c) in
  if Nat.eqb (nrows df) 0 then
    inr (map (fun d => {| cname := cname d; ckind := ckind d; cvals := colv_blank n (cvals d) |}) df ++ [c])
  else if Nat.eqb n (nrows df) then inr (df ++ [c])
  else inl ValueError.

Definition bind {A B} (r : exn + A) (f : A -> exn + B) : exn + B :=
  match r with inl e => inl e | inr x => f x end.

(* ---------------------------------------------------------------- PandasStore.save *)

Section Save.
  Variables (ax : axes) (write_data write_axes : bool) (inc exc : option (list fitem)).

  Definition axis_step (k : nat) (cr : cres) (a : axis) (df : frame) : exn + frame :=
    match axis_arr a cr with
    | Some l =>
        if write_axes && negb (has_col (axis_name ax a) df) && negb (Nat.eqb (length l) 0)
        then add_col {| cname := axis_name ax a; ckind := KAxis a k; cvals := CVals l |} df
        else inr df
    | None => inr df
    end.

  Fixpoint axes_steps (k : nat) (cr : cres) (l : list axis) (df : frame) : exn + frame :=
    match l with
    | [] => inr df
    | a :: r => bind (axis_step k cr a df) (axes_steps k cr r)
    end.

  Definition data_step (k : nat) (cr : cres) (df : frame) : exn + frame :=
    match stream cr with
    | Some s =>
        if write_data && negb (has_col s df) && truthy s
        then add_col {| cname := s; ckind := KData k; cvals := CVals (data cr) |} df
        else inr df
    | None => inr df
    end.

  Definition result_step (k : nat) (cr : cres) (df : frame) : exn + frame :=
    if has_col (column_of cr) df then inr df                        (* duplicate: skipped *)
    else add_col {| cname := column_of cr; ckind := KResult k; cvals := CFlags (results cr) |} df.

  Fixpoint save_loop (dec : cres -> decision) (k : nat) (crs : list cres) (df : frame) : exn + frame :=
    match crs with
    | [] => inr df
    | cr :: rest =>
        bind (axes_steps k cr axis_order df) (fun df1 =>
          match dec cr with
          | Skip => save_loop dec (S k) rest df1
          | Raise e => inl e
          | Keep =>
              bind (data_step k cr df1) (fun df2 =>
                bind (result_step k cr df2) (fun df3 => save_loop dec (S k) rest df3))
          end)
    end.

  Definition save_model (crs : list cres) : exn + frame :=
    save_loop (decide_code inc exc) 0 crs [].

  (* ------------------------------------------------------------ the property's frame *)

  (* the same walk with columns identified by what they are instead of by their name, no
     length check, one result column for every kept result *)
  Definition has_axis (a : axis) (df : frame) : bool :=
    existsb (fun c => match ckind c with KAxis b _ => axis_eqb a b | _ => false end) df.
  Definition has_data (s : name) (df : frame) : bool :=
    existsb (fun c => match ckind c with KData _ => name_eqb s (cname c) | _ => false end) df.

  Definition axis_cols (k : nat) (cr : cres) (a : axis) (df : frame) : frame :=
    match axis_arr a cr with
    | Some l =>
        if write_axes && negb (has_axis a df) && negb (Nat.eqb (length l) 0)
        then df ++ [{| cname := axis_name ax a; ckind := KAxis a k; cvals := CVals l |}]
        else df
    | None => df
    end.

  Definition data_cols (k : nat) (cr : cres) (df : frame) : frame :=
    match stream cr with
    | Some s =>
        if write_data && negb (has_data s df) && truthy s
        then df ++ [{| cname := s; ckind := KData k; cvals := CVals (data cr) |}]
        else df
    | None => df
    end.

  Definition result_col (k : nat) (cr : cres) : column :=
    {| cname := column_of cr; ckind := KResult k; cvals := CFlags (results cr) |}.

  Fixpoint spec_loop (dec : cres -> decision) (k : nat) (crs : list cres) (df : frame) : exn + frame :=
    match crs with
    | [] => inr df
    | cr :: rest =>
        let df1 := fold_left (fun d a => axis_cols k cr a d) axis_order df in
        match dec cr with
        | Skip => spec_loop dec (S k) rest df1
        | Raise e => inl e
        | Keep => spec_loop dec (S k) rest (data_cols k cr df1 ++ [result_col k cr])
        end
    end.

  Definition save_spec (crs : list cres) : exn + frame := spec_loop (decide_code inc exc) 0 crs [].
  (* ... and with the filter rule the property states *)
  Definition save_intended (crs : list cres) : exn + frame :=
    spec_loop (decide_intended inc exc) 0 crs [].

End Save.

(* ---------------------------------------------------------------- compute_aggregate *)

Definition aggregate_fn : nat := 0%nat.
Definition rollup_name : name := codes "rollup".

(* qartod.aggregate on the collected results *)
Definition aggregate_model (crs : list cres) : outcome :=
  compare_model priorities (map results crs).

(* CollectedResult(stream_id="", package="qartod", test=name, function=aggregate, results=...);
   data and axes stay None *)
Definition agg_cres (nm : name) (l : list flag) : cres :=
  {| stream := Some []; pkg := codes "qartod"; test := nm; fn_id := aggregate_fn;
     results := lift l; data := []; tinp := None; zinp := None; lat := None; lon := None |}.

Definition compute_aggregate_model (nm : name) (crs : list cres) : exn + list cres :=
  match aggregate_model crs with
  | Flags l => inr (crs ++ [agg_cres nm l])
  | Raises e => inl e
  end.

(* a store session: compute_aggregate(name) for every name of aggs, then save(...) *)
Fixpoint aggregates (aggs : list name) (crs : list cres) : exn + list cres :=
  match aggs with
  | [] => inr crs
  | nm :: r => bind (compute_aggregate_model nm crs) (aggregates r)
  end.

Definition store_model (ax : axes) (aggs : list name) (wd wa : bool) (inc exc : option (list fitem))
           (crs : list cres) : exn + frame :=
  bind (aggregates aggs crs) (save_model ax wd wa inc exc).

(* the session the property describes: same roll-up, the property's frame *)
Definition store_intended (ax : axes) (aggs : list name) (wd wa : bool) (inc exc : option (list fitem))
           (crs : list cres) : exn + frame :=
  bind (aggregates aggs crs) (save_intended ax wd wa inc exc).

(* ---------------------------------------------------------------- vocabulary of the theorems *)

(* all arrays of a collected result have n entries (an axis array may also be empty: it is
   then not written; data matters only when there is a stream id) *)
Definition wf (n : nat) (cr : cres) : Prop :=
  length (results cr) = n /\
  (forall s, stream cr = Some s -> truthy s = true -> length (data cr) = n) /\
  (forall a l, axis_arr a cr = Some l -> length l = n \/ length l = 0%nat).

Definition keeps (d : decision) : bool := match d with Keep => true | _ => false end.
Definition kept (dec : cres -> decision) (crs : list cres) : list cres :=
  filter (fun cr => keeps (dec cr)) crs.

Definition stream_names (cr : cres) : list name :=
  match stream cr with Some s => if truthy s then [s] else [] | None => [] end.
Definition res_names (dec : cres -> decision) (crs : list cres) : list name :=
  map column_of (kept dec crs).
Definition data_names (dec : cres -> decision) (crs : list cres) : list name :=
  flat_map stream_names (kept dec crs).
Definition axis_names (ax : axes) : list name := map (axis_name ax) axis_order.

(* no two columns of different origin compete for a name: the axis names are distinct, the
   result columns of the kept results have distinct names, and axis names, stream ids (data
   columns) and result column names are pairwise apart *)
Definition names_ok (ax : axes) (wd wa : bool) (dec : cres -> decision) (crs : list cres) : Prop :=
  let A := if wa then axis_names ax else [] in
  let S := if wd then data_names dec crs else [] in
  let R := res_names dec crs in
  NoDup A /\ NoDup R /\
  (forall x, In x A -> ~ In x S) /\ (forall x, In x A -> ~ In x R) /\ (forall x, In x S -> ~ In x R).

(* projections of a frame *)
Definition res_view (df : frame) : list (name * colv) :=
  flat_map (fun c => match ckind c with KResult _ => [(cname c, cvals c)] | _ => [] end) df.
Definition ax_view (a : axis) (df : frame) : list (name * colv) :=
  flat_map (fun c => match ckind c with
                     | KAxis b _ => if axis_eqb a b then [(cname c, cvals c)] else []
                     | _ => [] end) df.
Definition data_view (s : name) (df : frame) : list colv :=
  flat_map (fun c => match ckind c with
                     | KData _ => if name_eqb s (cname c) then [cvals c] else []
                     | _ => [] end) df.

Definition axis_present (a : axis) (cr : cres) : option (list obs) :=
  match axis_arr a cr with
  | Some l => if Nat.eqb (length l) 0 then None else Some l
  | None => None
  end.
(* the axis array of the first collected result that has one *)
Fixpoint first_axis (a : axis) (crs : list cres) : option (list obs) :=
  match crs with
  | [] => None
  | cr :: r => match axis_present a cr with Some l => Some l | None => first_axis a r end
  end.
(* the data of the first kept result of stream s *)
Fixpoint first_data (dec : cres -> decision) (s : name) (crs : list cres) : option (list obs) :=
  match crs with
  | [] => None
  | cr :: r =>
      if keeps (dec cr) && match stream cr with Some t => name_eqb s t | None => false end
      then Some (data cr) else first_data dec s r
  end.
Definition opt_list {A} (o : option A) : list A := match o with Some x => [x] | None => [] end.

(* ---------------------------------------------------------------- observation *)

(* what can be read off a pandas frame: ordered column names and values (NaN/NaT/masked =
   None, flags as numbers) *)
Inductive ores := OFrame (cols : list (name * list obs)) | ORaises (e : exn).

Definition colv_obs (v : colv) : list obs :=
  match v with
  | CFlags l => map (option_map (fun z => inject_Z z)) l
  | CVals l => l
  end.

Definition observe (r : exn + frame) : ores :=
  match r with
  | inr df => OFrame (map (fun c => (cname c, colv_obs (cvals c))) df)
  | inl e => ORaises e
  end.

Definition obs_eqb (a b : obs) : bool :=
  match a, b with
  | None, None => true
  | Some x, Some y => Qeq_bool x y
  | _, _ => false
  end.

Fixpoint list_eqb {A} (eqb : A -> A -> bool) (a b : list A) : bool :=
  match a, b with
  | [], [] => true
  | x :: a', y :: b' => eqb x y && list_eqb eqb a' b'
  | _, _ => false
  end.

Definition ores_eqb (a b : ores) : bool :=
  match a, b with
  | OFrame x, OFrame y =>
      list_eqb (fun p q => name_eqb (fst p) (fst q) && list_eqb obs_eqb (snd p) (snd q)) x y
  | ORaises e1, ORaises e2 => outcome_eqb (Raises e1) (Raises e2)
  | _, _ => false
  end.
