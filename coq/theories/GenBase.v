(* GenBase.v — generic facts for the whole-function theorems (array program + flag skeleton = model). *)
From IoosQc Require Import Base Skel Arr Gen SkelBase.
From Coq Require Import String.
Local Notation length := List.length.
Open Scope string_scope.

(* the arrays the skeleton reads, taken from the final store, are those of the hand-written environment *)
Lemma restrict_bind st (l : list (string * list obs)) :
  (forall p, In p l -> store_arr st (fst p) = Some (snd p)) ->
  forall s, bind_arr l s = restrict (map fst l) (store_arr st) s.
Proof.
  unfold bind_arr, restrict. induction l as [|p l IH]; intros H s; cbn [find map existsb]; [reflexivity|].
  rewrite String.eqb_sym. destruct (String.eqb s (fst p)) eqn:E; cbn [orb].
  - apply String.eqb_eq in E. subst s. symmetry. apply H. left. reflexivity.
  - apply IH. intros q Hq. apply H. right. exact Hq.
Qed.

Ltac in_cases H := cbn [In] in H; repeat (destruct H as [<-|H]; [cbn [fst snd]; assumption|]); contradiction.
