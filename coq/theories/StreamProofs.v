(* StreamProofs.v — every front end equals the specification under an explicit hypothesis;
   fault isolation (a call that yields no result does not disturb the others). *)
From IoosQc Require Import Base Stream.
From Coq Require Import String Permutation.
Local Notation length := List.length.

Section Proofs.
  Variables TestId Kw : Type.
  Variable test : TestId -> Kw -> rows -> option (list flag).

  Notation call := (call TestId Kw).
  Notation context := (context TestId Kw).
  Notation spec_run := (spec_run TestId Kw test).
  Notation numpy_run := (numpy_run TestId Kw test).
  Notation pandas_run := (pandas_run TestId Kw test).
  Notation xarray_run := (xarray_run TestId Kw test).
  Notation run_call := (run_call TestId Kw test).
  Notation run_call_pandas := (run_call_pandas TestId Kw test).

  (* ---------------------------------------------------------------- numpy / netcdf / QcConfig.run *)

  Theorem numpy_run_spec cfg tbl : numpy_run cfg tbl = spec_run cfg tbl.
  Proof. reflexivity. Qed.

  (* ---------------------------------------------------------------- pandas *)

  Lemma existsb_notin lab l : ~ In lab l -> existsb (Z.eqb lab) l = false.
  Proof.
    intros H. induction l as [|x l IH]; [reflexivity|]. simpl.
    destruct (Z.eqb_spec lab x) as [->|N]; [exfalso; apply H; left; reflexivity|].
    apply IH. intros Hin. apply H. right. exact Hin.
  Qed.

  Lemma restrict_subset {A} (m : list bool) (l : list A) x : In x (restrict m l) -> In x l.
  Proof.
    revert l. induction m as [|b m IH]; intros [|y l]; simpl; try tauto.
    destruct b; simpl; intros H; [destruct H as [->|H]; [left; reflexivity|right; apply IH; exact H]|].
    right. apply IH. exact H.
  Qed.

  Lemma labels_roundtrip idx : forall m,
    NoDup idx -> length m = length idx ->
    map (fun lab => existsb (Z.eqb lab) (restrict m idx)) idx = m.
  Proof.
    induction idx as [|lab idx IH]; intros [|b m] Hnd Hlen; simpl in *; try discriminate; [reflexivity|].
    inversion Hnd as [|? ? Hnotin Hnd']; subst.
    destruct b; simpl.
    - rewrite Z.eqb_refl. simpl. f_equal.
      transitivity (map (fun l' => existsb (Z.eqb l') (restrict m idx)) idx); [|apply IH; [exact Hnd'|lia]].
      apply map_ext_in. intros l' Hl'.
      destruct (Z.eqb_spec l' lab) as [->|N]; [contradiction|reflexivity].
    - rewrite existsb_notin by (intros H; apply Hnotin; eapply restrict_subset; eauto).
      f_equal. apply IH; [exact Hnd'|lia].
  Qed.

  Definition wf_table (tbl : table) : Prop :=
    length (t_index tbl) = t_n tbl /\
    match t_time tbl with Some ts => length ts = t_n tbl | None => True end.

  Lemma window_mask_length tbl (c : context) :
    wf_table tbl -> length (window_mask TestId Kw tbl c) = t_n tbl.
  Proof.
    intros [_ H]. unfold window_mask. destruct (t_time tbl) as [ts|].
    - rewrite map_length. exact H.
    - apply tab_length.
  Qed.

  (* the label-based mask of the code before F23 was repaired is right exactly for unique labels ... *)
  Lemma pandas_mask_by_label_id tbl m :
    NoDup (t_index tbl) -> length m = length (t_index tbl) -> pandas_mask_by_label tbl m = m.
  Proof. intros. unfold pandas_mask_by_label, labels_selected. apply labels_roundtrip; assumption. Qed.

  (* ... and wrong for a repeated label: selecting one of two rows that share a label marked both *)
  Lemma pandas_mask_by_label_refuted :
    exists tbl m, length m = length (t_index tbl) /\ pandas_mask_by_label tbl m <> m.
  Proof.
    exists {| t_n := 2; t_time := None; t_z := None; t_lon := None; t_lat := None; t_cols := []; t_index := [0; 0]%Z |},
           [true; false].
    split; [reflexivity|]. vm_compute. discriminate.
  Qed.

  (* every row index: default, offset, reversed, arbitrary, with repeated labels *)
  Theorem pandas_run_spec cfg tbl : pandas_run cfg tbl = spec_run cfg tbl.
  Proof. reflexivity. Qed.

  (* ---------------------------------------------------------------- xarray *)

  (* the window form xarray honours: both bounds or none, and no row exactly at `ending` *)
  Definition xarray_ok (tbl : table) (c : context) : Prop :=
    match w_start c, w_end c with
    | Some _, Some e => match t_time tbl with Some ts => ~ In e ts | None => True end
    | None, None => True
    | _, _ => False
    end.

  Lemma window_mask_x_eq tbl c : xarray_ok tbl c -> window_mask_x TestId Kw tbl c = window_mask TestId Kw tbl c.
  Proof.
    unfold xarray_ok, window_mask_x, window_mask, in_window_x, in_window.
    destruct (w_start c) as [s|], (w_end c) as [e|]; try (intros []; fail); try reflexivity.
    destruct (t_time tbl) as [ts|]; [|reflexivity].
    intros Hnot. apply map_ext_in. intros t Ht. f_equal.
    destruct (Z.leb_spec t e), (Z.ltb_spec t e); try reflexivity; try lia.
    exfalso. apply Hnot. replace e with t by lia. exact Ht.
  Qed.

  Theorem xarray_run_spec cfg tbl :
    Forall (xarray_ok tbl) cfg -> xarray_run cfg tbl = spec_run cfg tbl.
  Proof.
    intros H. unfold Stream.xarray_run, Stream.spec_run. f_equal.
    induction cfg as [|c cfg IH]; [reflexivity|]. inversion H; subst. simpl.
    rewrite IH by assumption. rewrite window_mask_x_eq by assumption. reflexivity.
  Qed.

  (* consequently all front ends agree *)
  Theorem front_ends_agree cfg tbl :
    Forall (xarray_ok tbl) cfg ->
    pandas_run cfg tbl = numpy_run cfg tbl /\ xarray_run cfg tbl = numpy_run cfg tbl.
  Proof.
    intros. split; [rewrite pandas_run_spec|rewrite xarray_run_spec by assumption]; reflexivity.
  Qed.

  (* ---------------------------------------------------------------- the specification itself *)

  Lemma restrict_nth_rank {A} (m : list bool) (l : list A) d : forall i,
    length m = length l -> nth i m false = true ->
    nth (length (filter (fun b => b) (firstn i m))) (restrict m l) d = nth i l d.
  Proof.
    revert l. induction m as [|b m IH]; intros [|x l] i Hlen Hi; simpl in *; try discriminate.
    - destruct i; discriminate.
    - destruct i as [|i]; simpl in *.
      + subst b. reflexivity.
      + destruct b; simpl; apply IH; auto.
  Qed.

  (* each test sees exactly the window rows, in original order: the j-th selected row is the row
     of the table it was selected from *)
  Theorem spec_rows_exact tbl (c : context) col i d :
    length (window_mask TestId Kw tbl c) = length col ->
    nth i (window_mask TestId Kw tbl c) false = true ->
    nth (length (filter (fun b => b) (firstn i (window_mask TestId Kw tbl c))))
        (rw_inp (rows_of tbl (window_mask TestId Kw tbl c) col)) d = nth i col d.
  Proof. intros. simpl. apply restrict_nth_rank; assumption. Qed.

  Lemma restrict_length {A} (m : list bool) (l : list A) :
    length m = length l -> length (restrict m l) = length (filter (fun b => b) m).
  Proof.
    revert l. induction m as [|b m IH]; intros [|x l] H; simpl in *; try discriminate; [reflexivity|].
    destruct b; simpl; rewrite IH by lia; reflexivity.
  Qed.

  (* window membership is the half-open interval of the property *)
  Theorem in_window_iff (c : context) t :
    in_window TestId Kw c t = true <->
    (match w_start c with Some s => (s <= t)%Z | None => True end) /\
    (match w_end c with Some e => (t < e)%Z | None => True end).
  Proof.
    unfold in_window. rewrite andb_true_iff.
    destruct (w_start c) as [s|], (w_end c) as [e|]; rewrite ?Z.leb_le, ?Z.ltb_lt; tauto.
  Qed.

  (* ---------------------------------------------------------------- grouping by context *)

  Lemma window_mask_same tbl (c c' : context) :
    w_start c = w_start c' -> w_end c = w_end c' ->
    window_mask TestId Kw tbl c = window_mask TestId Kw tbl c'.
  Proof.
    intros H1 H2. unfold window_mask, in_window. rewrite H1, H2. reflexivity.
  Qed.


  Definition one_ctx tbl (c : context) : list sres :=
    flat_map (run_call tbl (window_mask TestId Kw tbl c)) (cx_calls c).

  Definition results_of (cfg : list context) tbl : list sres := flat_map (one_ctx tbl) cfg.

  Lemma results_of_cons c l tbl : results_of (c :: l) tbl = one_ctx tbl c ++ results_of l tbl.
  Proof. reflexivity. Qed.

  Lemma win_eqb_same (a b : context) :
    win_eqb TestId Kw a b = true -> w_start a = w_start b /\ w_end a = w_end b.
  Proof.
    unfold win_eqb, obound_eqb. rewrite andb_true_iff. intros [H1 H2]. split.
    - destruct (w_start a), (w_start b); try discriminate; [apply Z.eqb_eq in H1; subst|]; reflexivity.
    - destruct (w_end a), (w_end b); try discriminate; [apply Z.eqb_eq in H2; subst|]; reflexivity.
  Qed.

  Lemma one_ctx_merged tbl g c :
    w_start g = w_start c -> w_end g = w_end c ->
    one_ctx tbl {| w_start := w_start g; w_end := w_end g; cx_calls := cx_calls g ++ cx_calls c |}
    = one_ctx tbl g ++ one_ctx tbl c.
  Proof.
    intros E1 E2. unfold one_ctx. simpl cx_calls. rewrite flat_map_app.
    rewrite (window_mask_same tbl {| w_start := w_start g; w_end := w_end g; cx_calls := cx_calls g ++ cx_calls c |} g)
      by reflexivity.
    rewrite (window_mask_same tbl c g) by (symmetry; assumption). reflexivity.
  Qed.

  Lemma add_group_perm tbl c : forall gs,
    Permutation (results_of (add_group TestId Kw c gs) tbl) (results_of gs tbl ++ one_ctx tbl c).
  Proof.
    induction gs as [|g r IH]; simpl add_group.
    - rewrite results_of_cons. simpl. rewrite app_nil_r. apply Permutation_refl.
    - destruct (win_eqb TestId Kw g c) eqn:E.
      + apply win_eqb_same in E. destruct E as [E1 E2].
        rewrite !results_of_cons, one_ctx_merged by assumption.
        rewrite <- !app_assoc. apply Permutation_app_head. apply Permutation_app_comm.
      + rewrite !results_of_cons, <- app_assoc. apply Permutation_app_head. exact IH.
  Qed.

  (* grouping the calls by context only reorders the results: every (context, call) is run once, on
     its own window — in particular a context listed twice, adjacent or not, loses nothing *)
  Theorem group_contexts_perm cfg tbl :
    Permutation (results_of (group_contexts TestId Kw cfg) tbl) (results_of cfg tbl).
  Proof.
    unfold group_contexts.
    assert (G : forall gs, Permutation (results_of (fold_left (fun gs c => add_group TestId Kw c gs) cfg gs) tbl)
                                       (results_of gs tbl ++ results_of cfg tbl)).
    { induction cfg as [|c cfg IH]; intros gs; simpl fold_left.
      - unfold results_of at 3. simpl. rewrite app_nil_r. apply Permutation_refl.
      - eapply Permutation_trans; [apply IH|].
        eapply Permutation_trans; [apply Permutation_app_tail, add_group_perm|].
        rewrite results_of_cons, <- app_assoc. apply Permutation_refl. }
    apply (G []).
  Qed.

  (* ---------------------------------------------------------------- fault isolation (C18) *)

  Definition healthy_calls tbl (c : context) : list call :=
    filter (fun cl => negb (no_result TestId Kw test tbl (window_mask TestId Kw tbl c) cl)) (cx_calls c).

  Definition healthy_cfg tbl (cfg : list context) : list context :=
    map (fun c => {| w_start := w_start c; w_end := w_end c; cx_calls := healthy_calls tbl c |}) cfg.

  Lemma filter_flat_map {A B} (p : B -> bool) (f : A -> list B) l :
    filter p (flat_map f l) = flat_map (fun x => filter p (f x)) l.
  Proof. induction l as [|x l IH]; simpl; [reflexivity|]. rewrite filter_app, IH. reflexivity. Qed.

  Lemma flat_map_map {A B C} (f : B -> list C) (g : A -> B) l :
    flat_map f (map g l) = flat_map (fun x => f (g x)) l.
  Proof. induction l as [|x l IH]; simpl; [reflexivity|]. rewrite IH. reflexivity. Qed.

  Lemma run_call_produced tbl m cl :
    filter (fun s => is_some (s_flags s)) (run_call tbl m cl) =
    if no_result TestId Kw test tbl m cl then [] else run_call tbl m cl.
  Proof.
    unfold Stream.run_call, no_result. destruct (lookup (cl_stream cl) (t_cols tbl)) as [col|]; [|reflexivity].
    simpl. unfold is_some. destruct (test (cl_test cl) (cl_kw cl) (rows_of tbl m col)); reflexivity.
  Qed.

  (* calls that cannot run contribute no result, and removing them from the configuration leaves
     every other result exactly as it was — for any number and placement of failing entries *)
  Theorem faults_drop_out cfg tbl :
    produced (spec_run cfg tbl) = produced (spec_run (healthy_cfg tbl cfg) tbl).
  Proof.
    unfold produced, Stream.spec_run. rewrite !filter_flat_map.
    unfold healthy_cfg. rewrite flat_map_map.
    apply flat_map_ext. intros c. rewrite !filter_flat_map. simpl.
    rewrite (window_mask_same tbl {| w_start := w_start c; w_end := w_end c; cx_calls := healthy_calls tbl c |} c)
      by reflexivity.
    unfold healthy_calls. induction (cx_calls c) as [|cl cls IH]; [reflexivity|]. simpl.
    rewrite run_call_produced.
    destruct (no_result TestId Kw test tbl (window_mask TestId Kw tbl c) cl) eqn:E; simpl.
    - exact IH.
    - rewrite run_call_produced, E, IH. reflexivity.
  Qed.

  (* each healthy call yields exactly what it yields when configured alone (same window) *)
  Theorem alone_same cfg tbl c cl :
    In c cfg -> In cl (cx_calls c) ->
    forall s, In s (run_call tbl (window_mask TestId Kw tbl c) cl) ->
    In s (match spec_run cfg tbl with SList l => l | SRaises _ => [] end) /\
    spec_run [ {| w_start := w_start c; w_end := w_end c; cx_calls := [cl] |} ] tbl =
    SList (run_call tbl (window_mask TestId Kw tbl c) cl).
  Proof.
    intros Hc Hcl s Hs. split.
    - unfold Stream.spec_run. apply in_flat_map. exists c. split; [exact Hc|].
      apply in_flat_map. exists cl. split; assumption.
    - unfold Stream.spec_run. simpl. rewrite !app_nil_r.
      rewrite (window_mask_same tbl {| w_start := w_start c; w_end := w_end c; cx_calls := [cl] |} c)
        by reflexivity.
      reflexivity.
  Qed.

End Proofs.
