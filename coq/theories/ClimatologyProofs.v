(* ClimatologyProofs.v — climatology_test: unconditional refinement of the member-by-member model
   to the pointwise "last matching member wins" specification (C08), boundary / classification
   lemmas, C02 (missing values) and C17 (locality, joint time shift). *)
From IoosQc Require Import Base Range RangeProofs Calendar Climatology.

Ltac tabs := unfold all_flags; repeat rewrite set_where_tab.

(* ---------------------------------------------------------------- list facts *)

Lemma olast_app_single {A} (l : list A) a : olast (l ++ [a]) = Some a.
Proof.
  induction l as [|b l IH]; [reflexivity|].
  simpl app. destruct (l ++ [a]) eqn:E.
  - destruct l; discriminate.
  - simpl. simpl in IH. exact IH.
Qed.

Lemma olast_cons {A} (a : A) l : l <> [] -> olast (a :: l) = olast l.
Proof. destruct l; [congruence|reflexivity]. Qed.

Lemma olast_none {A} (l : list A) : olast l = None <-> l = [].
Proof.
  split; [|intros ->; reflexivity].
  induction l as [|a l IH]; [reflexivity|].
  destruct l as [|b l]; [discriminate|]. intros H. apply IH in H. discriminate.
Qed.

Lemma olast_in {A} (l : list A) a : olast l = Some a -> In a l.
Proof.
  induction l as [|b l IH]; [discriminate|].
  destruct l as [|c l]; [intros E; inversion E; left; reflexivity|].
  intros E. right. apply IH. exact E.
Qed.

Lemma filter_none {A} (f : A -> bool) l : (forall a, In a l -> f a = false) -> filter f l = [].
Proof.
  induction l as [|a l IH]; [reflexivity|]. intros H. simpl.
  rewrite (H a (or_introl eq_refl)). apply IH. intros b Hb. apply H. right. exact Hb.
Qed.

Lemma count_present_zero zs i : count_present zs = 0%nat -> getq zs i = None.
Proof.
  unfold count_present, getq. revert i. induction zs as [|z zs IH]; intros i H.
  - destruct i; reflexivity.
  - simpl in H. destruct z as [v|]; simpl in H; [discriminate|].
    destruct i; [reflexivity|]. simpl. apply IH. exact H.
Qed.

(* ---------------------------------------------------------------- one member at one point *)

(* the model's index expressions as functions of the point (x, t, z) *)
Definition t_ix (m : member) (t : Z) : mb := (tmatch m t, false).
Definition z_ix (m : member) (x z : obs) : mb :=
  match m_zspan m with
  | Some (lo, hi) => (otest (inside lo hi) z, is_none z)
  | None => (is_some x, is_none x)
  end.
Definition f_ix (m : member) (x : obs) : mb :=
  match m_fspan m with
  | Some (lo, hi) => (otest (outside lo hi) x, is_none x)
  | None => (false, false)
  end.
Definition s_ix (m : member) (x : obs) : mb := (otest (out_valid m) x, is_none x).
Definition v_ix (m : member) (x : obs) (t : Z) (z : obs) : mb := mb_and (t_ix m t) (z_ix m x z).

(* the three overwrites of a member that is not skipped, at one point *)
Definition step_flag (m : member) (x : obs) (t : Z) (z : obs) (old : flag) : flag :=
  if mb_eff (mb_and (mb_and (v_ix m x t z) (mb_not (f_ix m x))) (mb_not (s_ix m x))) then GOOD
  else if mb_eff (mb_and (mb_and (v_ix m x t z) (mb_not (f_ix m x))) (s_ix m x)) then SUSPECT
  else if mb_eff (mb_and (v_ix m x t z) (f_ix m x)) then FAIL
  else old.

(* one loop iteration at one point (the skip test looks at the whole depth array) *)
Definition pstep (zs : list obs) (x : obs) (t : Z) (z : obs) (old : flag) (m : member) : flag :=
  if skipped m zs then old else step_flag m x t z old.

Lemma clim_step_tab xs ts zs g m :
  clim_step xs ts zs (tab (length xs) g) m =
  tab (length xs) (fun i => pstep zs (getq xs i) (getz ts i) (getq zs i) (g i) m).
Proof.
  unfold clim_step, pstep. destruct (skipped m zs); [reflexivity|].
  repeat rewrite set_where_tab. apply tab_ext. intros i _. reflexivity.
Qed.

(* the whole member loop is a per-point fold *)
Lemma clim_fold_tab ms xs ts zs g :
  fold_left (clim_step xs ts zs) ms (tab (length xs) g) =
  tab (length xs) (fun i => fold_left (pstep zs (getq xs i) (getz ts i) (getq zs i)) ms (g i)).
Proof.
  revert g. induction ms as [|m ms IH]; intros g; [reflexivity|].
  simpl fold_left. rewrite clim_step_tab, IH. reflexivity.
Qed.

(* what the property asks of one member at one point *)
Definition spec_step (m : member) (x : obs) (t : Z) (z : obs) (old : flag) : flag :=
  match x with
  | None => old
  | Some v => if matches t z m then classify m v else old
  end.

(* at a present value every member does what the property asks (a missing depth never matches a
   depth span; members without depth span apply at any depth) *)
Lemma step_flag_spec m v t z old :
  step_flag m (Some v) t z old = spec_step m (Some v) t z old.
Proof.
  unfold step_flag, spec_step, v_ix, t_ix, z_ix, f_ix, s_ix, matches, zmatch, classify, out_fail,
    mb_and, mb_not, mb_eff.
  destruct (m_zspan m) as [[zlo zhi]|]; destruct (m_fspan m) as [[flo fhi]|];
    destruct z as [d|]; simpl;
    destruct (tmatch m t); simpl; try reflexivity;
    try (destruct (inside zlo zhi d); simpl; try reflexivity);
    try (destruct (outside flo fhi v); simpl; try reflexivity);
    try (destruct (out_valid m v); simpl; reflexivity).
Qed.

(* a skipped member (depth span, no depth present at all) matches no point *)
Lemma skipped_no_match m zs t i :
  skipped m zs = true -> matches t (getq zs i) m = false.
Proof.
  unfold skipped, matches, zmatch. intros H. apply andb_true_iff in H. destruct H as [Hz Hc].
  apply Nat.eqb_eq in Hc. rewrite (count_present_zero zs i Hc).
  destruct (m_zspan m) as [[lo hi]|]; [|discriminate]. simpl. apply andb_false_r.
Qed.

(* the specification, member by member: appending a member applies spec_step to the point *)
Lemma clim_pt_snoc ms m x t z :
  clim_pt (ms ++ [m]) x t z = spec_step m x t z (clim_pt ms x t z).
Proof.
  unfold clim_pt, spec_step. destruct x as [v|]; [|reflexivity].
  rewrite filter_app. simpl filter. destruct (matches t z m).
  - rewrite olast_app_single. reflexivity.
  - rewrite app_nil_r. reflexivity.
Qed.

(* ordered overwrite = last match wins, at a present value *)
Lemma pfold_present ms zs v t i :
  fold_left (pstep zs (Some v) t (getq zs i)) ms UNKNOWN = clim_pt ms (Some v) t (getq zs i).
Proof.
  induction ms as [|m ms IH] using rev_ind; [reflexivity|].
  rewrite fold_left_app. simpl fold_left. rewrite IH, clim_pt_snoc. unfold pstep.
  destruct (skipped m zs) eqn:Hs.
  - unfold spec_step. rewrite (skipped_no_match m zs t i Hs). reflexivity.
  - apply step_flag_spec.
Qed.

(* ---------------------------------------------------------------- refinement *)

(* C08, for every configuration, series, time and depth array (no hypothesis; arrays of different
   lengths are read with the defaults of getz / getq and are outside the harness domain) *)
Theorem clim_refines config xs ts zs : clim_model config xs ts zs = clim_spec config xs ts zs.
Proof.
  unfold clim_model, clim_spec. f_equal. tabs. rewrite clim_fold_tab. rewrite set_where_tab.
  apply tab_ext. intros i _. unfold missing_at.
  destruct (getq xs i) as [v|]; simpl; [|reflexivity].
  apply pfold_present.
Qed.

(* ---------------------------------------------------------------- former deviations, now conforming *)

Definition flags_of (o : outcome) : list flag := match o with Flags l => l | Raises _ => [] end.

(* 2020-03-01T12:30:00 and 2020-01-15T00:00:00 in ns *)
Definition T_MAR1 : Z := 1583065800000000000%Z.
Definition T_JAN15 : Z := 1579046400000000000%Z.

(* the inputs on which the previous source left the property (missing value under a periodic member
   or under a member with depth span; missing depth under a periodic member with depth span) *)
Example clim_fixed_missing_series :
  clim_model [mk_member (TPer PMonth 7 7) None (2, 8) None] [None] [T_MAR1] [Some 5] = Flags [MISSING].
Proof. vm_compute. reflexivity. Qed.

Example clim_fixed_missing_zspan :
  clim_model [mk_member (TAbs 0 (2 * T_MAR1)) (Some (0, 10)) (2, 8) (Some (0, 10))] [None] [T_MAR1] [Some 5]
  = Flags [MISSING].
Proof. vm_compute. reflexivity. Qed.

Example clim_fixed_depth_missing :
  clim_model [mk_member (TPer PMonth 7 7) (Some (0, 10)) (2, 8) (Some (0, 10))]
    [Some 5; Some 9; Some 11; Some 5] [T_MAR1; T_MAR1; T_MAR1; T_MAR1] [None; None; None; Some 5]
  = Flags [UNKNOWN; UNKNOWN; UNKNOWN; UNKNOWN].
Proof. vm_compute. reflexivity. Qed.

(* a member with a depth span is skipped / matches nothing when no depth is present at all, and
   matches only the points whose depth is present and inside *)
Example clim_depth_span_examples :
  let cfg := [mk_member (TPer PMonth 3 3) None (2, 8) (Some (0, 10))] in
  clim_model cfg [Some 5; Some 5] [T_MAR1; T_MAR1] [None; None] = Flags [UNKNOWN; UNKNOWN] /\
  clim_model cfg [Some 5; Some 5] [T_MAR1; T_MAR1] [None; Some 5] = Flags [UNKNOWN; GOOD].
Proof. vm_compute. split; reflexivity. Qed.

(* ---------------------------------------------------------------- span boundaries *)

Lemma inside_iff lo hi v : inside lo hi v = true <-> lo <= v <= hi.
Proof. unfold inside. rewrite andb_true_iff, !Qleb_true. tauto. Qed.

Global Instance inside_Proper : Proper (Qeq ==> Qeq ==> Qeq ==> eq) inside.
Proof. intros a b H c d H1 e f H2. unfold inside. rewrite H, H1, H2. reflexivity. Qed.

Lemma sort2_minmax a b : sort2 a b = (qmin a b, qmax a b).
Proof. unfold sort2, qmin, qmax. destruct (Qleb a b); reflexivity. Qed.

Lemma qmin_le_qmax a b : qmin a b <= qmax a b.
Proof. destruct (qmin_case a b) as [[? ->]|[? ->]], (qmax_case a b) as [[? ->]|[? ->]]; lra. Qed.

Lemma qmin_sym a b : qmin a b == qmin b a.
Proof. destruct (qmin_case a b) as [[? ->]|[? ->]], (qmin_case b a) as [[? ->]|[? ->]]; lra. Qed.
Lemma qmax_sym a b : qmax a b == qmax b a.
Proof. destruct (qmax_case a b) as [[? ->]|[? ->]], (qmax_case b a) as [[? ->]|[? ->]]; lra. Qed.

(* both ends of a sorted span are inside it, whatever the order the span was written in *)
Lemma inside_ends a b :
  inside (qmin a b) (qmax a b) a = true /\ inside (qmin a b) (qmax a b) b = true.
Proof.
  rewrite !inside_iff.
  destruct (qmin_case a b) as [[? ->]|[? ->]], (qmax_case a b) as [[? ->]|[? ->]]; lra.
Qed.

(* time span of an absolute member: both dates included, either order *)
Lemma tmatch_abs_iff a b f v zsp t :
  tmatch (add (mk_member (TAbs a b) f v zsp)) t = true <-> (Z.min a b <= t <= Z.max a b)%Z.
Proof.
  unfold tmatch, add. simpl. rewrite andb_true_iff, !Z.leb_le. tauto.
Qed.

Lemma tmatch_abs_ends a b f v zsp :
  tmatch (add (mk_member (TAbs a b) f v zsp)) a = true /\
  tmatch (add (mk_member (TAbs a b) f v zsp)) b = true.
Proof. rewrite !tmatch_abs_iff. lia. Qed.

Lemma tmatch_abs_swap a b f v zsp t :
  tmatch (add (mk_member (TAbs a b) f v zsp)) t = tmatch (add (mk_member (TAbs b a) f v zsp)) t.
Proof. unfold tmatch, add. simpl. rewrite Z.min_comm, Z.max_comm. reflexivity. Qed.

(* time span of a periodic member: the calendar field lies between the two numbers, inclusive *)
Lemma tmatch_per_iff p a b f v zsp t :
  tmatch (add (mk_member (TPer p a b) f v zsp)) t = true <->
  qmin a b <= inject_Z (period_value p t) <= qmax a b.
Proof.
  unfold tmatch, add. simpl. rewrite sort2_minmax. simpl. apply inside_iff.
Qed.

Lemma tmatch_per_swap p a b f v zsp t :
  tmatch (add (mk_member (TPer p a b) f v zsp)) t = tmatch (add (mk_member (TPer p b a) f v zsp)) t.
Proof.
  unfold tmatch, add. simpl. rewrite !sort2_minmax. simpl.
  rewrite (qmin_sym a b), (qmax_sym a b). reflexivity.
Qed.

(* a timestamp whose field equals either end matches *)
Lemma tmatch_per_ends p a b f v zsp t :
  (inject_Z (period_value p t) == a \/ inject_Z (period_value p t) == b) ->
  tmatch (add (mk_member (TPer p a b) f v zsp)) t = true.
Proof.
  intros H. apply tmatch_per_iff.
  destruct (qmin_case a b) as [[? ->]|[? ->]], (qmax_case a b) as [[? ->]|[? ->]]; destruct H; lra.
Qed.

(* depth span *)
Lemma zmatch_none_span t f v z : zmatch (add (mk_member t f v None)) z = true.
Proof. reflexivity. Qed.

Lemma zmatch_span_iff t f v a b z :
  zmatch (add (mk_member t f v (Some (a, b)))) z = true <->
  exists d, z = Some d /\ qmin a b <= d <= qmax a b.
Proof.
  unfold zmatch, add, sortp. simpl. rewrite sort2_minmax.
  destruct z as [d|]; simpl.
  - rewrite inside_iff. split; [intros H; exists d; auto|intros [d' [E H]]; inversion E; subst; exact H].
  - split; [discriminate|intros [d' [E _]]; discriminate].
Qed.

Lemma zmatch_span_missing t f v a b : zmatch (add (mk_member t f v (Some (a, b)))) None = false.
Proof. unfold zmatch, add, sortp. simpl. destruct (sort2 a b). reflexivity. Qed.

Lemma zmatch_span_ends t f v a b :
  zmatch (add (mk_member t f v (Some (a, b)))) (Some a) = true /\
  zmatch (add (mk_member t f v (Some (a, b)))) (Some b) = true.
Proof.
  unfold zmatch, add, sortp. simpl. rewrite sort2_minmax. simpl. apply inside_ends.
Qed.

Lemma zmatch_span_swap t f v a b z :
  zmatch (add (mk_member t f v (Some (a, b)))) z = zmatch (add (mk_member t f v (Some (b, a)))) z.
Proof.
  unfold zmatch, add, sortp. simpl. rewrite !sort2_minmax. destruct z as [d|]; [|reflexivity]. simpl.
  rewrite (qmin_sym a b), (qmax_sym a b). reflexivity.
Qed.

(* `add` sorts every span and is idempotent on the result *)
Lemma add_vspan_sorted m : fst (m_vspan (add m)) <= snd (m_vspan (add m)).
Proof. unfold add, sortp. simpl. rewrite sort2_minmax. simpl. apply qmin_le_qmax. Qed.

Lemma add_fspan_sorted m lo hi : m_fspan (add m) = Some (lo, hi) -> lo <= hi.
Proof.
  unfold add, sortp. simpl. destruct (m_fspan m) as [[a b]|]; simpl; [|discriminate].
  rewrite sort2_minmax. intros E. inversion E; subst. apply qmin_le_qmax.
Qed.

Lemma add_zspan_sorted m lo hi : m_zspan (add m) = Some (lo, hi) -> lo <= hi.
Proof.
  unfold add, sortp. simpl. destruct (m_zspan m) as [[a b]|]; simpl; [|discriminate].
  rewrite sort2_minmax. intros E. inversion E; subst. apply qmin_le_qmax.
Qed.

Lemma add_tspan_sorted m :
  match m_tspan (add m) with
  | TAbs lo hi => (lo <= hi)%Z
  | TPer _ lo hi => lo <= hi
  end.
Proof.
  unfold add. simpl. destruct (m_tspan m) as [a b|p a b]; [lia|].
  rewrite sort2_minmax. apply qmin_le_qmax.
Qed.

(* ---------------------------------------------------------------- classification *)

Lemma classify_fail m v :
  classify m v = FAIL <-> exists lo hi, m_fspan m = Some (lo, hi) /\ (v < lo \/ hi < v).
Proof.
  unfold classify, out_fail. destruct (m_fspan m) as [[lo hi]|].
  - destruct (outside lo hi v) eqn:E.
    + split; [|reflexivity]. intros _. exists lo, hi. split; [reflexivity|]. apply outside_iff. exact E.
    + split.
      * destruct (out_valid m v); discriminate.
      * intros (a & b & Hs & Ho). inversion Hs; subst. apply outside_iff in Ho. congruence.
  - split; [destruct (out_valid m v); discriminate|]. intros (a & b & Hs & _). discriminate.
Qed.

Lemma classify_suspect m v :
  classify m v = SUSPECT <->
  (forall lo hi, m_fspan m = Some (lo, hi) -> lo <= v <= hi) /\
  (v < fst (m_vspan m) \/ snd (m_vspan m) < v).
Proof.
  unfold classify, out_fail, out_valid. rewrite <- outside_iff.
  destruct (m_fspan m) as [[lo hi]|].
  - destruct (outside lo hi v) eqn:E.
    + split; [discriminate|]. intros [H _]. specialize (H _ _ eq_refl).
      apply outside_false_iff in H. congruence.
    + destruct (outside (fst (m_vspan m)) (snd (m_vspan m)) v).
      * split; [|reflexivity]. intros _. split; [|reflexivity].
        intros a b Hs. inversion Hs; subst. apply outside_false_iff. exact E.
      * split; [discriminate|]. intros [_ H]. discriminate.
  - destruct (outside (fst (m_vspan m)) (snd (m_vspan m)) v).
    + split; [|reflexivity]. intros _. split; [intros; discriminate|reflexivity].
    + split; [discriminate|]. intros [_ H]. discriminate.
Qed.

Lemma classify_good m v :
  classify m v = GOOD <->
  (forall lo hi, m_fspan m = Some (lo, hi) -> lo <= v <= hi) /\
  fst (m_vspan m) <= v <= snd (m_vspan m).
Proof.
  unfold classify, out_fail, out_valid. rewrite <- outside_false_iff.
  destruct (m_fspan m) as [[lo hi]|].
  - destruct (outside lo hi v) eqn:E.
    + split; [discriminate|]. intros [H _]. specialize (H _ _ eq_refl).
      apply outside_false_iff in H. congruence.
    + destruct (outside (fst (m_vspan m)) (snd (m_vspan m)) v).
      * split; [discriminate|]. intros [_ H]. discriminate.
      * split; [|reflexivity]. intros _. split; [|reflexivity].
        intros a b Hs. inversion Hs; subst. apply outside_false_iff. exact E.
  - destruct (outside (fst (m_vspan m)) (snd (m_vspan m)) v).
    + split; [discriminate|]. intros [_ H]. discriminate.
    + split; [|reflexivity]. intros _. split; [intros; discriminate|reflexivity].
Qed.

Lemma classify_evaluated m v : not_evaluated (classify m v) = false.
Proof. unfold classify. destruct (out_fail m v); [reflexivity|]. destruct (out_valid m v); reflexivity. Qed.

(* values on the ends of the (sorted) spans are inside: bounds inclusive *)
Lemma classify_on_bounds m v :
  (forall lo hi, m_fspan m = Some (lo, hi) -> lo <= v <= hi) ->
  (v == fst (m_vspan m) \/ v == snd (m_vspan m)) -> fst (m_vspan m) <= snd (m_vspan m) ->
  classify m v = GOOD.
Proof. intros Hf Hv Hs. apply classify_good. split; [exact Hf|]. destruct Hv; lra. Qed.

Global Instance classify_Proper m : Proper (Qeq ==> eq) (classify m).
Proof.
  intros a b H. unfold classify, out_fail, out_valid.
  destruct (m_fspan m) as [[lo hi]|]; rewrite ?H; reflexivity.
Qed.

(* the flag does not depend on the order in which fspan / vspan were written *)
Lemma classify_swap t f v zsp x :
  classify (add (mk_member t f v zsp)) x =
  classify (add (mk_member t (option_map (fun s => (snd s, fst s)) f) (snd v, fst v) zsp)) x.
Proof.
  unfold classify, out_fail, out_valid, add, sortp. simpl.
  destruct v as [c d]. simpl. rewrite !sort2_minmax. simpl.
  rewrite (qmin_sym c d), (qmax_sym c d).
  destruct f as [[a b]|]; simpl; [|reflexivity].
  rewrite !sort2_minmax. rewrite (qmin_sym a b), (qmax_sym a b). reflexivity.
Qed.

(* ---------------------------------------------------------------- last matching member wins *)

Lemma clim_last_wins ms1 m ms2 v t z :
  matches t z m = true -> (forall m', In m' ms2 -> matches t z m' = false) ->
  clim_pt (ms1 ++ m :: ms2) (Some v) t z = classify m v.
Proof.
  intros Hm H2. unfold clim_pt. rewrite filter_app. simpl filter. rewrite Hm.
  rewrite (filter_none _ ms2 H2). rewrite olast_app_single. reflexivity.
Qed.

Lemma clim_no_match ms v t z :
  (forall m, In m ms -> matches t z m = false) -> clim_pt ms (Some v) t z = UNKNOWN.
Proof. intros H. unfold clim_pt. rewrite (filter_none _ ms H). reflexivity. Qed.

Lemma clim_pt_unknown_iff ms v t z :
  clim_pt ms (Some v) t z = UNKNOWN <-> forall m, In m ms -> matches t z m = false.
Proof.
  split; [|apply clim_no_match].
  unfold clim_pt. destruct (olast (filter (matches t z) ms)) as [m0|] eqn:E.
  - intros H. pose proof (classify_evaluated m0 v) as N. rewrite H in N. discriminate.
  - intros _ m Hin. apply olast_none in E.
    destruct (matches t z m) eqn:Em; [|reflexivity].
    assert (Hf : In m (filter (matches t z) ms)) by (apply filter_In; auto).
    rewrite E in Hf. destruct Hf.
Qed.

(* whatever flag an evaluated point gets is the classification by a member that matches it and
   after which no member matches *)
Lemma clim_pt_evaluated ms v t z f :
  clim_pt ms (Some v) t z = f -> f <> UNKNOWN ->
  exists ms1 m ms2, ms = ms1 ++ m :: ms2 /\ matches t z m = true /\
                    (forall m', In m' ms2 -> matches t z m' = false) /\ f = classify m v.
Proof.
  revert f. induction ms as [|m ms IH] using rev_ind; intros f Hf Hn.
  - unfold clim_pt in Hf. simpl in Hf. congruence.
  - rewrite clim_pt_snoc in Hf. unfold spec_step in Hf.
    destruct (matches t z m) eqn:Em.
    + exists ms, m, []. repeat split; auto. intros m' [].
    + destruct (IH f Hf Hn) as (a & m0 & b & E & Hm0 & Hb & Hc).
      exists a, m0, (b ++ [m]). subst ms. rewrite <- app_assoc. repeat split; auto.
      intros m' Hin. apply in_app_or in Hin. destruct Hin as [Hin|[<-|[]]]; auto.
Qed.

(* ---------------------------------------------------------------- C02: missing values *)

Lemma clim_pt_missing ms t z : clim_pt ms None t z = MISSING.
Proof. reflexivity. Qed.

Lemma clim_pt_missing_iff ms x t z : clim_pt ms x t z = MISSING <-> x = None.
Proof.
  split; [|intros ->; reflexivity].
  destruct x as [v|]; [|reflexivity]. unfold clim_pt.
  destruct (olast (filter (matches t z) ms)) as [m|]; [|discriminate].
  intros H. pose proof (classify_evaluated m v) as N. rewrite H in N. discriminate.
Qed.

Lemma clim_spec_nth config xs ts zs i :
  (i < length xs)%nat ->
  nth i (flags_of (clim_spec config xs ts zs)) UNKNOWN =
  clim_pt (map add config) (getq xs i) (getz ts i) (getq zs i).
Proof. intros Hi. unfold clim_spec, flags_of. rewrite nth_tab by exact Hi. reflexivity. Qed.

Lemma clim_model_length config xs ts zs : length (flags_of (clim_spec config xs ts zs)) = length xs.
Proof. unfold clim_spec, flags_of. apply tab_length. Qed.

(* the code flags a point MISSING exactly when its value is missing *)
Theorem clim_model_missing config xs ts zs i :
  (i < length xs)%nat ->
  (nth i (flags_of (clim_model config xs ts zs)) UNKNOWN = MISSING <-> getq xs i = None).
Proof.
  intros Hi. rewrite clim_refines, clim_spec_nth by exact Hi. apply clim_pt_missing_iff.
Qed.

(* ... and never GOOD / SUSPECT / FAIL / UNKNOWN at a missing value *)
Corollary clim_model_missing_flag config xs ts zs i :
  (i < length xs)%nat -> getq xs i = None ->
  nth i (flags_of (clim_model config xs ts zs)) UNKNOWN = MISSING.
Proof. intros Hi H. apply clim_model_missing; assumption. Qed.

Lemma clim_model_nth config xs ts zs i :
  (i < length xs)%nat ->
  nth i (flags_of (clim_model config xs ts zs)) UNKNOWN =
  clim_pt (map add config) (getq xs i) (getz ts i) (getq zs i).
Proof. intros Hi. rewrite clim_refines. apply clim_spec_nth. exact Hi. Qed.

(* ---------------------------------------------------------------- C17: locality *)

(* the flag of point i depends on (value, time, depth) of point i only *)
Theorem clim_spec_local config xs ts zs xs' ts' zs' i :
  (i < length xs)%nat -> (i < length xs')%nat ->
  getq xs i = getq xs' i -> getz ts i = getz ts' i -> getq zs i = getq zs' i ->
  nth i (flags_of (clim_spec config xs ts zs)) UNKNOWN =
  nth i (flags_of (clim_spec config xs' ts' zs')) UNKNOWN.
Proof.
  intros Hi Hi' Ex Et Ez. rewrite !clim_spec_nth by assumption. rewrite Ex, Et, Ez. reflexivity.
Qed.

(* changing observation k changes no other flag of the code's result *)
Theorem clim_model_local config xs ts zs xs' ts' zs' k i :
  length xs = length xs' ->
  (forall j, j <> k -> getq xs j = getq xs' j /\ getz ts j = getz ts' j /\ getq zs j = getq zs' j) ->
  i <> k -> (i < length xs)%nat ->
  nth i (flags_of (clim_model config xs ts zs)) UNKNOWN =
  nth i (flags_of (clim_model config xs' ts' zs')) UNKNOWN.
Proof.
  intros Hl Hag Hik Hi. rewrite !clim_refines.
  destruct (Hag i Hik) as (Ex & Et & Ez).
  apply clim_spec_local; try assumption. rewrite <- Hl. exact Hi.
Qed.

(* ---------------------------------------------------------------- C17: joint time shift *)

(* shift the dates of an absolute member by c ns; periodic members are left alone *)
Definition shift_member (c : Z) (m : member) : member :=
  {| m_tspan := match m_tspan m with TAbs a b => TAbs (a + c) (b + c) | s => s end;
     m_fspan := m_fspan m; m_vspan := m_vspan m; m_zspan := m_zspan m |}.

Lemma add_shift c m : add (shift_member c m) = shift_member c (add m).
Proof.
  unfold add, shift_member. simpl. destruct (m_tspan m) as [a b|p a b].
  - rewrite Z.add_min_distr_r, Z.add_max_distr_r. reflexivity.
  - destruct (sort2 a b). reflexivity.
Qed.

Lemma matches_shift c m t z :
  m_period m = None -> matches (t + c) z (shift_member c m) = matches t z m.
Proof.
  unfold m_period, matches, tmatch, zmatch, shift_member. simpl.
  destruct (m_tspan m) as [a b|p a b]; [|discriminate]. intros _.
  f_equal. f_equal; [destruct (Z.leb_spec (a + c) (t + c)), (Z.leb_spec a t)
                    |destruct (Z.leb_spec (t + c) (b + c)), (Z.leb_spec t b)]; try reflexivity; lia.
Qed.

Lemma classify_shift c m v : classify (shift_member c m) v = classify m v.
Proof. reflexivity. Qed.

Lemma clim_pt_shift c ms x t z :
  (forall m, In m ms -> m_period m = None) ->
  clim_pt (map (shift_member c) ms) x (t + c) z = clim_pt ms x t z.
Proof.
  induction ms as [|m ms IH] using rev_ind; intros H; [reflexivity|].
  rewrite map_app. simpl map. rewrite !clim_pt_snoc.
  rewrite IH by (intros m' Hin; apply H; apply in_or_app; left; exact Hin).
  unfold spec_step. destruct x as [v|]; [|reflexivity].
  rewrite matches_shift by (apply H; apply in_or_app; right; left; reflexivity).
  reflexivity.
Qed.

Lemma add_period m : m_period (add m) = m_period m.
Proof.
  unfold m_period, add. simpl. destruct (m_tspan m) as [a b|p a b]; [reflexivity|].
  destruct (sort2 a b). reflexivity.
Qed.

Lemma getz_map_shift c ts i : (i < length ts)%nat -> getz (map (fun t => (t + c)%Z) ts) i = (getz ts i + c)%Z.
Proof.
  unfold getz. revert i. induction ts as [|a ts IH]; intros i Hi; simpl in Hi; [lia|].
  destruct i as [|i]; [reflexivity|]. simpl. apply IH. lia.
Qed.

(* shifting every observation time and every (absolute) member date by the same amount leaves
   all flags unchanged *)
Theorem clim_spec_shift c config xs ts zs :
  (forall m, In m config -> m_period m = None) -> length ts = length xs ->
  clim_spec (map (shift_member c) config) xs (map (fun t => (t + c)%Z) ts) zs = clim_spec config xs ts zs.
Proof.
  intros H Hl. unfold clim_spec. f_equal. apply tab_ext. intros i Hi.
  rewrite getz_map_shift by (rewrite Hl; exact Hi).
  rewrite map_map. rewrite (map_ext _ (fun m => shift_member c (add m))) by (intros; apply add_shift).
  rewrite <- map_map. apply clim_pt_shift.
  intros m Hin. apply in_map_iff in Hin. destruct Hin as [m0 [<- Hin0]].
  rewrite add_period. apply H. exact Hin0.
Qed.

(* the same for the code *)
Theorem clim_model_shift c config xs ts zs :
  (forall m, In m config -> m_period m = None) -> length ts = length xs ->
  clim_model (map (shift_member c) config) xs (map (fun t => (t + c)%Z) ts) zs = clim_model config xs ts zs.
Proof. intros H Hl. rewrite !clim_refines. apply clim_spec_shift; assumption. Qed.

(* periodic members are of course not shift invariant: one day later is another day of the year *)
Lemma clim_shift_periodic_refuted :
  let cfg := [mk_member (TPer PDayOfYear 61 61) None (2, 8) None] in
  clim_spec cfg [Some 5] [T_MAR1] [None] = Flags [GOOD] /\
  clim_spec (map (shift_member DAY_NS) cfg) [Some 5] [(T_MAR1 + DAY_NS)%Z] [None] = Flags [UNKNOWN].
Proof. vm_compute. split; reflexivity. Qed.

(* ---------------------------------------------------------------- examples *)

(* overlapping members: the later one decides; depth spans select; UNKNOWN outside every member;
   a missing value is MISSING *)
Example clim_ex1 :
  clim_model
    [mk_member (TAbs T_JAN15 T_MAR1) (Some (0, 20)) (5, 15) None;
     mk_member (TPer PMonth 3 2) None (8, 2) (Some (10, 0))]
    [Some 1; Some 1; Some 16; Some 21; None; Some 5]
    [T_JAN15; T_JAN15; T_MAR1; T_MAR1; T_MAR1; (T_MAR1 + 1)%Z]
    [Some 20; Some 10; Some 11; Some 11; Some 11; Some 11]
  = Flags [SUSPECT; SUSPECT; SUSPECT; FAIL; MISSING; UNKNOWN].
Proof. vm_compute. reflexivity. Qed.
