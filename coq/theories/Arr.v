(* Arr.v — the ARRAY PROGRAM of a QC test as data, and its meaning.

   tools/gen_consts.py translates, on every run, the statements of a test function that compute its
   intermediate float arrays
       ref = np.ma.zeros(inp.size, dtype=np.float64)
       ref[1:-1] = (inp[0:-2] + inp[2:]) / 2
       diff = np.abs(inp - ref)
       diff[1:-1][ref[:-1] * ref[1:] >= 0] = 0
       roc[1:] = np.abs(np.diff(inp) / np.diff(tinp).astype("timedelta64[s]").astype(float))
   into a `list astmt` (Generated.prog_<function>), each statement with the tests of its enclosing `if`s.
   `run_prog` below gives the list its numpy meaning.  An array is a length and an index function
   (missing / masked = None); slices are index shifts, so that the theorems of ArrP_*.v reduce to
   pointwise index reasoning.  Evaluation returns None where numpy would raise (unknown name, operands of
   different lengths, a slice assignment of the wrong length). *)
From IoosQc Require Import Base Skel.
From Coq Require Import String.
Local Notation length := List.length.
Open Scope string_scope.

Definition arr := (nat * (nat -> obs))%type.
Definition alen (a : arr) : nat := fst a.
Definition aget (a : arr) : nat -> obs := snd a.
Definition to_list (a : arr) : list obs := tab (alen a) (aget a).
Definition of_list (l : list obs) : arr := (length l, getq l).

(* a slice bound: k from the start, or k from the end (python -k) *)
Inductive sbound := FromStart (k : nat) | FromEnd (k : nat).

Definition norm (n : nat) (b : sbound) : nat :=
  match b with FromStart k => Nat.min k n | FromEnd k => (n - k)%nat end.

Definition slice_lo (n : nat) (lo : option sbound) : nat := match lo with Some b => norm n b | None => 0%nat end.
Definition slice_hi (n : nat) (hi : option sbound) : nat := match hi with Some b => norm n b | None => n end.

Inductive aexp :=
  | AVar (s : string)
  | AZeros                                        (* np.ma.zeros(<array>.size, ...): as long as the input *)
  | ASl (lo hi : option sbound) (a : aexp)        (* a[lo:hi] *)
  | ABin (op : string) (a b : aexp)               (* "+" "-" "*" "/" "minimum", elementwise *)
  | ABinC (op : string) (a : aexp) (q : Q)        (* array <op> scalar *)
  | AUn (f : string) (a : aexp)                   (* "abs" "sign" "diff" "masked_invalid" *)
  | ADiffSecs (t : string).                       (* np.diff(t).astype("timedelta64[s]").astype(float) *)

(* condition of a masked where-assignment: <array expression> <op> <number> *)
Inductive acond := ACmp (op : string) (a : aexp) (q : Q).

Inductive astmt :=
  | AAssign (gs : list sexp) (x : string) (e : aexp)                               (* x = e *)
  | ASetSl (gs : list sexp) (x : string) (lo hi : option sbound) (e : aexp)         (* x[lo:hi] = e *)
  | ASetSlWhere (gs : list sexp) (x : string) (lo hi : option sbound) (c : acond) (q : Q).
                                                                                    (* x[lo:hi][c] = q *)

Definition store := string -> option arr.
Definition upd (st : store) (x : string) (a : arr) : store := fun y => if String.eqb y x then Some a else st y.

(* scalar operations; a division whose divisor is 0 is masked (numpy.ma's domain check) *)
Definition bin_q (op : string) (a b : Q) : obs :=
  if String.eqb op "+" then Some (a + b) else
  if String.eqb op "-" then Some (a - b) else
  if String.eqb op "*" then Some (a * b) else
  if String.eqb op "/" then (if Qeqb b 0 then None else Some (a / b)) else
  if String.eqb op "minimum" then Some (qmin a b) else None.

Definition bin_o (op : string) (x y : obs) : obs :=
  match x, y with Some a, Some b => bin_q op a b | _, _ => None end.

Definition un_q (f : string) (a : Q) : obs :=
  if String.eqb f "abs" then Some (qabs a) else
  if String.eqb f "sign" then Some (qsign a) else
  if String.eqb f "masked_invalid" then Some a else None.       (* a rational is never NaN / inf *)

Definition un_o (f : string) (x : obs) : obs := match x with Some a => un_q f a | None => None end.

Section Eval.
  Variable n : nat.                               (* size of the flattened input *)
  Variable tim : string -> option (list Z).       (* the time arrays in scope (ns) *)

  (* whole seconds between consecutive instants: timedelta64[ns] -> [s] *)
  Definition diff_secs (ts : list Z) : arr :=
    ((length ts - 1)%nat, fun i => Some (inject_Z (secs (getz ts (S i) - getz ts i)))).

  Fixpoint eval (st : store) (e : aexp) : option arr :=
    match e with
    | AVar s => st s
    | AZeros => Some (n, fun _ => Some 0)
    | ASl lo hi a =>
        match eval st a with
        | Some (m, f) => let l := slice_lo m lo in Some ((slice_hi m hi - l)%nat, fun i => f (i + l)%nat)
        | None => None
        end
    | ABin op a b =>
        match eval st a, eval st b with
        | Some (m1, f1), Some (m2, f2) =>
            if Nat.eqb m1 m2 then Some (m1, fun i => bin_o op (f1 i) (f2 i)) else None
        | _, _ => None
        end
    | ABinC op a q =>
        match eval st a with
        | Some (m, f) => Some (m, fun i => bin_o op (f i) (Some q))
        | None => None
        end
    | AUn f a =>
        match eval st a with
        | Some (m, g) =>
            if String.eqb f "diff" then Some ((m - 1)%nat, fun i => bin_o "-" (g (S i)) (g i))
            else Some (m, fun i => un_o f (g i))
        | None => None
        end
    | ADiffSecs t => match tim t with Some ts => Some (diff_secs ts) | None => None end
    end.

  Definition eval_c (st : store) (c : acond) : option (nat * (nat -> bool)) :=
    match c with
    | ACmp op a q =>
        match eval st a with
        | Some (m, f) => Some (m, fun i => otest (fun v => cmp_q op v q) (f i))      (* False where masked *)
        | None => None
        end
    end.

  Definition in_slice (l h i : nat) : bool := (Nat.leb l i && Nat.ltb i h)%bool.

  Variable en : env.                              (* for the guards *)

  Definition run_stmt (ost : option store) (s : astmt) : option store :=
    match ost with
    | None => None
    | Some st =>
        match s with
        | AAssign gs x e =>
            if guards_hold en gs then match eval st e with Some a => Some (upd st x a) | None => None end
            else Some st
        | ASetSl gs x lo hi e =>
            if guards_hold en gs then
              match st x, eval st e with
              | Some (m, f), Some (k, g) =>
                  let l := slice_lo m lo in let h := slice_hi m hi in
                  if Nat.eqb k (h - l) then Some (upd st x (m, fun i => if in_slice l h i then g (i - l)%nat else f i))
                  else None
              | _, _ => None
              end
            else Some st
        | ASetSlWhere gs x lo hi c q =>
            if guards_hold en gs then
              match st x, eval_c st c with
              | Some (m, f), Some (k, b) =>
                  let l := slice_lo m lo in let h := slice_hi m hi in
                  if Nat.eqb k (h - l)
                  then Some (upd st x (m, fun i => if (in_slice l h i && b (i - l)%nat)%bool then Some q else f i))
                  else None
              | _, _ => None
              end
            else Some st
        end
    end.

  Definition run_prog (prog : list astmt) (st : store) : option store := fold_left run_stmt prog (Some st).
End Eval.

(* the arrays of a final store, as the environment of the flag skeleton *)
Definition store_arr (st : store) (s : string) : option (list obs) :=
  match st s with Some a => Some (to_list a) | None => None end.
