(* ConfigProofs.v — configuration parsing: the four layouts of a well-formed configuration mean the
   same calls (under the hypotheses the layout heuristic forces), unknown modules / tests are
   skipped, one call per configured (stream, module, test), the per-variable xarray form, carriers. *)
From Coq Require Import String Permutation.
From IoosQc Require Import Base Generated Config.
Local Notation length := List.length.
Open Scope string_scope.
Open Scope list_scope.
Set Default Proof Using "Type".

(* ---------------------------------------------------------------- induction on configuration trees *)

Section CfgInd.
  Variable P : cfg -> Prop.
  Hypothesis Hnull : P CNull.
  Hypothesis Hbool : forall b, P (CBool b).
  Hypothesis Hnum : forall q, P (CNum q).
  Hypothesis Hstr : forall s, P (CStr s).
  Hypothesis Hlist : forall l, Forall P l -> P (CList l).
  Hypothesis Hdict : forall l, Forall (fun kv => P (snd kv)) l -> P (CDict l).

  Fixpoint cfg_ind' (c : cfg) : P c :=
    match c with
    | CNull => Hnull
    | CBool b => Hbool b
    | CNum q => Hnum q
    | CStr s => Hstr s
    | CList l =>
        Hlist l ((fix go (l : list cfg) : Forall P l :=
                    match l with
                    | [] => Forall_nil P
                    | x :: r => Forall_cons x (cfg_ind' x) (go r)
                    end) l)
    | CDict l =>
        Hdict l ((fix go (l : list (string * cfg)) : Forall (fun kv => P (snd kv)) l :=
                    match l with
                    | [] => Forall_nil _
                    | kv :: r => Forall_cons kv (cfg_ind' (snd kv)) (go r)
                    end) l)
    end.
End CfgInd.

(* ---------------------------------------------------------------- dict_depth *)

Lemma dict_depth_CDict l : dict_depth (CDict l) = S (depth_vals l).
Proof.
  reflexivity.
Qed.

Lemma is_dict_depth c : is_dict c = true <-> (1 <= dict_depth c)%nat.
Proof.
  destruct c; simpl; split; intros H; try discriminate; try lia; reflexivity.
Qed.

Lemma is_dict_false_depth c : is_dict c = false <-> dict_depth c = 0%nat.
Proof.
  destruct c; simpl; split; intros H; try discriminate; try lia; reflexivity.
Qed.

Lemma depth_vals_ge n l :
  (S n <= depth_vals l)%nat <-> exists k v, In (k, v) l /\ (S n <= dict_depth v)%nat.
Proof.
  induction l as [|[k v] r IH]; simpl.
  - split; [lia|intros (k & v & [] & _)].
  - split.
    + intros H. destruct (Nat.max_spec (dict_depth v) (depth_vals r)) as [[_ E]|[_ E]]; rewrite E in H.
      * apply IH in H. destruct H as (k' & v' & Hin & Hd). exists k', v'. auto.
      * exists k, v. auto.
    + intros (k' & v' & [E|Hin] & Hd).
      * injection E as <- <-. lia.
      * assert (S n <= depth_vals r)%nat by (apply IH; eauto). lia.
Qed.

Lemma depth_vals_le n l :
  (depth_vals l <= n)%nat <-> forall k v, In (k, v) l -> (dict_depth v <= n)%nat.
Proof.
  induction l as [|[k v] r IH]; simpl.
  - split; [intros _ k v []|lia].
  - split.
    + intros H k' v' [E|Hin].
      * injection E as <- <-. lia.
      * apply (proj1 IH) with (k := k'); [lia|exact Hin].
    + intros H. assert (dict_depth v <= n)%nat by (apply (H k); auto).
      assert (depth_vals r <= n)%nat by (apply IH; intros; eapply H; eauto). lia.
Qed.

(* ---------------------------------------------------------------- association lists *)

Section AssocFacts.
  Context {V : Type}.
  Implicit Types l : list (string * V).

  Lemma lookup_In k l v : lookup k l = Some v -> In (k, v) l.
  Proof.
    induction l as [|[k' v'] r IH]; simpl; [discriminate|].
    destruct (String.eqb_spec k' k); [intros E; injection E as <-; subst; auto|auto].
  Qed.

  Lemma lookup_None k l : lookup k l = None <-> ~ In k (map fst l).
  Proof.
    induction l as [|[k' v'] r IH]; simpl; [tauto|].
    destruct (String.eqb_spec k' k); [split; [discriminate|intros H; exfalso; auto]|].
    rewrite IH. tauto.
  Qed.

  Lemma has_key_false k l : has_key k l = false <-> ~ In k (map fst l).
  Proof.
    unfold has_key, is_some, is_none. rewrite <- lookup_None.
    destruct (lookup k l); simpl; split; congruence.
  Qed.

  Lemma aset_fresh k v l : ~ In k (map fst l) -> aset k v l = l ++ [(k, v)].
  Proof.
    induction l as [|[k' v'] r IH]; simpl; [reflexivity|]. intros H.
    destruct (String.eqb_spec k' k); [exfalso; auto|]. rewrite IH by tauto. reflexivity.
  Qed.

  Lemma keys_aset k v l k0 : In k0 (map fst (aset k v l)) -> k0 = k \/ In k0 (map fst l).
  Proof.
    induction l as [|[k' v'] r IH]; simpl; [intuition auto|].
    destruct (String.eqb_spec k' k); simpl; [tauto|]. intros [H|H]; [tauto|]. apply IH in H. tauto.
  Qed.
End AssocFacts.

Lemma lookup_map {A B} (f : A -> B) k (l : list (string * A)) :
  lookup k (map (fun p => (fst p, f (snd p))) l) = option_map f (lookup k l).
Proof.
  induction l as [|[k' v'] r IH]; simpl; [reflexivity|]. destruct (String.eqb k' k); auto.
Qed.

Lemma aset_map {A B} (f : A -> B) k v (l : list (string * A)) :
  aset k (f v) (map (fun p => (fst p, f (snd p))) l) = map (fun p => (fst p, f (snd p))) (aset k v l).
Proof.
  induction l as [|[k' v'] r IH]; simpl; [reflexivity|]. destruct (String.eqb k' k); simpl; [reflexivity|].
  rewrite IH. reflexivity.
Qed.

Lemma keys_map {A B} (f : A -> B) (l : list (string * A)) :
  map fst (map (fun p => (fst p, f (snd p))) l) = map fst l.
Proof. rewrite map_map. reflexivity. Qed.

(* ---------------------------------------------------------------- flat_map / filter *)

Lemma flat_map_map {A B C} (f : B -> list C) (g : A -> B) l :
  flat_map f (map g l) = flat_map (fun x => f (g x)) l.
Proof. induction l; simpl; congruence. Qed.

Lemma map_filter_flat_map {A B C} (f : B -> C) (p : B -> bool) (g : A -> list B) l :
  map f (filter p (flat_map g l)) = flat_map (fun x => map f (filter p (g x))) l.
Proof.
  induction l as [|x r IH]; simpl; [reflexivity|].
  rewrite filter_app, map_app, IH. reflexivity.
Qed.

Lemma flat_map_single {A B} (f : A -> B) (p : A -> bool) l :
  flat_map (fun x => if p x then [f x] else []) l = map f (filter p l).
Proof.
  induction l as [|x r IH]; simpl; [reflexivity|]. destruct (p x); simpl; rewrite IH; reflexivity.
Qed.

Lemma filter_map_comm {A B} (f : A -> B) (p : B -> bool) l :
  filter p (map f l) = map f (filter (fun x => p (f x)) l).
Proof.
  induction l as [|x r IH]; simpl; [reflexivity|]. destruct (p (f x)); simpl; rewrite IH; reflexivity.
Qed.

Lemma NoDup_app_intro {A} (l1 l2 : list A) :
  NoDup l1 -> NoDup l2 -> (forall x, In x l1 -> In x l2 -> False) -> NoDup (l1 ++ l2).
Proof.
  induction l1 as [|a r IH]; simpl; intros H1 H2 Hd; [exact H2|].
  inversion H1 as [|? ? Hn Hr]; subst. constructor.
  - intros Hin. apply in_app_or in Hin. destruct Hin as [Hin|Hin]; [auto|]. apply (Hd a); auto.
  - apply IH; auto. intros x Hx. apply Hd. auto.
Qed.

Lemma NoDup_map_filter {A B} (f : A -> B) (p : A -> bool) l :
  NoDup (map f l) -> NoDup (map f (filter p l)).
Proof.
  induction l as [|x r IH]; simpl; [auto|]. intros H. inversion H as [|? ? Hn Hr]; subst.
  destruct (p x); simpl; [|auto]. constructor; [|auto].
  intros Hin. apply Hn. apply in_map_iff in Hin. destruct Hin as (y & E & Hy).
  apply filter_In in Hy. apply in_map_iff. exists y. tauto.
Qed.

Lemma Permutation_filter {A} (p : A -> bool) l l' :
  Permutation l l' -> Permutation (filter p l) (filter p l').
Proof.
  induction 1; simpl.
  - constructor.
  - destruct (p x); [constructor|]; assumption.
  - destruct (p x), (p y); try (constructor; fail); try apply Permutation_refl;
      repeat constructor; apply Permutation_refl.
  - eapply Permutation_trans; eassumption.
Qed.

(* ================================================================ the model on the spellings *)

Section Layouts.
  Variable known : string -> string -> bool.
  Variable ds : string.                      (* default_stream_key *)

  Notation context_calls := (context_calls known).
  Notation config_calls := (config_calls known ds).
  Notation ctx_calls := (ctx_calls known).
  Notation calls_of := (calls_of known).
  Notation entry_known := (entry_known known).

  (* the three nested loops over an embedded stream mapping yield one call per known entry *)
  Lemma stream_calls_emb win reg (ss : wstreams) :
    flat_map (stream_calls known win reg) (items (emb_streams ss))
    = map (mk_call win reg) (filter entry_known (entries ss)).
  Proof.
    unfold emb_streams, entries. simpl items. rewrite flat_map_map, map_filter_flat_map.
    apply flat_map_ext. intros [sid mods]. unfold stream_calls, emb_mods. simpl.
    rewrite flat_map_map, map_filter_flat_map. apply flat_map_ext. intros [pkg ts].
    unfold pkg_calls. simpl. unfold test_calls.
    rewrite (flat_map_single (fun tk => mk_call win reg (sid, pkg, fst tk, snd tk))
                             (fun tk => known pkg (fst tk))).
    rewrite filter_map_comm, map_map. reflexivity.
  Qed.

  Definition region_supported (r : wregion) : Prop :=
    match r with RBare _ => False | _ => True end.

  Lemma lookup_streams_spell ww r x :
    lookup "streams" (spell_window ww ++ spell_region r ++ [("streams", x)]) = Some x.
  Proof. destruct ww as [[s e]|], r; reflexivity. Qed.

  Lemma parse_window_spell ww r x :
    parse_window (spell_window ww ++ spell_region r ++ [("streams", x)]) = window_meaning ww.
  Proof. destruct ww as [[s e]|], r; reflexivity. Qed.

  Lemma map_geometry_feature gs : map (get "geometry") (map feature_of gs) = gs.
  Proof. induction gs as [|g r IH]; simpl; [reflexivity|]. rewrite IH. reflexivity. Qed.

  Lemma parse_region_spell ww r x :
    region_supported r ->
    parse_region (spell_window ww ++ spell_region r ++ [("streams", x)]) = region_meaning r.
  Proof.
    intros Hr. destruct r as [|gs|g|g]; try contradiction; destruct ww as [[s e]|]; try reflexivity.
    - unfold parse_region. simpl. rewrite map_geometry_feature. reflexivity.
    - unfold parse_region. simpl. rewrite map_geometry_feature. reflexivity.
  Qed.

  (* ContextConfig on a spelled context *)
  Lemma context_calls_spell w :
    region_supported (w_region w) -> context_calls (spell_ctx w) = ctx_calls w.
  Proof.
    intros Hr. unfold Config.context_calls, spell_ctx, Config.ctx_calls. simpl items.
    rewrite lookup_streams_spell, parse_window_spell, parse_region_spell by exact Hr.
    apply stream_calls_emb.
  Qed.

  Lemma has_contexts_spell_ctx w : has_key key_contexts (items (spell_ctx w)) = false.
  Proof. unfold spell_ctx. simpl items. destruct (w_window w) as [[s e]|], (w_region w); reflexivity. Qed.

  Lemma has_streams_spell_ctx w : has_key key_streams (items (spell_ctx w)) = true.
  Proof. unfold spell_ctx. simpl items. destruct (w_window w) as [[s e]|], (w_region w); reflexivity. Qed.

  (* ---------------------------------------------------------------- layout 1: list of contexts *)

  Theorem layout_contexts W :
    Forall (fun w => region_supported (w_region w)) W ->
    config_calls (spell_contexts W) = calls_of W.
  Proof.
    intros H. unfold Config.config_calls, spell_contexts, Config.calls_of.
    change (has_key key_contexts (items (CDict [("contexts", CList (map spell_ctx W))]))) with true.
    change (get key_contexts (CDict [("contexts", CList (map spell_ctx W))])) with (CList (map spell_ctx W)).
    cbv iota. rewrite flat_map_map.
    induction H as [|w W' Hw HW IH]; simpl; [reflexivity|].
    rewrite context_calls_spell by exact Hw. f_equal. exact IH.
  Qed.

  (* ---------------------------------------------------------------- layout 2: one context with "streams" *)

  Theorem layout_streams w :
    region_supported (w_region w) ->
    config_calls (spell_streams w) = calls_of [w].
  Proof.
    intros H. unfold Config.config_calls, spell_streams.
    rewrite has_contexts_spell_ctx, has_streams_spell_ctx.
    rewrite context_calls_spell by exact H. unfold Config.calls_of. simpl. rewrite app_nil_r. reflexivity.
  Qed.

  (* ---------------------------------------------------------------- layout 3: bare stream mapping *)

  (* the layout heuristic reads a bare mapping as stream mapping iff its dict_depth reaches the
     threshold, i.e. iff SOME test's parameters are written as a mapping (an empty one counts) *)
  Definition H_depth_streams (ss : wstreams) : Prop :=
    exists sid mods pkg ts t kw,
      In (sid, mods) ss /\ In (pkg, ts) mods /\ In (t, kw) ts /\ is_dict kw = true.

  Lemma depth_map_ge {A} (f : A -> cfg) n (l : list (string * A)) :
    (S n <= depth_vals (map (fun p => (fst p, f (snd p))) l))%nat
    <-> exists k a, In (k, a) l /\ (S n <= dict_depth (f a))%nat.
  Proof.
    rewrite depth_vals_ge. split.
    - intros (k & v & Hin & Hd). apply in_map_iff in Hin. destruct Hin as ([k' a] & E & Hin).
      simpl in E. injection E as <- <-. exists k', a. auto.
    - intros (k & a & Hin & Hd). exists k, (f a). split; [|exact Hd].
      apply in_map_iff. exists (k, a). auto.
  Qed.

  Lemma depth_map_le {A} (f : A -> cfg) n (l : list (string * A)) :
    (depth_vals (map (fun p => (fst p, f (snd p))) l) <= n)%nat
    <-> forall k a, In (k, a) l -> (dict_depth (f a) <= n)%nat.
  Proof.
    rewrite depth_vals_le. split.
    - intros H k a Hin. apply (H k). apply in_map_iff. exists (k, a). auto.
    - intros H k v Hin. apply in_map_iff in Hin. destruct Hin as ([k' a] & E & Hin).
      simpl in E. injection E as <- <-. eapply H; eauto.
  Qed.

  Lemma depth_streams_iff ss :
    (depth_threshold <= dict_depth (emb_streams ss))%nat <-> H_depth_streams ss.
  Proof.
    unfold depth_threshold, emb_streams. rewrite dict_depth_CDict. split.
    - intros H.
      assert (H1 : (S 2 <= depth_vals (map (fun s => (fst s, emb_mods (snd s))) ss))%nat) by lia.
      apply depth_map_ge in H1. destruct H1 as (sid & mods & Hs & Hd).
      unfold emb_mods in Hd. rewrite dict_depth_CDict in Hd.
      assert (H2 : (S 1 <= depth_vals (map (fun pm => (fst pm, CDict (snd pm))) mods))%nat) by lia.
      apply (depth_map_ge (fun ts => CDict ts)) in H2. destruct H2 as (pkg & ts & Hm & Hd2).
      rewrite dict_depth_CDict in Hd2.
      assert (H3 : (S 0 <= depth_vals ts)%nat) by lia.
      apply depth_vals_ge in H3. destruct H3 as (t & kw & Ht & Hk).
      exists sid, mods, pkg, ts, t, kw. repeat split; auto. apply is_dict_depth. exact Hk.
    - intros (sid & mods & pkg & ts & t & kw & Hs & Hm & Ht & Hk). apply is_dict_depth in Hk.
      assert (H3 : (S 0 <= depth_vals ts)%nat) by (apply depth_vals_ge; eauto).
      assert (H2 : (S 1 <= depth_vals (map (fun pm => (fst pm, CDict (snd pm))) mods))%nat).
      { apply (depth_map_ge (fun ts => CDict ts)). exists pkg, ts. split; [exact Hm|].
        rewrite dict_depth_CDict. lia. }
      assert (H1 : (S 2 <= depth_vals (map (fun s => (fst s, emb_mods (snd s))) ss))%nat).
      { apply depth_map_ge. exists sid, mods. split; [exact Hs|].
        unfold emb_mods. rewrite dict_depth_CDict. lia. }
      lia.
  Qed.

  Lemma context_calls_bare x :
    context_calls (CDict [(key_streams, x)]) = flat_map (stream_calls known (CNull, CNull) CNull) (items x).
  Proof. reflexivity. Qed.

  Lemma has_key_emb_streams k ss :
    ~ In k (map fst ss) -> has_key k (items (emb_streams ss)) = false.
  Proof. intros H. apply has_key_false. unfold emb_streams. simpl items. rewrite keys_map. exact H. Qed.

  Lemma has_key_emb_mods k mods :
    ~ In k (map fst mods) -> has_key k (items (emb_mods mods)) = false.
  Proof. intros H. apply has_key_false. unfold emb_mods. simpl items. rewrite keys_map. exact H. Qed.

  Lemma ctx_calls_plain w :
    w_window w = None -> w_region w = RNone ->
    calls_of [w] = map (mk_call (CNull, CNull) CNull) (filter entry_known (entries (w_streams w))).
  Proof.
    intros Hw Hr. unfold Config.calls_of, Config.ctx_calls. simpl. rewrite app_nil_r, Hw, Hr. reflexivity.
  Qed.

  (* FULL STATEMENT (refuted by layout_bare_streams_refuted): without H_depth_streams.
     A stream id literally named "contexts" or "streams" is outside the property. *)
  Theorem layout_bare_streams w :
    w_window w = None -> w_region w = RNone ->
    ~ In "contexts" (map fst (w_streams w)) -> ~ In "streams" (map fst (w_streams w)) ->
    H_depth_streams (w_streams w) ->
    config_calls (spell_bare_streams w) = calls_of [w].
  Proof.
    intros Hw Hr Hc Hs Hd. unfold Config.config_calls, spell_bare_streams.
    change key_contexts with "contexts". rewrite (has_key_emb_streams _ _ Hc).
    change key_streams with "streams". rewrite (has_key_emb_streams _ _ Hs).
    apply depth_streams_iff in Hd. apply Nat.leb_le in Hd. rewrite Hd.
    change "streams" with key_streams. rewrite context_calls_bare, stream_calls_emb.
    rewrite ctx_calls_plain by assumption. reflexivity.
  Qed.

  (* what the code does instead when no test has a parameter mapping: the stream mapping is read as
     a module mapping of the default stream (stream ids taken for module names) *)
  Theorem layout_bare_streams_shallow w :
    ~ In "contexts" (map fst (w_streams w)) -> ~ In "streams" (map fst (w_streams w)) ->
    ~ H_depth_streams (w_streams w) ->
    config_calls (spell_bare_streams w)
    = flat_map (pkg_calls known (CNull, CNull) CNull ds) (items (emb_streams (w_streams w))).
  Proof.
    intros Hc Hs Hd. unfold Config.config_calls, spell_bare_streams.
    change key_contexts with "contexts". rewrite (has_key_emb_streams _ _ Hc).
    change key_streams with "streams". rewrite (has_key_emb_streams _ _ Hs).
    destruct (Nat.leb_spec depth_threshold (dict_depth (emb_streams (w_streams w)))) as [H|H].
    - exfalso. apply Hd. apply depth_streams_iff. exact H.
    - change "streams" with key_streams. rewrite context_calls_bare. simpl. rewrite app_nil_r. reflexivity.
  Qed.

  (* ---------------------------------------------------------------- layout 4: bare module mapping *)

  (* ... and as a module mapping iff NO parameter value of any test is itself a mapping (mappings
     inside lists do not count) *)
  Definition H_depth_module (mods : wmods) : Prop :=
    forall pkg ts t kw p v,
      In (pkg, ts) mods -> In (t, kw) ts -> In (p, v) (items kw) -> is_dict v = false.

  Lemma dict_depth_le1 kw :
    (dict_depth kw <= 1)%nat <-> forall p v, In (p, v) (items kw) -> is_dict v = false.
  Proof.
    destruct kw; try (simpl; split; [intros _ p v []|intros _; lia]).
    rewrite dict_depth_CDict. simpl items. split.
    - intros H p v Hin. apply is_dict_false_depth.
      assert (H0 : (depth_vals l <= 0)%nat) by lia.
      pose proof (proj1 (depth_vals_le 0 l) H0 p v Hin). lia.
    - intros H. assert (H0 : (depth_vals l <= 0)%nat).
      { apply depth_vals_le. intros p v Hin. apply H in Hin. apply is_dict_false_depth in Hin. lia. }
      lia.
  Qed.

  Lemma depth_module_iff mods :
    (dict_depth (emb_mods mods) < depth_threshold)%nat <-> H_depth_module mods.
  Proof.
    unfold depth_threshold, emb_mods. rewrite dict_depth_CDict. split.
    - intros H pkg ts t kw p v Hm Ht Hp.
      assert (H1 : (depth_vals (map (fun pm => (fst pm, CDict (snd pm))) mods) <= 2)%nat) by lia.
      pose proof (proj1 (depth_map_le (fun ts => CDict ts) 2 mods) H1 pkg ts Hm) as H2.
      rewrite dict_depth_CDict in H2.
      assert (H3 : (depth_vals ts <= 1)%nat) by lia.
      pose proof (proj1 (depth_vals_le 1 ts) H3 t kw Ht) as H4.
      exact (proj1 (dict_depth_le1 kw) H4 p v Hp).
    - intros H.
      assert (H1 : (depth_vals (map (fun pm => (fst pm, CDict (snd pm))) mods) <= 2)%nat).
      { apply (depth_map_le (fun ts => CDict ts)). intros pkg ts Hm. rewrite dict_depth_CDict.
        assert (H3 : (depth_vals ts <= 1)%nat).
        { apply depth_vals_le. intros t kw Ht. apply dict_depth_le1. intros p v Hp. eapply H; eauto. }
        lia. }
      lia.
  Qed.

  (* FULL STATEMENT (refuted by layout_bare_module_refuted): without H_depth_module. *)
  Theorem layout_bare_module w mods :
    w_window w = None -> w_region w = RNone -> w_streams w = [(ds, mods)] ->
    ~ In "contexts" (map fst mods) -> ~ In "streams" (map fst mods) ->
    H_depth_module mods ->
    config_calls (spell_bare_module w) = calls_of [w].
  Proof.
    intros Hw Hr Hss Hc Hs Hd. unfold Config.config_calls, spell_bare_module. rewrite Hss.
    change key_contexts with "contexts". rewrite (has_key_emb_mods _ _ Hc).
    change key_streams with "streams". rewrite (has_key_emb_mods _ _ Hs).
    apply depth_module_iff in Hd. apply Nat.leb_gt in Hd. rewrite Hd.
    change (CDict [(ds, emb_mods mods)]) with (emb_streams [(ds, mods)]).
    change "streams" with key_streams. rewrite context_calls_bare, stream_calls_emb.
    rewrite ctx_calls_plain by assumption. rewrite Hss. reflexivity.
  Qed.

  (* what the code does instead: the module mapping is read as a stream mapping (module names taken
     for stream ids, test names for module names) *)
  Theorem layout_bare_module_deep w mods :
    w_streams w = [(ds, mods)] ->
    ~ In "contexts" (map fst mods) -> ~ In "streams" (map fst mods) ->
    ~ H_depth_module mods ->
    config_calls (spell_bare_module w)
    = flat_map (stream_calls known (CNull, CNull) CNull) (items (emb_mods mods)).
  Proof.
    intros Hss Hc Hs Hd. unfold Config.config_calls, spell_bare_module. rewrite Hss.
    change key_contexts with "contexts". rewrite (has_key_emb_mods _ _ Hc).
    change key_streams with "streams". rewrite (has_key_emb_mods _ _ Hs).
    destruct (Nat.leb_spec depth_threshold (dict_depth (emb_mods mods))) as [H|H].
    - change "streams" with key_streams. rewrite context_calls_bare. reflexivity.
    - exfalso. apply Hd. apply depth_module_iff. exact H.
  Qed.

End Layouts.

(* ================================================================ refutations of the full statements *)

Definition w_refute_streams : wctx :=
  {| w_window := None; w_region := RNone;
     w_streams := [("v1", [("argo", [("pressure_increasing_test", CNull)])])] |}.

(* {v1: {argo: {pressure_increasing_test: null}}} : depth 3, read as a module mapping -> no call *)
Theorem layout_bare_streams_refuted :
  exists w,
    w_window w = None /\ w_region w = RNone /\
    ~ In "contexts" (map fst (w_streams w)) /\ ~ In "streams" (map fst (w_streams w)) /\
    config_calls real_known "_stream" (spell_bare_streams w) = [] /\
    calls_of real_known [w]
    = [ {| k_stream := "v1"; k_module := "argo"; k_test := "pressure_increasing_test";
           k_kwargs := CDict []; k_window := (CNull, CNull); k_region := CNull |} ].
Proof.
  exists w_refute_streams. repeat split; try (simpl; intros [H|[]]; discriminate H).
Qed.

Definition w_refute_module : wctx :=
  {| w_window := None; w_region := RNone;
     w_streams := [("_stream", [("qartod", [("climatology_test",
        CDict [("config", CDict [("vspan", CList [CNum 1; CNum 2]); ("tspan", CList [CNum 0; CNum 3])])])])])] |}.

(* {qartod: {climatology_test: {config: {vspan: [1, 2], tspan: [0, 3]}}}} : depth 4, read as a
   stream mapping (stream "qartod", module "climatology_test") -> no call *)
Theorem layout_bare_module_refuted :
  exists w mods,
    w_window w = None /\ w_region w = RNone /\ w_streams w = [("_stream", mods)] /\
    ~ In "contexts" (map fst mods) /\ ~ In "streams" (map fst mods) /\
    config_calls real_known "_stream" (spell_bare_module w) = [] /\
    List.length (calls_of real_known [w]) = 1%nat.
Proof.
  exists w_refute_module. eexists. repeat split; try (simpl; intros [H|[]]; discriminate H).
Qed.

(* a region given as a bare GeoJSON geometry object is ignored (the call has no region) *)
Theorem layout_region_bare_refuted :
  exists w,
    map k_region (config_calls real_known "_stream" (spell_streams w)) = [CNull] /\
    map k_region (calls_of real_known [w]) = [region_meaning (w_region w)] /\
    region_meaning (w_region w) <> CNull.
Proof.
  exists {| w_window := None;
            w_region := RBare (CDict [("type", CStr "Point"); ("coordinates", CList [CNum 1; CNum 2])]);
            w_streams := [("v1", [("argo", [("pressure_increasing_test", CNull)])])] |}.
  repeat split. simpl. discriminate.
Qed.

(* ================================================================ unknown modules / tests, one call per entry *)

Lemma entries_app ss1 ss2 : entries (ss1 ++ ss2) = entries ss1 ++ entries ss2.
Proof. unfold entries. apply flat_map_app. Qed.

Definition mod_entries (sid : string) (pm : string * wtests) : list (string * string * string * cfg) :=
  map (fun tk => (sid, fst pm, fst tk, snd tk)) (snd pm).

Lemma entries_cons sid mods ss :
  entries ((sid, mods) :: ss) = flat_map (mod_entries sid) mods ++ entries ss.
Proof. reflexivity. Qed.

Lemma call_key_mk win reg e : call_key (mk_call win reg e) = entry_key e.
Proof. destruct e as [[[sid pkg] t] kw]. reflexivity. Qed.

Section Entries.
  Variable known : string -> string -> bool.
  Variable ds : string.

  Notation ctx_calls := (ctx_calls known).
  Notation calls_of := (calls_of known).
  Notation entry_known := (entry_known known).

  (* the calls only depend on the known entries *)
  Lemma ctx_calls_known_entries w w' :
    w_window w = w_window w' -> w_region w = w_region w' ->
    filter entry_known (entries (w_streams w)) = filter entry_known (entries (w_streams w')) ->
    ctx_calls w = ctx_calls w'.
  Proof. intros Hw Hr He. unfold Config.ctx_calls. rewrite Hw, Hr, He. reflexivity. Qed.

  (* an unknown test name inserted anywhere *)
  Lemma unknown_test_entries ss1 sid ms1 pkg ts1 t kw ts2 ms2 ss2 :
    known pkg t = false ->
    filter entry_known (entries (ss1 ++ (sid, ms1 ++ (pkg, ts1 ++ (t, kw) :: ts2) :: ms2) :: ss2))
    = filter entry_known (entries (ss1 ++ (sid, ms1 ++ (pkg, ts1 ++ ts2) :: ms2) :: ss2)).
  Proof.
    intros Hk. rewrite !entries_app, !entries_cons, !flat_map_app. simpl flat_map.
    unfold mod_entries at 2 5. simpl fst. simpl snd. rewrite !map_app. simpl map.
    rewrite !filter_app. simpl filter. rewrite Hk. reflexivity.
  Qed.

  (* a module none of whose test names is known (in particular: an unknown module) inserted anywhere *)
  Lemma unknown_module_entries ss1 sid ms1 pkg ts ms2 ss2 :
    (forall t kw, In (t, kw) ts -> known pkg t = false) ->
    filter entry_known (entries (ss1 ++ (sid, ms1 ++ (pkg, ts) :: ms2) :: ss2))
    = filter entry_known (entries (ss1 ++ (sid, ms1 ++ ms2) :: ss2)).
  Proof.
    intros Hk. rewrite !entries_app, !entries_cons, !flat_map_app. simpl flat_map.
    rewrite !filter_app.
    assert (E : filter entry_known (mod_entries sid (pkg, ts)) = []).
    { unfold mod_entries. simpl fst. simpl snd. induction ts as [|[t kw] r IH]; simpl; [reflexivity|].
      rewrite (Hk t kw) by (left; reflexivity). apply IH. intros t' kw' Hin. apply (Hk t' kw'). right. exact Hin. }
    rewrite E. reflexivity.
  Qed.

  (* one insertion step into the stream mapping of a context *)
  Inductive ins_unknown : wstreams -> wstreams -> Prop :=
    | ins_test ss1 sid ms1 pkg ts1 t kw ts2 ms2 ss2 :
        known pkg t = false ->
        ins_unknown (ss1 ++ (sid, ms1 ++ (pkg, ts1 ++ ts2) :: ms2) :: ss2)
                    (ss1 ++ (sid, ms1 ++ (pkg, ts1 ++ (t, kw) :: ts2) :: ms2) :: ss2)
    | ins_module ss1 sid ms1 pkg ts ms2 ss2 :
        (forall t kw, In (t, kw) ts -> known pkg t = false) ->
        ins_unknown (ss1 ++ (sid, ms1 ++ ms2) :: ss2)
                    (ss1 ++ (sid, ms1 ++ (pkg, ts) :: ms2) :: ss2).

  (* W' is W with unknown tests / modules inserted anywhere, any number of times *)
  Inductive sprinkled : list wctx -> list wctx -> Prop :=
    | sp_refl W : sprinkled W W
    | sp_step W1 w ss' W2 W' :
        ins_unknown (w_streams w) ss' ->
        sprinkled (W1 ++ {| w_window := w_window w; w_region := w_region w; w_streams := ss' |} :: W2) W' ->
        sprinkled (W1 ++ w :: W2) W'.

  Lemma ins_unknown_entries ss ss' :
    ins_unknown ss ss' -> filter entry_known (entries ss') = filter entry_known (entries ss).
  Proof.
    intros [ss1 sid ms1 pkg ts1 t kw ts2 ms2 ss2 Hk | ss1 sid ms1 pkg ts ms2 ss2 Hk].
    - apply unknown_test_entries. exact Hk.
    - apply unknown_module_entries. exact Hk.
  Qed.

  Theorem unknown_skipped W W' : sprinkled W W' -> calls_of W' = calls_of W.
  Proof.
    induction 1 as [W|W1 w ss' W2 W' Hi Hs IH]; [reflexivity|].
    rewrite IH. unfold Config.calls_of. rewrite !flat_map_app. simpl. f_equal. f_equal.
    apply ctx_calls_known_entries; simpl; auto. apply ins_unknown_entries. exact Hi.
  Qed.

  (* ... hence also through the faithful model, for the list-of-contexts layout *)
  Corollary unknown_skipped_config W W' :
    sprinkled W W' ->
    Forall (fun w => region_supported (w_region w)) W -> Forall (fun w => region_supported (w_region w)) W' ->
    config_calls known ds (spell_contexts W') = config_calls known ds (spell_contexts W).
  Proof.
    intros Hs HW HW'. rewrite !layout_contexts by assumption. apply unknown_skipped. exact Hs.
  Qed.

  (* ---------------------------------------------------------------- exactly one call per entry *)

  Theorem calls_keys w :
    map call_key (ctx_calls w) = map entry_key (filter entry_known (entries (w_streams w))).
  Proof.
    unfold Config.ctx_calls. rewrite map_map. apply map_ext. intros e. apply call_key_mk.
  Qed.

  (* no (stream, module, test) configured twice within a context -> no call twice *)
  Theorem calls_nodup w :
    NoDup (map entry_key (entries (w_streams w))) -> NoDup (map call_key (ctx_calls w)).
  Proof. intros H. rewrite calls_keys. apply NoDup_map_filter. exact H. Qed.

  (* a call of the context <-> a configured entry whose module and test exist; it carries exactly
     the configured parameters ({} for none), the context's window and region *)
  Theorem calls_exact w c :
    In c (ctx_calls w) <->
    exists sid pkg t kw,
      In (sid, pkg, t, kw) (entries (w_streams w)) /\ known pkg t = true /\
      c = {| k_stream := sid; k_module := pkg; k_test := t; k_kwargs := norm_kwargs kw;
             k_window := window_meaning (w_window w); k_region := region_meaning (w_region w) |}.
  Proof.
    unfold Config.ctx_calls. rewrite in_map_iff. split.
    - intros ([[[sid pkg] t] kw] & E & Hin). apply filter_In in Hin. destruct Hin as [Hin Hk].
      exists sid, pkg, t, kw. repeat split; auto.
    - intros (sid & pkg & t & kw & Hin & Hk & E). exists (sid, pkg, t, kw). split; [auto|].
      apply filter_In. auto.
  Qed.

End Entries.

(* the entries of a mapping whose keys are unique at each level are pairwise distinct *)
Definition wf_streams (ss : wstreams) : Prop :=
  NoDup (map fst ss) /\
  forall sid mods, In (sid, mods) ss ->
    NoDup (map fst mods) /\ forall pkg ts, In (pkg, ts) mods -> NoDup (map fst ts).

Lemma mod_entries_keys sid pkg ts :
  map entry_key (mod_entries sid (pkg, ts)) = map (fun t => (sid, pkg, t)) (map fst ts).
Proof. unfold mod_entries. rewrite !map_map. reflexivity. Qed.

Lemma in_mods_keys sid mods k :
  In k (map entry_key (flat_map (mod_entries sid) mods)) ->
  fst (fst k) = sid /\ In (snd (fst k)) (map fst mods).
Proof.
  rewrite in_map_iff. intros (e & E & Hin). apply in_flat_map in Hin.
  destruct Hin as ([pkg ts] & Hm & He). unfold mod_entries in He. apply in_map_iff in He.
  destruct He as ([t kw] & E' & Ht). subst e k. simpl. split; [reflexivity|].
  apply in_map_iff. exists (pkg, ts). auto.
Qed.

Lemma mods_entries_nodup sid mods :
  NoDup (map fst mods) -> (forall pkg ts, In (pkg, ts) mods -> NoDup (map fst ts)) ->
  NoDup (map entry_key (flat_map (mod_entries sid) mods)).
Proof.
  induction mods as [|[pkg ts] r IH]; simpl; intros Hn Hts; [constructor|].
  inversion Hn as [|? ? Hnot Hr]; subst. rewrite map_app.
  apply NoDup_app_intro.
  - rewrite mod_entries_keys. apply FinFun.Injective_map_NoDup.
    + intros a b E. congruence.
    + apply (Hts pkg ts). auto.
  - apply IH; [exact Hr|]. intros p t Hin. apply (Hts p t). auto.
  - intros k H1 H2. rewrite mod_entries_keys in H1. apply in_map_iff in H1. destruct H1 as (t & E & _).
    apply in_mods_keys in H2. destruct H2 as [_ H2]. subst k. simpl in H2. contradiction.
Qed.

Lemma in_entries_sid ss k :
  In k (map entry_key (entries ss)) -> In (fst (fst k)) (map fst ss).
Proof.
  induction ss as [|[sid mods] r IH]; [simpl; auto|]. rewrite entries_cons, map_app, in_app_iff.
  intros [H|H]; [left; apply in_mods_keys in H; simpl; symmetry; tauto|right; auto].
Qed.

Theorem entries_nodup ss : wf_streams ss -> NoDup (map entry_key (entries ss)).
Proof.
  intros [Hn Hm]. induction ss as [|[sid mods] r IH]; [constructor|].
  inversion Hn as [|? ? Hnot Hr]; subst. rewrite entries_cons, map_app.
  destruct (Hm sid mods (or_introl eq_refl)) as [Hmn Hts].
  apply NoDup_app_intro.
  - apply mods_entries_nodup; assumption.
  - apply IH; [exact Hr|]. intros s m Hin. apply (Hm s m). right. exact Hin.
  - intros k H1 H2. apply in_mods_keys in H1. apply in_entries_sid in H2.
    destruct H1 as [E _]. rewrite E in H2. contradiction.
Qed.


(* ================================================================ dict_update *)

Fixpoint du_go (ul : list (string * cfg)) (d : cfg) : cfg :=
  match ul with
  | [] => d
  | (k, v) :: r =>
      du_go r (match d with
               | CDict dl =>
                   if is_dict v
                   then CDict (aset k (dict_update (get_dict k dl) v) dl)
                   else CDict (aset k v dl)
               | _ => CDict [(k, v)]
               end)
  end.

Lemma dict_update_CDict d ul : dict_update d (CDict ul) = du_go ul d.
Proof. reflexivity. Qed.

Lemma wf_cfg_CDict l :
  wf_cfg (CDict l) <-> NoDup (map fst l) /\ Forall (fun kv => wf_cfg (snd kv)) l.
Proof.
  simpl. split; intros [Hn H]; (split; [exact Hn|]); clear Hn.
  - induction l as [|[k v] r IH]; [constructor|]. destruct H as [Hv Hr]. constructor; [exact Hv|].
    apply IH. exact Hr.
  - induction l as [|[k v] r IH]; [exact I|]. inversion H as [|? ? Hv Hr]; subst. split; [exact Hv|].
    apply IH. exact Hr.
Qed.

(* merging into a mapping that has none of the keys appends the entries *)
Lemma du_go_fresh ul : forall acc,
  NoDup (map fst ul) ->
  (forall k, In k (map fst ul) -> ~ In k (map fst acc)) ->
  Forall (fun kv => is_dict (snd kv) = true -> dict_update (CDict []) (snd kv) = snd kv) ul ->
  du_go ul (CDict acc) = CDict (acc ++ ul).
Proof.
  induction ul as [|[k v] r IH]; intros acc Hn Hfresh Hall; simpl.
  - rewrite app_nil_r. reflexivity.
  - inversion Hn as [|? ? Hk Hr]; subst. inversion Hall as [|? ? Hv Hrest]; subst. simpl in Hv.
    assert (Hka : ~ In k (map fst acc)) by (apply Hfresh; left; reflexivity).
    assert (E : (if is_dict v then CDict (aset k (dict_update (get_dict k acc) v) acc) else CDict (aset k v acc))
                = CDict (acc ++ [(k, v)])).
    { destruct (is_dict v) eqn:Ed.
      - unfold get_dict. rewrite (proj2 (lookup_None k acc) Hka). rewrite Hv by reflexivity.
        rewrite aset_fresh by exact Hka. reflexivity.
      - rewrite aset_fresh by exact Hka. reflexivity. }
    rewrite E. rewrite IH; [rewrite <- app_assoc; reflexivity|exact Hr| |exact Hrest].
    intros k' Hin Hin'. rewrite map_app, in_app_iff in Hin'. simpl in Hin'.
    destruct Hin' as [Hin'|[Hin'|[]]].
    + apply (Hfresh k'); [right; exact Hin|exact Hin'].
    + subst k'. contradiction.
Qed.

(* dict_update({}, u) rebuilds u *)
Lemma dict_update_empty u : wf_cfg u -> is_dict u = true -> dict_update (CDict []) u = u.
Proof.
  induction u as [| | | | |l IH] using cfg_ind'; intros Hwf Hd; try discriminate Hd.
  rewrite dict_update_CDict. apply wf_cfg_CDict in Hwf. destruct Hwf as [Hn Hf].
  rewrite (du_go_fresh l []); [reflexivity|exact Hn|intros k _ []|].
  rewrite Forall_forall in *. intros kv Hin Hdk. apply IH; auto.
Qed.

(* ================================================================ per-variable xarray attributes *)

Definition ldef {V} (k : string) (l : list (string * list V)) : list V :=
  match lookup k l with Some x => x | None => [] end.

(* the same step on the typed three-level mapping *)
Definition tstep (Y : wstreams) (v : xvar) : wstreams :=
  let '(tg, m, t, kw) := v in
  let mods := ldef tg Y in
  aset tg (aset m (ldef m mods ++ [(t, kw)]) mods) Y.

Definition xvar_ok (v : xvar) : Prop := is_dict (snd v) = true /\ wf_cfg (snd v).
Definition xtarget (v : xvar) : string := fst (fst (fst v)).

Lemma get_dict_emb_streams tg Y : get_dict tg (items (emb_streams Y)) = emb_mods (ldef tg Y).
Proof.
  unfold get_dict, emb_streams, ldef. simpl items. rewrite lookup_map.
  unfold wstreams, wmods, wtests in *. destruct (lookup tg Y); reflexivity.
Qed.

Lemma get_dict_emb_mods m mods : get_dict m (items (emb_mods mods)) = CDict (ldef m mods).
Proof.
  unfold get_dict, emb_mods, ldef. simpl items. rewrite (lookup_map (fun ts : wtests => CDict ts)).
  unfold wstreams, wmods, wtests in *. destruct (lookup m mods); reflexivity.
Qed.

Lemma dict_update_emb_mods (mods : wmods) m t kw :
  is_dict kw = true -> wf_cfg kw -> ~ In t (map fst (ldef m mods)) ->
  dict_update (emb_mods mods) (CDict [(m, CDict [(t, kw)])])
  = emb_mods (aset m (ldef m mods ++ [(t, kw)]) mods).
Proof.
  intros Hd Hwf Hfresh.
  rewrite dict_update_CDict. unfold du_go. unfold emb_mods at 1. cbv beta iota.
  change (is_dict (CDict [(t, kw)])) with true. cbv iota.
  rewrite (get_dict_emb_mods m mods
           : get_dict m (map (fun pm : string * list (string * cfg) => (fst pm, CDict (snd pm))) mods)
             = CDict (ldef m mods)).
  rewrite dict_update_CDict. unfold du_go. rewrite Hd.
  unfold get_dict. rewrite (proj2 (lookup_None t (ldef m mods)) Hfresh).
  rewrite dict_update_empty by assumption. rewrite (aset_fresh t kw (ldef m mods) Hfresh).
  unfold emb_mods. rewrite (aset_map (fun ts : wtests => CDict ts)). reflexivity.
Qed.

Lemma xarray_step_emb (Y : wstreams) tg m t kw :
  is_dict kw = true -> wf_cfg kw -> ~ In t (map fst (ldef m (ldef tg Y))) ->
  xarray_step (items (emb_streams Y)) (tg, m, t, kw) = items (emb_streams (tstep Y (tg, m, t, kw))).
Proof.
  intros Hd Hwf Hfresh. unfold xarray_step, tstep. rewrite Hd, get_dict_emb_streams.
  rewrite dict_update_emb_mods by assumption.
  unfold emb_streams. simpl items. rewrite (aset_map emb_mods). reflexivity.
Qed.

Lemma aset_flat_map_perm {A E} (F : string * A -> list E) (dflt : A) k x' (l : list (string * A)) extra :
  F (k, dflt) = [] ->
  Permutation (F (k, x')) (F (k, match lookup k l with Some x => x | None => dflt end) ++ extra) ->
  Permutation (flat_map F (aset k x' l)) (flat_map F l ++ extra).
Proof.
  intros H0. induction l as [|[k' v'] r IH]; simpl; intros HP.
  - rewrite app_nil_r. rewrite H0 in HP. exact HP.
  - destruct (String.eqb_spec k' k).
    + subst k'. simpl. rewrite <- app_assoc.
      eapply Permutation_trans; [apply Permutation_app_tail; exact HP|].
      rewrite <- app_assoc. apply Permutation_app_head. apply Permutation_app_comm.
    + simpl. rewrite <- app_assoc. apply Permutation_app_head. apply IH. exact HP.
Qed.

Lemma tstep_entries Y tg m t kw :
  Permutation (entries (tstep Y (tg, m, t, kw))) (entries Y ++ [(tg, m, t, kw)]).
Proof.
  unfold tstep, entries.
  apply (aset_flat_map_perm
           (fun s : string * wmods =>
              flat_map (fun pm : string * wtests => map (fun tk => (fst s, fst pm, fst tk, snd tk)) (snd pm)) (snd s))
           []); [reflexivity|].
  simpl fst. simpl snd. fold (ldef tg Y).
  apply (aset_flat_map_perm
           (fun pm : string * wtests => map (fun tk => (tg, fst pm, fst tk, snd tk)) (snd pm)) []);
    [reflexivity|].
  simpl fst. simpl snd. fold (ldef m (ldef tg Y)). rewrite map_app. apply Permutation_refl.
Qed.

Lemma ldef_key_in_entries Y tg m t :
  In t (map fst (ldef m (ldef tg Y))) -> In (tg, m, t) (map entry_key (entries Y)).
Proof.
  unfold ldef. destruct (lookup tg Y) as [mods|] eqn:E1; [|intros []].
  destruct (lookup m mods) as [ts|] eqn:E2; [|intros []].
  apply lookup_In in E1. apply lookup_In in E2. intros Hin.
  apply in_map_iff in Hin. destruct Hin as ([t' kw] & Et & Hin). simpl in Et. subst t'.
  apply in_map_iff. exists (tg, m, t, kw). split; [reflexivity|].
  unfold entries. apply in_flat_map. exists (tg, mods). split; [exact E1|].
  apply in_flat_map. exists (m, ts). split; [exact E2|].
  apply in_map_iff. exists (t, kw). auto.
Qed.

Lemma fold_tstep vs : forall Y,
  NoDup (map entry_key (entries Y ++ vs)) -> Forall xvar_ok vs ->
  fold_left xarray_step vs (items (emb_streams Y)) = items (emb_streams (fold_left tstep vs Y))
  /\ Permutation (entries (fold_left tstep vs Y)) (entries Y ++ vs).
Proof.
  induction vs as [|[[[tg m] t] kw] vs IH]; intros Y Hn Hok.
  - simpl. split; [reflexivity|]. rewrite app_nil_r. apply Permutation_refl.
  - inversion Hok as [|? ? [Hd Hwf] Hrest]; subst. simpl in Hd, Hwf.
    assert (Hfresh : ~ In t (map fst (ldef m (ldef tg Y)))).
    { intros Hin. apply ldef_key_in_entries in Hin. rewrite map_app in Hn. simpl in Hn.
      apply NoDup_remove_2 in Hn. apply Hn. apply in_or_app. left. exact Hin. }
    assert (HP : Permutation (entries (tstep Y (tg, m, t, kw)) ++ vs) (entries Y ++ (tg, m, t, kw) :: vs)).
    { eapply Permutation_trans; [apply Permutation_app_tail; apply tstep_entries|].
      rewrite <- app_assoc. apply Permutation_refl. }
    cbn [fold_left]. rewrite xarray_step_emb by assumption.
    destruct (IH (tstep Y (tg, m, t, kw))) as [E P]; [|exact Hrest|].
    + eapply Permutation_NoDup; [|exact Hn]. apply Permutation_map. apply Permutation_sym. exact HP.
    + split; [exact E|]. eapply Permutation_trans; [exact P|exact HP].
Qed.

Lemma fold_tstep_keys vs : forall Y k,
  In k (map fst (fold_left tstep vs Y)) -> In k (map fst Y) \/ In k (map xtarget vs).
Proof.
  induction vs as [|[[[tg m] t] kw] vs IH]; intros Y k; simpl; [auto|].
  intros H. apply IH in H. destruct H as [H|H]; [|auto].
  unfold tstep in H. apply keys_aset in H. unfold xtarget at 1. simpl. destruct H as [H|H]; auto.
Qed.

Lemma in_entries_inv ss sid pkg t kw :
  In (sid, pkg, t, kw) (entries ss) ->
  exists mods ts, In (sid, mods) ss /\ In (pkg, ts) mods /\ In (t, kw) ts.
Proof.
  unfold entries. intros H. apply in_flat_map in H. destruct H as ([sid' mods] & Hs & H).
  apply in_flat_map in H. destruct H as ([pkg' ts] & Hm & H).
  apply in_map_iff in H. destruct H as ([t' kw'] & E & Ht). simpl in E. injection E as -> -> -> ->.
  exists mods, ts. auto.
Qed.

Section Xarray.
  Variable known : string -> string -> bool.
  Variable ds : string.

  (* every data variable carrying the four attributes yields exactly its call (as a set: the merge
     groups the variables by target, then by module).  Distinct (target, module, test) triples;
     parameters are JSON objects (anything else is skipped by the loader). *)
  Theorem xarray_vars_roundtrip vs :
    NoDup (map entry_key vs) -> Forall xvar_ok vs ->
    ~ In "contexts" (map xtarget vs) -> ~ In "streams" (map xtarget vs) ->
    Permutation (config_calls known ds (from_xarray_vars vs))
                (map (mk_call (CNull, CNull) CNull) (filter (entry_known known) vs)).
  Proof.
    intros Hn Hok Hc Hs. destruct vs as [|v0 vs'] eqn:Evs; [apply Permutation_refl|]. rewrite <- Evs in *.
    destruct (fold_tstep vs []) as [E P]; [exact Hn|exact Hok|]. simpl app in P.
    set (Y := fold_left tstep vs []) in *.
    assert (EY : from_xarray_vars vs = emb_streams Y).
    { unfold from_xarray_vars. change (@nil (string * cfg)) with (items (emb_streams [])). rewrite E. reflexivity. }
    rewrite EY.
    assert (Hkeys : forall k, In k (map fst Y) -> In k (map xtarget vs)).
    { intros k Hk. apply fold_tstep_keys in Hk. destruct Hk as [[]|Hk]. exact Hk. }
    pose (w := {| w_window := None; w_region := RNone; w_streams := Y |}).
    change (emb_streams Y) with (spell_bare_streams w).
    rewrite (layout_bare_streams known ds w); try reflexivity; simpl w_streams.
    - rewrite (ctx_calls_plain known w) by reflexivity. simpl w_streams.
      apply Permutation_map. apply Permutation_filter. exact P.
    - intros H. apply Hc. apply Hkeys. exact H.
    - intros H. apply Hs. apply Hkeys. exact H.
    - assert (Hin : In v0 (entries Y)).
      { eapply Permutation_in; [apply Permutation_sym; exact P|]. rewrite Evs. left. reflexivity. }
      assert (Hv0 : xvar_ok v0) by (rewrite Evs in Hok; inversion Hok; assumption).
      destruct v0 as [[[tg m] t] kw]. apply in_entries_inv in Hin. destruct Hin as (mods & ts & H1 & H2 & H3).
      exists tg, mods, m, ts, t, kw. repeat split; auto. apply Hv0.
  Qed.
End Xarray.

(* ================================================================ carriers (trusted base, explicit) *)

Section Carriers.
  Variable known : string -> string -> bool.
  Variable ds : string.

  (* Two carrier formats (dict, OrderedDict, YAML text, JSON text, StringIO, path to a YAML / JSON
     file, the ioos_qc_config attribute of an xarray Dataset): how a configuration tree is written
     and what utils.load_config_as_dict reads back.  The hypotheses state the trusted behaviour of
     ruamel.yaml / json / file I/O / xarray attributes: loading what was written gives the tree back. *)
  Variables carrier1 carrier2 : Type.
  Variable dump1 : cfg -> carrier1.
  Variable load1 : carrier1 -> option cfg.
  Variable dump2 : cfg -> carrier2.
  Variable load2 : carrier2 -> option cfg.
  Hypothesis load_dump1 : forall d, load1 (dump1 d) = Some d.
  Hypothesis load_dump2 : forall d, load2 (dump2 d) = Some d.

  (* Config(source).calls *)
  Definition calls_via {C : Type} (load : C -> option cfg) (x : C) : option (list callrec) :=
    option_map (config_calls known ds) (load x).

  Theorem carrier_faithful d : calls_via load1 (dump1 d) = Some (config_calls known ds d).
  Proof using load_dump1. unfold calls_via. rewrite load_dump1. reflexivity. Qed.

  Theorem carriers_agree d : calls_via load1 (dump1 d) = calls_via load2 (dump2 d).
  Proof using load_dump1 load_dump2. unfold calls_via. rewrite load_dump1, load_dump2. reflexivity. Qed.

  (* all carriers x the four layouts: the same calls *)
  Corollary carriers_layouts_agree W :
    Forall (fun w => region_supported (w_region w)) W ->
    calls_via load1 (dump1 (spell_contexts W)) = Some (calls_of known W) /\
    calls_via load2 (dump2 (spell_contexts W)) = Some (calls_of known W).
  Proof using load_dump1 load_dump2.
    intros H. unfold calls_via. rewrite load_dump1, load_dump2. simpl.
    rewrite (layout_contexts known ds W H). auto.
  Qed.
End Carriers.
