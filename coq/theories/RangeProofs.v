(* RangeProofs.v — refinement of the range-test models to their pointwise specifications and
   the characterisation lemmas used by props/C03.v *)
From IoosQc Require Import Base Range.

Ltac tabs := unfold all_flags; repeat rewrite set_where_tab.

Lemma gross_refines fspan sspan xs : gross_model fspan sspan xs = gross_spec fspan sspan xs.
Proof.
  unfold gross_model, gross_spec.
  destruct fspan as [|a [|b [|? ?]]]; try reflexivity.
  destruct (sort2 a b) as [flo fhi].
  destruct sspan as [[|c [|d [|? ?]]]|]; try reflexivity.
  - destruct (sort2 c d) as [slo shi].
    destruct (Qltb slo flo || Qltb fhi shi); [reflexivity|].
    tabs. rewrite (map_as_tab _ xs None). f_equal. apply tab_ext. intros i _.
    unfold missing_at, getq, gross_pt. destruct (nth i xs None) as [v|]; simpl; [|reflexivity].
    destruct (outside flo fhi v), (outside slo shi v); reflexivity.
  - tabs. rewrite (map_as_tab _ xs None). f_equal. apply tab_ext. intros i _.
    unfold missing_at, getq, gross_pt. destruct (nth i xs None) as [v|]; simpl; [|reflexivity].
    destruct (outside flo fhi v); reflexivity.
Qed.

Lemma sort2_spec a b : let '(lo, hi) := sort2 a b in
  lo <= hi /\ ((lo = a /\ hi = b) \/ (lo = b /\ hi = a)).
Proof. unfold sort2. destruct (Qleb_spec a b); split; auto; lra. Qed.

Lemma sort2_swap a b : fst (sort2 a b) == fst (sort2 b a) /\ snd (sort2 a b) == snd (sort2 b a).
Proof. unfold sort2. destruct (Qleb_spec a b), (Qleb_spec b a); simpl; split; lra. Qed.

Lemma outside_iff lo hi x : outside lo hi x = true <-> x < lo \/ hi < x.
Proof.
  unfold outside. rewrite orb_true_iff, !Qltb_true. tauto.
Qed.

Lemma outside_false_iff lo hi x : outside lo hi x = false <-> lo <= x <= hi.
Proof.
  unfold outside. rewrite orb_false_iff, !Qltb_false. tauto.
Qed.

Global Instance outside_Proper : Proper (Qeq ==> Qeq ==> Qeq ==> eq) outside.
Proof. intros a b H c d H1 e f H2. unfold outside. rewrite H, H1, H2. reflexivity. Qed.

(* the property's three clauses for a present value *)
Lemma gross_pt_fail flo fhi s v : gross_pt flo fhi s (Some v) = FAIL <-> v < flo \/ fhi < v.
Proof.
  unfold gross_pt. rewrite <- outside_iff.
  destruct (outside flo fhi v); [tauto|].
  destruct s as [[slo shi]|]; [destruct (outside slo shi v)|]; split; intros; congruence.
Qed.

Lemma gross_pt_suspect flo fhi s v :
  gross_pt flo fhi s (Some v) = SUSPECT <->
  (flo <= v <= fhi) /\ exists slo shi, s = Some (slo, shi) /\ (v < slo \/ shi < v).
Proof.
  unfold gross_pt. rewrite <- outside_false_iff.
  destruct (outside flo fhi v).
  - split; [congruence|]. intros [? _]; congruence.
  - destruct s as [[slo shi]|].
    + destruct (outside slo shi v) eqn:E.
      * split; [|reflexivity]. intros _. split; [reflexivity|]. exists slo, shi. split; [reflexivity|].
        apply outside_iff; exact E.
      * split; [congruence|]. intros [_ (a & b & Hs & Ho)]. inversion Hs; subst.
        apply outside_iff in Ho. congruence.
    + split; [congruence|]. intros [_ (a & b & Hs & _)]. congruence.
Qed.

Lemma gross_pt_good flo fhi s v :
  gross_pt flo fhi s (Some v) = GOOD <->
  (flo <= v <= fhi) /\ forall slo shi, s = Some (slo, shi) -> slo <= v <= shi.
Proof.
  unfold gross_pt. rewrite <- outside_false_iff.
  destruct (outside flo fhi v).
  - split; [congruence|]. intros [? _]; congruence.
  - destruct s as [[slo shi]|].
    + destruct (outside slo shi v) eqn:E.
      * split; [congruence|]. intros [_ H]. specialize (H _ _ eq_refl).
        apply outside_false_iff in H. congruence.
      * split; [|reflexivity]. intros _. split; [reflexivity|]. intros a b Hs. inversion Hs; subst.
        apply outside_false_iff; exact E.
    + split; [|reflexivity]. intros _. split; [reflexivity|]. intros; congruence.
Qed.

Lemma gross_pt_missing flo fhi s x : gross_pt flo fhi s x = MISSING <-> x = None.
Proof.
  unfold gross_pt. destruct x as [v|]; [|tauto].
  destruct (outside flo fhi v); [split; congruence|].
  destruct s as [[slo shi]|]; [destruct (outside slo shi v)|]; split; congruence.
Qed.

(* either order of a span's two numbers *)
Lemma gross_pt_ext flo fhi flo' fhi' s s' x :
  flo == flo' -> fhi == fhi' ->
  match s, s' with
  | Some (a, b), Some (a', b') => a == a' /\ b == b'
  | None, None => True
  | _, _ => False end ->
  gross_pt flo fhi s x = gross_pt flo' fhi' s' x.
Proof.
  intros H1 H2 H3. unfold gross_pt. destruct x as [v|]; [|reflexivity].
  rewrite H1, H2. destruct (outside flo' fhi' v); [reflexivity|].
  destruct s as [[a b]|], s' as [[a' b']|]; try tauto.
  destruct H3 as [Ha Hb]. rewrite Ha, Hb. reflexivity.
Qed.

Lemma gross_swap_fail a b ss xs : gross_spec [a; b] ss xs = gross_spec [b; a] ss xs.
Proof.
  unfold gross_spec.
  pose proof (sort2_swap a b) as [H1 H2].
  destruct (sort2 a b) as [flo fhi], (sort2 b a) as [flo' fhi']. simpl in H1, H2.
  destruct ss as [[|c [|d [|? ?]]]|]; try reflexivity.
  - destruct (sort2 c d) as [slo shi]. rewrite H1, H2.
    destruct (Qltb slo flo' || Qltb fhi' shi); [reflexivity|].
    f_equal. apply map_ext. intros x. apply gross_pt_ext; auto. split; reflexivity.
  - f_equal. apply map_ext. intros x. apply gross_pt_ext; auto.
Qed.

Lemma gross_swap_suspect fs c d xs : gross_spec fs (Some [c; d]) xs = gross_spec fs (Some [d; c]) xs.
Proof.
  unfold gross_spec. destruct fs as [|a [|b [|? ?]]]; try reflexivity.
  destruct (sort2 a b) as [flo fhi].
  pose proof (sort2_swap c d) as [H1 H2].
  destruct (sort2 c d) as [slo shi], (sort2 d c) as [slo' shi']. simpl in H1, H2.
  rewrite H1, H2. destruct (Qltb slo' flo || Qltb fhi shi'); [reflexivity|].
  f_equal. apply map_ext. intros x. apply gross_pt_ext; try reflexivity. split; assumption.
Qed.

(* rejection of a suspect span not contained in the fail span *)
Lemma gross_rejects a b c d xs :
  (fst (sort2 c d) < fst (sort2 a b) \/ snd (sort2 a b) < snd (sort2 c d)) ->
  gross_spec [a; b] (Some [c; d]) xs = Raises ValueError.
Proof.
  unfold gross_spec. destruct (sort2 a b) as [flo fhi], (sort2 c d) as [slo shi]. simpl.
  intros H. assert (E : Qltb slo flo || Qltb fhi shi = true).
  { rewrite orb_true_iff, !Qltb_true. exact H. }
  rewrite E. reflexivity.
Qed.

Lemma gross_accepts a b c d xs :
  fst (sort2 a b) <= fst (sort2 c d) -> snd (sort2 c d) <= snd (sort2 a b) ->
  gross_spec [a; b] (Some [c; d]) xs =
  Flags (map (gross_pt (fst (sort2 a b)) (snd (sort2 a b)) (Some (sort2 c d))) xs).
Proof.
  unfold gross_spec. destruct (sort2 a b) as [flo fhi], (sort2 c d) as [slo shi]. simpl.
  intros H1 H2. assert (E : Qltb slo flo || Qltb fhi shi = false).
  { rewrite orb_false_iff, !Qltb_false. split; assumption. }
  rewrite E. reflexivity.
Qed.

(* ------------------------------------------------------------------ valid range *)

Lemma valid_refines lo hi si ei xs : valid_model lo hi si ei xs = valid_spec lo hi si ei xs.
Proof.
  unfold valid_model, valid_spec.
  rewrite (map_as_tab _ xs None). f_equal.
  destruct lo as [l|], hi as [h|]; tabs; apply tab_ext; intros i _;
    unfold missing_at, getq, valid_pt, in_span; destruct (nth i xs None) as [v|]; simpl; try reflexivity.
  - destruct (below si l v), (above ei h v); reflexivity.
  - destruct (below si l v); reflexivity.
  - destruct (above ei h v); reflexivity.
Qed.

Lemma in_span_iff lo hi si ei v :
  in_span lo hi si ei v = true <->
  (match lo with Some l => if si then l <= v else l < v | None => True end) /\
  (match hi with Some h => if ei then v <= h else v < h | None => True end).
Proof.
  unfold in_span, below, above. rewrite andb_true_iff.
  destruct lo as [l|], hi as [h|], si, ei; rewrite ?negb_true_iff, ?Qltb_false, ?Qleb_false; tauto.
Qed.

Lemma valid_pt_fail lo hi si ei v :
  valid_pt lo hi si ei (Some v) = FAIL <-> in_span lo hi si ei v = false.
Proof. unfold valid_pt. destruct (in_span lo hi si ei v); split; congruence. Qed.

Lemma valid_pt_good lo hi si ei v :
  valid_pt lo hi si ei (Some v) = GOOD <-> in_span lo hi si ei v = true.
Proof. unfold valid_pt. destruct (in_span lo hi si ei v); split; congruence. Qed.

(* ---------------------------------------------------------------- C02 / C16 / C17 laws *)

Lemma valid_pt_missing lo hi si ei x : valid_pt lo hi si ei x = MISSING <-> x = None.
Proof.
  unfold valid_pt. destruct x as [v|]; [|tauto]. destruct (in_span lo hi si ei v); split; congruence.
Qed.

(* a span nested inside another: every value outside the loose span is outside the strict one *)
Lemma outside_nested lo hi lo' hi' v :
  lo <= lo' -> hi' <= hi -> outside lo hi v = true -> outside lo' hi' v = true.
Proof. intros H1 H2. rewrite !outside_iff. intros [H|H]; [left|right]; lra. Qed.

Definition span_nested (strict loose : option (Q * Q)) : Prop :=
  match strict, loose with
  | _, None => True                        (* adding a suspect span, or keeping none *)
  | None, Some _ => False
  | Some (a', b'), Some (a, b) => a <= a' /\ b' <= b
  end.

(* C16 for gross_range_test: fail span and suspect span nested inside the old ones *)
Lemma gross_pt_mono flo fhi s flo' fhi' s' x :
  flo <= flo' -> fhi' <= fhi -> span_nested s' s ->
  (sev (gross_pt flo fhi s x) <= sev (gross_pt flo' fhi' s' x))%nat /\
  not_evaluated (gross_pt flo fhi s x) = not_evaluated (gross_pt flo' fhi' s' x).
Proof.
  intros H1 H2 H3. unfold gross_pt. destruct x as [v|]; [|split; reflexivity].
  destruct (outside flo fhi v) eqn:Eo.
  - rewrite (outside_nested flo fhi flo' fhi' v H1 H2 Eo). split; reflexivity.
  - destruct (outside flo' fhi' v) eqn:Eo'.
    + destruct s as [[a b]|]; [destruct (outside a b v)|]; simpl; split; try lia; reflexivity.
    + destruct s as [[a b]|], s' as [[a' b']|]; simpl in H3; try tauto.
      * destruct H3 as [Ha Hb]. destruct (outside a b v) eqn:E1.
        -- rewrite (outside_nested a b a' b' v Ha Hb E1). split; reflexivity.
        -- destruct (outside a' b' v); simpl; split; try lia; reflexivity.
      * destruct (outside a' b' v); simpl; split; try lia; reflexivity.
      * split; reflexivity.
Qed.

(* C16 for valid_range_test: span nested (a bound added or moved inwards, same inclusivity) *)
Definition bound_le_lo (strict loose : option Q) : Prop :=
  match strict, loose with _, None => True | None, Some _ => False | Some a', Some a => a <= a' end.
Definition bound_le_hi (strict loose : option Q) : Prop :=
  match strict, loose with _, None => True | None, Some _ => False | Some b', Some b => b' <= b end.

Lemma in_span_nested lo hi lo' hi' si ei v :
  bound_le_lo lo' lo -> bound_le_hi hi' hi ->
  in_span lo' hi' si ei v = true -> in_span lo hi si ei v = true.
Proof.
  intros H1 H2. rewrite !in_span_iff. intros [A B]. split.
  - destruct lo as [a|]; [|exact I]. destruct lo' as [a'|]; simpl in H1; [|tauto].
    destruct si; lra.
  - destruct hi as [b|]; [|exact I]. destruct hi' as [b'|]; simpl in H2; [|tauto].
    destruct ei; lra.
Qed.

Lemma valid_pt_mono lo hi lo' hi' si ei x :
  bound_le_lo lo' lo -> bound_le_hi hi' hi ->
  (sev (valid_pt lo hi si ei x) <= sev (valid_pt lo' hi' si ei x))%nat /\
  not_evaluated (valid_pt lo hi si ei x) = not_evaluated (valid_pt lo' hi' si ei x).
Proof.
  intros H1 H2. unfold valid_pt. destruct x as [v|]; [|split; reflexivity].
  destruct (in_span lo' hi' si ei v) eqn:E.
  - rewrite (in_span_nested lo hi lo' hi' si ei v H1 H2 E). split; reflexivity.
  - destruct (in_span lo hi si ei v); simpl; split; try lia; reflexivity.
Qed.

(* C17: shifting data and spans together *)
Lemma outside_shift c lo hi v : outside (lo + c) (hi + c) (v + c) = outside lo hi v.
Proof.
  unfold outside.
  assert (E1 : Qltb (v + c) (lo + c) = Qltb v lo).
  { destruct (Qltb_spec (v + c) (lo + c)), (Qltb_spec v lo); try reflexivity; exfalso; lra. }
  assert (E2 : Qltb (hi + c) (v + c) = Qltb hi v).
  { destruct (Qltb_spec (hi + c) (v + c)), (Qltb_spec hi v); try reflexivity; exfalso; lra. }
  rewrite E1, E2. reflexivity.
Qed.

Definition shift_span (c : Q) (s : option (Q * Q)) : option (Q * Q) :=
  match s with Some (a, b) => Some (a + c, b + c) | None => None end.

Lemma gross_pt_joint_shift c flo fhi s x :
  gross_pt (flo + c) (fhi + c) (shift_span c s) (option_map (fun v => v + c) x) = gross_pt flo fhi s x.
Proof.
  unfold gross_pt. destruct x as [v|]; simpl; [|reflexivity].
  rewrite outside_shift. destruct (outside flo fhi v); [reflexivity|].
  destruct s as [[a b]|]; simpl; [|reflexivity]. rewrite outside_shift. reflexivity.
Qed.

Lemma in_span_shift c lo hi si ei v :
  in_span (option_map (fun a => a + c) lo) (option_map (fun a => a + c) hi) si ei (v + c) = in_span lo hi si ei v.
Proof.
  unfold in_span, below, above. f_equal.
  - destruct lo as [a|]; simpl; [|reflexivity]. destruct si; f_equal.
    + destruct (Qltb_spec (v + c) (a + c)), (Qltb_spec v a); try reflexivity; exfalso; lra.
    + destruct (Qleb_spec (v + c) (a + c)), (Qleb_spec v a); try reflexivity; exfalso; lra.
  - destruct hi as [b|]; simpl; [|reflexivity]. destruct ei; f_equal.
    + destruct (Qltb_spec (b + c) (v + c)), (Qltb_spec b v); try reflexivity; exfalso; lra.
    + destruct (Qleb_spec (b + c) (v + c)), (Qleb_spec b v); try reflexivity; exfalso; lra.
Qed.

Lemma valid_pt_joint_shift c lo hi si ei x :
  valid_pt (option_map (fun a => a + c) lo) (option_map (fun a => a + c) hi) si ei (option_map (fun v => v + c) x)
  = valid_pt lo hi si ei x.
Proof.
  unfold valid_pt. destruct x as [v|]; simpl; [|reflexivity]. rewrite in_span_shift. reflexivity.
Qed.

(* locality: range tests are pointwise maps — flag i depends on observation i only *)
Lemma gross_spec_local fs ss xs ys fl fl' i :
  length xs = length ys -> nth i xs None = nth i ys None ->
  gross_spec fs ss xs = Flags fl -> gross_spec fs ss ys = Flags fl' ->
  nth i fl GOOD = nth i fl' GOOD.
Proof.
  unfold obs in *. intros Hl Hi. unfold gross_spec. destruct fs as [|a [|b [|? ?]]]; try discriminate.
  destruct (sort2 a b) as [flo fhi].
  assert (G : forall f : option Q -> flag, nth i (map f xs) GOOD = nth i (map f ys) GOOD).
  { intros f. destruct (Nat.lt_ge_cases i (length xs)) as [L|L].
    - rewrite (nth_indep _ GOOD (f None)) by (rewrite map_length; exact L).
      rewrite (nth_indep (map f ys) GOOD (f None)) by (rewrite map_length; lia).
      rewrite !map_nth, Hi. reflexivity.
    - rewrite !nth_overflow by (rewrite map_length; lia). reflexivity. }
  destruct ss as [[|c [|d [|? ?]]]|]; try discriminate.
  - destruct (sort2 c d) as [slo shi]. destruct (Qltb slo flo || Qltb fhi shi); [discriminate|].
    intros E1 E2. injection E1 as <-. injection E2 as <-. apply G.
  - intros E1 E2. injection E1 as <-. injection E2 as <-. apply G.
Qed.

Lemma valid_spec_local lo hi si ei xs ys i :
  length xs = length ys -> nth i xs None = nth i ys None ->
  nth i (map (valid_pt lo hi si ei) xs) GOOD = nth i (map (valid_pt lo hi si ei) ys) GOOD.
Proof.
  unfold obs in *. intros Hl Hi. destruct (Nat.lt_ge_cases i (length xs)) as [L|L].
  - rewrite (nth_indep _ GOOD (valid_pt lo hi si ei None)) by (rewrite map_length; exact L).
    rewrite (nth_indep (map _ ys) GOOD (valid_pt lo hi si ei None)) by (rewrite map_length; lia).
    rewrite !map_nth, Hi. reflexivity.
  - rewrite !nth_overflow by (rewrite map_length; lia). reflexivity.
Qed.

(* ---------------------------------------------------------------- flag alphabets of the range tests *)

(* gross_range_test never answers UNKNOWN; valid_range_test answers GOOD, FAIL or MISSING only *)
Lemma gross_pt_alphabet flo fhi s x :
  gross_pt flo fhi s x = GOOD \/ gross_pt flo fhi s x = SUSPECT \/
  gross_pt flo fhi s x = FAIL \/ gross_pt flo fhi s x = MISSING.
Proof.
  unfold gross_pt. destruct x as [v|]; [|auto].
  destruct (outside flo fhi v); [auto|].
  destruct s as [[slo shi]|]; [|auto]. destruct (outside slo shi v); auto.
Qed.

Lemma gross_pt_without_suspect flo fhi x : gross_pt flo fhi None x <> SUSPECT.
Proof. unfold gross_pt. destruct x as [v|]; [|discriminate]. destruct (outside flo fhi v); discriminate. Qed.

Lemma valid_pt_alphabet lo hi si ei x :
  valid_pt lo hi si ei x = GOOD \/ valid_pt lo hi si ei x = FAIL \/ valid_pt lo hi si ei x = MISSING.
Proof. unfold valid_pt. destruct x as [v|]; [|auto]. destruct (in_span lo hi si ei v); auto. Qed.

