(* RangeProofs.v — refinement of the range-test models to their pointwise specifications and
   the characterisation lemmas used by props/C03.v *)
From IoosQc Require Import Base Range.

Ltac tabs := unfold all_flags; repeat rewrite set_where_tab.

Lemma gross_refines fspan sspan xs : gross_model fspan sspan xs = gross_spec fspan sspan xs.
Proof.
  unfold gross_model, gross_spec.
  destruct fspan as [|a [|b [|? ?]]]; try reflexivity.
  destruct (sort2 a b) as [flo fhi].
  destruct sspan as [[|c [|d [|? ?]]]|]; try reflexivity.
  - destruct (sort2 c d) as [slo shi].
    destruct (Qltb slo flo || Qltb fhi shi); [reflexivity|].
    tabs. rewrite (map_as_tab _ xs None). f_equal. apply tab_ext. intros i _.
    unfold missing_at, getq, gross_pt. destruct (nth i xs None) as [v|]; simpl; [|reflexivity].
    destruct (outside flo fhi v), (outside slo shi v); reflexivity.
  - tabs. rewrite (map_as_tab _ xs None). f_equal. apply tab_ext. intros i _.
    unfold missing_at, getq, gross_pt. destruct (nth i xs None) as [v|]; simpl; [|reflexivity].
    destruct (outside flo fhi v); reflexivity.
Qed.

Lemma sort2_spec a b : let '(lo, hi) := sort2 a b in
  lo <= hi /\ ((lo = a /\ hi = b) \/ (lo = b /\ hi = a)).
Proof. unfold sort2. destruct (Qleb_spec a b); split; auto; lra. Qed.

Lemma sort2_swap a b : fst (sort2 a b) == fst (sort2 b a) /\ snd (sort2 a b) == snd (sort2 b a).
Proof. unfold sort2. destruct (Qleb_spec a b), (Qleb_spec b a); simpl; split; lra. Qed.

Lemma outside_iff lo hi x : outside lo hi x = true <-> x < lo \/ hi < x.
Proof.
  unfold outside. rewrite orb_true_iff, !Qltb_true. tauto.
Qed.

Lemma outside_false_iff lo hi x : outside lo hi x = false <-> lo <= x <= hi.
Proof.
  unfold outside. rewrite orb_false_iff, !Qltb_false. tauto.
Qed.

Global Instance outside_Proper : Proper (Qeq ==> Qeq ==> Qeq ==> eq) outside.
Proof. intros a b H c d H1 e f H2. unfold outside. rewrite H, H1, H2. reflexivity. Qed.

(* the property's three clauses for a present value *)
Lemma gross_pt_fail flo fhi s v : gross_pt flo fhi s (Some v) = FAIL <-> v < flo \/ fhi < v.
Proof.
  unfold gross_pt. rewrite <- outside_iff.
  destruct (outside flo fhi v); [tauto|].
  destruct s as [[slo shi]|]; [destruct (outside slo shi v)|]; split; intros; congruence.
Qed.

Lemma gross_pt_suspect flo fhi s v :
  gross_pt flo fhi s (Some v) = SUSPECT <->
  (flo <= v <= fhi) /\ exists slo shi, s = Some (slo, shi) /\ (v < slo \/ shi < v).
Proof.
  unfold gross_pt. rewrite <- outside_false_iff.
  destruct (outside flo fhi v).
  - split; [congruence|]. intros [? _]; congruence.
  - destruct s as [[slo shi]|].
    + destruct (outside slo shi v) eqn:E.
      * split; [|reflexivity]. intros _. split; [reflexivity|]. exists slo, shi. split; [reflexivity|].
        apply outside_iff; exact E.
      * split; [congruence|]. intros [_ (a & b & Hs & Ho)]. inversion Hs; subst.
        apply outside_iff in Ho. congruence.
    + split; [congruence|]. intros [_ (a & b & Hs & _)]. congruence.
Qed.

Lemma gross_pt_good flo fhi s v :
  gross_pt flo fhi s (Some v) = GOOD <->
  (flo <= v <= fhi) /\ forall slo shi, s = Some (slo, shi) -> slo <= v <= shi.
Proof.
  unfold gross_pt. rewrite <- outside_false_iff.
  destruct (outside flo fhi v).
  - split; [congruence|]. intros [? _]; congruence.
  - destruct s as [[slo shi]|].
    + destruct (outside slo shi v) eqn:E.
      * split; [congruence|]. intros [_ H]. specialize (H _ _ eq_refl).
        apply outside_false_iff in H. congruence.
      * split; [|reflexivity]. intros _. split; [reflexivity|]. intros a b Hs. inversion Hs; subst.
        apply outside_false_iff; exact E.
    + split; [|reflexivity]. intros _. split; [reflexivity|]. intros; congruence.
Qed.

Lemma gross_pt_missing flo fhi s x : gross_pt flo fhi s x = MISSING <-> x = None.
Proof.
  unfold gross_pt. destruct x as [v|]; [|tauto].
  destruct (outside flo fhi v); [split; congruence|].
  destruct s as [[slo shi]|]; [destruct (outside slo shi v)|]; split; congruence.
Qed.

(* either order of a span's two numbers *)
Lemma gross_pt_ext flo fhi flo' fhi' s s' x :
  flo == flo' -> fhi == fhi' ->
  match s, s' with
  | Some (a, b), Some (a', b') => a == a' /\ b == b'
  | None, None => True
  | _, _ => False end ->
  gross_pt flo fhi s x = gross_pt flo' fhi' s' x.
Proof.
  intros H1 H2 H3. unfold gross_pt. destruct x as [v|]; [|reflexivity].
  rewrite H1, H2. destruct (outside flo' fhi' v); [reflexivity|].
  destruct s as [[a b]|], s' as [[a' b']|]; try tauto.
  destruct H3 as [Ha Hb]. rewrite Ha, Hb. reflexivity.
Qed.

Lemma gross_swap_fail a b ss xs : gross_spec [a; b] ss xs = gross_spec [b; a] ss xs.
Proof.
  unfold gross_spec.
  pose proof (sort2_swap a b) as [H1 H2].
  destruct (sort2 a b) as [flo fhi], (sort2 b a) as [flo' fhi']. simpl in H1, H2.
  destruct ss as [[|c [|d [|? ?]]]|]; try reflexivity.
  - destruct (sort2 c d) as [slo shi]. rewrite H1, H2.
    destruct (Qltb slo flo' || Qltb fhi' shi); [reflexivity|].
    f_equal. apply map_ext. intros x. apply gross_pt_ext; auto. split; reflexivity.
  - f_equal. apply map_ext. intros x. apply gross_pt_ext; auto.
Qed.

Lemma gross_swap_suspect fs c d xs : gross_spec fs (Some [c; d]) xs = gross_spec fs (Some [d; c]) xs.
Proof.
  unfold gross_spec. destruct fs as [|a [|b [|? ?]]]; try reflexivity.
  destruct (sort2 a b) as [flo fhi].
  pose proof (sort2_swap c d) as [H1 H2].
  destruct (sort2 c d) as [slo shi], (sort2 d c) as [slo' shi']. simpl in H1, H2.
  rewrite H1, H2. destruct (Qltb slo' flo || Qltb fhi shi'); [reflexivity|].
  f_equal. apply map_ext. intros x. apply gross_pt_ext; try reflexivity. split; assumption.
Qed.

(* rejection of a suspect span not contained in the fail span *)
Lemma gross_rejects a b c d xs :
  (fst (sort2 c d) < fst (sort2 a b) \/ snd (sort2 a b) < snd (sort2 c d)) ->
  gross_spec [a; b] (Some [c; d]) xs = Raises ValueError.
Proof.
  unfold gross_spec. destruct (sort2 a b) as [flo fhi], (sort2 c d) as [slo shi]. simpl.
  intros H. assert (E : Qltb slo flo || Qltb fhi shi = true).
  { rewrite orb_true_iff, !Qltb_true. exact H. }
  rewrite E. reflexivity.
Qed.

Lemma gross_accepts a b c d xs :
  fst (sort2 a b) <= fst (sort2 c d) -> snd (sort2 c d) <= snd (sort2 a b) ->
  gross_spec [a; b] (Some [c; d]) xs =
  Flags (map (gross_pt (fst (sort2 a b)) (snd (sort2 a b)) (Some (sort2 c d))) xs).
Proof.
  unfold gross_spec. destruct (sort2 a b) as [flo fhi], (sort2 c d) as [slo shi]. simpl.
  intros H1 H2. assert (E : Qltb slo flo || Qltb fhi shi = false).
  { rewrite orb_false_iff, !Qltb_false. split; assumption. }
  rewrite E. reflexivity.
Qed.

(* ------------------------------------------------------------------ valid range *)

Lemma valid_refines lo hi si ei xs : valid_model lo hi si ei xs = valid_spec lo hi si ei xs.
Proof.
  unfold valid_model, valid_spec.
  rewrite (map_as_tab _ xs None). f_equal.
  destruct lo as [l|], hi as [h|]; tabs; apply tab_ext; intros i _;
    unfold missing_at, getq, valid_pt, in_span; destruct (nth i xs None) as [v|]; simpl; try reflexivity.
  - destruct (below si l v), (above ei h v); reflexivity.
  - destruct (below si l v); reflexivity.
  - destruct (above ei h v); reflexivity.
Qed.

Lemma in_span_iff lo hi si ei v :
  in_span lo hi si ei v = true <->
  (match lo with Some l => if si then l <= v else l < v | None => True end) /\
  (match hi with Some h => if ei then v <= h else v < h | None => True end).
Proof.
  unfold in_span, below, above. rewrite andb_true_iff.
  destruct lo as [l|], hi as [h|], si, ei; rewrite ?negb_true_iff, ?Qltb_false, ?Qleb_false; tauto.
Qed.

Lemma valid_pt_fail lo hi si ei v :
  valid_pt lo hi si ei (Some v) = FAIL <-> in_span lo hi si ei v = false.
Proof. unfold valid_pt. destruct (in_span lo hi si ei v); split; congruence. Qed.

Lemma valid_pt_good lo hi si ei v :
  valid_pt lo hi si ei (Some v) = GOOD <-> in_span lo hi si ei v = true.
Proof. unfold valid_pt. destruct (in_span lo hi si ei v); split; congruence. Qed.
