(* SkelP_range.v — generated flag skeletons of gross_range_test and axds.valid_range_test = models *)
From IoosQc Require Import Base Skel SkelBase Generated Range.
From Coq Require Import String.
Local Notation length := List.length.
Open Scope string_scope.

(* ------------------------------------------------------------------ gross_range_test *)

Definition env_gross (flo fhi : Q) (s : option (Q * Q)) (xs : list obs) : env :=
  {| e_arr := bind_arr [("inp", xs)];
     e_num := bind_num [("sspan.minv", Some flo); ("sspan.maxv", Some fhi);
                        ("uspan.minv", option_map fst s); ("uspan.maxv", option_map snd s);
                        ("suspect_span", option_map fst s)];
     e_str := (fun _ => None); e_bool := (fun _ => None);
     e_size := length xs |}.


Lemma skel_gross_flags flo fhi s xs :
  run_steps (env_gross flo fhi s xs) skel_gross_range_test (all_flags (length xs) GOOD)
  = map (gross_pt flo fhi s) xs.
Proof.
  unfold skel_gross_range_test, all_flags. steps.
  destruct s as [[slo shi]|]; eval_guards; cbn [e_size env_gross];
    rewrite !set_where_tab; rewrite (map_as_tab _ xs None); apply tab_ext; intros i _;
    unfold gross_pt, outside, getq; cbn; destruct (nth i xs None) as [v|]; cbn; reflexivity.
Qed.

(* ------------------------------------------------------------------ axds.valid_range_test *)


Definition env_valid (lo hi : option Q) (si ei : bool) (xs : list obs) : env :=
  {| e_arr := bind_arr [("inp", xs)];
     e_num := bind_num [("valid_span.0", lo); ("valid_span.1", hi); ("True", Some 1); ("False", Some 0);
                        ("start_inclusive", qbool si); ("end_inclusive", qbool ei)];
     e_str := (fun _ => None); e_bool := (fun _ => None);
     e_size := length xs |}.

Theorem skel_valid lo hi si ei xs :
  valid_model lo hi si ei xs =
  Flags (run_steps (env_valid lo hi si ei xs) skel_valid_range_test (all_flags (length xs) GOOD)).
Proof.
  unfold valid_model. f_equal. unfold skel_valid_range_test, all_flags. steps.
  destruct lo as [l|], hi as [h|], si, ei; eval_guards; cbn [e_size env_valid];
    rewrite !set_where_tab; apply tab_ext; intros i _;
    cbn; unfold missing_at, below, above, getq; destruct (nth i xs None) as [v|]; cbn; try reflexivity;
    unfold Qleb, Qltb; repeat match goal with |- context [Qle_bool ?a ?b] => destruct (Qle_bool a b) end; reflexivity.
Qed.
