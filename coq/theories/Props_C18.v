(* Props_C18.v — C18: a test that cannot run drops out without disturbing the rest of the run. *)
From IoosQc Require Import Base Stream StreamProofs Collect CollectProofs.
From Coq Require Import String.
Local Notation length := List.length.

Section C18.
  Variables TestId Kw : Type.
  Variable test : TestId -> Kw -> rows -> option (list flag).

  (* For every configuration (any number of contexts and calls) and every placement of any number of
     calls that yield no result on this data — stream id absent from the data, a required input not
     supplied, rejected parameters or an exception while evaluating (all `test ... = None` after
     Call.run's try/except) — the results produced are exactly those of the configuration with the
     failing entries removed. *)
  Theorem C18_faults_drop_out : forall cfg tbl,
    produced (spec_run TestId Kw test cfg tbl) =
    produced (spec_run TestId Kw test (healthy_cfg TestId Kw test tbl cfg) tbl).
  Proof. exact (faults_drop_out TestId Kw test). Qed.

  (* every call yields exactly what it yields when it is configured alone (same window) *)
  Theorem C18_alone : forall cfg tbl c cl,
    In c cfg -> In cl (cx_calls c) ->
    forall s, In s (run_call TestId Kw test tbl (window_mask TestId Kw tbl c) cl) ->
    In s (match spec_run TestId Kw test cfg tbl with SList l => l | SRaises _ => [] end) /\
    spec_run TestId Kw test [ {| w_start := w_start c; w_end := w_end c; cx_calls := [cl] |} ] tbl =
    SList (run_call TestId Kw test tbl (window_mask TestId Kw tbl c) cl).
  Proof. exact (alone_same TestId Kw test). Qed.
End C18.

Print Assumptions C18_faults_drop_out.
Print Assumptions C18_alone.

(* collect tolerates ContextResults without CallResults: they contribute no write *)
Theorem C18_collect_ignores_empty : forall rs r,
  r_calls r = [] -> writes_of (rs ++ [r]) = writes_of rs.
Proof.
  intros rs r H. unfold writes_of. rewrite flat_map_app. simpl. rewrite H. simpl. rewrite !app_nil_r. reflexivity.
Qed.
Print Assumptions C18_collect_ignores_empty.

Theorem C18_collect_ignores_empty_anywhere : forall rs1 r rs2,
  r_calls r = [] -> writes_of (rs1 ++ r :: rs2) = writes_of (rs1 ++ rs2).
Proof.
  intros rs1 r rs2 H. unfold writes_of. rewrite !flat_map_app. simpl. rewrite H. reflexivity.
Qed.
Print Assumptions C18_collect_ignores_empty_anywhere.
