(* Props_C10.v — C10: rate tests flag a point by its change from the previous point per elapsed second.
   Only statements, `exact <lemma>` and Print Assumptions.
   (statements written out by tools/mk_props.py from the lemmas they restate) *)
From IoosQc Require Import Base Generated Rate RateProofs Skel SkelBase SkelP_rate Arr Gen ArrBase ArrP_rate GenBase GenP_rate.


(* rate_of_change_test: for all series and all strictly increasing whole-second time axes (regular or not), all missing patterns and every threshold >= 0, the operational model equals the per-point specification; mismatched lengths are rejected on both sides *)
Theorem C10_roc_refines :
  forall (thr : Q) (xs : list obs) (ts : list Z),
         whole_increasing ts -> 0 <= thr -> roc_model thr xs ts = roc_spec thr xs ts.
Proof. exact (@roc_refines_domain). Qed.
Print Assumptions C10_roc_refines.

(* (the proof only needs non-negative elapsed whole seconds) *)
Theorem C10_roc_refines_nonneg_steps :
  forall (thr : Q) (xs : list obs) (ts : list Z),
         steps_nonneg ts -> 0 <= thr -> roc_model thr xs ts = roc_spec thr xs ts.
Proof. exact (@roc_refines). Qed.
Print Assumptions C10_roc_refines_nonneg_steps.

(* mismatched input lengths are rejected with ValueError, and only those *)
Theorem C10_roc_mismatch :
  forall (thr : Q) (xs : list obs) (ts : list Z),
         roc_model thr xs ts = Raises ValueError <-> length xs <> length ts.
Proof. exact (@roc_model_raises). Qed.
Print Assumptions C10_roc_mismatch.

(* SUSPECT iff the predecessor is present and |x[n]-x[n-1]| / elapsed whole seconds exceeds the threshold *)
Theorem C10_roc_suspect :
  forall (thr : Q) (xs : list obs) (ts : list Z) (i : nat),
         roc_pt thr xs ts i = SUSPECT <->
         i <> 0%nat /\
         (exists p x : Q,
            getq xs (i - 1) = Some p /\ getq xs i = Some x /\ thr < qabs (x - p) / dsecs ts i).
Proof. exact (@roc_pt_suspect). Qed.
Print Assumptions C10_roc_suspect.

(* GOOD otherwise *)
Theorem C10_roc_good :
  forall (thr : Q) (xs : list obs) (ts : list Z) (i : nat),
         roc_pt thr xs ts i = GOOD <->
         (exists x : Q,
            getq xs i = Some x /\
            (i = 0%nat \/
             getq xs (i - 1) = None \/
             (exists p : Q, getq xs (i - 1) = Some p /\ qabs (x - p) / dsecs ts i <= thr))).
Proof. exact (@roc_pt_good). Qed.
Print Assumptions C10_roc_good.

(* the first point is GOOD *)
Theorem C10_roc_first :
  forall (thr : Q) (xs : list obs) (ts : list Z) (x : Q),
         getq xs 0 = Some x -> roc_pt thr xs ts 0 = GOOD.
Proof. exact (@roc_pt_first). Qed.
Print Assumptions C10_roc_first.

(* a point after a gap is GOOD *)
Theorem C10_roc_after_gap :
  forall (thr : Q) (xs : list obs) (ts : list Z) (i : nat) (x : Q),
         getq xs i = Some x -> getq xs (i - 1) = None -> roc_pt thr xs ts i = GOOD.
Proof. exact (@roc_pt_after_gap). Qed.
Print Assumptions C10_roc_after_gap.

(* equality with the threshold does not flag *)
Theorem C10_roc_eq_thr :
  forall (thr : Q) (xs : list obs) (ts : list Z) (i : nat) (p x : Q),
         getq xs (i - 1) = Some p ->
         getq xs i = Some x -> qabs (x - p) / dsecs ts i == thr -> roc_pt thr xs ts i = GOOD.
Proof. exact (@roc_pt_eq_thr). Qed.
Print Assumptions C10_roc_eq_thr.

(* the later point of a pair gets the flag, from the ELAPSED time of that pair *)
Theorem C10_roc_pair :
  forall (thr : Q) (xs : list obs) (ts : list Z) (i : nat) (p x : Q),
         i <> 0%nat ->
         getq xs (i - 1) = Some p ->
         getq xs i = Some x -> roc_pt thr xs ts i = roc_decide thr (qabs (x - p) / dsecs ts i).
Proof. exact (@roc_pt_pair). Qed.
Print Assumptions C10_roc_pair.

(* speed_test, for EVERY geodesic function: model = specification (first point UNKNOWN, later points by distance / elapsed seconds, FAIL over SUSPECT over GOOD, MISSING where the hop is undefined, length mismatch rejected) *)
Theorem C10_speed_refines :
  forall (geod : Q -> Q -> Q -> Q -> Q) (st ft : Q) (lon lat : list obs) (ts : list Z),
         whole_increasing ts -> speed_model geod st ft lon lat ts = speed_spec geod st ft lon lat ts.
Proof. exact (@speed_refines_domain). Qed.
Print Assumptions C10_speed_refines.

Theorem C10_speed_mismatch :
  forall (geod : Q -> Q -> Q -> Q -> Q) (st ft : Q) (lon lat : list obs) (ts : list Z),
         length lon <> length lat \/ length lon <> length ts ->
         speed_model geod st ft lon lat ts = Raises ValueError.
Proof. exact (@speed_mismatch). Qed.
Print Assumptions C10_speed_mismatch.

Theorem C10_speed_first :
  forall (geod : Q -> Q -> Q -> Q -> Q) (st ft : Q) (lon lat : list obs) (ts : list Z),
         speed_pt geod st ft lon lat ts 0 = UNKNOWN.
Proof. exact (@speed_pt_first). Qed.
Print Assumptions C10_speed_first.

Theorem C10_speed_hop :
  forall (geod : Q -> Q -> Q -> Q -> Q) (st ft : Q) (lon lat : list obs) 
           (ts : list Z) (i : nat) (a b c d : Q),
         i <> 0%nat ->
         getq lat (i - 1) = Some a ->
         getq lon (i - 1) = Some b ->
         getq lat i = Some c ->
         getq lon i = Some d ->
         speed_pt geod st ft lon lat ts i = decide2 st ft (qabs (geod a b c d) / dsecs ts i).
Proof. exact (@speed_pt_hop). Qed.
Print Assumptions C10_speed_hop.

Theorem C10_speed_fail :
  forall st ft v : Q, decide2 st ft v = FAIL <-> ft < v.
Proof. exact (@decide2_fail). Qed.
Print Assumptions C10_speed_fail.

Theorem C10_speed_suspect :
  forall st ft v : Q, decide2 st ft v = SUSPECT <-> v <= ft /\ st < v.
Proof. exact (@decide2_suspect). Qed.
Print Assumptions C10_speed_suspect.

Theorem C10_speed_good :
  forall st ft v : Q, decide2 st ft v = GOOD <-> v <= ft /\ v <= st.
Proof. exact (@decide2_good). Qed.
Print Assumptions C10_speed_good.

Theorem C10_speed_missing_iff :
  forall (geod : Q -> Q -> Q -> Q -> Q) (st ft : Q) (lon lat : list obs) 
           (ts : list Z) (i : nat),
         speed_pt geod st ft lon lat ts i = MISSING <-> i <> 0%nat /\ hop geod lon lat i = None.
Proof. exact (@speed_pt_missing_iff). Qed.
Print Assumptions C10_speed_missing_iff.

(* flags depend on the geodesic only through its values on the track's hops *)
Theorem C10_speed_geod_ext :
  forall (geod geod' : Q -> Q -> Q -> Q -> Q) (st ft : Q) (lon lat : list obs) 
           (ts : list Z) (i : nat),
         (forall a b c d : Q, geod a b c d == geod' a b c d) ->
         speed_pt geod st ft lon lat ts i = speed_pt geod' st ft lon lat ts i.
Proof. exact (@speed_pt_geod_ext). Qed.
Print Assumptions C10_speed_geod_ext.

(* outside the stated domain (a NEGATIVE rate threshold) the code flags the first point SUSPECT (roc[0] = 0 > threshold): the hypothesis 0 <= thr of C10_roc_refines is needed *)
Theorem C10_roc_negative_threshold_refuted :
  exists (thr : Q) (xs : list obs) (ts : list Z),
           whole_increasing ts /\ length xs = length ts /\ roc_model thr xs ts <> roc_spec thr xs ts.
Proof. exact (@roc_refuted_negative_threshold). Qed.
Print Assumptions C10_roc_negative_threshold_refuted.

(* TRANSLATOR TIE: the flag-assignment skeleton generated from the CURRENT source of rate_of_change_test (Generated.skel_rate_of_change_test: comparison operators, flag constants, order, guards), run in the model's environment, yields exactly the model's flags *)
Theorem C10_source_skeleton :
  forall (thr : Q) (xs : list obs) (ts : list Z),
         length xs = length ts ->
         roc_model thr xs ts =
         Flags (run_steps (env_roc thr xs ts) skel_rate_of_change_test (all_flags (length xs) GOOD)).
Proof. exact (@skel_roc). Qed.
Print Assumptions C10_source_skeleton.

(* TRANSLATOR TIE: the flag-assignment skeleton generated from the CURRENT source of argo.speed_test (Generated.skel_speed_test: masks, comparison operators, flag constants, order, the size guards and early return), run in the model's environment for EVERY geodesic function, yields exactly the model's flags *)
Theorem C10_source_skeleton_speed :
  forall (geod : Q -> Q -> Q -> Q -> Q) (st ft : Q) (lon lat : list obs) (ts : list Z),
         length lon = length lat ->
         length lon = length ts ->
         lon <> [] ->
         speed_model geod st ft lon lat ts =
         Flags
           (run_steps (env_speed geod st ft lon lat ts) skel_speed_test (all_flags (length lon) GOOD)).
Proof. exact (@skel_speed). Qed.
Print Assumptions C10_source_skeleton_speed.

(* TRANSLATOR TIE, whole function: the array program (roc = zeros; roc[1:] = abs(diff(inp) / diff(tinp)[s])) AND the flag skeleton, both generated from the CURRENT source of rate_of_change_test and given their numpy meaning by Arr.run_prog / Skel.run_steps, compute exactly the model's flags (time steps of non-zero whole seconds) *)
Theorem C10_source_program :
  forall (thr : Q) (xs : list obs) (ts : list Z),
         length xs = length ts ->
         steps_nonzero ts ->
         exists fl : list flag,
           gen_flags (length xs)
             (bind_tim
                [(String.String (Ascii.Ascii false false true false true true true false)
                    (String.String (Ascii.Ascii true false false true false true true false)
                       (String.String (Ascii.Ascii false true true true false true true false)
                          (String.String (Ascii.Ascii false false false false true true true false)
                             String.EmptyString))), ts)])
             (bind_num
                [(String.String (Ascii.Ascii false false true false true true true false)
                    (String.String (Ascii.Ascii false false false true false true true false)
                       (String.String (Ascii.Ascii false true false false true true true false)
                          (String.String (Ascii.Ascii true false true false false true true false)
                             (String.String (Ascii.Ascii true true false false true true true false)
                                (String.String
                                   (Ascii.Ascii false false false true false true true false)
                                   (String.String
                                      (Ascii.Ascii true true true true false true true false)
                                      (String.String
                                         (Ascii.Ascii false false true true false true true false)
                                         (String.String
                                            (Ascii.Ascii false false true false false true true false)
                                            String.EmptyString)))))))), Some thr)])
             (fun _ : String.string => None) prog_rate_of_change_test skel_rate_of_change_test
             [String.String (Ascii.Ascii true false false true false true true false)
                (String.String (Ascii.Ascii false true true true false true true false)
                   (String.String (Ascii.Ascii false false false false true true true false)
                      String.EmptyString));
              String.String (Ascii.Ascii false true false false true true true false)
                (String.String (Ascii.Ascii true true true true false true true false)
                   (String.String (Ascii.Ascii true true false false false true true false)
                      String.EmptyString))]
             (bind_store
                [(String.String (Ascii.Ascii true false false true false true true false)
                    (String.String (Ascii.Ascii false true true true false true true false)
                       (String.String (Ascii.Ascii false false false false true true true false)
                          String.EmptyString)), xs)]) GOOD = Some fl /\
           roc_model thr xs ts = Flags fl.
Proof. exact (@gen_roc). Qed.
Print Assumptions C10_source_program.

(* the same for argo.speed_test, for EVERY geodesic function (dist = great_circle_distance(lat, lon) enters as an input array) *)
Theorem C10_source_program_speed :
  forall (geod : Q -> Q -> Q -> Q -> Q) (st ft : Q) (lon lat : list obs) (ts : list Z),
         length lon = length lat ->
         length lon = length ts ->
         (2 <= length lon)%nat ->
         steps_nonzero ts ->
         exists fl : list flag,
           gen_flags (length lon)
             (bind_tim
                [(String.String (Ascii.Ascii false false true false true true true false)
                    (String.String (Ascii.Ascii true false false true false true true false)
                       (String.String (Ascii.Ascii false true true true false true true false)
                          (String.String (Ascii.Ascii false false false false true true true false)
                             String.EmptyString))), ts)])
             (bind_num
                [(String.String (Ascii.Ascii true true false false true true true false)
                    (String.String (Ascii.Ascii true false true false true true true false)
                       (String.String (Ascii.Ascii true true false false true true true false)
                          (String.String (Ascii.Ascii false false false false true true true false)
                             (String.String (Ascii.Ascii true false true false false true true false)
                                (String.String
                                   (Ascii.Ascii true true false false false true true false)
                                   (String.String
                                      (Ascii.Ascii false false true false true true true false)
                                      (String.String
                                         (Ascii.Ascii true true true true true false true false)
                                         (String.String
                                            (Ascii.Ascii false false true false true true true false)
                                            (String.String
                                               (Ascii.Ascii false false false true false true true
                                                  false)
                                               (String.String
                                                  (Ascii.Ascii false true false false true true true
                                                     false)
                                                  (String.String
                                                     (Ascii.Ascii true false true false false true
                                                        true false)
                                                     (String.String
                                                        (Ascii.Ascii true true false false true true
                                                           true false)
                                                        (String.String
                                                           (Ascii.Ascii false false false true false
                                                              true true false)
                                                           (String.String
                                                              (Ascii.Ascii true true true true false
                                                                 true true false)
                                                              (String.String
                                                                 (Ascii.Ascii false false true true
                                                                    false true true false)
                                                                 (String.String
                                                                    (Ascii.Ascii false false true
                                                                       false false true true false)
                                                                    String.EmptyString)))))))))))))))),
                  Some st);
                 (String.String (Ascii.Ascii false true true false false true true false)
                    (String.String (Ascii.Ascii true false false false false true true false)
                       (String.String (Ascii.Ascii true false false true false true true false)
                          (String.String (Ascii.Ascii false false true true false true true false)
                             (String.String (Ascii.Ascii true true true true true false true false)
                                (String.String
                                   (Ascii.Ascii false false true false true true true false)
                                   (String.String
                                      (Ascii.Ascii false false false true false true true false)
                                      (String.String
                                         (Ascii.Ascii false true false false true true true false)
                                         (String.String
                                            (Ascii.Ascii true false true false false true true false)
                                            (String.String
                                               (Ascii.Ascii true true false false true true true
                                                  false)
                                               (String.String
                                                  (Ascii.Ascii false false false true false true true
                                                     false)
                                                  (String.String
                                                     (Ascii.Ascii true true true true false true true
                                                        false)
                                                     (String.String
                                                        (Ascii.Ascii false false true true false true
                                                           true false)
                                                        (String.String
                                                           (Ascii.Ascii false false true false false
                                                              true true false) String.EmptyString))))))))))))),
                  Some ft)]) (fun _ : String.string => None) prog_speed_test skel_speed_test
             [String.String (Ascii.Ascii false false true true false true true false)
                (String.String (Ascii.Ascii true true true true false true true false)
                   (String.String (Ascii.Ascii false true true true false true true false)
                      String.EmptyString));
              String.String (Ascii.Ascii false false true true false true true false)
                (String.String (Ascii.Ascii true false false false false true true false)
                   (String.String (Ascii.Ascii false false true false true true true false)
                      String.EmptyString));
              String.String (Ascii.Ascii false false true false false true true false)
                (String.String (Ascii.Ascii true false false true false true true false)
                   (String.String (Ascii.Ascii true true false false true true true false)
                      (String.String (Ascii.Ascii false false true false true true true false)
                         String.EmptyString)));
              String.String (Ascii.Ascii true true false false true true true false)
                (String.String (Ascii.Ascii false false false false true true true false)
                   (String.String (Ascii.Ascii true false true false false true true false)
                      (String.String (Ascii.Ascii true false true false false true true false)
                         (String.String (Ascii.Ascii false false true false false true true false)
                            String.EmptyString))))]
             (bind_store
                [(String.String (Ascii.Ascii false false true true false true true false)
                    (String.String (Ascii.Ascii true true true true false true true false)
                       (String.String (Ascii.Ascii false true true true false true true false)
                          String.EmptyString)), lon);
                 (String.String (Ascii.Ascii false false true true false true true false)
                    (String.String (Ascii.Ascii true false false false false true true false)
                       (String.String (Ascii.Ascii false false true false true true true false)
                          String.EmptyString)), lat);
                 (String.String (Ascii.Ascii false false true false false true true false)
                    (String.String (Ascii.Ascii true false false true false true true false)
                       (String.String (Ascii.Ascii true true false false true true true false)
                          (String.String (Ascii.Ascii false false true false true true true false)
                             String.EmptyString))), speed_dist geod lon lat)]) GOOD = 
           Some fl /\ speed_model geod st ft lon lat ts = Flags fl.
Proof. exact (@gen_speed). Qed.
Print Assumptions C10_source_program_speed.

Theorem C10_assign_order :
  assign_order_rate_of_change_test = [SUSPECT; MISSING] /\ assign_order_speed_test = [MISSING; UNKNOWN; SUSPECT; FAIL; UNKNOWN; MISSING].
Proof. split; reflexivity. Qed.
Print Assumptions C10_assign_order.

Example C10_ex1 :
  roc_model 1 [Some 0; Some 3; None; Some 3; Some 63; Some 0] [0; 2000000000; 3000000000; 4000000000; 64000000000; 65000000000]%Z
  = Flags [GOOD; SUSPECT; MISSING; GOOD; GOOD; SUSPECT].
Proof. vm_compute. reflexivity. Qed.
