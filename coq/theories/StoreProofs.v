(* StoreProofs.v — cf_safe_name, column names, include/exclude and PandasStore.save /
   compute_aggregate: what the faithful model of Store.v guarantees, under which hypotheses it
   equals the frame the property (C19) describes, and concrete witnesses where it does not. *)
From IoosQc Require Import Base Generated Compare CompareProofs Store.
From Coq Require Import String Ascii NArith.
Local Notation length := List.length.
Local Open Scope bool_scope.
Local Open Scope list_scope.

(* ================================================================ strings *)

Lemma name_eqb_eq a b : name_eqb a b = true <-> a = b.
Proof.
  revert b. induction a as [|x a IH]; intros [|y b]; simpl; split; try congruence; try reflexivity.
  - intros H. apply andb_true_iff in H. destruct H as [H1 H2].
    apply N.eqb_eq in H1. apply IH in H2. congruence.
  - intros H. inversion H; subst. rewrite N.eqb_refl. simpl. apply IH. reflexivity.
Qed.

Lemma name_eqb_refl a : name_eqb a a = true.
Proof. apply name_eqb_eq. reflexivity. Qed.

Lemma name_eqb_neq a b : name_eqb a b = false <-> a <> b.
Proof.
  split.
  - intros H E. apply name_eqb_eq in E. congruence.
  - intros H. destruct (name_eqb a b) eqn:E; [|reflexivity]. apply name_eqb_eq in E. contradiction.
Qed.

Lemma name_eq_dec (a b : name) : {a = b} + {a <> b}.
Proof. apply list_eq_dec. apply N.eq_dec. Defined.

(* ================================================================ the two character classes *)

(* what the translator currently extracts from utils.cf_safe_name; when a literal is edited in
   /repo these two lemmas (and everything below that depends on them) stop compiling *)
Lemma lead_class_eq :
  lead_class = {| anchored := true; negated := false; ranges := [(48, 57); (95, 95)]%N |}.
Proof. vm_compute. reflexivity. Qed.

Lemma sub_class_eq :
  sub_class = {| anchored := false; negated := true;
                 ranges := [(95, 95); (97, 122); (65, 90); (48, 57)]%N |}.
Proof. vm_compute. reflexivity. Qed.

Lemma range1 a c : N.leb a c && N.leb c a = N.eqb c a.
Proof.
  destruct (N.eqb_spec c a), (N.leb_spec a c), (N.leb_spec c a); simpl; try reflexivity; lia.
Qed.

(* "^[0-9_]" : a digit or an underscore *)
Lemma lead_class_spec c : cls_match lead_class c = is_digit c || N.eqb c underscore.
Proof.
  rewrite lead_class_eq. unfold cls_match, in_range, is_digit, underscore. simpl.
  rewrite range1. destruct (N.leb 48 c && N.leb c 57), (N.eqb c 95); reflexivity.
Qed.

(* "[^_a-zA-Z0-9]" : anything that is not a letter, a digit or an underscore *)
Lemma sub_class_spec c : cls_match sub_class c = negb (legal_char c).
Proof.
  rewrite sub_class_eq. unfold cls_match, in_range, legal_char, is_letter, is_digit, underscore. simpl.
  rewrite range1.
  destruct (N.eqb c 95), (N.leb 97 c && N.leb c 122), (N.leb 65 c && N.leb c 90),
           (N.leb 48 c && N.leb c 57); reflexivity.
Qed.

Lemma sub_class_unanchored : anchored sub_class = false.
Proof. rewrite sub_class_eq. reflexivity. Qed.

Definition clean (s : name) : name := map (repl sub_class) s.

Lemma re_sub_clean s : re_sub sub_class s = clean s.
Proof. unfold re_sub. rewrite sub_class_unanchored. reflexivity. Qed.

Lemma repl_legal c : legal_char (repl sub_class c) = true.
Proof.
  unfold repl. rewrite sub_class_spec. destruct (legal_char c) eqn:E; simpl; [exact E|reflexivity].
Qed.

Lemma repl_fix c : legal_char c = true -> repl sub_class c = c.
Proof. intros H. unfold repl. rewrite sub_class_spec, H. reflexivity. Qed.

Lemma repl_idem c : repl sub_class (repl sub_class c) = repl sub_class c.
Proof. apply repl_fix, repl_legal. Qed.

Lemma clean_fix s : Forall (fun c => legal_char c = true) s -> clean s = s.
Proof.
  induction 1 as [|c s Hc _ IH]; [reflexivity|]. unfold clean in *. simpl.
  rewrite repl_fix by exact Hc. rewrite IH. reflexivity.
Qed.

Lemma clean_legal s : Forall (fun c => legal_char c = true) (clean s).
Proof. induction s; constructor; [apply repl_legal|assumption]. Qed.

Lemma clean_app a b : clean (a ++ b) = clean a ++ clean b.
Proof. apply map_app. Qed.

Lemma clean_length s : length (clean s) = length s.
Proof. apply map_length. Qed.

Lemma cf_unfold s :
  cf_safe_name_model s = clean (if re_match lead_class s then v_prefix ++ s else s).
Proof. unfold cf_safe_name_model. apply re_sub_clean. Qed.

(* ================================================================ cf_safe_name *)

(* only letters, digits and underscores *)
Theorem cf_legal s : Forall (fun c => legal_char c = true) (cf_safe_name_model s).
Proof. rewrite cf_unfold. apply clean_legal. Qed.

(* never starts with a digit *)
Theorem cf_no_leading_digit s :
  match cf_safe_name_model s with [] => True | c :: _ => is_digit c = false end.
Proof.
  rewrite cf_unfold. destruct s as [|c r]; [exact I|].
  unfold re_match. rewrite lead_class_spec.
  destruct (is_digit c || N.eqb c underscore) eqn:E.
  - reflexivity.
  - simpl. apply orb_false_iff in E. destruct E as [Ed Eu].
    unfold repl. destruct (cls_match sub_class c); [reflexivity|exact Ed].
Qed.

(* a name that starts with a letter, digit or underscore ends up starting with a letter (a
   leading digit or underscore is prefixed with "v_") *)
Theorem cf_leading_letter c r :
  legal_char c = true ->
  exists c' r', cf_safe_name_model (c :: r) = c' :: r' /\ is_letter c' = true.
Proof.
  intros Hc. rewrite cf_unfold. unfold re_match. rewrite lead_class_spec.
  destruct (is_digit c || N.eqb c underscore) eqn:E.
  - eexists. eexists. split; [reflexivity|]. reflexivity.
  - simpl. rewrite repl_fix by exact Hc. eexists. eexists. split; [reflexivity|].
    unfold legal_char in Hc. rewrite <- orb_assoc, E, orb_false_r in Hc. exact Hc.
Qed.

(* ... but a name starting with any other character ends up starting with an underscore *)
Theorem cf_leading_underscore_refuted :
  exists s, cf_safe_name_model s = underscore :: tl (cf_safe_name_model s) /\ s <> [].
Proof. exists [46; 97]%N. split; [vm_compute; reflexivity|discriminate]. Qed.

Theorem cf_empty : cf_safe_name_model [] = [].
Proof. vm_compute. reflexivity. Qed.

(* idempotent on names that start with a legal character (and on the empty name) *)
Theorem cf_idempotent s :
  match s with [] => True | c :: _ => legal_char c = true end ->
  cf_safe_name_model (cf_safe_name_model s) = cf_safe_name_model s.
Proof.
  intros H. destruct s as [|c r]; [vm_compute; reflexivity|].
  destruct (cf_leading_letter c r H) as [c' [r' [E Hl]]].
  rewrite (cf_unfold (cf_safe_name_model (c :: r))). rewrite E. unfold re_match.
  rewrite lead_class_spec.
  assert (Hn : is_digit c' || N.eqb c' underscore = false).
  { unfold is_letter, is_digit, underscore in *.
    destruct (N.leb_spec 65 c'), (N.leb_spec c' 90), (N.leb_spec 97 c'), (N.leb_spec c' 122),
             (N.leb_spec 48 c'), (N.leb_spec c' 57), (N.eqb_spec c' 95); simpl in *;
      try reflexivity; try discriminate; lia. }
  rewrite Hn. rewrite <- E. apply clean_fix. apply cf_legal.
Qed.

Theorem cf_idempotent_refuted :
  exists s, cf_safe_name_model (cf_safe_name_model s) <> cf_safe_name_model s.
Proof. exists [46; 97]%N. vm_compute. discriminate. Qed.

(* names that are CF-safe already are left alone *)
Theorem cf_identity c r :
  is_letter c = true -> Forall (fun c => legal_char c = true) r ->
  cf_safe_name_model (c :: r) = c :: r.
Proof.
  intros Hc Hr. rewrite cf_unfold. unfold re_match. rewrite lead_class_spec.
  assert (Hn : is_digit c || N.eqb c underscore = false).
  { unfold is_letter, is_digit, underscore in *.
    destruct (N.leb_spec 65 c), (N.leb_spec c 90), (N.leb_spec 97 c), (N.leb_spec c 122),
             (N.leb_spec 48 c), (N.leb_spec c 57), (N.eqb_spec c 95); simpl in *;
      try reflexivity; try discriminate; lia. }
  rewrite Hn. apply clean_fix. constructor; [|exact Hr].
  unfold legal_char. rewrite Hc. reflexivity.
Qed.

(* non-ASCII letters are not letters for the str regex: U+00E9 becomes "_" *)
Theorem cf_non_ascii_example :
  cf_safe_name_model [233; 116; 233]%N = codes "_t_".
Proof. vm_compute. reflexivity. Qed.

(* not injective: ids that differ only in illegal characters are identified *)
Theorem cf_not_injective :
  exists a b, a <> b /\ cf_safe_name_model a = cf_safe_name_model b.
Proof. exists (codes "a.b"), (codes "a_b"). split; [discriminate|vm_compute; reflexivity]. Qed.

(* ================================================================ column names *)

Lemma truthy_app_head s t : truthy s = true -> re_match lead_class (s ++ t) = re_match lead_class s.
Proof. destruct s; [discriminate|reflexivity]. Qed.

(* <stream>_<module>_<test>, each part cleaned, "v_" in front when the stream id starts with a
   digit or an underscore *)
Theorem column_name_split s pk ts :
  truthy s = true -> truthy pk = true ->
  column_name (Some s) pk ts
  = cf_safe_name_model s ++ [underscore] ++ clean pk ++ [underscore] ++ clean ts.
Proof.
  intros Hs Hp. unfold column_name, stream_str, label. rewrite Hs, Hp.
  rewrite !cf_unfold. rewrite <- !app_assoc. rewrite truthy_app_head by exact Hs.
  assert (Hd : repl sub_class dot = underscore) by (vm_compute; reflexivity).
  destruct (re_match lead_class s); rewrite !clean_app; simpl; rewrite ?Hd;
    rewrite <- ?app_assoc; reflexivity.
Qed.

(* for ids, module and test names that are CF-safe already: exactly stream_module_test *)
Theorem column_name_safe c r pk ts :
  is_letter c = true -> Forall (fun c => legal_char c = true) r ->
  truthy pk = true ->
  Forall (fun c => legal_char c = true) pk -> Forall (fun c => legal_char c = true) ts ->
  column_name (Some (c :: r)) pk ts = (c :: r) ++ [underscore] ++ pk ++ [underscore] ++ ts.
Proof.
  intros Hc Hr Hp Hpk Hts. rewrite column_name_split by (auto; reflexivity).
  rewrite cf_identity by assumption. rewrite !clean_fix by assumption. reflexivity.
Qed.

(* without a stream id (compute_aggregate): <module>_<test> *)
Theorem column_name_nostream pk ts :
  truthy pk = true -> re_match lead_class pk = false ->
  column_name (Some []) pk ts = clean pk ++ [underscore] ++ clean ts.
Proof.
  intros Hp Hl. unfold column_name, stream_str, label. simpl. rewrite Hp.
  rewrite cf_unfold. rewrite <- !app_assoc. rewrite truthy_app_head by exact Hp. rewrite Hl.
  rewrite !clean_app. reflexivity.
Qed.

Theorem column_name_rollup :
  column_name (Some []) (codes "qartod") rollup_name = codes "qartod_rollup".
Proof. vm_compute. reflexivity. Qed.

Theorem column_name_legal st pk ts :
  Forall (fun c => legal_char c = true) (column_name st pk ts).
Proof. apply cf_legal. Qed.

(* distinct CF-safe stream ids give distinct columns for the same test ... *)
Theorem column_name_inj_safe c1 r1 c2 r2 pk ts :
  is_letter c1 = true -> Forall (fun c => legal_char c = true) r1 ->
  is_letter c2 = true -> Forall (fun c => legal_char c = true) r2 ->
  truthy pk = true ->
  column_name (Some (c1 :: r1)) pk ts = column_name (Some (c2 :: r2)) pk ts ->
  c1 :: r1 = c2 :: r2.
Proof.
  intros H1 H2 H3 H4 Hp E. rewrite !column_name_split in E by (auto; reflexivity).
  rewrite !cf_identity in E by assumption. apply app_inv_tail in E. exact E.
Qed.

(* ... ids that differ only in characters illegal in CF names do not *)
Theorem column_name_collision :
  exists s1 s2 pk ts, s1 <> s2 /\ column_name (Some s1) pk ts = column_name (Some s2) pk ts.
Proof.
  exists (codes "a.b"), (codes "a_b"), (codes "qartod"), (codes "gross_range_test").
  split; [discriminate|vm_compute; reflexivity].
Qed.

Theorem column_name_collision2 :
  column_name (Some (codes "a-b")) (codes "qartod") (codes "spike_test")
  = column_name (Some (codes "a b")) (codes "qartod") (codes "spike_test").
Proof. vm_compute. reflexivity. Qed.

(* ================================================================ include / exclude *)

(* exactly what the source decides *)
Theorem save_filter inc exc cr :
  decide_code inc exc cr = Keep <->
  (match inc with None => True | Some i => matches cr i = true end) /\
  (match exc with None => True | Some e => matches cr e = false end).
Proof.
  unfold decide_code, matches.
  destruct inc as [i|], exc as [e|];
    repeat match goal with
           | |- context [in_fn ?a ?b] => destruct (in_fn a b)
           | |- context [in_stream ?a ?b] => destruct (in_stream a b)
           | |- context [in_str ?a ?b] => destruct (in_str a b)
           end; simpl; split; intros H; try discriminate; try tauto;
    destruct H; discriminate.
Qed.

(* the filter never raises *)
Theorem decide_code_total inc exc cr e : decide_code inc exc cr <> Raise e.
Proof.
  unfold decide_code.
  destruct (match inc with
            | Some i => negb (in_fn (fn_id cr) i) && negb (in_stream (stream cr) i) && negb (in_str (test cr) i)
            | None => false end); [discriminate|].
  destruct exc as [x|]; [|discriminate].
  destruct (in_fn (fn_id cr) x || in_stream (stream cr) x || in_str (test cr) x); discriminate.
Qed.

(* the code decides exactly by the rule of the property: include keeps and exclude drops
   results by stream id, test name or function (any include / exclude lists) *)
Theorem filter_agrees inc exc cr : decide_code inc exc cr = decide_intended inc exc cr.
Proof.
  unfold decide_code, decide_intended, matches.
  destruct inc as [i|], exc as [e|];
    repeat match goal with
           | |- context [in_fn ?a ?b] => destruct (in_fn a b)
           | |- context [in_stream ?a ?b] => destruct (in_stream a b)
           | |- context [in_str ?a ?b] => destruct (in_str a b)
           end; reflexivity.
Qed.

Definition cr0 (s t : string) (f : nat) : cres :=
  {| stream := Some (codes s); pkg := codes "qartod"; test := codes t; fn_id := f;
     results := [Some 1%Z]; data := [Some 1]; tinp := None; zinp := None; lat := None; lon := None |}.

(* the three ways of excluding, alone or together with an include list *)
Theorem filter_examples :
  decide_code None (Some [FStr (codes "other")]) (cr0 "temp" "gross_range_test" 1) = Keep /\
  decide_code None (Some [FStr (codes "temp")]) (cr0 "temp" "gross_range_test" 1) = Skip /\
  decide_code None (Some [FStr (codes "gross_range_test")]) (cr0 "temp" "gross_range_test" 1) = Skip /\
  decide_code None (Some [FFn 1]) (cr0 "temp" "gross_range_test" 1) = Skip /\
  decide_code (Some [FStr (codes "gross_range_test")]) (Some [FStr (codes "other")])
              (cr0 "temp" "gross_range_test" 1) = Keep /\
  decide_code (Some [FStr (codes "temp")]) (Some [FStr (codes "gross_range_test")])
              (cr0 "temp" "gross_range_test" 1) = Skip.
Proof. repeat split; vm_compute; reflexivity. Qed.

(* ================================================================ frames *)

Definition cols_len (n : nat) (df : frame) : Prop := Forall (fun c => colv_len (cvals c) = n) df.

Lemma colv_blank_0 v : colv_len v = 0%nat -> colv_blank 0 v = v.
Proof. destruct v as [l|l]; simpl; intros H; destruct l; try discriminate; reflexivity. Qed.

(* df[name] = values with the right number of rows appends a column *)
Lemma add_col_ok n c df :
  cols_len n df -> colv_len (cvals c) = n -> add_col c df = inr (df ++ [c]).
Proof.
  intros H Hc. unfold add_col. cbv zeta. destruct df as [|d df']; [reflexivity|].
  assert (Hd : nrows (d :: df') = n) by (inversion H; subst; assumption).
  rewrite Hd, Hc. destruct (Nat.eqb n 0) eqn:E.
  - apply Nat.eqb_eq in E. subst n. f_equal. f_equal.
    rewrite <- (map_id (d :: df')) at 2. apply map_ext_in. intros x Hx.
    unfold cols_len in H. rewrite Forall_forall in H. specialize (H x Hx).
    rewrite E. rewrite colv_blank_0 by congruence. destruct x; reflexivity.
  - rewrite Nat.eqb_refl. reflexivity.
Qed.

Lemma cols_len_app n a b : cols_len n a -> cols_len n b -> cols_len n (a ++ b).
Proof. apply Forall_app_intro || (intros; apply Forall_app; split; assumption). Qed.

Lemma has_col_iff nm df : has_col nm df = true <-> exists c, In c df /\ cname c = nm.
Proof.
  unfold has_col. rewrite existsb_exists. split; intros [c [H1 H2]]; exists c; split; auto.
  - apply name_eqb_eq in H2. congruence.
  - apply name_eqb_eq. congruence.
Qed.

Lemma has_col_app nm a b : has_col nm (a ++ b) = has_col nm a || has_col nm b.
Proof. apply existsb_app. Qed.

(* ---------------------------------------------------------------- rows, without any
   hypothesis on names *)

Section Rows.
  Variables (ax : axes) (wd wa : bool) (n : nat).

  (* df' extends df by columns of n rows *)
  Definition ext (df df' : frame) : Prop := exists more, df' = df ++ more /\ cols_len n more.

  Lemma ext_refl df : ext df df.
  Proof. exists []. rewrite app_nil_r. split; [reflexivity|constructor]. Qed.

  Lemma ext_trans a b c : ext a b -> ext b c -> ext a c.
  Proof.
    intros [m1 [E1 H1]] [m2 [E2 H2]]. exists (m1 ++ m2). subst. rewrite app_assoc.
    split; [reflexivity|apply cols_len_app; assumption].
  Qed.

  Lemma ext_len a b : cols_len n a -> ext a b -> cols_len n b.
  Proof. intros H [m [E Hm]]. subst. apply cols_len_app; assumption. Qed.

  Lemma ext_has nm a b : ext a b -> has_col nm a = true -> has_col nm b = true.
  Proof. intros [m [E _]] H. subst. rewrite has_col_app, H. reflexivity. Qed.

  Lemma ext_add c df : cols_len n df -> colv_len (cvals c) = n ->
    add_col c df = inr (df ++ [c]) /\ ext df (df ++ [c]).
  Proof.
    intros H Hc. split; [apply (add_col_ok n); assumption|].
    exists [c]. split; [reflexivity|]. constructor; [exact Hc|constructor].
  Qed.

  Lemma axis_step_rows k cr a df :
    cols_len n df -> wf n cr -> exists df', axis_step ax wa k cr a df = inr df' /\ ext df df'.
  Proof.
    intros H [_ [_ Hax]]. unfold axis_step. destruct (axis_arr a cr) as [l|] eqn:Ea.
    - destruct (wa && negb (has_col (axis_name ax a) df) && negb (Nat.eqb (length l) 0)) eqn:C.
      + apply andb_true_iff in C. destruct C as [_ C]. apply negb_true_iff, Nat.eqb_neq in C.
        destruct (Hax a l Ea) as [Hl|Hl]; [|contradiction].
        eexists. apply ext_add; [exact H|exact Hl].
      + exists df. split; [reflexivity|apply ext_refl].
    - exists df. split; [reflexivity|apply ext_refl].
  Qed.

  Lemma axes_steps_rows k cr l df :
    cols_len n df -> wf n cr -> exists df', axes_steps ax wa k cr l df = inr df' /\ ext df df'.
  Proof.
    revert df. induction l as [|a l IH]; intros df H Hw.
    - exists df. split; [reflexivity|apply ext_refl].
    - simpl. destruct (axis_step_rows k cr a df H Hw) as [d1 [E1 X1]]. rewrite E1. simpl.
      destruct (IH d1 (ext_len _ _ H X1) Hw) as [d2 [E2 X2]]. exists d2.
      split; [exact E2|eapply ext_trans; eassumption].
  Qed.

  Lemma data_step_rows k cr df :
    cols_len n df -> wf n cr -> exists df', data_step wd k cr df = inr df' /\ ext df df'.
  Proof.
    intros H [_ [Hd _]]. unfold data_step. destruct (stream cr) as [s|] eqn:Es.
    - destruct (wd && negb (has_col s df) && truthy s) eqn:C.
      + apply andb_true_iff in C. destruct C as [_ C].
        eexists. apply ext_add; [exact H|]. simpl. apply (Hd s); [reflexivity|exact C].
      + exists df. split; [reflexivity|apply ext_refl].
    - exists df. split; [reflexivity|apply ext_refl].
  Qed.

  Lemma result_step_rows k cr df :
    cols_len n df -> wf n cr ->
    exists df', result_step k cr df = inr df' /\ ext df df' /\ has_col (column_of cr) df' = true.
  Proof.
    intros H [Hr _]. unfold result_step. destruct (has_col (column_of cr) df) eqn:C.
    - exists df. split; [reflexivity|]. split; [apply ext_refl|exact C].
    - eexists. split; [apply ext_add; [exact H|exact Hr]|]. split; [apply ext_add; [exact H|exact Hr]|].
      rewrite has_col_app. simpl. rewrite name_eqb_refl. rewrite orb_true_r. reflexivity.
  Qed.

  Lemma save_loop_rows dec crs : forall k df,
    cols_len n df -> Forall (wf n) crs ->
    match save_loop ax wd wa dec k crs df with
    | inr f => ext df f /\ forall cr, In cr crs -> dec cr = Keep -> has_col (column_of cr) f = true
    | inl e => exists cr, In cr crs /\ dec cr = Raise e
    end.
  Proof.
    induction crs as [|cr rest IH]; intros k df H Hw.
    - simpl. split; [apply ext_refl|]. intros cr [].
    - inversion Hw as [|? ? Hcr Hrest]; subst. cbn [save_loop].
      destruct (axes_steps_rows k cr axis_order df H Hcr) as [d1 [E1 X1]]. rewrite E1. cbn [bind].
      assert (H1 := ext_len _ _ H X1).
      destruct (dec cr) eqn:Ed.
      + destruct (data_step_rows k cr d1 H1 Hcr) as [d2 [E2 X2]]. rewrite E2. cbn [bind].
        assert (H2 := ext_len _ _ H1 X2).
        destruct (result_step_rows k cr d2 H2 Hcr) as [d3 [E3 [X3 C3]]]. rewrite E3. cbn [bind].
        assert (H3 := ext_len _ _ H2 X3).
        specialize (IH (S k) d3 H3 Hrest).
        destruct (save_loop ax wd wa dec (S k) rest d3) as [e|f].
        * destruct IH as [c [Hc Hd]]. exists c. split; [right; exact Hc|exact Hd].
        * destruct IH as [X4 Hall]. split.
          -- eapply ext_trans; [exact X1|]. eapply ext_trans; [exact X2|].
             eapply ext_trans; [exact X3|exact X4].
          -- intros c [Hc|Hc] Hk; [subst c; eapply ext_has; eassumption|apply Hall; assumption].
      + specialize (IH (S k) d1 H1 Hrest).
        destruct (save_loop ax wd wa dec (S k) rest d1) as [e|f].
        * destruct IH as [c [Hc Hd]]. exists c. split; [right; exact Hc|exact Hd].
        * destruct IH as [X4 Hall]. split; [eapply ext_trans; eassumption|].
          intros c [Hc|Hc] Hk; [subst c; congruence|apply Hall; assumption].
      + exists cr. split; [left; reflexivity|exact Ed].
  Qed.
End Rows.

(* ---------------------------------------------------------------- the model walks like the
   property's frame when no two columns of different origin share a name *)

Lemma has_axis_iff a df :
  has_axis a df = true <-> exists c k, In c df /\ ckind c = KAxis a k.
Proof.
  unfold has_axis. rewrite existsb_exists. split.
  - intros [c [Hin H]]. destruct (ckind c) as [b k| |] eqn:E; try discriminate.
    exists c, k. split; [exact Hin|]. rewrite E. destruct a, b; try discriminate; reflexivity.
  - intros [c [k [Hin E]]]. exists c. split; [exact Hin|]. rewrite E. destruct a; reflexivity.
Qed.

Lemma has_data_iff s df :
  has_data s df = true <-> exists c k, In c df /\ ckind c = KData k /\ cname c = s.
Proof.
  unfold has_data. rewrite existsb_exists. split.
  - intros [c [Hin H]]. destruct (ckind c) as [| k |] eqn:E; try discriminate.
    exists c, k. split; [exact Hin|]. split; [exact E|]. apply name_eqb_eq in H. congruence.
  - intros [c [k [Hin [E Hn]]]]. exists c. split; [exact Hin|]. rewrite E. apply name_eqb_eq. congruence.
Qed.

Section Refine.
  Variables (ax : axes) (wd wa : bool) (dec : cres -> decision) (n : nat) (SS RR : list name).
  Hypothesis HA : wa = true -> NoDup (axis_names ax).
  Hypothesis HAS : wa = true -> forall a, ~ In (axis_name ax a) SS.
  Hypothesis HAR : wa = true -> forall a, ~ In (axis_name ax a) RR.
  Hypothesis HSR : forall s, In s SS -> ~ In s RR.

  Lemma axis_name_inj a b : wa = true -> axis_name ax a = axis_name ax b -> a = b.
  Proof.
    intros Hw E. specialize (HA Hw). unfold axis_names, axis_order in HA. simpl in HA.
    inversion HA as [|? ? N1 HA1]; subst. inversion HA1 as [|? ? N2 HA2]; subst.
    inversion HA2 as [|? ? N3 HA3]; subst. simpl in N1, N2, N3.
    destruct a, b; try reflexivity; simpl in E; exfalso; intuition congruence.
  Qed.

  Definition col_ok (Rd : list name) (c : column) : Prop :=
    colv_len (cvals c) = n /\
    match ckind c with
    | KAxis a _ => cname c = axis_name ax a /\ wa = true
    | KData _ => In (cname c) SS
    | KResult _ => In (cname c) Rd
    end.
  Definition inv (Rd : list name) (df : frame) : Prop := Forall (col_ok Rd) df.

  Lemma inv_len Rd df : inv Rd df -> cols_len n df.
  Proof. apply Forall_impl. intros c [H _]. exact H. Qed.

  Lemma inv_mono Rd nm df : inv Rd df -> inv (Rd ++ [nm]) df.
  Proof.
    apply Forall_impl. intros c [H1 H2]. split; [exact H1|].
    destruct (ckind c); try assumption. apply in_or_app. left. exact H2.
  Qed.

  Lemma lookup_axis Rd df a :
    inv Rd df -> incl Rd RR -> wa = true -> has_col (axis_name ax a) df = has_axis a df.
  Proof.
    intros Hinv Hincl Hw. apply eq_true_iff_eq. rewrite has_col_iff, has_axis_iff. split.
    - intros [c [Hin Hn]]. unfold inv in Hinv. rewrite Forall_forall in Hinv.
      destruct (Hinv c Hin) as [_ Hk]. destruct (ckind c) as [b k|k|k] eqn:E.
      + destruct Hk as [Hb _]. rewrite Hb in Hn. apply axis_name_inj in Hn; [|exact Hw]. subst b.
        exists c, k. auto.
      + exfalso. apply (HAS Hw a). rewrite <- Hn. exact Hk.
      + exfalso. apply (HAR Hw a). rewrite <- Hn. apply Hincl. exact Hk.
    - intros [c [k [Hin E]]]. exists c. split; [exact Hin|].
      unfold inv in Hinv. rewrite Forall_forall in Hinv. destruct (Hinv c Hin) as [_ Hk].
      rewrite E in Hk. tauto.
  Qed.

  Lemma lookup_data Rd df s :
    inv Rd df -> incl Rd RR -> In s SS -> has_col s df = has_data s df.
  Proof.
    intros Hinv Hincl Hs. apply eq_true_iff_eq. rewrite has_col_iff, has_data_iff. split.
    - intros [c [Hin Hn]]. unfold inv in Hinv. rewrite Forall_forall in Hinv.
      destruct (Hinv c Hin) as [_ Hk]. destruct (ckind c) as [b k|k|k] eqn:E.
      + exfalso. destruct Hk as [Hb Hw]. apply (HAS Hw b). rewrite <- Hb, Hn. exact Hs.
      + exists c, k. auto.
      + exfalso. apply (HSR s Hs). apply Hincl. rewrite <- Hn. exact Hk.
    - intros [c [k [Hin [_ Hn]]]]. exists c. auto.
  Qed.

  Lemma lookup_result Rd df nm :
    inv Rd df -> In nm RR -> ~ In nm Rd -> has_col nm df = false.
  Proof.
    intros Hinv HR Hnd. destruct (has_col nm df) eqn:C; [|reflexivity]. exfalso.
    apply has_col_iff in C. destruct C as [c [Hin Hn]].
    unfold inv in Hinv. rewrite Forall_forall in Hinv. destruct (Hinv c Hin) as [_ Hk].
    destruct (ckind c) as [b k|k|k].
    - destruct Hk as [Hb Hw]. apply (HAR Hw b). rewrite <- Hb, Hn. exact HR.
    - apply (HSR nm); [rewrite <- Hn; exact Hk|exact HR].
    - apply Hnd. rewrite <- Hn. exact Hk.
  Qed.

  Lemma axis_step_ref Rd k cr a df :
    inv Rd df -> incl Rd RR -> wf n cr ->
    axis_step ax wa k cr a df = inr (axis_cols ax wa k cr a df) /\ inv Rd (axis_cols ax wa k cr a df).
  Proof.
    intros Hinv Hincl [_ [_ Hax]]. unfold axis_step, axis_cols.
    destruct (axis_arr a cr) as [l|] eqn:Ea; [|split; [reflexivity|exact Hinv]].
    destruct (Bool.bool_dec wa true) as [Hw|Hw].
    - rewrite (lookup_axis Rd df a Hinv Hincl Hw).
      destruct (wa && negb (has_axis a df) && negb (Nat.eqb (length l) 0)) eqn:C;
        [|split; [reflexivity|exact Hinv]].
      apply andb_true_iff in C. destruct C as [_ C]. apply negb_true_iff, Nat.eqb_neq in C.
      destruct (Hax a l Ea) as [Hl|Hl]; [|contradiction].
      split.
      + apply (add_col_ok n); [apply (inv_len Rd); exact Hinv|exact Hl].
      + apply Forall_app. split; [exact Hinv|]. constructor; [|constructor].
        split; [exact Hl|]. simpl. auto.
    - apply not_true_is_false in Hw. rewrite Hw. simpl. split; [reflexivity|exact Hinv].
  Qed.

  Lemma axes_steps_ref Rd k cr l : forall df,
    inv Rd df -> incl Rd RR -> wf n cr ->
    axes_steps ax wa k cr l df = inr (fold_left (fun d a => axis_cols ax wa k cr a d) l df) /\
    inv Rd (fold_left (fun d a => axis_cols ax wa k cr a d) l df).
  Proof.
    induction l as [|a l IH]; intros df Hinv Hincl Hw.
    - split; [reflexivity|exact Hinv].
    - cbn [axes_steps fold_left]. destruct (axis_step_ref Rd k cr a df Hinv Hincl Hw) as [E1 I1].
      rewrite E1. cbn [bind]. apply IH; assumption.
  Qed.

  Lemma data_step_ref Rd k cr df :
    inv Rd df -> incl Rd RR -> wf n cr ->
    (wd = true -> forall s, In s (stream_names cr) -> In s SS) ->
    data_step wd k cr df = inr (data_cols wd k cr df) /\ inv Rd (data_cols wd k cr df).
  Proof.
    intros Hinv Hincl [_ [Hd _]] HS. unfold data_step, data_cols.
    destruct (stream cr) as [s|] eqn:Es; [|split; [reflexivity|exact Hinv]].
    destruct (truthy s) eqn:Ht; [|rewrite !andb_false_r; split; [reflexivity|exact Hinv]].
    destruct (Bool.bool_dec wd true) as [Hw|Hw].
    - assert (Hs : In s SS).
      { apply (HS Hw). unfold stream_names. rewrite Es, Ht. left. reflexivity. }
      rewrite (lookup_data Rd df s Hinv Hincl Hs).
      destruct (wd && negb (has_data s df) && true) eqn:C; [|split; [reflexivity|exact Hinv]].
      split.
      + apply (add_col_ok n); [apply (inv_len Rd); exact Hinv|]. simpl. apply (Hd s); auto.
      + apply Forall_app. split; [exact Hinv|]. constructor; [|constructor].
        split; [simpl; apply (Hd s); auto|]. simpl. exact Hs.
    - apply not_true_is_false in Hw. rewrite Hw. simpl. split; [reflexivity|exact Hinv].
  Qed.

  Lemma result_step_ref Rd k cr df :
    inv Rd df -> In (column_of cr) RR -> ~ In (column_of cr) Rd -> wf n cr ->
    result_step k cr df = inr (df ++ [result_col k cr]) /\
    inv (Rd ++ [column_of cr]) (df ++ [result_col k cr]).
  Proof.
    intros Hinv HR Hnd [Hr _]. unfold result_step.
    rewrite (lookup_result Rd df _ Hinv HR Hnd). split.
    - apply (add_col_ok n); [apply (inv_len Rd); exact Hinv|exact Hr].
    - apply Forall_app. split; [apply inv_mono; exact Hinv|]. constructor; [|constructor].
      split; [exact Hr|]. simpl. apply in_or_app. right. left. reflexivity.
  Qed.

  Lemma res_names_cons cr rest :
    res_names dec (cr :: rest) = if keeps (dec cr) then column_of cr :: res_names dec rest
                                 else res_names dec rest.
  Proof. unfold res_names, kept. simpl. destruct (keeps (dec cr)); reflexivity. Qed.

  Lemma data_names_cons cr rest :
    data_names dec (cr :: rest) = if keeps (dec cr) then stream_names cr ++ data_names dec rest
                                  else data_names dec rest.
  Proof. unfold data_names, kept. simpl. destruct (keeps (dec cr)); reflexivity. Qed.

  Lemma loop_ref crs : forall k df Rd,
    inv Rd df -> incl Rd RR -> Forall (wf n) crs ->
    NoDup (Rd ++ res_names dec crs) -> incl (res_names dec crs) RR ->
    (wd = true -> incl (data_names dec crs) SS) ->
    save_loop ax wd wa dec k crs df = spec_loop ax wd wa dec k crs df.
  Proof.
    induction crs as [|cr rest IH]; intros k df Rd Hinv Hincl Hw Hnd HR HS; [reflexivity|].
    inversion Hw as [|? ? Hcr Hrest]; subst. cbn [save_loop spec_loop].
    destruct (axes_steps_ref Rd k cr axis_order df Hinv Hincl Hcr) as [E1 I1].
    rewrite E1. cbn [bind]. cbv zeta.
    rewrite res_names_cons in Hnd, HR. rewrite data_names_cons in HS.
    destruct (dec cr) eqn:Ed; simpl keeps in *; cbv iota in *.
    - set (d1 := fold_left (fun d a => axis_cols ax wa k cr a d) axis_order df) in *.
      assert (HS1 : wd = true -> forall s, In s (stream_names cr) -> In s SS).
      { intros W s Hs. apply (HS W). apply in_or_app. left. exact Hs. }
      destruct (data_step_ref Rd k cr d1 I1 Hincl Hcr HS1) as [E2 I2]. rewrite E2. cbn [bind].
      assert (HRc : In (column_of cr) RR) by (apply HR; left; reflexivity).
      assert (Hnc : ~ In (column_of cr) Rd).
      { apply NoDup_remove_2 in Hnd. intros X. apply Hnd. apply in_or_app. left. exact X. }
      destruct (result_step_ref Rd k cr _ I2 HRc Hnc Hcr) as [E3 I3]. rewrite E3. cbn [bind].
      apply (IH (S k) _ (Rd ++ [column_of cr])).
      + exact I3.
      + intros x Hx. apply in_app_or in Hx. destruct Hx as [Hx|[Hx|[]]]; [apply Hincl; exact Hx|subst; exact HRc].
      + exact Hrest.
      + rewrite <- app_assoc. exact Hnd.
      + intros x Hx. apply HR. right. exact Hx.
      + intros W x Hx. apply (HS W). apply in_or_app. right. exact Hx.
    - apply (IH (S k) _ Rd); assumption.
    - reflexivity.
  Qed.
End Refine.

(* ================================================================ PandasStore.save *)

(* one row per input row: on collected arrays of n entries save never raises and every column
   of the frame has n entries; every result that passes the filters has a column carrying its
   name (not necessarily its values: see save_collision_refuted) *)
Theorem save_rows ax wd wa inc exc n crs :
  Forall (wf n) crs ->
  exists f, save_model ax wd wa inc exc crs = inr f /\ cols_len n f /\
            forall cr, In cr crs -> decide_code inc exc cr = Keep -> has_col (column_of cr) f = true.
Proof.
  intros Hw. unfold save_model.
  pose proof (save_loop_rows ax wd wa n (decide_code inc exc) crs 0 [] (Forall_nil _) Hw) as H.
  destruct (save_loop ax wd wa (decide_code inc exc) 0 crs []) as [e|f].
  - destruct H as [cr [_ Hd]]. exfalso. exact (decide_code_total inc exc cr e Hd).
  - exists f. split; [reflexivity|]. destruct H as [X Hall]. split; [|exact Hall].
    eapply ext_len; [|exact X]. constructor.
Qed.

(* the faithful model equals the property's walk when names do not clash *)
Theorem save_refines ax wd wa inc exc n crs :
  Forall (wf n) crs -> names_ok ax wd wa (decide_code inc exc) crs ->
  save_model ax wd wa inc exc crs = save_spec ax wd wa inc exc crs.
Proof.
  intros Hw [HA [HR [HAS [HAR HSR]]]]. unfold save_model, save_spec.
  apply (loop_ref ax wd wa (decide_code inc exc) n
           (if wd then data_names (decide_code inc exc) crs else [])
           (res_names (decide_code inc exc) crs)) with (Rd := []).
  - intros W. rewrite W in HA. exact HA.
  - intros W a. rewrite W in HAS. apply HAS. unfold axis_names. apply in_map. destruct a; simpl; tauto.
  - intros W a. rewrite W in HAR. apply HAR. unfold axis_names. apply in_map. destruct a; simpl; tauto.
  - exact HSR.
  - constructor.
  - intros x [].
  - exact Hw.
  - exact HR.
  - intros x Hx. exact Hx.
  - intros W. rewrite W. intros x Hx. exact Hx.
Qed.

Lemma spec_loop_ext ax wd wa dec1 dec2 crs : forall k df,
  (forall cr, In cr crs -> dec1 cr = dec2 cr) ->
  spec_loop ax wd wa dec1 k crs df = spec_loop ax wd wa dec2 k crs df.
Proof.
  induction crs as [|cr rest IH]; intros k df H; [reflexivity|].
  cbn [spec_loop]. cbv zeta. rewrite <- (H cr) by (left; reflexivity).
  destruct (dec1 cr); try reflexivity; apply IH; intros c Hc; apply H; right; exact Hc.
Qed.

(* ... and then the frame is the one the property describes, for any include / exclude lists *)
Theorem save_meets_property ax wd wa inc exc n crs :
  Forall (wf n) crs -> names_ok ax wd wa (decide_code inc exc) crs ->
  save_model ax wd wa inc exc crs = save_intended ax wd wa inc exc crs.
Proof.
  intros Hw Hn. rewrite (save_refines ax wd wa inc exc n crs Hw Hn).
  unfold save_spec, save_intended. apply spec_loop_ext. intros cr _. apply filter_agrees.
Qed.

(* the whole session: compute_aggregate calls, then save *)
Theorem store_meets_property ax aggs wd wa inc exc n crs crs' :
  aggregates aggs crs = inr crs' -> Forall (wf n) crs' ->
  names_ok ax wd wa (decide_code inc exc) crs' ->
  store_model ax aggs wd wa inc exc crs = store_intended ax aggs wd wa inc exc crs.
Proof.
  intros E Hw Hn. unfold store_model, store_intended. rewrite E. cbn [bind].
  apply (save_meets_property ax wd wa inc exc n crs' Hw Hn).
Qed.

(* ---------------------------------------------------------------- what the property's frame
   contains *)

Section Spec.
  Variables (ax : axes) (wd wa : bool) (dec : cres -> decision).

  Lemma res_view_app a b : res_view (a ++ b) = res_view a ++ res_view b.
  Proof. unfold res_view. apply flat_map_app. Qed.
  Lemma ax_view_app x a b : ax_view x (a ++ b) = ax_view x a ++ ax_view x b.
  Proof. unfold ax_view. apply flat_map_app. Qed.
  Lemma data_view_app s a b : data_view s (a ++ b) = data_view s a ++ data_view s b.
  Proof. unfold data_view. apply flat_map_app. Qed.

  Lemma axis_cols_res k cr a df : res_view (axis_cols ax wa k cr a df) = res_view df.
  Proof.
    unfold axis_cols. destruct (axis_arr a cr) as [l|]; [|reflexivity].
    destruct (wa && negb (has_axis a df) && negb (Nat.eqb (length l) 0)); [|reflexivity].
    rewrite res_view_app. simpl. apply app_nil_r.
  Qed.

  Lemma axes_fold_res k cr l : forall df,
    res_view (fold_left (fun d a => axis_cols ax wa k cr a d) l df) = res_view df.
  Proof. induction l as [|a l IH]; intros df; [reflexivity|]. simpl. rewrite IH. apply axis_cols_res. Qed.

  Lemma data_cols_res k cr df : res_view (data_cols wd k cr df) = res_view df.
  Proof.
    unfold data_cols. destruct (stream cr) as [s|]; [|reflexivity].
    destruct (wd && negb (has_data s df) && truthy s); [|reflexivity].
    rewrite res_view_app. simpl. apply app_nil_r.
  Qed.

  (* exactly one result column per kept result, in order, named by column_of, holding its flags *)
  Lemma spec_results crs : forall k df f,
    spec_loop ax wd wa dec k crs df = inr f ->
    res_view f = res_view df ++ map (fun cr => (column_of cr, CFlags (results cr))) (kept dec crs).
  Proof.
    induction crs as [|cr rest IH]; intros k df f H.
    - simpl in H. inversion H; subst. simpl. rewrite app_nil_r. reflexivity.
    - cbn [spec_loop] in H. cbv zeta in H. unfold kept. simpl filter. fold (kept dec rest).
      destruct (dec cr) eqn:Ed; simpl keeps; cbv iota.
      + apply IH in H. rewrite H. rewrite res_view_app, data_cols_res, axes_fold_res.
        simpl. rewrite <- app_assoc. reflexivity.
      + apply IH in H. rewrite H. rewrite axes_fold_res. reflexivity.
      + discriminate.
  Qed.

  (* every column has n rows *)
  Lemma axis_cols_len n k cr a df : cols_len n df -> wf n cr -> cols_len n (axis_cols ax wa k cr a df).
  Proof.
    intros H [_ [_ Hax]]. unfold axis_cols. destruct (axis_arr a cr) as [l|] eqn:E; [|exact H].
    destruct (wa && negb (has_axis a df) && negb (Nat.eqb (length l) 0)) eqn:C; [|exact H].
    apply andb_true_iff in C. destruct C as [_ C]. apply negb_true_iff, Nat.eqb_neq in C.
    destruct (Hax a l E) as [Hl|Hl]; [|contradiction].
    apply cols_len_app; [exact H|]. constructor; [exact Hl|constructor].
  Qed.

  Lemma has_axis_app a x y : has_axis a (x ++ y) = has_axis a x || has_axis a y.
  Proof. apply existsb_app. Qed.
  Lemma has_data_app s x y : has_data s (x ++ y) = has_data s x || has_data s y.
  Proof. apply existsb_app. Qed.

  Lemma axis_eqb_eq a b : axis_eqb a b = true <-> a = b.
  Proof. destruct a, b; simpl; split; congruence. Qed.
  Lemma axis_eqb_refl a : axis_eqb a a = true.
  Proof. destruct a; reflexivity. Qed.

  Definition ax_col (a : axis) (o : option (list obs)) : list (name * colv) :=
    match o with Some l => [(axis_name ax a, CVals l)] | None => [] end.

  (* one of the four blocks at the top of the loop body *)
  Lemma axis_cols_has a b k cr df :
    has_axis a (axis_cols ax wa k cr b df)
    = has_axis a df || (axis_eqb a b && wa && is_some (axis_present b cr)).
  Proof.
    unfold axis_cols, axis_present. destruct (axis_arr b cr) as [l|];
      [|rewrite !andb_false_r, orb_false_r; reflexivity].
    destruct (Nat.eqb (length l) 0); simpl;
      [rewrite !andb_false_r, orb_false_r; reflexivity|].
    destruct wa; simpl; [|rewrite !andb_false_r, orb_false_r; reflexivity].
    rewrite !andb_true_r.
    destruct (axis_eqb a b) eqn:Eab.
    - apply axis_eqb_eq in Eab. subst b. destruct (has_axis a df) eqn:Eh; simpl.
      + exact Eh.
      + rewrite has_axis_app, Eh. simpl. rewrite axis_eqb_refl. reflexivity.
    - destruct (has_axis b df); simpl; [rewrite orb_false_r; reflexivity|].
      rewrite has_axis_app. simpl. rewrite Eab. reflexivity.
  Qed.

  Lemma axis_cols_view a b k cr df :
    ax_view a (axis_cols ax wa k cr b df)
    = ax_view a df ++ (if axis_eqb a b && wa && negb (has_axis b df) then ax_col b (axis_present b cr) else []).
  Proof.
    unfold axis_cols, axis_present, ax_col. destruct (axis_arr b cr) as [l|];
      [|destruct (axis_eqb a b && wa && negb (has_axis b df)); rewrite app_nil_r; reflexivity].
    destruct (Nat.eqb (length l) 0); simpl;
      [rewrite !andb_false_r; destruct (axis_eqb a b && wa && negb (has_axis b df)); rewrite app_nil_r; reflexivity|].
    rewrite !andb_true_r.
    destruct wa; simpl; [|rewrite !andb_false_r; rewrite app_nil_r; reflexivity].
    rewrite !andb_true_r.
    destruct (has_axis b df); simpl; [rewrite !andb_false_r; rewrite app_nil_r; reflexivity|].
    rewrite !andb_true_r. rewrite ax_view_app. simpl. destruct (axis_eqb a b); reflexivity.
  Qed.

  Lemma axes_fold_has a k cr df :
    has_axis a (fold_left (fun d b => axis_cols ax wa k cr b d) axis_order df)
    = has_axis a df || (wa && is_some (axis_present a cr)).
  Proof.
    unfold axis_order. simpl fold_left. rewrite !axis_cols_has.
    destruct a; simpl; rewrite ?orb_false_r; reflexivity.
  Qed.

  Lemma axes_fold_view a k cr df :
    ax_view a (fold_left (fun d b => axis_cols ax wa k cr b d) axis_order df)
    = ax_view a df ++ (if wa && negb (has_axis a df) then ax_col a (axis_present a cr) else []).
  Proof.
    unfold axis_order. simpl fold_left. rewrite !axis_cols_view, !axis_cols_has.
    destruct a; simpl; rewrite ?orb_false_r, ?app_nil_r, <- ?app_assoc; simpl; reflexivity.
  Qed.

  Lemma data_cols_ax a k cr df :
    ax_view a (data_cols wd k cr df) = ax_view a df /\ has_axis a (data_cols wd k cr df) = has_axis a df.
  Proof.
    unfold data_cols. destruct (stream cr) as [s|]; [|split; reflexivity].
    destruct (wd && negb (has_data s df) && truthy s); [|split; reflexivity].
    rewrite ax_view_app, has_axis_app. simpl. rewrite app_nil_r, orb_false_r. split; reflexivity.
  Qed.

  (* the axis columns: written only when write_axes, one per axis, taken from the first
     collected result (kept or not) that has a non-empty array for it *)
  Lemma spec_axes a crs : forall k df f,
    spec_loop ax wd wa dec k crs df = inr f ->
    ax_view a f = ax_view a df ++ (if wa && negb (has_axis a df) then ax_col a (first_axis a crs) else []).
  Proof.
    induction crs as [|cr rest IH]; intros k df f H.
    - simpl in H. inversion H; subst. simpl. destruct (wa && negb (has_axis a f)); rewrite app_nil_r; reflexivity.
    - cbn [spec_loop] in H. cbv zeta in H. cbn [first_axis].
      set (d1 := fold_left (fun d b => axis_cols ax wa k cr b d) axis_order df) in *.
      assert (V1 := axes_fold_view a k cr df). assert (H1 := axes_fold_has a k cr df). fold d1 in V1, H1.
      assert (X : forall d2, ax_view a d2 = ax_view a d1 -> has_axis a d2 = has_axis a d1 ->
                  spec_loop ax wd wa dec (S k) rest d2 = inr f ->
                  ax_view a f = ax_view a df ++
                    (if wa && negb (has_axis a df)
                     then ax_col a match axis_present a cr with Some l => Some l | None => first_axis a rest end
                     else [])).
      { intros d2 V2 H2 E. apply IH in E. rewrite E, V2, H2, V1, H1. rewrite <- app_assoc. f_equal.
        destruct wa; simpl; [|reflexivity].
        destruct (has_axis a df); simpl; [reflexivity|].
        destruct (axis_present a cr); simpl; [reflexivity|reflexivity]. }
      destruct (dec cr).
      + apply (X _) in H; [exact H| |].
        * rewrite ax_view_app. simpl. rewrite app_nil_r. apply data_cols_ax.
        * rewrite has_axis_app. simpl. rewrite orb_false_r. apply data_cols_ax.
      + apply (X d1); [reflexivity|reflexivity|exact H].
      + discriminate.
  Qed.

  Definition stream_is (s : name) (cr : cres) : bool :=
    match stream cr with Some t => name_eqb s t | None => false end.

  Lemma data_cols_has s k cr df :
    has_data s (data_cols wd k cr df) = has_data s df || (wd && stream_is s cr && truthy s).
  Proof.
    unfold data_cols, stream_is. destruct (stream cr) as [t|]; [|rewrite !andb_false_r, orb_false_r; reflexivity].
    destruct wd; simpl; [|rewrite orb_false_r; reflexivity].
    destruct (name_eqb s t) eqn:Est.
    - apply name_eqb_eq in Est. subst t. destruct (has_data s df) eqn:Eh; simpl; [exact Eh|].
      destruct (truthy s); simpl; [|rewrite Eh; reflexivity].
      rewrite has_data_app, Eh. simpl. rewrite name_eqb_refl. reflexivity.
    - simpl. rewrite orb_false_r. destruct (negb (has_data t df) && truthy t); [|reflexivity].
      rewrite has_data_app. simpl. rewrite Est. rewrite orb_false_r. reflexivity.
  Qed.

  Lemma data_cols_view s k cr df :
    data_view s (data_cols wd k cr df)
    = data_view s df ++ (if wd && negb (has_data s df) && stream_is s cr && truthy s then [CVals (data cr)] else []).
  Proof.
    unfold data_cols, stream_is. destruct (stream cr) as [t|];
      [|rewrite !andb_false_r; simpl; rewrite app_nil_r; reflexivity].
    destruct wd; simpl; [|rewrite app_nil_r; reflexivity].
    destruct (name_eqb s t) eqn:Est.
    - apply name_eqb_eq in Est. subst t. rewrite andb_true_r.
      destruct (negb (has_data s df) && truthy s); [|rewrite app_nil_r; reflexivity].
      rewrite data_view_app. simpl. rewrite name_eqb_refl. reflexivity.
    - rewrite andb_false_r. simpl. rewrite app_nil_r.
      destruct (negb (has_data t df) && truthy t); [|reflexivity].
      rewrite data_view_app. simpl. rewrite Est. rewrite app_nil_r. reflexivity.
  Qed.

  Lemma axis_cols_data s k cr a df :
    data_view s (axis_cols ax wa k cr a df) = data_view s df /\
    has_data s (axis_cols ax wa k cr a df) = has_data s df.
  Proof.
    unfold axis_cols. destruct (axis_arr a cr) as [l|]; [|split; reflexivity].
    destruct (wa && negb (has_axis a df) && negb (Nat.eqb (length l) 0)); [|split; reflexivity].
    rewrite data_view_app, has_data_app. simpl. rewrite app_nil_r, orb_false_r. split; reflexivity.
  Qed.

  Lemma axes_fold_data s k cr l : forall df,
    data_view s (fold_left (fun d a => axis_cols ax wa k cr a d) l df) = data_view s df /\
    has_data s (fold_left (fun d a => axis_cols ax wa k cr a d) l df) = has_data s df.
  Proof.
    induction l as [|a l IH]; intros df; [split; reflexivity|]. simpl.
    destruct (IH (axis_cols ax wa k cr a df)) as [E1 E2]. rewrite E1, E2. apply axis_cols_data.
  Qed.

  (* the data columns: written only when write_data, one per stream id, holding the data of the
     first kept result of that stream *)
  Lemma spec_data s crs : truthy s = true -> forall k df f,
    spec_loop ax wd wa dec k crs df = inr f ->
    data_view s f = data_view s df ++
                    (if wd && negb (has_data s df) then map CVals (opt_list (first_data dec s crs)) else []).
  Proof.
    intros Ht. induction crs as [|cr rest IH]; intros k df f H.
    - simpl in H. inversion H; subst. simpl. destruct (wd && negb (has_data s f)); rewrite app_nil_r; reflexivity.
    - cbn [spec_loop] in H. cbv zeta in H. cbn [first_data].
      set (d1 := fold_left (fun d b => axis_cols ax wa k cr b d) axis_order df) in *.
      destruct (axes_fold_data s k cr axis_order df) as [V1 H1]. fold d1 in V1, H1.
      destruct (dec cr); simpl keeps; cbv iota.
      + apply IH in H. rewrite H. rewrite data_view_app, has_data_app. simpl.
        rewrite app_nil_r, orb_false_r. rewrite data_cols_view, data_cols_has, V1, H1, Ht.
        rewrite <- app_assoc. f_equal. fold (stream_is s cr). rewrite !andb_true_r.
        destruct wd; simpl; [|reflexivity].
        destruct (has_data s df); simpl; [reflexivity|].
        destruct (stream_is s cr); simpl; reflexivity.
      + apply IH in H. rewrite H, V1, H1. reflexivity.
      + discriminate.
  Qed.
End Spec.

(* ---------------------------------------------------------------- C19 for save *)

(* Full statement (not a theorem: see save_collision_refuted and the *_clash_refuted witnesses):
     forall crs write_data write_axes include exclude, Forall (wf n) crs ->
       save_model ... crs = save_intended ... crs
   It holds when names do not clash (names_ok): save_meets_property.  What the frame then
   contains: *)
Theorem save_columns ax wd wa inc exc n crs f :
  Forall (wf n) crs -> names_ok ax wd wa (decide_code inc exc) crs ->
  save_model ax wd wa inc exc crs = inr f ->
  (* rows *)
  cols_len n f /\
  (* one result column per kept result, in order, named <stream>_<module>_<test> made CF-safe *)
  res_view f = map (fun cr => (column_of cr, CFlags (results cr))) (kept (decide_code inc exc) crs) /\
  (* axes *)
  (forall a, ax_view a f = if wa then match first_axis a crs with
                                      | Some l => [(axis_name ax a, CVals l)] | None => [] end
                           else []) /\
  (* data *)
  (forall s, truthy s = true ->
             data_view s f = if wd then map CVals (opt_list (first_data (decide_code inc exc) s crs)) else []).
Proof.
  intros Hw Hn H. split; [|split; [|split]].
  - destruct (save_rows ax wd wa inc exc n crs Hw) as [f0 [E [X _]]]. rewrite H in E. inversion E; subst. exact X.
  - rewrite (save_refines ax wd wa inc exc n crs Hw Hn) in H. unfold save_spec in H.
    apply spec_results in H. exact H.
  - intros a. rewrite (save_refines ax wd wa inc exc n crs Hw Hn) in H. unfold save_spec in H.
    apply (spec_axes ax wd wa _ a) in H. rewrite H. simpl. rewrite andb_true_r. reflexivity.
  - intros s Hs. rewrite (save_refines ax wd wa inc exc n crs Hw Hn) in H. unfold save_spec in H.
    apply (spec_data ax wd wa _ s crs Hs) in H. rewrite H. simpl. rewrite andb_true_r. reflexivity.
Qed.

(* no axis column without write_axes, no data column without write_data: unconditionally *)
Lemma kept_all crs : kept (decide_code None None) crs = crs.
Proof.
  unfold kept. induction crs as [|cr r IH]; [reflexivity|]. simpl in *. f_equal. exact IH.
Qed.

(* ================================================================ compute_aggregate *)

Lemma aggregate_rollup n crs :
  crs <> [] -> Forall (fun cr => length (results cr) = n) crs ->
  aggregate_model crs = Flags (rollup n (map results crs)).
Proof.
  intros Hne Hl. unfold aggregate_model. rewrite compare_refines.
  destruct crs as [|c r]; [congruence|]. simpl map. apply compare_spec_ok.
  unfold same_len. change (results c :: map results r) with (map results (c :: r)).
  apply Forall_map. exact Hl.
Qed.

Lemma wf_results n crs : Forall (wf n) crs -> Forall (fun cr => length (results cr) = n) crs.
Proof. apply Forall_impl. intros cr [H _]. exact H. Qed.

(* the roll-up result appended by compute_aggregate is Compare's rollup (C04) of ALL collected
   results *)
Theorem compute_aggregate_rollup n nm crs :
  crs <> [] -> Forall (wf n) crs ->
  compute_aggregate_model nm crs = inr (crs ++ [agg_cres nm (rollup n (map results crs))]) /\
  Forall (wf n) (crs ++ [agg_cres nm (rollup n (map results crs))]).
Proof.
  intros Hne Hw. unfold compute_aggregate_model.
  rewrite (aggregate_rollup n crs Hne (wf_results n crs Hw)). split; [reflexivity|].
  apply Forall_app. split; [exact Hw|]. constructor; [|constructor].
  split; [|split].
  - simpl. unfold lift, rollup. rewrite map_length. apply tab_length.
  - simpl. intros s E. inversion E; subst. discriminate.
  - intros a l E. destruct a; discriminate.
Qed.

Theorem compute_aggregate_empty nm : compute_aggregate_model nm [] = inl IndexError.
Proof. reflexivity. Qed.

Theorem compute_aggregate_ragged_example :
  compute_aggregate_model rollup_name
    [ {| stream := Some (codes "a"); pkg := codes "qartod"; test := codes "t"; fn_id := 1;
         results := [Some 1%Z]; data := []; tinp := None; zinp := None; lat := None; lon := None |};
      {| stream := Some (codes "b"); pkg := codes "qartod"; test := codes "t"; fn_id := 1;
         results := [Some 1%Z; Some 1%Z]; data := []; tinp := None; zinp := None; lat := None; lon := None |} ]
  = inl AssertionError.
Proof. vm_compute. reflexivity. Qed.

(* the roll-up never reports better than any test at any row (C04 carried over) *)
Theorem rollup_not_better_store n crs cr i f :
  In cr crs -> (i < n)%nat -> nth i (results cr) None = Some (code f) ->
  (prio f <= prio (nth i (rollup n (map results crs)) MISSING))%nat.
Proof.
  intros Hin Hi Hv. apply (rollup_not_better n (map results crs) (results cr) i f); auto.
  apply in_map. exact Hin.
Qed.

(* C19, last sentence: compute_aggregate, then save without filters: the frame holds one
   result column per collected result and a roll-up column qartod_<name> equal to the aggregate
   (Compare.rollup) of exactly those columns *)
Theorem store_rollup ax wd wa n nm crs f :
  crs <> [] -> Forall (wf n) crs ->
  names_ok ax wd wa (decide_code None None) (crs ++ [agg_cres nm (rollup n (map results crs))]) ->
  store_model ax [nm] wd wa None None crs = inr f ->
  cols_len n f /\
  res_view f = map (fun cr => (column_of cr, CFlags (results cr))) crs
               ++ [(column_name (Some []) (codes "qartod") nm,
                    CFlags (lift (rollup n (map results crs))))].
Proof.
  intros Hne Hw Hn H. unfold store_model, aggregates in H.
  destruct (compute_aggregate_rollup n nm crs Hne Hw) as [E Hw'].
  rewrite E in H. cbn [bind] in H.
  destruct (save_columns ax wd wa None None n _ f Hw' Hn H) as [Hr [Hv _]].
  split; [exact Hr|]. rewrite Hv, kept_all, map_app. reflexivity.
Qed.

(* ================================================================ witnesses *)

Definition mk (s t : string) (f : nat) (r : list cell) (z : option (list obs)) : cres :=
  {| stream := Some (codes s); pkg := codes "qartod"; test := codes t; fn_id := f;
     results := r; data := map (fun _ => Some 7) r; tinp := None; zinp := z; lat := None; lon := None |}.

Ltac wf_one :=
  split; [reflexivity|
  split; [intros s E Ht; reflexivity|
  intros a l E; destruct a; simpl in E; try discriminate; inversion E; subst; simpl; auto]].
Ltac wf_solve := repeat (apply Forall_cons; [wf_one|]); apply Forall_nil.

Definition wA := mk "a.b" "gross_range_test" 1 [Some 1%Z; Some 1%Z] None.
Definition wB := mk "a_b" "gross_range_test" 1 [Some 4%Z; None] None.

(* two stream ids that differ only in characters illegal in CF names: the second result column
   is silently dropped (the source logs a warning) *)
Theorem save_collision_refuted :
  Forall (wf 2) [wA; wB] /\
  observe (save_model default_axes false false None None [wA; wB])
  = OFrame [(codes "a_b_qartod_gross_range_test", [Some 1; Some 1])] /\
  observe (save_intended default_axes false false None None [wA; wB])
  = OFrame [(codes "a_b_qartod_gross_range_test", [Some 1; Some 1]);
            (codes "a_b_qartod_gross_range_test", [Some 4; None])].
Proof. split; [wf_solve|]. split; vm_compute; reflexivity. Qed.

(* exclude alone drops the excluded stream *)
Theorem save_exclude_example :
  observe (save_model default_axes false false None (Some [FStr (codes "a.b")]) [wA; wB])
  = OFrame [(codes "a_b_qartod_gross_range_test", [Some 4; None])] /\
  observe (save_model default_axes false false None (Some [FFn 1]) [wA; wB]) = OFrame [].
Proof. split; vm_compute; reflexivity. Qed.

(* include by test name with an unrelated exclusion list keeps the result; exclusion by test
   name drops it *)
Theorem save_include_exclude_example :
  observe (save_model default_axes false false (Some [FStr (codes "gross_range_test")])
             (Some [FStr (codes "nosuch")]) [wA])
  = OFrame [(codes "a_b_qartod_gross_range_test", [Some 1; Some 1])] /\
  observe (save_model default_axes false false (Some [FStr (codes "a.b")])
             (Some [FStr (codes "gross_range_test")]) [wA])
  = OFrame [].
Proof. split; vm_compute; reflexivity. Qed.

(* the roll-up aggregates every collected result, also those filtered out of the frame or
   dropped as duplicates: it is then not the aggregate of the test columns of the frame *)
Theorem rollup_filtered_refuted :
  observe (store_model default_axes [rollup_name] false false
             (Some [FStr (codes "a.b"); FStr (codes "rollup")]) None [wA; wB])
  = OFrame [(codes "a_b_qartod_gross_range_test", [Some 1; Some 1]);
            (codes "qartod_rollup", [Some 4; Some 1])] /\
  rollup 2 [[Some 1%Z; Some 1%Z]] = [GOOD; GOOD].
Proof. split; vm_compute; reflexivity. Qed.

Theorem rollup_collision_refuted :
  observe (store_model default_axes [rollup_name] false false None None [wA; wB])
  = OFrame [(codes "a_b_qartod_gross_range_test", [Some 1; Some 1]);
            (codes "qartod_rollup", [Some 4; Some 1])].
Proof. vm_compute. reflexivity. Qed.

(* an include list that does not name the roll-up drops it *)
Theorem rollup_not_included_refuted :
  observe (store_model default_axes [rollup_name] false false (Some [FStr (codes "a.b")]) None [wA; wB])
  = OFrame [(codes "a_b_qartod_gross_range_test", [Some 1; Some 1])].
Proof. vm_compute. reflexivity. Qed.

(* a stream whose id is the name of an axis column: its data column is not written *)
Definition wZ := mk "z" "gross_range_test" 1 [Some 1%Z; Some 1%Z] (Some [Some 5; Some 6]).
Theorem save_axis_name_clash_refuted :
  Forall (wf 2) [wZ] /\
  observe (save_model default_axes true true None None [wZ])
  = OFrame [(codes "z", [Some 5; Some 6]); (codes "z_qartod_gross_range_test", [Some 1; Some 1])] /\
  observe (save_intended default_axes true true None None [wZ])
  = OFrame [(codes "z", [Some 5; Some 6]); (codes "z", [Some 7; Some 7]);
            (codes "z_qartod_gross_range_test", [Some 1; Some 1])].
Proof. split; [wf_solve|]. split; vm_compute; reflexivity. Qed.

(* a stream id that looks like another stream's result column: with write_data that result
   column is dropped *)
Definition wX1 := mk "x_qartod_spike_test" "gross_range_test" 1 [Some 1%Z; Some 1%Z] None.
Definition wX2 := mk "x" "spike_test" 3 [Some 4%Z; Some 3%Z] None.
Theorem save_data_name_clash_refuted :
  observe (save_model default_axes true false None None [wX1; wX2])
  = OFrame [(codes "x_qartod_spike_test", [Some 7; Some 7]);
            (codes "x_qartod_spike_test_qartod_gross_range_test", [Some 1; Some 1]);
            (codes "x", [Some 7; Some 7])].
Proof. vm_compute. reflexivity. Qed.

(* arrays of unequal length (outside wf): pandas' ValueError *)
Theorem save_ragged_example :
  observe (save_model default_axes false false None None
             [wA; mk "c" "gross_range_test" 1 [Some 1%Z] None]) = ORaises ValueError.
Proof. vm_compute. reflexivity. Qed.

(* a typical run satisfies the hypotheses of save_columns *)
Definition wT := {| stream := Some (codes "temp"); pkg := codes "qartod"; test := codes "gross_range_test";
                    fn_id := 1; results := [None; Some 1%Z; Some 4%Z]; data := [None; Some 2; Some 50];
                    tinp := Some [None; Some 1; Some 2]; zinp := Some []; lat := None; lon := None |}.
Theorem save_typical_example :
  observe (save_model default_axes true true None None [wT])
  = OFrame [(codes "time", [None; Some 1; Some 2]); (codes "temp", [None; Some 2; Some 50]);
            (codes "temp_qartod_gross_range_test", [None; Some 1; Some 4])].
Proof. vm_compute. reflexivity. Qed.

Theorem save_typical_hyps :
  Forall (wf 3) [wT] /\ names_ok default_axes true true (decide_code None None) [wT].
Proof.
  split; [wf_solve|]. unfold names_ok. vm_compute axis_names. vm_compute data_names. vm_compute res_names.
  split; [|split; [|split; [|split]]].
  - repeat constructor; simpl; intuition discriminate.
  - repeat constructor; simpl; intuition discriminate.
  - simpl. intuition (subst; discriminate).
  - simpl. intuition (subst; discriminate).
  - simpl. intuition (subst; discriminate).
Qed.
