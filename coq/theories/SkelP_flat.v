(* SkelP_flat.v — generated flag skeleton of flat_line_test = model.
   The source writes its SUSPECT / FAIL flags inside a local function, run_test(threshold, flag), called twice;
   the translator inlines each call (the flag parameter replaced by the argument, the local boolean array
   `test_results` named per call: test_results@suspect_threshold, test_results@fail_threshold).  The environment
   binds those two arrays to the model's run_test for the two window lengths. *)
From IoosQc Require Import Base Skel SkelBase Generated FlatLine FlatLineProofs.
From Coq Require Import String.
Local Notation length := List.length.
Open Scope string_scope.

Definition env_flat (xs : list obs) (rs rf : list bool) : env :=
  {| e_arr := bind_arr [("inp", xs)];
     e_num := (fun _ => None); e_str := (fun _ => None);
     e_bool := bind_bool [("test_results@suspect_threshold", fun i => nth i rs false);
                          ("test_results@fail_threshold", fun i => nth i rf false)];
     e_size := length xs |}.

(* the flags of the model for window lengths cs / cf (in steps), past the parameter checks *)
Definition flat_flags (tol : Q) (xs : list obs) (cs cf : nat) : list flag :=
  let n := length xs in
  if (n <? 3)%nat then set_where (tab n (missing_at xs)) MISSING (all_flags n GOOD) else
  set_where (tab n (missing_at xs)) MISSING
    (set_where (run_test tol xs cf) FAIL (set_where (run_test tol xs cs) SUSPECT (all_flags n GOOD))).

Lemma tab_nth_bool n (l : list bool) : length l = n -> tab n (fun i => nth i l false) = l.
Proof. intros <-. apply tab_nth_self. Qed.

Lemma run_test_length tol xs c : length (run_test tol xs c) = length xs.
Proof. rewrite run_test_tab. apply tab_length. Qed.

Theorem skel_flat_line tol xs cs cf :
  run_steps (env_flat xs (run_test tol xs cs) (run_test tol xs cf)) skel_flat_line_test
            (all_flags (length xs) GOOD)
  = flat_flags tol xs cs cf.
Proof.
  unfold flat_flags, skel_flat_line_test. steps.
  unfold guards_hold, forallb. rewrite !eval_g_inv.
  change (3 # 1) with (inject_Z (Z.of_nat 3)). rewrite !size_lt_guard. cbn [e_size env_flat].
  destruct (Nat.ltb (length xs) 3) eqn:E; cbn [negb andb].
  - reflexivity.
  - cbn [eval_b e_bool env_flat bind_bool find fst snd String.eqb Ascii.eqb Bool.eqb].
    rewrite !tab_nth_bool by apply run_test_length. reflexivity.
Qed.

(* whenever the model returns flags, they are the generated skeleton run on the model's two run_test arrays *)
Theorem skel_flat_model st ft tol xs ts fl :
  flat_model st ft tol xs ts = Flags fl ->
  fl = run_steps (env_flat xs (run_test tol xs (Z.to_nat (count_of st (median_step ts))))
                              (run_test tol xs (Z.to_nat (count_of ft (median_step ts)))))
                 skel_flat_line_test (all_flags (length xs) GOOD).
Proof.
  intros H. rewrite skel_flat_line. unfold flat_flags. unfold flat_model in H.
  destruct (Nat.ltb (length xs) 3) eqn:E.
  - inversion H. reflexivity.
  - destruct (median_step ts =? 0)%Z; [discriminate|].
    destruct ((count_of st (median_step ts) <? 0)%Z || (count_of ft (median_step ts) <? 0)%Z)%bool; [discriminate|].
    inversion H. reflexivity.
Qed.
