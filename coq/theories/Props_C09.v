(* Props_C09.v — C09: spike flags compare each interior point with its two neighbours only. *)
From IoosQc Require Import Base Generated Spike SpikeProofs.
From Coq Require Import String.
Local Notation length := List.length.

(* the operational model of spike_test (reference / magnitude arrays, overwrites SUSPECT, FAIL,
   end points UNKNOWN, MISSING) equals the per-point specification for every series, both methods
   and every threshold combination; unknown method names are rejected *)
Theorem C09_refines : forall method st ft xs, spike_model method st ft xs = spike_spec method st ft xs.
Proof. exact spike_refines. Qed.
Print Assumptions C09_refines.

Theorem C09_bad_method : forall method st ft xs,
  parse_method method = None -> spike_model method st ft xs = Raises ValueError.
Proof. exact spike_bad_method. Qed.
Print Assumptions C09_bad_method.

(* the specification, clause by clause *)
Theorem C09_endpoints : forall m st ft xs i x,
  (i = 0 \/ i = length xs - 1)%nat -> getq xs i = Some x -> spike_pt m st ft xs i = UNKNOWN.
Proof.
  intros m st ft xs i x H E. unfold spike_pt. rewrite E.
  assert (B : (Nat.eqb i 0 || Nat.eqb i (length xs - 1))%bool = true).
  { apply orb_true_iff. destruct H; [left|right]; apply Nat.eqb_eq; assumption. }
  rewrite B. destruct m; reflexivity.
Qed.
Print Assumptions C09_endpoints.

Theorem C09_interior : forall m st ft xs i p x s,
  i <> 0%nat -> i <> (length xs - 1)%nat ->
  getq xs (i - 1) = Some p -> getq xs i = Some x -> getq xs (i + 1) = Some s ->
  spike_pt m st ft xs i = decide3 st ft (magnitude m p x s).
Proof.
  intros m st ft xs i p x s H0 H1 Ep Ex Es. unfold spike_pt. rewrite Ep, Ex, Es.
  assert (B : (Nat.eqb i 0 || Nat.eqb i (length xs - 1))%bool = false).
  { apply orb_false_iff. split; apply Nat.eqb_neq; assumption. }
  rewrite B. reflexivity.
Qed.
Print Assumptions C09_interior.

(* magnitudes as in the property text *)
Theorem C09_magnitude_average : forall p x s, magnitude Average p x s = qabs (x - (p + s) / 2).
Proof. reflexivity. Qed.
Print Assumptions C09_magnitude_average.

Theorem C09_magnitude_differential : forall p x s,
  magnitude Differential p x s =
  if Qleb 0 ((x - p) * (s - x)) then 0 else qmin (qabs (x - p)) (qabs (s - x)).
Proof. reflexivity. Qed.
Print Assumptions C09_magnitude_differential.

(* FAIL iff a fail threshold is given and d exceeds it; else SUSPECT iff a suspect threshold is
   given and d exceeds it; else GOOD; d equal to a threshold is not a spike *)
Theorem C09_fail : forall st ft d, decide3 st ft d = FAIL <-> exists t, ft = Some t /\ t < d.
Proof. exact decide3_fail. Qed.
Print Assumptions C09_fail.

Theorem C09_suspect : forall st ft d,
  decide3 st ft d = SUSPECT <-> (forall t, ft = Some t -> d <= t) /\ exists u, st = Some u /\ u < d.
Proof. exact decide3_suspect. Qed.
Print Assumptions C09_suspect.

Theorem C09_good : forall st ft d,
  decide3 st ft d = GOOD <-> (forall t, ft = Some t -> d <= t) /\ (forall u, st = Some u -> d <= u).
Proof. exact decide3_good. Qed.
Print Assumptions C09_good.

Theorem C09_method_names :
  parse_method "average" = Some Average /\ parse_method "differential" = Some Differential /\
  parse_method spike_default_method = Some Average.
Proof. repeat split; reflexivity. Qed.
Print Assumptions C09_method_names.

Theorem C09_assign_order :
  assign_order_spike_test = [SUSPECT; FAIL; UNKNOWN; UNKNOWN; MISSING].
Proof. reflexivity. Qed.
Print Assumptions C09_assign_order.

Example C09_ex1 :
  spike_model "average" (Some 1) (Some 2) [Some 0; Some 0; Some 3; Some 0; Some 2; Some 0; None; Some 5; Some 1]
  = Flags [UNKNOWN; SUSPECT; FAIL; FAIL; SUSPECT; MISSING; MISSING; MISSING; UNKNOWN].
Proof. vm_compute. reflexivity. Qed.
Example C09_ex2 :
  spike_model "differential" (Some 1) (Some 3) [Some 1; Some 5; Some 2; Some 4; Some 7; Some 1]
  = Flags [UNKNOWN; SUSPECT; SUSPECT; GOOD; SUSPECT; UNKNOWN].
Proof. vm_compute. reflexivity. Qed.

(* TRANSLATOR TIE: the skeleton generated from the CURRENT source of spike_test (guards
   `suspect_threshold is not None` / `fail_threshold is not None` / `inp.size > 0`, the comparisons
   `diff > threshold`, the flag constants and the order SUSPECT, FAIL, end points UNKNOWN, MISSING), run in the
   model's environment (diff := the model's magnitude array), yields exactly the model's flags *)
From IoosQc Require Import Skel SkelBase SkelP_spike.
Theorem C09_source_skeleton : forall method m st ft xs,
  parse_method method = Some m ->
  spike_model method st ft xs =
  Flags (run_steps (env_spike m st ft xs) skel_spike_test (all_flags (length xs) GOOD)).
Proof. exact skel_spike. Qed.
Print Assumptions C09_source_skeleton.

(* TRANSLATOR TIE, whole function: the ARRAY PROGRAM (ref / diff for both methods: zeros, the slices
   inp[0:-2] + inp[2:], / 2, abs, np.ma.diff, minimum of the absolute steps, the masked where-assignment
   of 0 where the steps do not have opposite signs) AND the flag skeleton, both generated from the CURRENT
   source of spike_test and given their numpy meaning by Arr.run_prog / Skel.run_steps, compute exactly
   the model's flags, for every series, thresholds and known method *)
From IoosQc Require Import Arr Gen ArrBase ArrP_spike GenBase GenP_spike.
Theorem C09_source_program : forall method m st ft xs,
  parse_method method = Some m ->
  exists fl,
    gen_flags (length xs) (fun _ => None)
              (bind_num [("suspect_threshold", st); ("fail_threshold", ft)]) (bind_str [("method", method)])
              prog_spike_test skel_spike_test ["inp"; "diff"] (bind_store [("inp", xs)]) GOOD = Some fl
    /\ spike_model method st ft xs = Flags fl.
Proof. exact gen_spike. Qed.
Print Assumptions C09_source_program.
