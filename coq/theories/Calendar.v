(* Calendar.v — civil (proleptic Gregorian) date arithmetic on Z, used by the climatology model.
   days since 1970-01-01 <-> (year, month, day) after Howard Hinnant's `civil_from_days` /
   `days_from_civil`, written with Z.div / Z.modulo (floor division, so dates before 1970 work),
   and the calendar fields of a timestamp in nanoseconds that pandas exposes as
   year / month / day / dayofyear / dayofweek (Monday = 0) / quarter / isocalendar().week / hour.
   The general lemmas are obtained from one exhaustive check over the 146097 days of a 400-year
   era (vm_compute); the harness validates every field against pandas day by day. *)
From IoosQc Require Import Base.
Local Open Scope Z_scope.

(* ---------------------------------------------------------------- days <-> civil *)

Definition ERA_DAYS : Z := 146097.

(* the part of civil_from_days that depends only on the day of the era, 0 <= doe < 146097:
   (year of era counted from 1 March, month, day) *)
Definition civil_of_doe (doe : Z) : Z * Z * Z :=
  let yoe := (doe - doe / 1460 + doe / 36524 - doe / 146096) / 365 in
  let doy := doe - (365 * yoe + yoe / 4 - yoe / 100) in
  let mp := (5 * doy + 2) / 153 in
  let d := doy - (153 * mp + 2) / 5 + 1 in
  let m := if mp <? 10 then mp + 3 else mp - 9 in
  (yoe, m, d).

Definition civil_of_days (n : Z) : Z * Z * Z :=
  let z := n + 719468 in
  let era := z / ERA_DAYS in
  let doe := z mod ERA_DAYS in
  let '(yoe, m, d) := civil_of_doe doe in
  (yoe + era * 400 + (if m <=? 2 then 1 else 0), m, d).

Definition doe_of_civil (yoe m d : Z) : Z :=
  let doy := (153 * (if 2 <? m then m - 3 else m + 9) + 2) / 5 + d - 1 in
  yoe * 365 + yoe / 4 - yoe / 100 + doy.

Definition days_of_civil (y m d : Z) : Z :=
  let y' := y - (if m <=? 2 then 1 else 0) in
  let era := y' / 400 in
  let yoe := y' mod 400 in
  era * ERA_DAYS + doe_of_civil yoe m d - 719468.

Definition is_leap (y : Z) : bool :=
  (y mod 4 =? 0) && (negb (y mod 100 =? 0) || (y mod 400 =? 0)).

Definition days_in_month (y m : Z) : Z :=
  if m =? 2 then (if is_leap y then 29 else 28)
  else if (m =? 4) || (m =? 6) || (m =? 9) || (m =? 11) then 30 else 31.

Definition valid_date (y m d : Z) : bool :=
  (1 <=? m) && (m <=? 12) && (1 <=? d) && (d <=? days_in_month y m).

(* days of the year before the first of month m *)
Definition days_before_month (leap : bool) (m : Z) : Z :=
  nth (Z.to_nat (m - 1)) [0; 31; 59; 90; 120; 151; 181; 212; 243; 273; 304; 334] 0
  + (if leap && (2 <? m) then 1 else 0).

(* ---------------------------------------------------------------- fields of a day number *)

Definition year_of_days (n : Z) : Z := let '(y, _, _) := civil_of_days n in y.
Definition month_of_days (n : Z) : Z := let '(_, m, _) := civil_of_days n in m.
Definition day_of_days (n : Z) : Z := let '(_, _, d) := civil_of_days n in d.

Definition dayofyear_of_days (n : Z) : Z :=
  let '(y, m, d) := civil_of_days n in days_before_month (is_leap y) m + d.

(* 1970-01-01 was a Thursday; Monday = 0 *)
Definition dayofweek_of_days (n : Z) : Z := (n + 3) mod 7.

Definition quarter_of_days (n : Z) : Z := (month_of_days n - 1) / 3 + 1.

(* ISO 8601 week number: the week (counted from 1) of the year in which this week's Thursday
   falls *)
Definition iso_week_of_days (n : Z) : Z :=
  let thursday := n - dayofweek_of_days n + 3 in
  (dayofyear_of_days thursday - 1) / 7 + 1.

(* ---------------------------------------------------------------- fields of a timestamp (ns) *)

Definition DAY_NS : Z := 86400 * 1000000000.
Definition HOUR_NS : Z := 3600 * 1000000000.

Definition days_of_ns (t : Z) : Z := t / DAY_NS.

Definition year (t : Z) : Z := year_of_days (days_of_ns t).
Definition month (t : Z) : Z := month_of_days (days_of_ns t).
Definition day (t : Z) : Z := day_of_days (days_of_ns t).
Definition dayofyear (t : Z) : Z := dayofyear_of_days (days_of_ns t).
Definition dayofweek (t : Z) : Z := dayofweek_of_days (days_of_ns t).
Definition quarter (t : Z) : Z := quarter_of_days (days_of_ns t).
Definition iso_week (t : Z) : Z := iso_week_of_days (days_of_ns t).
Definition hour (t : Z) : Z := (t mod DAY_NS) / HOUR_NS.

(* ---------------------------------------------------------------- the era check *)

(* [lo; lo+1; ...; lo+len-1] in descending order, built by binary iteration (a unary `seq` of
   146097 elements would be far too slow) *)
Definition zstep (p : Z * list Z) : Z * list Z := (fst p + 1, fst p :: snd p).
Definition zrange (lo : Z) (len : positive) : list Z := snd (Pos.iter zstep (lo, []) len).

Lemma zrange_iter lo len x :
  fst (Pos.iter zstep (lo, []) len) = lo + Zpos len /\
  (lo <= x < lo + Zpos len -> In x (snd (Pos.iter zstep (lo, []) len))).
Proof.
  induction len as [|len IH] using Pos.peano_ind.
  - simpl. split; [reflexivity|]. intros H. left. lia.
  - rewrite Pos.iter_succ. destruct IH as [IH1 IH2].
    unfold zstep at 1. simpl fst. simpl snd. split; [rewrite IH1; lia|].
    intros H. rewrite IH1. destruct (Z.eq_dec x (lo + Zpos len)) as [->|N]; [left; reflexivity|].
    right. apply IH2. lia.
Qed.

Lemma in_zrange lo len x : lo <= x < lo + Zpos len -> In x (zrange lo len).
Proof. apply zrange_iter. Qed.

Lemma forallb_zrange (f : Z -> bool) lo len :
  forallb f (zrange lo len) = true -> forall x, lo <= x < lo + Zpos len -> f x = true.
Proof.
  intros H x Hx. apply (proj1 (forallb_forall f (zrange lo len)) H). apply in_zrange. exact Hx.
Qed.

(* what every day of an era satisfies: field ranges and inversion by doe_of_civil *)
Definition doe_ok (doe : Z) : bool :=
  let '(yoe, m, d) := civil_of_doe doe in
  (0 <=? yoe) && (yoe <=? 399) && (1 <=? m) && (m <=? 12) && (1 <=? d) && (d <=? 31)
  && (doe_of_civil yoe m d =? doe).

Lemma era_check : forallb doe_ok (zrange 0 146097) = true.
Proof. vm_compute. reflexivity. Qed.

Lemma doe_ok_all doe : 0 <= doe < ERA_DAYS -> doe_ok doe = true.
Proof.
  intros H. apply (forallb_zrange _ _ _ era_check). unfold ERA_DAYS in H. lia.
Qed.

Lemma civil_of_doe_spec doe : 0 <= doe < ERA_DAYS ->
  let '(yoe, m, d) := civil_of_doe doe in
  0 <= yoe <= 399 /\ 1 <= m <= 12 /\ 1 <= d <= 31 /\ doe_of_civil yoe m d = doe.
Proof.
  intros H. apply doe_ok_all in H. unfold doe_ok in H.
  destruct (civil_of_doe doe) as [[yoe m] d].
  repeat (apply andb_true_iff in H; destruct H as [H ?]).
  repeat match goal with E : (_ <=? _) = true |- _ => apply Z.leb_le in E end.
  match goal with E : (_ =? _) = true |- _ => apply Z.eqb_eq in E end.
  lia.
Qed.

Lemma doe_range n : 0 <= (n + 719468) mod ERA_DAYS < ERA_DAYS.
Proof. apply Z.mod_pos_bound. reflexivity. Qed.

(* ---------------------------------------------------------------- general lemmas *)

Lemma month_of_days_range n : 1 <= month_of_days n <= 12.
Proof.
  unfold month_of_days, civil_of_days.
  pose proof (civil_of_doe_spec _ (doe_range n)) as H.
  destruct (civil_of_doe ((n + 719468) mod ERA_DAYS)) as [[yoe m] d]. lia.
Qed.

Lemma day_of_days_range n : 1 <= day_of_days n <= 31.
Proof.
  unfold day_of_days, civil_of_days.
  pose proof (civil_of_doe_spec _ (doe_range n)) as H.
  destruct (civil_of_doe ((n + 719468) mod ERA_DAYS)) as [[yoe m] d]. lia.
Qed.

(* days_of_civil inverts civil_of_days on every day number *)
Lemma days_of_civil_of_days n :
  let '(y, m, d) := civil_of_days n in days_of_civil y m d = n.
Proof.
  unfold civil_of_days.
  pose proof (civil_of_doe_spec _ (doe_range n)) as H.
  destruct (civil_of_doe ((n + 719468) mod ERA_DAYS)) as [[yoe m] d].
  destruct H as (Hy & Hm & Hd & Hdoe).
  unfold days_of_civil.
  replace (yoe + (n + 719468) / ERA_DAYS * 400 + (if m <=? 2 then 1 else 0)
           - (if m <=? 2 then 1 else 0)) with (yoe + (n + 719468) / ERA_DAYS * 400) by lia.
  rewrite Z.div_add by lia. rewrite Z.mod_add by lia.
  rewrite Z.div_small by lia. rewrite Z.mod_small by lia.
  rewrite Hdoe. simpl Z.add at 1.
  pose proof (Z.div_mod (n + 719468) ERA_DAYS ltac:(unfold ERA_DAYS; lia)) as E. lia.
Qed.

Lemma civil_of_days_inj a b : civil_of_days a = civil_of_days b -> a = b.
Proof.
  intros E. pose proof (days_of_civil_of_days a) as Ha. pose proof (days_of_civil_of_days b) as Hb.
  rewrite E in Ha. destruct (civil_of_days b) as [[y m] d]. congruence.
Qed.

Lemma month_range t : 1 <= month t <= 12.
Proof. apply month_of_days_range. Qed.

Lemma day_range t : 1 <= day t <= 31.
Proof. apply day_of_days_range. Qed.

Lemma days_before_month_range leap m : 1 <= m <= 12 -> 0 <= days_before_month leap m <= 335.
Proof.
  intros H.
  assert (C : m = 1 \/ m = 2 \/ m = 3 \/ m = 4 \/ m = 5 \/ m = 6 \/ m = 7 \/ m = 8 \/ m = 9 \/
              m = 10 \/ m = 11 \/ m = 12) by lia.
  destruct leap; repeat (destruct C as [-> | C]; [vm_compute; split; discriminate|]);
    subst; vm_compute; split; discriminate.
Qed.

Lemma dayofyear_of_days_range n : 1 <= dayofyear_of_days n <= 366.
Proof.
  unfold dayofyear_of_days.
  pose proof (month_of_days_range n) as Hm. pose proof (day_of_days_range n) as Hd.
  unfold month_of_days, day_of_days in *.
  destruct (civil_of_days n) as [[y m] d].
  pose proof (days_before_month_range (is_leap y) m Hm). lia.
Qed.

Lemma dayofyear_range t : 1 <= dayofyear t <= 366.
Proof. apply dayofyear_of_days_range. Qed.

Lemma dayofweek_range t : 0 <= dayofweek t <= 6.
Proof.
  unfold dayofweek, dayofweek_of_days.
  pose proof (Z.mod_pos_bound (days_of_ns t + 3) 7 ltac:(lia)). lia.
Qed.

Lemma quarter_range t : 1 <= quarter t <= 4.
Proof.
  unfold quarter, quarter_of_days. pose proof (month_of_days_range (days_of_ns t)) as H.
  assert (0 <= (month_of_days (days_of_ns t) - 1) / 3 <= 3).
  { split; [apply Z.div_pos; lia|]. apply Z.lt_succ_r. apply Z.div_lt_upper_bound; lia. }
  lia.
Qed.

Lemma iso_week_range t : 1 <= iso_week t <= 53.
Proof.
  unfold iso_week, iso_week_of_days.
  set (th := days_of_ns t - dayofweek_of_days (days_of_ns t) + 3).
  pose proof (dayofyear_of_days_range th) as H.
  assert (0 <= (dayofyear_of_days th - 1) / 7 <= 52).
  { split; [apply Z.div_pos; lia|]. apply Z.lt_succ_r. apply Z.div_lt_upper_bound; lia. }
  lia.
Qed.

Lemma hour_range t : 0 <= hour t <= 23.
Proof.
  unfold hour. pose proof (Z.mod_pos_bound t DAY_NS ltac:(reflexivity)) as H.
  split; [apply Z.div_pos; [lia|reflexivity]|].
  apply Z.lt_succ_r. apply Z.div_lt_upper_bound; [reflexivity|]. unfold DAY_NS, HOUR_NS in *. lia.
Qed.

(* a time of day does not change the date fields: t and the midnight before it agree *)
Lemma days_of_ns_midnight n s : 0 <= s < DAY_NS -> days_of_ns (n * DAY_NS + s) = n.
Proof.
  intros H. unfold days_of_ns. rewrite Z.add_comm, Z.div_add by (unfold DAY_NS; lia).
  rewrite Z.div_small by exact H. reflexivity.
Qed.

(* ---------------------------------------------------------------- finite round trips *)

(* day numbers of 1968-01-01 and 2041-01-01 *)
Definition D1968 : Z := -731.
Definition D2041 : Z := 25933.

Lemma range_ends : civil_of_days D1968 = (1968, 1, 1) /\ civil_of_days D2041 = (2041, 1, 1) /\
                   civil_of_days 0 = (1970, 1, 1).
Proof. vm_compute. repeat split. Qed.

(* every day of 1968..2040: the date is valid, the day number is recovered, day-of-year is the
   distance to 1 January, and the next day is the calendar successor *)
Definition day_check (n : Z) : bool :=
  let '(y, m, d) := civil_of_days n in
  valid_date y m d && (days_of_civil y m d =? n)
  && (dayofyear_of_days n =? n - days_of_civil y 1 1 + 1)
  && (let '(y2, m2, d2) := civil_of_days (n + 1) in
      if d <? days_in_month y m then (y2 =? y) && (m2 =? m) && (d2 =? d + 1)
      else if m <? 12 then (y2 =? y) && (m2 =? m + 1) && (d2 =? 1)
      else (y2 =? y + 1) && (m2 =? 1) && (d2 =? 1)).

Theorem calendar_days_1968_2040 : forallb day_check (zrange D1968 26664) = true.
Proof. vm_compute. reflexivity. Qed.

(* ---------------------------------------------------------------- civil -> days -> civil *)

(* every (year of era, month, day) triple, coded as k = (yoe * 12 + (m - 1)) * 31 + (d - 1):
   if the day exists in that month, doe_of_civil lands inside the era and civil_of_doe inverts it *)
Definition ymd_ok (k : Z) : bool :=
  let yoe := k / 372 in
  let m := (k mod 372) / 31 + 1 in
  let d := k mod 31 + 1 in
  negb (d <=? days_in_month (yoe + (if m <=? 2 then 1 else 0)) m) ||
  ((0 <=? doe_of_civil yoe m d) && (doe_of_civil yoe m d <? 146097) &&
   (let '(a, b, c) := civil_of_doe (doe_of_civil yoe m d) in (a =? yoe) && (b =? m) && (c =? d))).

Lemma ymd_check : forallb ymd_ok (zrange 0 148800) = true.
Proof. vm_compute. reflexivity. Qed.

Lemma ymd_ok_triple yoe m d :
  0 <= yoe <= 399 -> 1 <= m <= 12 -> 1 <= d <= 31 ->
  d <= days_in_month (yoe + (if m <=? 2 then 1 else 0)) m ->
  0 <= doe_of_civil yoe m d < 146097 /\ civil_of_doe (doe_of_civil yoe m d) = (yoe, m, d).
Proof.
  intros Hy Hm Hd Hdim.
  set (k := yoe * 372 + ((m - 1) * 31 + (d - 1))).
  assert (E1 : k / 372 = yoe).
  { symmetry. apply (Z.div_unique k 372 yoe ((m - 1) * 31 + (d - 1))); [lia|unfold k; lia]. }
  assert (E2 : k mod 372 = (m - 1) * 31 + (d - 1)).
  { symmetry. apply (Z.mod_unique k 372 yoe ((m - 1) * 31 + (d - 1))); [lia|unfold k; lia]. }
  assert (E3 : k mod 31 = d - 1).
  { symmetry. apply (Z.mod_unique k 31 (yoe * 12 + (m - 1)) (d - 1)); [lia|unfold k; lia]. }
  assert (E4 : ((m - 1) * 31 + (d - 1)) / 31 = m - 1).
  { symmetry. apply (Z.div_unique _ 31 (m - 1) (d - 1)); lia. }
  pose proof (forallb_zrange _ _ _ ymd_check k ltac:(unfold k; lia)) as E.
  assert (U : ymd_ok k =
    (negb (k mod 31 + 1 <=? days_in_month (k / 372 + (if (k mod 372) / 31 + 1 <=? 2 then 1 else 0))
                                          ((k mod 372) / 31 + 1)) ||
     ((0 <=? doe_of_civil (k / 372) ((k mod 372) / 31 + 1) (k mod 31 + 1)) &&
      (doe_of_civil (k / 372) ((k mod 372) / 31 + 1) (k mod 31 + 1) <? 146097) &&
      (let '(a, b, c) := civil_of_doe (doe_of_civil (k / 372) ((k mod 372) / 31 + 1) (k mod 31 + 1)) in
       (a =? k / 372) && (b =? (k mod 372) / 31 + 1) && (c =? k mod 31 + 1))))) by reflexivity.
  rewrite U in E. clear U. rewrite E1, E2, E3, E4 in E.
  replace (m - 1 + 1) with m in E by lia. replace (d - 1 + 1) with d in E by lia.
  apply Z.leb_le in Hdim. rewrite Hdim in E. cbn [negb orb] in E.
  destruct (civil_of_doe (doe_of_civil yoe m d)) as [[a b] c].
  repeat match goal with H : (_ && _) = true |- _ => apply andb_true_iff in H; destruct H end.
  repeat match goal with H : (_ =? _) = true |- _ => apply Z.eqb_eq in H end.
  repeat match goal with H : (_ <=? _) = true |- _ => apply Z.leb_le in H end.
  repeat match goal with H : (_ <? _) = true |- _ => apply Z.ltb_lt in H end.
  split; [lia|congruence].
Qed.

Lemma is_leap_period y k : is_leap (y + k * 400) = is_leap y.
Proof.
  unfold is_leap.
  replace ((y + k * 400) mod 4) with (y mod 4)
    by (replace (y + k * 400) with (y + (k * 100) * 4) by lia; symmetry; apply Z.mod_add; lia).
  replace ((y + k * 400) mod 100) with (y mod 100)
    by (replace (y + k * 400) with (y + (k * 4) * 100) by lia; symmetry; apply Z.mod_add; lia).
  replace ((y + k * 400) mod 400) with (y mod 400) by (symmetry; apply Z.mod_add; lia).
  reflexivity.
Qed.

(* civil_of_days inverts days_of_civil on every valid date of the proleptic Gregorian calendar *)
Theorem civil_roundtrip y m d :
  valid_date y m d = true -> civil_of_days (days_of_civil y m d) = (y, m, d).
Proof.
  intros Hv. unfold valid_date in Hv.
  repeat (apply andb_true_iff in Hv; destruct Hv as [Hv ?]).
  repeat match goal with H : (_ <=? _) = true |- _ => apply Z.leb_le in H end.
  set (c := if m <=? 2 then 1 else 0) in *.
  pose proof (Z.div_mod (y - c) 400 ltac:(lia)) as Edm.
  pose proof (Z.mod_pos_bound (y - c) 400 ltac:(lia)) as Hyoe.
  assert (Hd31 : d <= 31).
  { unfold days_in_month in *. destruct (m =? 2); [destruct (is_leap y); lia|].
    destruct ((m =? 4) || (m =? 6) || (m =? 9) || (m =? 11)); lia. }
  assert (Hdim : d <= days_in_month ((y - c) mod 400 + c) m).
  { unfold days_in_month in *.
    replace (is_leap ((y - c) mod 400 + c)) with (is_leap y); [assumption|].
    rewrite <- (is_leap_period ((y - c) mod 400 + c) ((y - c) / 400)). f_equal. lia. }
  destruct (ymd_ok_triple ((y - c) mod 400) m d ltac:(lia) ltac:(lia) ltac:(lia) Hdim) as [Hdoe Hciv].
  unfold civil_of_days, days_of_civil. fold c.
  replace ((y - c) / 400 * ERA_DAYS + doe_of_civil ((y - c) mod 400) m d - 719468 + 719468)
    with (doe_of_civil ((y - c) mod 400) m d + (y - c) / 400 * ERA_DAYS) by lia.
  rewrite Z.div_add by (unfold ERA_DAYS; lia). rewrite Z.mod_add by (unfold ERA_DAYS; lia).
  rewrite Z.div_small by (unfold ERA_DAYS; lia). rewrite Z.mod_small by (unfold ERA_DAYS; lia).
  rewrite Hciv. fold c. f_equal. f_equal. lia.
Qed.

(* known dates *)
Example cal_ex1 : civil_of_days (days_of_civil 2020 2 29) = (2020, 2, 29). Proof. reflexivity. Qed.
Example cal_ex2 : (* 2021-01-03 is a Sunday in ISO week 53 of 2020 *)
  let n := days_of_civil 2021 1 3 in (dayofweek_of_days n, iso_week_of_days n) = (6, 53).
Proof. reflexivity. Qed.
Example cal_ex3 : (* 2019-12-30 is a Monday in ISO week 1 of 2020 *)
  let n := days_of_civil 2019 12 30 in (dayofweek_of_days n, iso_week_of_days n, dayofyear_of_days n) = (0, 1, 364).
Proof. reflexivity. Qed.
Example cal_ex4 : civil_of_days (-1) = (1969, 12, 31). Proof. reflexivity. Qed.

(* ---------------------------------------------------------------- harness interface *)

(* all calendar fields of a timestamp, in the order the harness reads them from pandas:
   year, month, day, dayofyear, dayofweek, quarter, isocalendar().week, hour *)
Definition cal_fields (t : Z) : list Z :=
  [year t; month t; day t; dayofyear t; dayofweek t; quarter t; iso_week t; hour t].

Fixpoint zlist_eqb (a b : list Z) : bool :=
  match a, b with
  | [], [] => true
  | x :: a', y :: b' => (x =? y) && zlist_eqb a' b'
  | _, _ => false
  end.
