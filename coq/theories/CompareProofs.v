(* CompareProofs.v — qartod_compare: the double loop over Generated.priorities computes, at
   every position, the highest-precedence flag present; algebraic laws of the roll-up. *)
From IoosQc Require Import Base Generated Compare.
From Coq Require Import Permutation.

Lemma Forall_lengths n (vs : list (list cell)) :
  forallb (fun v => Nat.eqb (length v) n) vs = true -> Forall (fun v => length v = n) vs.
Proof.
  rewrite forallb_forall. intros H. apply Forall_forall. intros v Hv.
  apply Nat.eqb_eq. apply H. exact Hv.
Qed.

(* inner loop for one priority p *)
Lemma inner_loop_tab p n vs f :
  Forall (fun v => length v = n) vs ->
  fold_left (fun acc v => set_where (map (cell_is p) v) p acc) vs (tab n f)
  = tab n (fun i => if has p (column vs i) then p else f i).
Proof.
  revert f. induction vs as [|v vs IH]; intros f Hall.
  - simpl. apply tab_ext. intros; reflexivity.
  - inversion Hall as [|? ? Hv Hvs]; subst. simpl fold_left.
    rewrite (map_as_tab (cell_is p) v None), set_where_tab.
    rewrite IH by exact Hvs. apply tab_ext. intros i _.
    unfold has, column, cell. simpl.
    destruct (existsb _ _); [rewrite orb_true_r|rewrite orb_false_r]; reflexivity.
Qed.

Lemma outer_loop_tab prios n vs f :
  Forall (fun v => length v = n) vs ->
  fold_left (fun acc p => fold_left (fun acc v => set_where (map (cell_is p) v) p acc) vs acc)
            prios (tab n f)
  = tab n (fun i => fold_left (fun a p => if has p (column vs i) then p else a) prios (f i)).
Proof.
  intros Hall. revert f. induction prios as [|p ps IH]; intros f.
  - simpl. apply tab_ext; intros; reflexivity.
  - simpl fold_left. rewrite inner_loop_tab by exact Hall. rewrite IH. reflexivity.
Qed.

(* this is where the order of Generated.priorities matters *)
Lemma priorities_fold col :
  fold_left (fun a p => if has p col then p else a) priorities compare_fill = compare_pt col.
Proof.
  unfold priorities, compare_fill, compare_pt. simpl.
  destruct (has FAIL col), (has SUSPECT col), (has GOOD col), (has UNKNOWN col), (has MISSING col);
    reflexivity.
Qed.

Theorem compare_refines vs : compare_model priorities vs = compare_spec vs.
Proof.
  unfold compare_model, compare_spec. destruct vs as [|v0 vs0]; [reflexivity|].
  set (vs := v0 :: vs0). set (n := length v0).
  destruct (forallb (fun v => Nat.eqb (length v) n) vs) eqn:E; [|reflexivity].
  apply Forall_lengths in E. f_equal. unfold all_flags.
  rewrite outer_loop_tab by exact E. apply tab_ext. intros i _.
  change MISSING with compare_fill. apply priorities_fold.
Qed.

(* ---------------------------------------------------------------- characterisation *)

Lemma has_In p col : has p col = true <-> In (Some (code p)) col.
Proof.
  unfold has. rewrite existsb_exists. split.
  - intros [c [Hin Hc]]. destruct c as [z|]; simpl in Hc; [|discriminate].
    apply Z.eqb_eq in Hc. subst. exact Hin.
  - intros H. exists (Some (code p)). split; [exact H|]. simpl. apply Z.eqb_refl.
Qed.

(* the result is at least as bad as every flag present ... *)
Lemma compare_pt_upper col f : In (Some (code f)) col -> (prio f <= prio (compare_pt col))%nat.
Proof.
  intros H. apply has_In in H. unfold compare_pt.
  destruct (has FAIL col) eqn:E4; [destruct f; simpl; lia|].
  destruct (has SUSPECT col) eqn:E3; [destruct f; simpl; try lia; congruence|].
  destruct (has GOOD col) eqn:E1; [destruct f; simpl; try lia; congruence|].
  destruct (has UNKNOWN col) eqn:E2; [destruct f; simpl; try lia; congruence|].
  destruct f; simpl; try lia; congruence.
Qed.

(* ... and is itself present, unless no flag at all is present (then MISSING) *)
Lemma compare_pt_attained col :
  In (Some (code (compare_pt col))) col \/
  (compare_pt col = MISSING /\ forall f, ~ In (Some (code f)) col).
Proof.
  unfold compare_pt.
  destruct (has FAIL col) eqn:E4; [left; apply has_In; exact E4|].
  destruct (has SUSPECT col) eqn:E3; [left; apply has_In; exact E3|].
  destruct (has GOOD col) eqn:E1; [left; apply has_In; exact E1|].
  destruct (has UNKNOWN col) eqn:E2; [left; apply has_In; exact E2|].
  destruct (has MISSING col) eqn:E9; [left; apply has_In; exact E9|].
  right. split; [reflexivity|]. intros f Hf. apply has_In in Hf. destruct f; congruence.
Qed.

(* masked entries and non-flag values are ignored *)
Lemma has_ignores p col c :
  (forall f, c <> Some (code f)) -> has p (c :: col) = has p col.
Proof.
  intros H. unfold has. simpl. destruct c as [z|]; simpl; [|reflexivity].
  destruct (Z.eqb_spec z (code p)); [|reflexivity]. subst. exfalso. apply (H p). reflexivity.
Qed.

Lemma compare_pt_ignores col c :
  (forall f, c <> Some (code f)) -> compare_pt (c :: col) = compare_pt col.
Proof. intros H. unfold compare_pt. rewrite !has_ignores by exact H. reflexivity. Qed.

(* ---------------------------------------------------------------- algebraic laws *)

Lemma has_perm p col col' : Permutation col col' -> has p col = has p col'.
Proof.
  intros HP. unfold has. apply eq_true_iff_eq. rewrite !existsb_exists.
  split; intros [c [Hin Hc]]; exists c; split; auto.
  - eapply Permutation_in; eauto.
  - eapply Permutation_in; [apply Permutation_sym|]; eauto.
Qed.

Lemma compare_pt_perm col col' : Permutation col col' -> compare_pt col = compare_pt col'.
Proof. intros HP. unfold compare_pt. rewrite !(has_perm _ col col' HP). reflexivity. Qed.

Lemma compare_pt_dup c col : compare_pt (c :: c :: col) = compare_pt (c :: col).
Proof.
  unfold compare_pt, has. simpl.
  assert (E : forall p, cell_is p c || (cell_is p c || existsb (cell_is p) col)
                        = cell_is p c || existsb (cell_is p) col).
  { intros p. destruct (cell_is p c); reflexivity. }
  rewrite !E. reflexivity.
Qed.

Lemma has_app p a b : has p (a ++ b) = has p a || has p b.
Proof. unfold has. apply existsb_app. Qed.

(* grouping: rolling up two roll-ups equals rolling up everything *)
Lemma compare_pt_assoc a b :
  a <> [] -> b <> [] ->
  compare_pt [Some (code (compare_pt a)); Some (code (compare_pt b))] = compare_pt (a ++ b).
Proof.
  intros _ _.
  replace (compare_pt (a ++ b)) with
    (if has FAIL a || has FAIL b then FAIL else
     if has SUSPECT a || has SUSPECT b then SUSPECT else
     if has GOOD a || has GOOD b then GOOD else
     if has UNKNOWN a || has UNKNOWN b then UNKNOWN else MISSING)
    by (unfold compare_pt; rewrite !has_app; reflexivity).
  unfold compare_pt.
  destruct (has FAIL a), (has SUSPECT a), (has GOOD a), (has UNKNOWN a),
           (has FAIL b), (has SUSPECT b), (has GOOD b), (has UNKNOWN b); reflexivity.
Qed.

(* whole-vector forms of the laws, on the specification *)

Lemma column_perm vs vs' i : Permutation vs vs' -> Permutation (column vs i) (column vs' i).
Proof. intros H. unfold column. apply Permutation_map. exact H. Qed.

Definition same_len (n : nat) (vs : list (list cell)) : Prop := Forall (fun v => length v = n) vs.

Lemma same_len_forallb n vs : same_len n vs -> forallb (fun v => Nat.eqb (length v) n) vs = true.
Proof.
  intros H. apply forallb_forall. intros v Hv. apply Nat.eqb_eq.
  unfold same_len in H. rewrite Forall_forall in H. auto.
Qed.

Lemma compare_spec_ok n v vs :
  same_len n (v :: vs) ->
  compare_spec (v :: vs) = Flags (tab n (fun i => compare_pt (column (v :: vs) i))).
Proof.
  intros H. unfold compare_spec. inversion H as [|? ? Hv Hvs]; subst.
  rewrite same_len_forallb by exact H. reflexivity.
Qed.

Definition rollup (n : nat) (vs : list (list cell)) : list flag :=
  tab n (fun i => compare_pt (column vs i)).

Lemma rollup_perm n vs vs' : Permutation vs vs' -> rollup n vs = rollup n vs'.
Proof. intros H. apply tab_ext. intros i _. apply compare_pt_perm, column_perm, H. Qed.

Lemma rollup_dup n v vs : rollup n (v :: v :: vs) = rollup n (v :: vs).
Proof. apply tab_ext. intros i _. unfold column. simpl. apply compare_pt_dup. Qed.

Lemma column_app vs ws i : column (vs ++ ws) i = column vs i ++ column ws i.
Proof. unfold column. apply map_app. Qed.

Lemma rollup_assoc n vs ws :
  vs <> [] -> ws <> [] ->
  rollup n [lift (rollup n vs); lift (rollup n ws)] = rollup n (vs ++ ws).
Proof.
  intros Hv Hw. apply tab_ext. intros i Hi. unfold column at 1. simpl.
  unfold lift, rollup. rewrite !(map_tab (fun f => Some (code f))).
  rewrite !nth_tab by exact Hi. rewrite column_app.
  apply compare_pt_assoc; unfold column.
  - destruct vs; [congruence|discriminate].
  - destruct ws; [congruence|discriminate].
Qed.

Lemma rollup_not_better n vs v i f :
  In v vs -> (i < n)%nat -> nth i v None = Some (code f) ->
  (prio f <= prio (nth i (rollup n vs) MISSING))%nat.
Proof.
  intros Hin Hi Hv. unfold rollup. rewrite nth_tab by exact Hi.
  apply compare_pt_upper. unfold column. rewrite <- Hv.
  apply (in_map (fun v => nth i v None)). exact Hin.
Qed.

(* adding one more result vector never makes the roll-up better at any position *)
Lemma has_cons_mono p c col : has p col = true -> has p (c :: col) = true.
Proof. unfold has. simpl. intros ->. apply orb_true_r. Qed.

Lemma compare_pt_cons_mono c col : (prio (compare_pt col) <= prio (compare_pt (c :: col)))%nat.
Proof.
  destruct (compare_pt_attained col) as [Hin | [Hm _]].
  - apply compare_pt_upper. right. exact Hin.
  - rewrite Hm. simpl. lia.
Qed.

Lemma rollup_monotone n v vs i :
  (i < n)%nat ->
  (prio (nth i (rollup n vs) MISSING) <= prio (nth i (rollup n (v :: vs)) MISSING))%nat.
Proof.
  intros Hi. unfold rollup. rewrite !nth_tab by exact Hi. unfold column. simpl.
  apply compare_pt_cons_mono.
Qed.

(* a single flag is its own roll-up; hence a single flag vector is returned unchanged and
   rolling up a roll-up changes nothing *)
Lemma compare_pt_single f : compare_pt [Some (code f)] = f.
Proof. destruct f; reflexivity. Qed.

Lemma rollup_single n fl : length fl = n -> rollup n [lift fl] = fl.
Proof.
  intros Hn. subst n. unfold rollup.
  transitivity (tab (length fl) (fun i => nth i fl MISSING)); [|apply tab_nth_self].
  apply tab_ext. intros i Hi.
  unfold column, lift. simpl.
  rewrite (nth_indep _ None (Some (code MISSING))) by (rewrite map_length; exact Hi).
  rewrite (map_nth (fun f => Some (code f))). apply compare_pt_single.
Qed.

Lemma rollup_length n vs : length (rollup n vs) = n.
Proof. apply tab_length. Qed.

Lemma rollup_idem n vs : rollup n [lift (rollup n vs)] = rollup n vs.
Proof. apply rollup_single, rollup_length. Qed.

Lemma flag_codes_agree : Forall (fun p => code (fst p) = snd p) flag_codes.
Proof. repeat constructor. Qed.
