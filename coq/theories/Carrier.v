(* Carrier.v — C15: the ways a series and a time axis can be handed to a QC test, what each denotes,
   and what the tests' normalisation (np.array(x).astype(float64) + masked_invalid; mapdates) makes of it.
   Definitions only. *)
From IoosQc Require Import Base.

Inductive dtype := F64 | F32 | I64 | I32.

Inductive dcarrier :=
  | DSeq (l : list obs)                          (* list or tuple; a missing entry is None or NaN *)
  | DArray (t : dtype) (l : list obs)            (* ndarray of a real dtype (NaN only for floats) *)
  | DMasked (data : list obs) (mask : list bool) (* masked array: value under every entry (None = NaN) + mask *)
  | DSeries (l : list obs)                       (* pandas Series *)
  | DDask (chunks : nat) (l : list obs).         (* dask array *)

Fixpoint apply_mask (d : list obs) (m : list bool) : list obs :=
  match d, m with
  | x :: d', b :: m' => (if b then None else x) :: apply_mask d' m'
  | _, _ => d
  end.

(* the logical series a carrier stands for *)
Definition denote (c : dcarrier) : list obs :=
  match c with
  | DSeq l | DArray _ l | DSeries l | DDask _ l => l
  | DMasked d m => apply_mask d m
  end.

(* what `np.ma.masked_invalid(np.array(inp).astype(np.float64))` yields: np.array(masked_array)
   returns the DATA and drops the mask; masked_invalid then masks NaN only *)
Definition normalise (c : dcarrier) : list obs :=
  match c with
  | DSeq l | DArray _ l | DSeries l | DDask _ l => l
  | DMasked d _ => d
  end.

(* carriers on which the normalisation is faithful: a masked array whose masked entries hold NaN
   (what masked_invalid itself produces) *)
Definition supported (c : dcarrier) : Prop :=
  match c with
  | DMasked d m => length d = length m /\ forall i, nth i m false = true -> nth i d None = None
  | _ => True
  end.

(* time carriers; every one denotes a list of ns since the epoch *)
Inductive tcarrier :=
  | TDt64 (unit_ns : Z) (counts : list Z)        (* datetime64[unit] *)
  | TPython (us : list Z)                        (* python datetimes (microsecond resolution) *)
  | TTimestamps (ns : list Z)                    (* list of pandas Timestamps *)
  | TIndex (utc : bool) (ns : list Z)            (* DatetimeIndex, naive or UTC-aware *)
  | TSeries (utc : bool) (ns : list Z)           (* Series of datetimes, naive or UTC-aware *)
  | TEpoch (secs : list Z).                      (* numbers of seconds since the Unix epoch *)

Definition denote_t (c : tcarrier) : list Z :=
  match c with
  | TDt64 u cs => map (fun k => (k * u)%Z) cs
  | TPython us => map (fun k => (k * 1000)%Z) us
  | TTimestamps ns | TIndex _ ns | TSeries _ ns => ns
  | TEpoch s => map (fun k => (k * NS)%Z) s
  end.

(* mapdates: tz-aware pandas -> tz removed, astype datetime64[ns]; pandas -> to_numpy astype ns;
   datetime64 -> astype ns; otherwise pd.to_datetime(unit="s") *)
Definition mapdates_model (c : tcarrier) : list Z :=
  match c with
  | TDt64 u cs => map (fun k => (k * u)%Z) cs
  | TPython us => map (fun k => (k * 1000)%Z) us
  | TTimestamps ns => ns
  | TIndex _ ns => ns
  | TSeries _ ns => ns
  | TEpoch s => map (fun k => (k * NS)%Z) s
  end.
