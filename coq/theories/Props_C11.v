(* Props_C11.v — C11: flat-line flags a point when the window ending at it varies less than tolerance.
   Only statements, `exact <lemma>` and Print Assumptions.
   (statements written out by tools/mk_props.py from the lemmas they restate) *)
From IoosQc Require Import Base Generated FlatLine FlatLineProofs.


(* on every regularly sampled series with a whole-second step D >= 1, every length (short series included), every missing pattern, all durations >= 0 (non-multiples of the step, shorter than a step, longer than the series) and every tolerance: the operational model (median step, count = int(threshold)/step, strided windows minus the last row, n_fill leading False, SUSPECT then FAIL then MISSING) equals the property's per-point specification with k = floor(threshold / D) *)
Theorem C11_refines :
  forall (D : Z) (st ft tol : Q) (xs : list obs) (ts : list Z),
         regular_ns (D * NS) ts ->
         (1 <= D)%Z ->
         length ts = length xs ->
         0 <= st -> 0 <= ft -> flat_model st ft tol xs ts = flat_spec (inject_Z D) st ft tol xs.
Proof. exact (@flat_refines). Qed.
Print Assumptions C11_refines.

(* truncating the threshold before dividing is harmless: floor(floor(thr)/D) = floor(thr/D) *)
Theorem C11_floor :
  forall (thr : Q) (D : Z),
         (1 <= D)%Z ->
         Qround.Qfloor (inject_Z (Qround.Qfloor thr) / inject_Z D) = Qround.Qfloor (thr / inject_Z D).
Proof. exact (@floor_floor). Qed.
Print Assumptions C11_floor.

(* the source's window count is the property's k *)
Theorem C11_count_is_k :
  forall (thr : Q) (D : Z),
         0 <= thr -> (1 <= D)%Z -> Z.to_nat (count_of thr D) = kof thr (inject_Z D).
Proof. exact (@count_of_kof). Qed.
Print Assumptions C11_count_is_k.

(* a point is hit iff it has k predecessors and the largest minus the smallest PRESENT value among the k+1 points ending at it is strictly below the tolerance (missing values inside the window are ignored; an all-missing window is not flagged) *)
Theorem C11_hit_iff :
  forall (k : nat) (tol : Q) (xs : list obs) (i : nat),
         flat_hit k tol xs i = true <-> flatP k tol xs i.
Proof. exact (@flat_hit_iff). Qed.
Print Assumptions C11_hit_iff.

Theorem C11_hit_span :
  forall (k : nat) (tol : Q) (xs : list obs) (i : nat),
         flat_hit k tol xs i = true <->
         (k <= i)%nat /\
         (exists M m : Q, wmax xs (i - k) k = Some M /\ wmin xs (i - k) k = Some m /\ M - m < tol).
Proof. exact (@flat_hit_span). Qed.
Print Assumptions C11_hit_span.

(* FAIL decided from fail_threshold and overriding SUSPECT *)
Theorem C11_fail :
  forall (D st ft tol : Q) (xs : list obs) (i : nat),
         flat_pt D st ft tol xs i = FAIL <->
         (exists x : Q, getq xs i = Some x) /\ flatP (kof ft D) tol xs i.
Proof. exact (@flat_pt_fail). Qed.
Print Assumptions C11_fail.

Theorem C11_suspect :
  forall (D st ft tol : Q) (xs : list obs) (i : nat),
         flat_pt D st ft tol xs i = SUSPECT <->
         (exists x : Q, getq xs i = Some x) /\
         ~ flatP (kof ft D) tol xs i /\ flatP (kof st D) tol xs i.
Proof. exact (@flat_pt_suspect). Qed.
Print Assumptions C11_suspect.

Theorem C11_good :
  forall (D st ft tol : Q) (xs : list obs) (i : nat),
         flat_pt D st ft tol xs i = GOOD <->
         (exists x : Q, getq xs i = Some x) /\
         ~ flatP (kof ft D) tol xs i /\ ~ flatP (kof st D) tol xs i.
Proof. exact (@flat_pt_good). Qed.
Print Assumptions C11_good.

Theorem C11_missing :
  forall (D st ft tol : Q) (xs : list obs) (i : nat),
         flat_pt D st ft tol xs i = MISSING <-> getq xs i = None.
Proof. exact (@flat_pt_missing). Qed.
Print Assumptions C11_missing.

(* points with fewer than k predecessors are never flagged *)
Theorem C11_early :
  forall (k : nat) (tol : Q) (xs : list obs) (i : nat), (i < k)%nat -> ~ flatP k tol xs i.
Proof. exact (@flatP_early). Qed.
Print Assumptions C11_early.

(* a duration longer than the series flags nothing *)
Theorem C11_long :
  forall (k : nat) (tol : Q) (xs : list obs) (i : nat),
         (length xs <= k)%nat -> (i < length xs)%nat -> flat_hit k tol xs i = false.
Proof. exact (@flat_hit_long). Qed.
Print Assumptions C11_long.

Theorem C11_zero :
  forall (tol : Q) (xs : list obs) (i : nat) (x : Q),
         getq xs i = Some x -> flatP 0 tol xs i <-> 0 < tol.
Proof. exact (@flatP_zero). Qed.
Print Assumptions C11_zero.

(* series shorter than three points are never flagged SUSPECT or FAIL (missing points are MISSING) *)
Theorem C11_short :
  forall (st ft tol : Q) (xs : list obs) (ts : list Z),
         (length xs < 3)%nat ->
         flat_model st ft tol xs ts =
         Flags (tab (length xs) (fun i : nat => if missing_at xs i then MISSING else GOOD)).
Proof. exact (@flat_short). Qed.
Print Assumptions C11_short.

Theorem C11_short_no_flag :
  forall (st ft tol : Q) (xs : list obs) (ts : list Z) (l : list flag),
         (length xs < 3)%nat -> flat_model st ft tol xs ts = Flags l -> ~ In SUSPECT l /\ ~ In FAIL l.
Proof. exact (@flat_short_no_flag). Qed.
Print Assumptions C11_short_no_flag.

(* the median sampling interval of a regular axis is its step *)
Theorem C11_median_regular :
  forall (D : Z) (ts : list Z),
         regular_ns (D * NS) ts -> (2 <= length ts)%nat -> median_step ts = D.
Proof. exact (@median_step_regular). Qed.
Print Assumptions C11_median_regular.

(* on ANY axis (irregular too) the model is pointwise in the counts derived from the median step *)
Theorem C11_model_pointwise :
  forall (st ft tol : Q) (xs : list obs) (ts : list Z),
         (3 <= length xs)%nat ->
         median_step ts <> 0%Z ->
         (0 <= count_of st (median_step ts))%Z ->
         (0 <= count_of ft (median_step ts))%Z ->
         flat_model st ft tol xs ts =
         Flags
           (tab (length xs)
              (flat_ptk (Z.to_nat (count_of st (median_step ts)))
                 (Z.to_nat (count_of ft (median_step ts))) tol xs)).
Proof. exact (@flat_model_pointwise). Qed.
Print Assumptions C11_model_pointwise.

Theorem C11_model_missing :
  forall (st ft tol : Q) (xs : list obs) (ts : list Z) (l : list flag) (i : nat),
         flat_model st ft tol xs ts = Flags l ->
         (i < length xs)%nat -> nth i l GOOD = MISSING <-> getq xs i = None.
Proof. exact (@flat_model_missing). Qed.
Print Assumptions C11_model_missing.

(* with a step that is NOT a whole number of seconds the code floors the step before dividing (k = 3/1 instead of floor(3/1.5)): KNOWN_FINDINGS F18 *)
Theorem C11_fractional_step_refuted :
  exists (D st ft tol : Q) (xs : list obs) (ts : list Z),
           regular_ns 1500000000 ts /\
           D * inject_Z NS == 1500000000 /\
           length ts = length xs /\
           (3 <= length xs)%nat /\
           0 <= st /\
           0 <= ft /\
           flat_model st ft tol xs ts = Flags [GOOD; GOOD; GOOD; SUSPECT] /\
           flat_spec D st ft tol xs = Flags [GOOD; GOOD; SUSPECT; SUSPECT].
Proof. exact (@flat_fractional_refuted). Qed.
Print Assumptions C11_fractional_step_refuted.

Theorem C11_assign_order : assign_order_flat_line_test = [GOOD; MISSING; SUSPECT; FAIL; MISSING].
Proof. reflexivity. Qed.
Print Assumptions C11_assign_order.

Theorem C11_default_tolerance : flat_line_default_tolerance == 0.
Proof. reflexivity. Qed.
Print Assumptions C11_default_tolerance.
