(* Props_C11.v — C11: flat-line flags a point when the window ending at it varies less than tolerance.
   Only statements, `exact <lemma>` and Print Assumptions.
   (statements written out by tools/mk_props.py from the lemmas they restate) *)
From IoosQc Require Import Base Generated FlatLine FlatLineProofs Skel SkelBase SkelP_flat.
From Coq Require Import String.

(* on every regularly sampled series with ANY positive step d ns (D = d / 10^9 seconds: whole, fractional or below one second), every length (short series included), all placements of missing values and non-negative durations: model = specification with k = floor(threshold / D) *)
Theorem C11_refines :
  forall (d : Z) (st ft tol : Q) (xs : list obs) (ts : list Z),
         regular_ns d ts ->
         (0 < d)%Z ->
         Datatypes.length ts = Datatypes.length xs ->
         0 <= st -> 0 <= ft -> flat_model st ft tol xs ts = flat_spec (step_q d) st ft tol xs.
Proof. exact (@flat_refines). Qed.
Print Assumptions C11_refines.

(* a fact about floors (the code truncated the threshold first before F18 was repaired): floor(floor(thr)/D) = floor(thr/D) for whole D *)
Theorem C11_floor :
  forall (thr : Q) (D : Z),
         (1 <= D)%Z ->
         Qround.Qfloor (inject_Z (Qround.Qfloor thr) / inject_Z D) = Qround.Qfloor (thr / inject_Z D).
Proof. exact (@floor_floor). Qed.
Print Assumptions C11_floor.

(* the source's window count trunc(threshold / step) is the property's k = floor(threshold / D), for every positive step *)
Theorem C11_count_is_k :
  forall (thr : Q) (d : Z),
         0 <= thr -> (0 < d)%Z -> Z.to_nat (count_of thr d) = kof thr (step_q d).
Proof. exact (@count_of_kof). Qed.
Print Assumptions C11_count_is_k.

(* a point is hit iff it has k predecessors and the largest minus the smallest PRESENT value among the k+1 points ending at it is strictly below the tolerance (missing values inside the window are ignored; an all-missing window is not flagged) *)
Theorem C11_hit_iff :
  forall (k : nat) (tol : Q) (xs : list obs) (i : nat),
         flat_hit k tol xs i = true <-> flatP k tol xs i.
Proof. exact (@flat_hit_iff). Qed.
Print Assumptions C11_hit_iff.

Theorem C11_hit_span :
  forall (k : nat) (tol : Q) (xs : list obs) (i : nat),
         flat_hit k tol xs i = true <->
         (k <= i)%nat /\
         (exists M m : Q, wmax xs (i - k) k = Some M /\ wmin xs (i - k) k = Some m /\ M - m < tol).
Proof. exact (@flat_hit_span). Qed.
Print Assumptions C11_hit_span.

(* FAIL decided from fail_threshold and overriding SUSPECT *)
Theorem C11_fail :
  forall (D st ft tol : Q) (xs : list obs) (i : nat),
         flat_pt D st ft tol xs i = FAIL <->
         (exists x : Q, getq xs i = Some x) /\ flatP (kof ft D) tol xs i.
Proof. exact (@flat_pt_fail). Qed.
Print Assumptions C11_fail.

Theorem C11_suspect :
  forall (D st ft tol : Q) (xs : list obs) (i : nat),
         flat_pt D st ft tol xs i = SUSPECT <->
         (exists x : Q, getq xs i = Some x) /\
         ~ flatP (kof ft D) tol xs i /\ flatP (kof st D) tol xs i.
Proof. exact (@flat_pt_suspect). Qed.
Print Assumptions C11_suspect.

Theorem C11_good :
  forall (D st ft tol : Q) (xs : list obs) (i : nat),
         flat_pt D st ft tol xs i = GOOD <->
         (exists x : Q, getq xs i = Some x) /\
         ~ flatP (kof ft D) tol xs i /\ ~ flatP (kof st D) tol xs i.
Proof. exact (@flat_pt_good). Qed.
Print Assumptions C11_good.

Theorem C11_missing :
  forall (D st ft tol : Q) (xs : list obs) (i : nat),
         flat_pt D st ft tol xs i = MISSING <-> getq xs i = None.
Proof. exact (@flat_pt_missing). Qed.
Print Assumptions C11_missing.

(* points with fewer than k predecessors are never flagged *)
Theorem C11_early :
  forall (k : nat) (tol : Q) (xs : list obs) (i : nat), (i < k)%nat -> ~ flatP k tol xs i.
Proof. exact (@flatP_early). Qed.
Print Assumptions C11_early.

(* a duration longer than the series flags nothing *)
Theorem C11_long :
  forall (k : nat) (tol : Q) (xs : list obs) (i : nat),
         (Datatypes.length xs <= k)%nat ->
         (i < Datatypes.length xs)%nat -> flat_hit k tol xs i = false.
Proof. exact (@flat_hit_long). Qed.
Print Assumptions C11_long.

Theorem C11_zero :
  forall (tol : Q) (xs : list obs) (i : nat) (x : Q),
         getq xs i = Some x -> flatP 0 tol xs i <-> 0 < tol.
Proof. exact (@flatP_zero). Qed.
Print Assumptions C11_zero.

(* series shorter than three points are never flagged SUSPECT or FAIL (missing points are MISSING) *)
Theorem C11_short :
  forall (st ft tol : Q) (xs : list obs) (ts : list Z),
         (Datatypes.length xs < 3)%nat ->
         flat_model st ft tol xs ts =
         Flags (tab (Datatypes.length xs) (fun i : nat => if missing_at xs i then MISSING else GOOD)).
Proof. exact (@flat_short). Qed.
Print Assumptions C11_short.

Theorem C11_short_no_flag :
  forall (st ft tol : Q) (xs : list obs) (ts : list Z) (l : list flag),
         (Datatypes.length xs < 3)%nat ->
         flat_model st ft tol xs ts = Flags l -> ~ In SUSPECT l /\ ~ In FAIL l.
Proof. exact (@flat_short_no_flag). Qed.
Print Assumptions C11_short_no_flag.

(* the median sampling interval of a regular axis is its step *)
Theorem C11_median_regular :
  forall (d : Z) (ts : list Z),
         regular_ns d ts -> (2 <= Datatypes.length ts)%nat -> median_step ts = d.
Proof. exact (@median_step_regular). Qed.
Print Assumptions C11_median_regular.

(* on ANY axis (irregular too) the model is pointwise in the counts derived from the median step *)
Theorem C11_model_pointwise :
  forall (st ft tol : Q) (xs : list obs) (ts : list Z),
         (3 <= Datatypes.length xs)%nat ->
         median_step ts <> 0%Z ->
         (0 <= count_of st (median_step ts))%Z ->
         (0 <= count_of ft (median_step ts))%Z ->
         flat_model st ft tol xs ts =
         Flags
           (tab (Datatypes.length xs)
              (flat_ptk (Z.to_nat (count_of st (median_step ts)))
                 (Z.to_nat (count_of ft (median_step ts))) tol xs)).
Proof. exact (@flat_model_pointwise). Qed.
Print Assumptions C11_model_pointwise.

Theorem C11_model_missing :
  forall (st ft tol : Q) (xs : list obs) (ts : list Z) (l : list flag) (i : nat),
         flat_model st ft tol xs ts = Flags l ->
         (i < Datatypes.length xs)%nat -> nth i l GOOD = MISSING <-> getq xs i = None.
Proof. exact (@flat_model_missing). Qed.
Print Assumptions C11_model_missing.

(* a step of D whole seconds is D *)
Theorem C11_whole_second_step :
  forall D : Z, step_q (D * NS) == inject_Z D.
Proof. exact (@step_q_whole). Qed.
Print Assumptions C11_whole_second_step.

(* the witness of the former deviation F18 (1.5 s step, 3 s duration: k = 2) now follows the property *)
Theorem C11_fractional_step :
  flat_model 3 100 (1 # 2) [Some 1; Some 1; Some 1; Some 1]
           [0%Z; 1500000000%Z; 3000000000%Z; 4500000000%Z] = Flags [GOOD; GOOD; SUSPECT; SUSPECT].
Proof. exact (@flat_fractional_ok). Qed.
Print Assumptions C11_fractional_step.

(* a 0.25 s step (on which the code used to divide by zero) follows the property: k = 2 and 4 *)
Theorem C11_subsecond_step :
  flat_model (1 # 2) 1 (1 # 2) [Some 1; Some 1; Some 1; Some 1; Some 1]
           [0%Z; 250000000%Z; 500000000%Z; 750000000%Z; 1000000000%Z] =
         Flags [GOOD; GOOD; SUSPECT; SUSPECT; FAIL].
Proof. exact (@flat_subsecond_ok). Qed.
Print Assumptions C11_subsecond_step.

(* TRANSLATOR TIE: whenever the model returns flags they are the flag skeleton generated from the current source of flat_line_test (short series: MISSING only; otherwise the two inlined calls of the local run_test - SUSPECT from suspect_threshold, then FAIL from fail_threshold - then MISSING), run on the model's two test_results arrays *)
Theorem C11_source_skeleton :
  forall (st ft tol : Q) (xs : list obs) (ts : list Z) (fl : list flag),
         flat_model st ft tol xs ts = Flags fl ->
         fl =
         run_steps
           (env_flat xs (run_test tol xs (Z.to_nat (count_of st (median_step ts))))
              (run_test tol xs (Z.to_nat (count_of ft (median_step ts))))) skel_flat_line_test
           (all_flags (Datatypes.length xs) GOOD).
Proof. exact (@skel_flat_model). Qed.
Print Assumptions C11_source_skeleton.

(* the same for arbitrary window lengths *)
Theorem C11_source_skeleton_steps :
  forall (tol : Q) (xs : list obs) (cs cf : nat),
         run_steps (env_flat xs (run_test tol xs cs) (run_test tol xs cf)) skel_flat_line_test
           (all_flags (Datatypes.length xs) GOOD) = flat_flags tol xs cs cf.
Proof. exact (@skel_flat_line). Qed.
Print Assumptions C11_source_skeleton_steps.

Theorem C11_assign_order : assign_order_flat_line_test = [GOOD; MISSING; SUSPECT; FAIL; MISSING].
Proof. reflexivity. Qed.
Print Assumptions C11_assign_order.

Theorem C11_default_tolerance : flat_line_default_tolerance == 0.
Proof. reflexivity. Qed.
Print Assumptions C11_default_tolerance.
