"""Adapters and case generators for qartod.density_inversion_test and argo.pressure_increasing_test (C13).
Values are small integers or lie on the dyadic grid k/64, so the float64 arithmetic of the implementation
(differences, sign * difference, sum / count) is exact and equals the Q arithmetic of the model."""
import itertools
from fractions import Fraction as F

import core
from fns import big_shift_copies
from adapters import Adapter
from core import obs_list, q
from fns import G, frs, unfr


def _thr(v):
    return "None" if v in (None, "absent") else f"(Some {q(unfr(v))})"


# ------------------------------------------------------------------ density_inversion_test

class Density(Adapter):
    """case: {"rho": [...], "z": [...], "st": "p/q" | None | "absent", "ft": likewise}"""
    name = "density_inversion_test"
    imports = ["Base", "Density"]

    def impl(self, case):
        from ioos_qc import qartod

        kw = {"inp": core.to_float_array([unfr(x) for x in case["rho"]]),
              "zinp": core.to_float_array([unfr(x) for x in case["z"]])}
        if case["st"] != "absent":
            kw["suspect_threshold"] = None if case["st"] is None else float(unfr(case["st"]))
        if case["ft"] != "absent":
            kw["fail_threshold"] = None if case["ft"] is None else float(unfr(case["ft"]))
        return core.call_impl(qartod.density_inversion_test, kw)

    def model(self, case):
        return (f"(density_model {_thr(case['st'])} {_thr(case['ft'])} "
                f"{obs_list([unfr(x) for x in case['rho']])} {obs_list([unfr(x) for x in case['z']])})")

    def spec(self, case):
        return self.model(case).replace("density_model", "density_spec")

    def in_domain(self, case):
        return len(case["rho"]) == len(case["z"])


DEPTHS = [F(1), F(2), F(3), None]
RHOS = [F(0), F(1), F(2), None]
# differences of RHOS are -2..2: every threshold below is hit exactly by some pair
THR_PAIRS = [(None, None), (F(0), F(-1)), (F(-1), F(0)), (F(0), None), (None, F(-1)), (F(1), F(0)),
             (F(0), F(0)), (F(-1), F(-2)), (F(2), F(1)), (F(-1, 2), F(-3, 2)), (None, F(1)), (F(-2), None)]
THR_VALUES = [None, F(-1), F(0), F(1)]


def _dcase(rho, z, st, ft):
    return {"rho": frs(rho), "z": frs(z), "st": st if st == "absent" else core.fr(st),
            "ft": ft if ft == "absent" else core.fr(ft)}


def depth_patterns(n):
    """down, up, down-up, up-down, stationary, repeated depths, with a missing depth at each place"""
    base = {
        tuple(F(k + 1) for k in range(n)),                      # down
        tuple(F(n - k) for k in range(n)),                      # up
        tuple(F(1 + min(k, n - 1 - k)) for k in range(n)),      # down-up
        tuple(F(3 - min(k, n - 1 - k)) for k in range(n)),      # up-down
        tuple(F(2) for _ in range(n)),                          # stationary
        tuple(F(1 + k // 2) for k in range(n)),                 # repeated depths, going down
        tuple(F(3 - k // 2) for k in range(n)),                 # repeated depths, going up
    }
    out = set(base)
    for t in list(base)[:4]:
        for k in range(n):
            out.add(t[:k] + (None,) + t[k + 1:])
    return sorted(out, key=lambda t: [(-1 if v is None else v) for v in t])


def gen_density(tier, rng):
    cases = []
    k = 0
    L = 4 if tier == "quick" else 5
    # n <= 2: every depth tuple x every density tuple x every threshold pair over THR_VALUES
    for n in (0, 1, 2):
        for z in itertools.product(DEPTHS, repeat=n):
            for rho in itertools.product(RHOS, repeat=n):
                for st in THR_VALUES:
                    for ft in THR_VALUES:
                        cases.append(_dcase(rho, z, st, ft))
    # n = 3: every depth tuple x every density tuple, thresholds cycling (thorough: all pairs)
    for z in itertools.product(DEPTHS, repeat=3):
        for rho in itertools.product(RHOS, repeat=3):
            if tier == "quick":
                st, ft = THR_PAIRS[k % len(THR_PAIRS)]
                k += 1
                cases.append(_dcase(rho, z, st, ft))
            else:
                for st, ft in THR_PAIRS:
                    cases.append(_dcase(rho, z, st, ft))
    # n = 4 .. L: every depth tuple with sampled densities, and every density tuple on the named patterns
    for n in range(4, L + 1):
        all_rho = list(itertools.product(RHOS, repeat=n))
        per = (10 if n == 4 else 3) if tier == "quick" else (40 if n == 4 else 12)
        for z in itertools.product(DEPTHS, repeat=n):
            for rho in rng.sample(all_rho, per):
                st, ft = THR_PAIRS[k % len(THR_PAIRS)]
                k += 1
                cases.append(_dcase(rho, z, st, ft))
        pats = depth_patterns(n)
        if tier == "quick" and n == 4:
            pats = pats[::2] + pats[1:8:2]
        for z in pats:
            for rho in all_rho:
                st, ft = THR_PAIRS[k % len(THR_PAIRS)]
                k += 1
                cases.append(_dcase(rho, z, st, ft))
    # random longer profiles on the grid, thresholds also given as absent keyword
    thr_pool = [core.fr(t) for t in (None, F(0), F(-1), F(-1, 2), F(1, 64), F(-3, 64), F(1))] + ["absent"]
    for _ in range(1500 if tier == "quick" else 15000):
        n = rng.randint(5, 12)
        kind = rng.choice(["down", "up", "downup", "flat", "steps", "random"])
        if kind == "down":
            z = [F(i) * rng.choice([1, 2]) for i in range(n)]
        elif kind == "up":
            z = [F(n - i) for i in range(n)]
        elif kind == "downup":
            z = [F(min(i, n - 1 - i)) for i in range(n)]
        elif kind == "flat":
            z = [F(5)] * n
        elif kind == "steps":
            z = [F(i // 2) for i in range(n)]
        else:
            z = [F(rng.randint(0, 4)) for _ in range(n)]
        z = [None if rng.random() < 0.08 else v + rng.choice([0, 0, G]) for v in z]
        rho = [None if rng.random() < 0.08 else F(rng.randint(-96, 96), 64) for _ in range(n)]
        c = _dcase(rho, z, None, None)
        c["st"], c["ft"] = rng.choice(thr_pool), rng.choice(thr_pool)
        cases.append(c)
    # shape mismatch
    for rho, z in [([F(1)], []), ([], [F(1)]), ([F(1), F(2)], [F(1)]), ([F(1)], [F(1), F(2)]),
                   ([F(1), None, F(3)], [F(1), F(2)]), ([F(1), F(2)], [None, F(2), F(3)])]:
        cases.append(_dcase(rho, z, F(0), F(-1)))
        cases.append(_dcase(rho, z, None, None))
    # hairline inversions: the density change passes (or misses) a threshold by 2^-30 / 2^-20
    for _ in range(60 if tier == "quick" else 400):
        t = F(rng.choice([0, F(-1, 2), -1, F(-3, 64), 1]))
        e = F(1, 2 ** rng.choice([30, 30, 20])) * rng.choice([1, -1, -1, 0])
        up = rng.random() < 0.4
        z = [F(3), F(2), F(1)] if up else [F(1), F(2), F(3)]
        d = (t + e) * (-1 if up else 1)
        b = F(rng.choice([0, 5, 1000]))
        rho = [b, b + d, b + d]
        which = rng.choice(["st", "ft", "both"])
        cases.append(_dcase(rho, z, t if which != "ft" else None, t if which != "st" else None))
    cases += big_shift_copies(cases, "rho", rng, 150 if tier == "quick" else 1500, lambda c: True)
    # depths far from zero too (pressure in Pa, dbar below 2^24): steps of 1 / 64 beside 2^24 .. 2^33 need double precision
    cases += big_shift_copies(cases, "z", rng, 150 if tier == "quick" else 1500, lambda c: len(c.get("z", [])) >= 2)
    return cases


# ------------------------------------------------------------------ pressure_increasing_test

class Pressure(Adapter):
    """case: {"ps": [...]}; None = NaN"""
    name = "pressure_increasing_test"
    imports = ["Base", "Density"]

    def impl(self, case):
        from ioos_qc import argo

        return core.call_impl(argo.pressure_increasing_test,
                              {"inp": core.to_float_array([unfr(x) for x in case["ps"]])})

    def model(self, case):
        return f"(pressure_model {obs_list([unfr(x) for x in case['ps']])})"

    def spec(self, case):
        return self.model(case).replace("pressure_model", "pressure_spec")

    def in_domain(self, case):
        return all(x is not None for x in case["ps"])


def gen_pressure(tier, rng):
    cases = []
    alpha = [F(0), F(1), F(2), F(3)]
    for n in range(0, 6):
        for t in itertools.product(alpha, repeat=n):
            cases.append({"ps": frs(t)})
    # NaN placements (the model treats NaN as None: differences, mean and comparisons propagate it)
    alpha_nan = [F(0), F(1), F(2), None]
    for n in range(1, 5 if tier == "quick" else 6):
        for t in itertools.product(alpha_nan, repeat=n):
            if None in t:
                cases.append({"ps": frs(t)})
    for _ in range(1500 if tier == "quick" else 15000):
        n = rng.randint(6, 14)
        kind = rng.choice(["down", "up", "downup", "zero", "random"])
        if kind == "down":
            ps = [F(i) + rng.choice([0, 0, 0, -F(3, 2), G, -G]) for i in range(n)]
        elif kind == "up":
            ps = [F(n - i) + rng.choice([0, 0, 0, F(3, 2), G, -G]) for i in range(n)]
        elif kind == "downup":
            ps = [F(min(i, n - 1 - i)) + rng.choice([0, G]) for i in range(n)]
        elif kind == "zero":
            ps = [F(rng.randint(-3, 3)) for i in range(n - 1)]
            ps.append(ps[0])
        else:
            ps = [F(rng.randint(-128, 128), 64) for _ in range(n)]
        if rng.random() < 0.15:
            ps[rng.randrange(n)] = None
        cases.append({"ps": frs(ps)})
    return cases
