"""Adapters (implementation call + Coq model expression) and case generators for the QC
test functions.  Values live on the dyadic grid k/64 so that float64 arithmetic in the
implementation is exact and equals the Q arithmetic of the model (DESIGN §4)."""
import itertools
from fractions import Fraction as F

import core
from adapters import Adapter
from core import clist, coq_bool, obs_list, opt, q, z

G = F(1, 64)  # grid step


def frs(xs):
    return [core.fr(x) for x in xs]


def unfr(s):
    return None if s is None else F(s)


def series_cases(alphabet, max_len, rng, extra_random=0, rand_len=(5, 12)):
    """all series of length 0..max_len over alphabet, plus random longer ones"""
    out = []
    for n in range(max_len + 1):
        for t in itertools.product(alphabet, repeat=n):
            out.append(list(t))
    for _ in range(extra_random):
        n = rng.randint(*rand_len)
        out.append([rng.choice(alphabet) for _ in range(n)])
    return out


def np_epoch_ns(ts):
    import numpy as np

    return np.array(ts, dtype="int64").astype("datetime64[ns]")


# ------------------------------------------------------------------ gross_range_test

class GrossRange(Adapter):
    name = "gross_range_test"
    imports = ["Base", "Range"]

    def impl(self, case):
        from ioos_qc import qartod

        kw = {"inp": core.to_float_array([unfr(x) for x in case["xs"]]),
              "fail_span": tuple(float(unfr(x)) for x in case["fail"])}
        if case["suspect"] is not None:
            kw["suspect_span"] = [float(unfr(x)) for x in case["suspect"]]
        return core.call_impl(qartod.gross_range_test, kw)

    def model(self, case):
        fs = clist([q(unfr(x)) for x in case["fail"]])
        ss = opt(case["suspect"], lambda s: clist([q(unfr(x)) for x in s]))
        return f"(gross_model {fs} {ss} {obs_list([unfr(x) for x in case['xs']])})"

    def in_domain(self, case):
        # wrong arity is not part of C03's statement
        return len(case["fail"]) == 2 and (case["suspect"] is None or len(case["suspect"]) == 2)


def gen_gross(tier, rng):
    spans_fail = [(0, 10), (10, 0), (5, 5), (-3, 3)]
    spans_susp = [None, (2, 8), (8, 2), (0, 10), (0, 8), (2, 10), (5, 5), (-1, 8), (2, 11), (-3, 3), (-2, 2),
                  (3, -3)]
    cases = []
    for fsp in spans_fail:
        for ssp in spans_susp:
            bounds = set(fsp) | (set(ssp) if ssp else set())
            alpha = sorted({F(b) + d for b in bounds for d in (-G, 0, G)} | {F(-100), F(100)})
            alpha = alpha + [None]
            # every value alone, then short series over a sub-alphabet, then random long
            ser = [[v] for v in alpha] + [[]]
            small = [alpha[0], alpha[len(alpha) // 2], alpha[-2], None]
            ser += series_cases(small, 3 if tier == "quick" else 4, rng)[1:]
            for _ in range(6 if tier == "quick" else 40):
                ser.append([rng.choice(alpha) for _ in range(rng.randint(4, 30))])
            for xs in ser:
                cases.append({"xs": frs(xs), "fail": frs(fsp), "suspect": None if ssp is None else frs(ssp)})
    # malformed: wrong arity
    for fsp, ssp in [((1,), None), ((1, 2, 3), None), ((0, 10), (1,)), ((0, 10), (1, 2, 3)), ((), None)]:
        cases.append({"xs": frs([F(1), None]), "fail": frs(fsp), "suspect": None if ssp is None else frs(ssp)})
    return cases


# ------------------------------------------------------------------ valid_range_test

class ValidRange(Adapter):
    name = "valid_range_test"
    imports = ["Base", "Range"]

    def impl(self, case):
        import numpy as np
        from ioos_qc import axds

        xs = [unfr(x) for x in case["xs"]]
        lo, hi = unfr(case["lo"]), unfr(case["hi"])
        if case["kind"] == "float":
            inp = core.to_float_array(xs)
            span = (None if lo is None else float(lo), None if hi is None else float(hi))
            if case.get("infinite"):
                # "unbounded" written as an infinite bound instead of a missing one
                span = (float("-inf") if lo is None else span[0], float("inf") if hi is None else span[1])
        else:  # datetime64: values are whole seconds since the epoch
            unit = case.get("unit") or "ns"
            inp = np.array([np.datetime64("NaT") if x is None else np.datetime64(int(x), "s") for x in xs],
                           dtype=f"datetime64[{unit}]")
            span = (None if lo is None else np.datetime64(int(lo), "s"),
                    None if hi is None else np.datetime64(int(hi), "s"))
            if case.get("dunit"):
                # the caller asks for a FINER unit than the data carry, with bounds that need it (half seconds)
                span = tuple(None if b is None else np.datetime64(int(F(b) * 1000), "ms") for b in (lo, hi))
        kw = {"inp": inp, "valid_span": span}
        if case.get("typed"):
            kw["dtype"] = inp.dtype          # the caller states the type (times: in the data's own unit)
        if case.get("dunit"):
            kw["dtype"] = np.dtype(f"datetime64[{case['dunit']}]")
        if case["si"] is not None:
            kw["start_inclusive"] = case["si"]
        if case["ei"] is not None:
            kw["end_inclusive"] = case["ei"]
        return core.call_impl(axds.valid_range_test, kw)

    def model(self, case):
        si = "valid_range_default_start_inclusive" if case["si"] is None else coq_bool(case["si"])
        ei = "valid_range_default_end_inclusive" if case["ei"] is None else coq_bool(case["ei"])
        return (f"(valid_model {opt(unfr(case['lo']), q)} {opt(unfr(case['hi']), q)} {si} {ei} "
                f"{obs_list([unfr(x) for x in case['xs']])})")

    imports = ["Base", "Generated", "Range"]


def gen_valid(tier, rng):
    cases = []
    spans = [(2, 8), (None, 8), (2, None), (None, None), (5, 5), (8, 2), (-3, 0), (0, 5), (None, 0)]   # a bound may be 0 (falsy)
    incl = [(None, None), (True, True), (True, False), (False, True), (False, False)]
    for kind in ("float", "datetime"):
        step = G if kind == "float" else 1
        for lo, hi in spans:
            bounds = {b for b in (lo, hi) if b is not None} or {0}
            alpha = sorted({F(b) + d for b in bounds for d in (-step, 0, step)} | {F(-50), F(50)}) + [None]
            for si, ei in incl:
                ser = [[v] for v in alpha] + [[]]
                small = [alpha[0], alpha[len(alpha) // 2], None]
                ser += series_cases(small, 3, rng)[1:]
                for _ in range(4 if tier == "quick" else 30):
                    ser.append([rng.choice(alpha) for _ in range(rng.randint(4, 25))])
                for xs in ser:
                    cases.append({"kind": kind, "xs": frs(xs), "lo": core.fr(lo), "hi": core.fr(hi),
                                  "si": si, "ei": ei})
                    if kind == "float" and (lo is None or hi is None) and len(xs) in (1, 3):
                        cases.append(dict(cases[-1], infinite=True))
                    if kind == "datetime" and len(xs) in (1, 3, 4):
                        cases.append(dict(cases[-1], typed=True, unit=rng.choice(["ns", "s", "ms", "us"])))
    # an explicit dtype that differs from the data's own: whole-second data, bounds on half seconds, dtype in ms / us
    for lo, hi in [(F(5, 2), F(17, 2)), (F(3, 2), None), (None, F(15, 2)), (F(2), F(8))]:
        pts = [F(v) for v in range(0, 11)]
        for si, ei in incl:
            for xs in [pts + [None], [rng.choice(pts + [None]) for _ in range(6)]]:
                cases.append({"kind": "datetime", "xs": frs(xs), "lo": core.fr(lo), "hi": core.fr(hi), "si": si, "ei": ei,
                              "unit": "s", "dunit": rng.choice(["ms", "us"])})
    # times far from the epoch, in a coarse unit (nanoseconds only reach 1677 .. 2262): typed calls keep the unit
    Y1500, Y2000, Y2300, Y9999 = -14831769600, 946684800, 10413792000, 253402214400
    for lo, hi in [(Y2000, Y9999), (Y1500, Y2000), (Y2300, Y9999), (None, Y9999), (Y1500, None)]:
        pts = sorted({b + d for b in (lo, hi) if b is not None for d in (-1, 0, 1)} | {Y1500 + 5, Y2000 + 5, Y2300 + 5})
        for si, ei in incl:
            for xs in [[v] for v in pts] + [pts + [None]] + [[rng.choice(pts + [None]) for _ in range(6)]]:
                cases.append({"kind": "datetime", "xs": frs(xs), "lo": core.fr(lo), "hi": core.fr(hi), "si": si, "ei": ei,
                              "typed": True, "unit": rng.choice(["s", "s", "ms", "us"])})
    return cases


# ------------------------------------------------------------------ qartod_compare

def _vec(cells, dtype="uint8", fill=None):
    """cell: int | ["m", backing int] (masked) | ["f", "p/q"] (a fractional float: not a flag); fill: the masked
    array's fill_value (np.ma.masked_equal(flags, 4) leaves 4 there; an export fill chosen by the caller)"""
    import numpy as np

    def val(c):
        if isinstance(c, int):
            return c
        if c[0] == "n":
            return float("nan")           # an empty cell of a flag column read back from a table
        return float(F(c[1])) if c[0] == "f" else c[1]
    data = [val(c) for c in cells]
    mask = [isinstance(c, list) and c[0] == "m" for c in cells]
    if any(mask):
        if fill is not None:
            return np.ma.array(np.array(data, dtype=dtype), mask=mask, fill_value=fill)
        return np.ma.array(np.array(data, dtype=dtype), mask=mask)
    return np.array(data, dtype=dtype)


class Compare(Adapter):
    """case: {"vs": [[cell,...],...]}, cell = int | ["m", backing_int] (masked with backing data)"""
    name = "qartod_compare"
    imports = ["Base", "Generated", "Compare"]

    def impl(self, case):
        from ioos_qc import qartod

        dts = case.get("dtypes") or ["uint8"] * len(case["vs"])
        fills = case.get("fills") or [None] * len(case["vs"])
        return core.call_impl(qartod.qartod_compare,
                              {"vectors": [_vec(v, dt, fl) for v, dt, fl in zip(case["vs"], dts, fills)]})

    def model(self, case):
        def cell(c):
            if isinstance(c, int):
                return f"Some {z(c)}"
            return "None" if c[0] == "m" else "Some 1000003%Z"        # a fractional value: some code that is not a flag
        vs = clist([clist([cell(c) for c in v]) for v in case["vs"]])
        return f"(compare_model priorities {vs})"

    def spec(self, case):
        return self.model(case).replace("compare_model priorities", "compare_spec")

    def in_domain(self, case):
        return len(case["vs"]) >= 1 and len({len(v) for v in case["vs"]}) == 1


CELLS = [1, 2, 3, 4, 9, 0, 7, ["m", 4], ["m", 1]]


def gen_compare(tier, rng):
    cases = []
    # exhaustive: k<=3 vectors of length 1 (all columns), k<=2 of length 2 over a reduced alphabet
    for k in (1, 2, 3):
        for col in itertools.product(CELLS, repeat=k):
            cases.append({"vs": [[c] for c in col]})
    small = [1, 3, 4, 9, 7, ["m", 4]]
    for k in (1, 2):
        for vs in itertools.product(list(itertools.product(small, repeat=2)), repeat=k):
            cases.append({"vs": [list(v) for v in vs]})
    if tier == "thorough":
        for col in itertools.product(CELLS, repeat=4):
            cases.append({"vs": [[c] for c in col]})
    for _ in range(150 if tier == "quick" else 1500):
        k, n = rng.randint(1, 6), rng.randint(0, 12)
        cases.append({"vs": [[rng.choice(CELLS) for _ in range(n)] for _ in range(k)]})
    # flag vectors read back from a DataFrame or a file: wider integer / float dtypes, holding values that are NOT
    # flags (fill values -32767 / -2147483647, codes above 255, fractional numbers) and must be ignored as such
    wide = {"int16": [1, 2, 3, 4, 9, 0, -32767, 260, 265, -255, ["m", 4]],
            "int32": [1, 3, 4, 9, -2147483647, 65537, 260, 513, ["m", 1]],
            "int64": [1, 2, 4, 9, 260, 2 ** 32 + 4, -252, ["m", 3]],
            "float64": [1, 2, 3, 4, 9, ["f", "3/2"], ["f", "9/2"], ["f", "7/2"], 260, -247, ["m", 4], ["n", 0], ["n", 0]]}
    for _ in range(200 if tier == "quick" else 2000):
        k, n = rng.randint(1, 4), rng.randint(1, 8)
        dts = [rng.choice(["uint8", "int16", "int32", "int64", "float64"]) for _ in range(k)]
        vs = [[rng.choice(wide[dt]) if dt != "uint8" else rng.choice(CELLS) for _ in range(n)] for dt in dts]
        cases.append({"vs": vs, "dtypes": dts})
    # masked vectors whose fill_value is itself a flag: a masked entry is "not evaluated" whatever lies under or beside it
    for _ in range(150 if tier == "quick" else 1500):
        k, n = rng.randint(1, 4), rng.randint(1, 8)
        vs = [[rng.choice([1, 1, 2, 3, 9, ["m", 4], ["m", 1], ["m", 9]]) for _ in range(n)] for _ in range(k)]
        cases.append({"vs": vs, "fills": [rng.choice([None, 1, 2, 3, 4, 4, 9]) for _ in range(k)]})
    # outside the domain: unequal lengths
    cases.append({"vs": [[1, 2], [1]]})
    return cases


# ------------------------------------------------------------------ spike_test

class Spike(Adapter):
    name = "spike_test"
    imports = ["Base", "Spike"]

    def impl(self, case):
        from ioos_qc import qartod

        kw = {"inp": core.to_float_array([unfr(x) for x in case["xs"]])}
        if case["st"] != "absent":
            kw["suspect_threshold"] = None if case["st"] is None else float(unfr(case["st"]))
        if case["ft"] != "absent":
            kw["fail_threshold"] = None if case["ft"] is None else float(unfr(case["ft"]))
        if case["method"] is not None:
            kw["method"] = case["method"]
        return core.call_impl(qartod.spike_test, kw)

    @staticmethod
    def _thr(v):
        return "None" if v in (None, "absent") else f"(Some {q(unfr(v))})"

    def model(self, case):
        m = core.coq_string(case["method"] if case["method"] is not None else "average")
        return (f"(spike_model {m} {self._thr(case['st'])} {self._thr(case['ft'])} "
                f"{obs_list([unfr(x) for x in case['xs']])})")

    def in_domain(self, case):
        return len(case["xs"]) >= 1


def gen_spike(tier, rng):
    alpha = [None, F(0), F(1), F(2), F(5, 2), F(4)]
    thr = [None, F(0), F(1), F(2)]
    cases = []
    L = 3 if tier == "quick" else 4
    for xs in series_cases(alpha, L, rng):
        for method in ("average", "differential"):
            for st in thr:
                for ft in thr:
                    cases.append({"xs": frs(xs), "method": method, "st": core.fr(st), "ft": core.fr(ft)})
    for _ in range(1500 if tier == "quick" else 15000):
        n = rng.randint(4, 9)
        xs = [rng.choice(alpha + [F(-3), F(7, 2)]) for _ in range(n)]
        cases.append({"xs": frs(xs), "method": rng.choice(["average", "differential", None]),
                      "st": rng.choice([core.fr(t) for t in thr] + ["absent", core.fr(F(1, 2))]),
                      "ft": rng.choice([core.fr(t) for t in thr] + ["absent", core.fr(F(3))])})
    # the same kind of series far from zero (exact in float64): magnitudes must not matter, only differences
    for _ in range(150 if tier == "quick" else 1500):
        n = rng.randint(3, 8)
        off = F(rng.choice([2 ** 24, 2 ** 30 + 1, -(2 ** 33), 101325 * 1024]))
        xs = [None if (x := rng.choice(alpha + [F(-3), F(7, 2), F(1, 8)])) is None else x + off for _ in range(n)]
        cases.append({"xs": frs(xs), "method": rng.choice(["average", "differential"]),
                      "st": rng.choice([core.fr(t) for t in thr] + [core.fr(F(1, 2))]),
                      "ft": rng.choice([core.fr(t) for t in thr] + [core.fr(F(3))])})
    # raw counts: whole numbers up to 200 / 30000 without gaps (so that narrow signed and unsigned integer carriers hold
    # them) - sums and differences of neighbours exceed what the carrier's own type can hold
    for _ in range(120 if tier == "quick" else 1200):
        big = rng.choice([200, 100, 30000, 120])
        n = rng.randint(3, 8)
        xs = [F(rng.choice([10, big, 0, big - 10, 40, 100])) for _ in range(n)]
        cases.append({"xs": frs(xs), "method": rng.choice(["average", "differential"]),
                      "st": core.fr(F(rng.choice([25, 50, 1]))), "ft": core.fr(F(rng.choice([50, 100, 25000])))})
    # hairline spikes: the spike measure exceeds (or misses) a threshold by 2^-30 / 2^-20 - a comparison is exact,
    # with no tolerance band around the threshold (absolute or relative)
    for _ in range(200 if tier == "quick" else 2000):
        t = F(rng.choice([0, 1, 2, 25000, 3, F(1, 2)]))
        e = F(1, 2 ** rng.choice([30, 30, 20])) * rng.choice([1, 1, -1, 0])
        if t + e < 0:
            e = -e
        a = F(rng.choice([0, 5, -3, 10000]))
        sgn = rng.choice([1, -1])
        xs = [a, a + sgn * (t + e), a] + [a] * rng.randint(0, 2)
        which = rng.choice(["st", "ft", "both"])
        cases.append({"xs": frs(xs), "method": rng.choice(["average", "differential"]),
                      "st": core.fr(t if which != "ft" else None), "ft": core.fr(t if which != "st" else None)})
    for m in ("median", "", "Average"):
        cases.append({"xs": frs([F(1), F(5), F(1)]), "method": m, "st": "1", "ft": "2"})
        cases.append({"xs": [], "method": m, "st": "1", "ft": "2"})
    return cases


BIG_OFFSETS = [2 ** 24, 2 ** 30 + 1, -(2 ** 33), 101325 * 1024]


def big_shift_copies(cases, key, rng, count, keep=lambda c: True):
    """copies of `count` random cases with every value of c[key] moved by an offset far above the data's
    resolution (exact in float64: the values are small multiples of 1/64 or 1/2^20): magnitudes must not
    matter to the difference-based tests, so a narrowed intermediate or a relative tolerance shows here"""
    import copy
    pool = [c for c in cases if keep(c) and any(x is not None for x in c.get(key, []))]
    out = []
    for c in (rng.sample(pool, count) if len(pool) > count else pool):
        d = copy.deepcopy(c)
        off = F(rng.choice(BIG_OFFSETS))
        d[key] = [None if x is None else core.fr(F(x) + off) for x in c[key]]
        if any(x is not None and F(float(F(x))) != F(x) for x in d[key]):
            continue                      # the shifted value would be rounded (a hairline 2^-30 beside 2^33)
        out.append(d)
    return out
