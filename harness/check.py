#!/venv/bin/python
"""bin/check <PID> [--tier quick|thorough] [--replay FILE]

Decides one property:  obligations (translator, make, assumption audit, lint) + correspondence
of every anchored function with its Coq model on the property's domain + direct evaluation of
the property's relations on the implementation.  Exit 0 = held on everything explored; exit 1
with `VIOLATION property=<id> replay=<path>` otherwise.
"""
import argparse
import importlib
import json
import os
import sys
import time
import traceback

sys.path.insert(0, os.path.dirname(os.path.abspath(__file__)))
import core  # noqa: E402


def main():
    import logging
    logging.disable(logging.CRITICAL)   # the library logs warnings for skipped tests etc.
    ap = argparse.ArgumentParser()
    ap.add_argument("pid")
    ap.add_argument("--tier", default=os.environ.get("VERIF_TIER", "quick"))
    ap.add_argument("--replay")
    a = ap.parse_args()
    pid = a.pid.upper()
    tier = a.tier if a.tier in ("quick", "thorough") else "quick"
    seed = int(os.environ.get("VERIF_SEED", "20261001"))
    t0 = time.time()
    mod = importlib.import_module(f"props.{pid.lower()}")

    if a.replay:
        payload = json.loads(open(a.replay).read())
        out = mod.replay(payload) if hasattr(mod, "replay") else {"error": "no replay support"}
        print(json.dumps(out, indent=1, default=str))
        return 0

    broken = []  # obligations that no longer check
    # 1. translator
    tstatus, msg = core.regenerate()
    if tstatus == "fatal":
        broken.append({"obligation": "translator tools/gen_consts.py", "detail": msg})
    # 2. build (models first so that the correspondence can run even when a proof breaks)
    ok_models, log_models = core.coq_make(mod.MODEL_TARGETS)
    if not ok_models:
        broken.append({"obligation": "models build", "detail": log_models[-3000:]})
    ok_props, log_props = core.coq_make(mod.PROPS_TARGETS)
    if not ok_props:
        broken.append({"obligation": "theorems of " + ",".join(mod.PROPS_TARGETS) + " (make)",
                       "detail": log_props[-3000:]})
    if tstatus == "partial" and not (ok_models and ok_props):
        # definitions the translator could no longer read were left out of Generated.v: that is why the
        # build of this property stopped (a property whose files do not use them builds and is unaffected)
        broken.append({"obligation": "translator tools/gen_consts.py", "detail": msg})
    # 3. assumptions
    thms, assum, alog = [], {}, ""
    discharged = 0
    if ok_props:
        thms, assum, alog = core.audit_assumptions(pid)
        if assum is None:
            broken.append({"obligation": f"Print Assumptions audit of Props_{pid}", "detail": alog[-2000:]})
            assum = {}
        else:
            for t in thms:
                ax = [x for x in assum.get(t, ["<not printed>"]) if x not in core.ALLOWED_AXIOMS]
                if ax:
                    broken.append({"obligation": f"{t}: assumptions outside the allowed set", "detail": ax})
                else:
                    discharged += 1
    else:
        try:
            thms = core.theorems_of(f"Props_{pid}.v")
        except Exception:  # noqa: BLE001
            thms = []
    # 3a. support theorems (float64 exactness on the generators' grid): built, and only the standard library's
    #     real-number axioms may appear under them
    support = getattr(mod, "SUPPORT_TARGETS", [])
    support_info = {}
    for sm in support:
        ok_s, log_s = core.coq_make([sm])
        if not ok_s:
            broken.append({"obligation": f"support theorems {sm} (make)", "detail": log_s[-2000:]})
            continue
        sthms, sbad, slog = core.audit_support(sm, core.REALS_AXIOMS)
        if sbad is None:
            broken.append({"obligation": f"Print Assumptions audit of {sm}", "detail": slog[-2000:]})
        elif sbad:
            broken.append({"obligation": f"{sm}: assumptions outside the real-number axioms of the standard library",
                           "detail": sbad})
        else:
            support_info[sm] = len(sthms)
    # 3b. thorough tier: independent checker
    chk = None
    if tier == "thorough" and ok_props:
        ok_chk, chk, chk_log = core.coqchk(pid)
        if not ok_chk:
            broken.append({"obligation": f"coqchk on Props_{pid}", "detail": {"summary": chk, "log": chk_log}})
    # 4. lint
    bad = core.lint()
    if bad:
        broken.append({"obligation": "lint", "detail": bad})

    # 5. correspondence + predicates
    ctx = {"tier": tier, "seed": seed, "rng": core.Rng(seed), "models_ok": ok_models, "props_ok": ok_props}
    try:
        res = mod.run(ctx)
    except Exception:  # noqa: BLE001
        res = {"evaluations": 0, "distinct_nontrivial": 0, "samples": [], "failures": [], "rule": "",
               "errors": ["harness exception: " + traceback.format_exc()[-3000:]]}
    for e in res.get("errors", []):
        broken.append({"obligation": "correspondence evaluation", "detail": e})

    # 6. verdict
    known = [k for k in core.load_known_findings() if k.get("property") == pid and k.get("status") == "known"]
    printed_known = set()
    violations = []
    for f in res["failures"]:
        hit = None
        for k in known:
            sig = getattr(mod, "SIGNATURES", {}).get(k["signature"])
            if sig and sig(f):
                hit = k
                break
        if hit:
            if hit["id"] not in printed_known:
                printed_known.add(hit["id"])
                print(f"KNOWN-FINDING: property={pid} {hit['what_fails']}")
        else:
            violations.append(f)

    exit_code = 0
    lines = []
    if violations:
        # report the smallest few distinct failures
        # (a failing input inside the property's domain is the better witness than a smaller one outside it)
        violations.sort(key=lambda f: (not f.get("in_domain", True), len(json.dumps(f, default=str))))
        seen = set()
        for f in violations:
            key = (f.get("function"), f.get("kind"), f.get("clause"))
            if key in seen:
                continue
            seen.add(key)
            in_dom = f.get("in_domain", True)
            path = core.write_replay(pid, {"property": pid, "tier": tier, "seed": seed, **f,
                                           "broken_obligations": broken})
            if in_dom:
                lines.append(f"VIOLATION property={pid} replay={path}")
            else:
                lines.append(f"VIOLATION property={pid} replay={path} no-failing-input-found")
            if len(lines) >= 5:
                break
        exit_code = 1
    elif broken:
        path = core.write_replay(pid, {"property": pid, "tier": tier, "seed": seed, "kind": "obligation",
                                       "broken": broken,
                                       "note": "no input on which the property fails was found by the search; "
                                               "the named theorem / correspondence no longer checks"})
        lines.append(f"VIOLATION property={pid} replay={path} no-failing-input-found")
        exit_code = 1

    wall = time.time() - t0
    coverage = {
        "obligations": max(len(thms), 1),
        "discharged": discharged,
        "checker_cmd": f"coq_makefile -f _CoqProject -o Makefile && make theories/Props_{pid}.vo "
                       f"&& coqc build/Audit_{pid}.v (Print Assumptions for each theorem)",
        "trusted_base": getattr(mod, "TRUSTED_BASE", []) + [
            "Coq 8.16.1 kernel incl. vm_compute (no native_compute)",
            "axioms: none (every property theorem: Closed under the global context)",
            "tools/gen_consts.py (translator: tables, flag skeletons and array programs -> Generated.v)",
            "harness correspondence check (generators, canonicalisation) and the float64==Q argument on the dyadic grid",
        ] + ([f"support theorems {', '.join(f'{k}.v ({v} theorems)' for k, v in support_info.items())}: float64 arithmetic "
              "(round-to-nearest-even in FLT(-1074, 53), proved to be the value of Flocq's bit-level b64_plus / b64_minus) is "
              "EXACT on the generators' grid for the additive intermediates; these theorems (not the property theorems) depend "
              "on the standard library's real-number axioms: ClassicalDedekindReals.sig_not_dec, "
              "ClassicalDedekindReals.sig_forall_dec, FunctionalExtensionality.functional_extensionality_dep, "
              "Classical_Prop.classic"] if support_info else []),
        "theorems": thms,
        "evaluations": res.get("evaluations", 0),
        "distinct_nontrivial": res.get("distinct_nontrivial", 0),
        "rule": res.get("rule", ""),
        "samples": res.get("samples", [])[:8],
        "disagreements_checked": len(res["failures"]),
        "known_findings_printed": sorted(printed_known),
        "distribution": res.get("distribution", {}),
        "exhaustive": res.get("exhaustive", False),
        "broken_obligations": [b["obligation"] for b in broken],
        "coqchk": chk,
    }
    if discharged == 0:
        # nothing discharged on this run (broken build): the proof keys would be invalid, keep the generic counts
        coverage.pop("discharged")
        coverage["discharged_none"] = True
    core.write_evidence(pid, tier, seed, coverage, getattr(mod, "ASSUMPTIONS", []), wall, len(lines))
    for l in lines:
        print(l)
    if exit_code == 0:
        print(f"OK property={pid} tier={tier} theorems={discharged}/{len(thms)} "
              f"cases={res.get('evaluations', 0)} wall={wall:.1f}s")
    return exit_code


if __name__ == "__main__":
    sys.exit(main())
